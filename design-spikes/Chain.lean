/-! Level-B spike: links only. Heap = function from addresses to (prev,next). -/
structure Links where
  prev : Nat
  next : Nat

abbrev Heap := Nat → Links

def setPrev (h : Heap) (a v : Nat) : Heap := fun x => if x = a then { h x with prev := v } else h x
def setNext (h : Heap) (a v : Nat) : Heap := fun x => if x = a then { h x with next := v } else h x

@[simp] theorem setPrev_prev (h : Heap) (a v x) : (setPrev h a v x).prev = if x = a then v else (h x).prev := by
  unfold setPrev; split <;> simp
@[simp] theorem setPrev_next (h : Heap) (a v x) : (setPrev h a v x).next = (h x).next := by
  unfold setPrev; split <;> simp
@[simp] theorem setNext_next (h : Heap) (a v x) : (setNext h a v x).next = if x = a then v else (h x).next := by
  unfold setNext; split <;> simp
@[simp] theorem setNext_prev (h : Heap) (a v x) : (setNext h a v x).prev = (h x).prev := by
  unfold setNext; split <;> simp

/-- consecutive elements of the path are linked both ways (prev forward, next backward) -/
def Chain (h : Heap) : List Nat → Prop
  | a :: b :: rest => (h a).prev = b ∧ (h b).next = a ∧ Chain h (b :: rest)
  | _ => True

@[simp] theorem chain_nil (h) : Chain h [] := trivial
@[simp] theorem chain_single (h a) : Chain h [a] := trivial
@[simp] theorem chain_cons2 (h a b rest) :
    Chain h (a :: b :: rest) ↔ (h a).prev = b ∧ (h b).next = a ∧ Chain h (b :: rest) := Iff.rfl

theorem chain_append (h : Heap) (X : List Nat) (a : Nat) (Y : List Nat) :
    Chain h (X ++ a :: Y) ↔ Chain h (X ++ [a]) ∧ Chain h (a :: Y) := by
  induction X with
  | nil => simp
  | cons x xs ih =>
    cases xs with
    | nil => cases Y <;> simp [and_assoc]
    | cons x' xs' =>
      simp only [List.cons_append, chain_cons2] at ih ⊢
      rw [ih]; simp [and_assoc]

/-- frame: a heap that agrees on `prev` of all non-last and `next` of all non-first path nodes -/
theorem chain_congr (h h' : Heap) (P : List Nat)
    (hp : ∀ x ∈ P.dropLast, (h' x).prev = (h x).prev)
    (hn : ∀ x ∈ P.tail, (h' x).next = (h x).next) :
    Chain h P → Chain h' P := by
  induction P with
  | nil => simp
  | cons a t ih =>
    cases t with
    | nil => simp
    | cons b rest =>
      intro ⟨h1, h2, h3⟩
      refine ⟨?_, ?_, ?_⟩
      · rw [hp a (by simp [List.dropLast])]; exact h1
      · rw [hn b (by simp)]; exact h2
      · apply ih _ _ h3
        · intro x hx; apply hp; simp [List.dropLast] at hx ⊢; exact Or.inr hx
        · intro x hx; apply hn; simp at hx ⊢; exact Or.inr hx

/-- EntryPtr::unhinge as in entry.rs:222-228 -/
def unhinge (h : Heap) (x : Nat) : Heap :=
  let p := (h x).prev
  let n := (h x).next
  setPrev (setNext h p n) n p

/-- EntryPtr::insert(prev, next) as in entry.rs:230-239 -/
def insertBetween (h : Heap) (x p n : Nat) : Heap :=
  let h1 := setNext h p x
  let h2 := setPrev h1 n x
  let h3 := setNext h2 x n
  setPrev h3 x p

/-- invariant: path s :: l ++ [s] is chained, s :: l has no duplicates -/
def LInv (h : Heap) (s : Nat) (l : List Nat) : Prop :=
  Chain h (s :: l ++ [s]) ∧ (s :: l).Nodup

theorem last_split (s : Nat) (l1 : List Nat) : ∃ X a, s :: l1 = X ++ [a] := by
  refine ⟨(s :: l1).dropLast, (s :: l1).getLast (by simp), ?_⟩
  exact (List.dropLast_concat_getLast (by simp)).symm

theorem unhinge_inv (h : Heap) (s : Nat) (l1 l2 : List Nat) (x : Nat)
    (hinv : LInv h s (l1 ++ x :: l2)) : LInv (unhinge h x) s (l1 ++ l2) := by
  obtain ⟨hc, hnd⟩ := hinv
  obtain ⟨X, a, hXa⟩ := last_split s l1
  -- b :: Y = l2 ++ [s]
  obtain ⟨b, Y, hbY⟩ : ∃ b Y, l2 ++ [s] = b :: Y := by
    cases l2 with
    | nil => exact ⟨s, [], rfl⟩
    | cons c cs => exact ⟨c, cs ++ [s], rfl⟩
  have hpath : s :: (l1 ++ x :: l2) ++ [s] = X ++ a :: x :: b :: Y := by
    have : s :: (l1 ++ x :: l2) ++ [s] = (s :: l1) ++ x :: (l2 ++ [s]) := by simp
    rw [this, hXa, hbY]; simp
  have hpath' : s :: (l1 ++ l2) ++ [s] = X ++ a :: b :: Y := by
    have : s :: (l1 ++ l2) ++ [s] = (s :: l1) ++ (l2 ++ [s]) := by simp
    rw [this, hXa, hbY]; simp
  rw [hpath] at hc
  rw [chain_append] at hc
  obtain ⟨hA, hax, hxa, hxb, hbx, hB⟩ := hc
  -- nodup facts
  have hnd2 : (X ++ a :: x :: Y.dropLast ++ []).Nodup ∨ True := Or.inr trivial
  have hmem : ∀ y, y ∈ s :: (l1 ++ x :: l2) ↔ y ∈ X ∨ y = a ∨ y = x ∨ y ∈ l2 := by
    intro y
    have : s :: (l1 ++ x :: l2) = (s :: l1) ++ x :: l2 := by simp
    rw [this, hXa]; simp [or_assoc]
  have hnd' : (X ++ [a] ++ x :: l2).Nodup := by
    have : s :: (l1 ++ x :: l2) = (s :: l1) ++ x :: l2 := by simp
    rw [this, hXa] at hnd; exact hnd
  have htail : (X ++ [a]).tail = l1 := by rw [← hXa]; rfl
  have ha : a ∈ s :: l1 := by rw [hXa]; simp
  have hdl : (b :: Y).dropLast = l2 := by rw [← hbY]; simp
  have hnd0 : (s :: (l1 ++ x :: l2)).Nodup := hnd
  have hnd3 : (l2 ++ [s]).Nodup := by
    simp [List.nodup_append] at hnd0 ⊢; grind
  have hbY' : (b :: Y).Nodup := by rw [← hbY]; exact hnd3
  have hbmem : b ∈ l2 ++ [s] := by rw [hbY]; simp
  have hsep : ∀ y, y ∈ l1 → y ∉ l2 ++ [s] := by
    simp [List.nodup_append] at hnd0 ⊢; grind
  have hsep2 : ∀ y, y ∈ s :: l1 → y ∉ l2 := by
    simp [List.nodup_append] at hnd0 ⊢; grind
  have hu : unhinge h x = setPrev (setNext h b a) a b := by
    unfold unhinge; simp [hxa, hxb]
  refine ⟨?_, ?_⟩
  · rw [hpath', chain_append]
    refine ⟨?_, ?_⟩
    · apply chain_congr h _ _ _ _ hA
      · intro y hy
        rw [hu]; simp at hy ⊢
        intro hya; subst hya
        simp [List.nodup_append] at hnd'; grind
      · intro y hy
        rw [hu]; simp
        intro hyb; subst hyb
        rw [htail] at hy
        exact absurd hbmem (hsep _ hy)
    · refine ⟨by rw [hu]; simp, by rw [hu]; simp, ?_⟩
      apply chain_congr h _ _ _ _ hB
      · intro y hy
        rw [hu]; simp
        intro hya; subst hya
        rw [hdl] at hy
        exact absurd hy (hsep2 _ ha)
      · intro y hy
        rw [hu]; simp at hy ⊢
        intro hyb; subst hyb
        simp at hbY'; exact absurd hy hbY'.1
  · have : s :: (l1 ++ l2) = (s :: l1) ++ l2 := by simp
    rw [this, hXa]
    simp [List.nodup_append] at hnd' ⊢; grind

#print axioms unhinge_inv

/-- set_head: insert x (not in the list, not the seal) between seal and seal.next: becomes MRU = last -/
theorem setHead_inv (h : Heap) (s : Nat) (l : List Nat) (x : Nat)
    (hinv : LInv h s l) (hx : x ∉ s :: l) :
    LInv (insertBetween h x s (h s).next) s (l ++ [x]) := by
  obtain ⟨hc, hnd⟩ := hinv
  -- path s :: l ++ [s] = P ++ [m, s] where m = old MRU (or s when l = [])
  obtain ⟨P, m, hPm⟩ := last_split s l
  have hpath : s :: l ++ [s] = P ++ m :: [s] := by
    have : s :: l ++ [s] = (s :: l) ++ [s] := by simp
    rw [this, hPm]; simp
  have hpath' : s :: (l ++ [x]) ++ [s] = P ++ m :: x :: [s] := by
    have : s :: (l ++ [x]) ++ [s] = (s :: l) ++ [x, s] := by simp
    rw [this, hPm]; simp
  rw [hpath, chain_append] at hc
  obtain ⟨hA, hms, hsm, -⟩ := hc
  have hm : m ∈ s :: l := by rw [hPm]; simp
  have hxm : x ≠ m := fun e => hx (e ▸ hm)
  have hxs : x ≠ s := by simp at hx; exact hx.1
  have hu : insertBetween h x s (h s).next
      = setPrev (setNext (setPrev (setNext h s x) m x) x m) x s := by
    unfold insertBetween; simp [hsm]
  refine ⟨?_, ?_⟩
  · rw [hpath', chain_append]
    refine ⟨?_, ?_⟩
    · apply chain_congr h _ _ _ _ hA
      · intro y hy
        have hyne : y ≠ m := by
          intro e; subst e
          have : (P ++ [y]).Nodup := by rw [← hPm]; exact hnd
          simp [List.nodup_append] at this hy; grind
        have hyx : y ≠ x := by
          intro e; subst e; apply hx; rw [hPm]; simp at hy ⊢; exact Or.inl hy
        rw [hu]; simp [hyne, hyx]
      · intro y hy
        have hyl : y ∈ l := by
          have : (P ++ [m]).tail = l := by rw [← hPm]; rfl
          rw [this] at hy; exact hy
        have hys : y ≠ s := by
          intro e; subst e; simp at hnd; exact hnd.1 hyl
        have hyx : y ≠ x := by
          intro e; subst e; apply hx; simp [hyl]
        rw [hu]; simp [hys, hyx]
    · rw [hu]; simp [hxm, hxs, Ne.symm hxm, Ne.symm hxs]
  · have : s :: (l ++ [x]) = (s :: l) ++ [x] := by simp
    rw [this]; simp [List.nodup_append] at hnd hx ⊢; grind

#print axioms setHead_inv
