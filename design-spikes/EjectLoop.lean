structure Entry where
  id : Nat
  size : Nat
deriving Repr, DecidableEq

def sumSz (l : List Entry) : Nat := (l.map (·.size)).sum

/-- the Rust loop `while cur > target { remove_lru }` on the LRU-first list.
    returns (rest, cur', evicted, diverged) -/
def eject : List Entry → Nat → Nat → List Entry × Nat × List Entry × Bool
  | [], cur, target => ([], cur, [], decide (cur > target))
  | e :: es, cur, target =>
    if cur > target then
      let r := eject es (cur - e.size) target
      (r.1, r.2.1, e :: r.2.2.1, r.2.2.2)
    else (e :: es, cur, [], false)

@[simp] theorem sumSz_nil : sumSz [] = 0 := rfl
@[simp] theorem sumSz_cons (e : Entry) (l) : sumSz (e :: l) = e.size + sumSz l := by
  simp [sumSz]

theorem eject_spec (l : List Entry) (cur target : Nat) (h : cur = sumSz l) :
    let r := eject l cur target
    r.2.2.2 = false ∧ r.2.1 = sumSz r.1 ∧ r.2.1 ≤ target ∧ r.2.2.1 ++ r.1 = l := by
  induction l generalizing cur with
  | nil => simp [eject, h]
  | cons e es ih =>
    simp only [eject]
    split
    · have := ih (cur - e.size) (by simp [h])
      simp at this ⊢
      obtain ⟨a, b, c, d⟩ := this
      exact ⟨a, b, c, d⟩
    · simp [h] at *; omega

/-- least n with sumSz (l.drop n) ≤ t -/
def need : List Entry → Nat → Nat
  | [], _ => 0
  | e :: es, t => if sumSz (e :: es) ≤ t then 0 else need es t + 1

theorem eject_eq_drop (l : List Entry) (cur target : Nat) (h : cur = sumSz l) :
    (eject l cur target).1 = l.drop (need l target) ∧
    (eject l cur target).2.2.1 = l.take (need l target) := by
  induction l generalizing cur with
  | nil => simp [eject, need]
  | cons e es ih =>
    simp only [eject, need]
    by_cases hc : cur > target
    · have hn : ¬ e.size + sumSz es ≤ target := by simp at h; omega
      simp [hc, hn]
      exact ih (cur - e.size) (by simp [h])
    · have hn : e.size + sumSz es ≤ target := by simp at h; omega
      simp [hc, hn]

theorem need_min (l : List Entry) (t : Nat) :
    sumSz (l.drop (need l t)) ≤ t ∧ ∀ m, m < need l t → ¬ sumSz (l.drop m) ≤ t := by
  induction l with
  | nil => simp [need]
  | cons e es ih =>
    simp only [need]
    split
    · simp_all
    · rename_i hgt
      refine ⟨by simpa using ih.1, ?_⟩
      intro m hm
      cases m with
      | zero => simpa using hgt
      | succ k => simpa using ih.2 k (by omega)
