//! Counting global allocator with an injectable refusal (used for `try_reserve` and for C09).

use std::alloc::{GlobalAlloc, Layout, System};
use std::cell::Cell;
use std::sync::atomic::{AtomicUsize, Ordering};

pub struct CountingAlloc;

thread_local! {
    /// refuse the next allocation whose size is at least this many bytes
    static FAIL_AT_LEAST: Cell<usize> = const { Cell::new(usize::MAX) };
    static LIVE: Cell<isize> = const { Cell::new(0) };
    static COUNTING: Cell<bool> = const { Cell::new(false) };
}

pub static TOTAL_ALLOCS: AtomicUsize = AtomicUsize::new(0);

unsafe impl GlobalAlloc for CountingAlloc {
    unsafe fn alloc(&self, layout: Layout) -> *mut u8 {
        let refuse = FAIL_AT_LEAST.try_with(|f| {
            if layout.size() >= f.get() {
                f.set(usize::MAX);
                true
            } else {
                false
            }
        }).unwrap_or(false);
        if refuse {
            return std::ptr::null_mut();
        }
        let _ = LIVE.try_with(|l| l.set(l.get() + layout.size() as isize));
        TOTAL_ALLOCS.fetch_add(1, Ordering::Relaxed);
        System.alloc(layout)
    }

    unsafe fn dealloc(&self, ptr: *mut u8, layout: Layout) {
        let _ = LIVE.try_with(|l| l.set(l.get() - layout.size() as isize));
        System.dealloc(ptr, layout)
    }

    unsafe fn realloc(&self, ptr: *mut u8, layout: Layout, new_size: usize) -> *mut u8 {
        let _ = LIVE.try_with(|l| l.set(l.get() + new_size as isize - layout.size() as isize));
        System.realloc(ptr, layout, new_size)
    }
}

pub fn fail_next_alloc_at_least(bytes: usize) {
    FAIL_AT_LEAST.with(|f| f.set(bytes));
}

pub fn disarm() -> bool {
    FAIL_AT_LEAST.with(|f| {
        let armed = f.get() != usize::MAX;
        f.set(usize::MAX);
        armed
    })
}

/// Net bytes currently held from the allocator by this thread.
pub fn live_bytes() -> isize {
    LIVE.with(|l| l.get())
}
