//! Runs operation lines against the real `LruCache` and records everything observable.

use std::fmt::Write as _;
use std::panic::{catch_unwind, AssertUnwindSafe};

use lru_mem::{entry_size, InsertError, LruCache, MutateError, TryInsertError};

use crate::alloc;
use crate::ops::{IterKind, Line, Op, OpKind};
use crate::types::*;

pub type Cache = LruCache<MK, MV, HB>;

#[derive(Clone, Copy, Debug, PartialEq, Eq)]
pub struct KD {
    pub id: u32,
    pub heap: usize,
    pub tok: u64,
}

#[derive(Clone, Copy, Debug, PartialEq, Eq)]
pub struct VD {
    pub heap: usize,
    pub tok: u64,
}

pub fn kd(k: &MK) -> KD {
    KD { id: k.id.id(), heap: k.heap, tok: k.tok }
}

pub fn vd(v: &MV) -> VD {
    VD { heap: v.heap, tok: v.tok }
}

fn pair_str(k: &KD, v: &VD) -> String {
    format!("{}:{}:{}:{}:{}", k.id, k.heap, k.tok, v.heap, v.tok)
}

#[derive(Clone, Debug, PartialEq, Eq)]
pub enum Ret {
    Unit,
    Bool(bool),
    OwnVal(Option<VD>),
    OwnPair(Option<(KD, VD)>),
    RefVal(Option<VD>),
    RefPair(Option<(KD, VD)>),
    InsBig(KD, VD, usize, usize),
    TryBig(KD, VD, usize, usize),
    TryEvict(KD, VD, usize, usize),
    TryOcc(KD, VD),
    MutNone,
    MutOk(usize),
    MutBig(KD, VD, usize, usize, usize),
    ResOk,
    ResOverflow,
    ResAlloc,
    Items(IterKind, Vec<Option<(KD, VD)>>),
    Cloned,
    /// the operation panicked (implementation panic or injected)
    Panicked,
}

impl Ret {
    /// a rejected `insert` / `try_insert`
    pub fn is_rejection(&self) -> bool {
        matches!(self, Ret::InsBig(..) | Ret::TryBig(..) | Ret::TryEvict(..) | Ret::TryOcc(..))
    }

    pub fn text(&self) -> String {
        match self {
            Ret::Unit | Ret::Panicked => "unit".to_owned(),
            Ret::Bool(b) => format!("b:{}", *b as u8),
            Ret::OwnVal(None) | Ret::OwnPair(None) | Ret::RefVal(None) | Ret::RefPair(None) => "none".to_owned(),
            Ret::OwnVal(Some(v)) => format!("V:{}:{}", v.heap, v.tok),
            Ret::OwnPair(Some((k, v))) => format!("P:{}", pair_str(k, v)),
            Ret::RefVal(Some(v)) => format!("v:{}:{}", v.heap, v.tok),
            Ret::RefPair(Some((k, v))) => format!("p:{}", pair_str(k, v)),
            Ret::InsBig(k, v, s, m) => format!("E.big:{}:{}:{}", pair_str(k, v), s, m),
            Ret::TryBig(k, v, s, m) => format!("T.big:{}:{}:{}", pair_str(k, v), s, m),
            Ret::TryEvict(k, v, s, f) => format!("T.evict:{}:{}:{}", pair_str(k, v), s, f),
            Ret::TryOcc(k, v) => format!("T.occ:{}", pair_str(k, v)),
            Ret::MutNone => "M.none".to_owned(),
            Ret::MutOk(r) => format!("M.ok:{}", r),
            Ret::MutBig(k, v, o, n, m) => format!("M.big:{}:{}:{}:{}", pair_str(k, v), o, n, m),
            Ret::ResOk => "R.ok".to_owned(),
            Ret::ResOverflow => "R.overflow".to_owned(),
            Ret::ResAlloc => "R.alloc".to_owned(),
            Ret::Items(kind, l) => {
                let items: Vec<String> = l
                    .iter()
                    .map(|i| match i {
                        None => "-".to_owned(),
                        Some((k, v)) => match kind {
                            IterKind::Keys | IterKind::IntoK => format!("{}:{}:{}", k.id, k.heap, k.tok),
                            IterKind::Values | IterKind::IntoV => format!("{}:{}", v.heap, v.tok),
                            _ => pair_str(k, v),
                        },
                    })
                    .collect();
                format!("I[{}]", items.join(";"))
            }
            Ret::Cloned => "cloned".to_owned(),
        }
    }

    /// tokens handed to the caller as owned objects
    pub fn owned(&self) -> Vec<u64> {
        match self {
            Ret::OwnVal(Some(v)) => vec![v.tok],
            Ret::OwnPair(Some((k, v))) => vec![k.tok, v.tok],
            Ret::InsBig(k, v, ..) | Ret::TryBig(k, v, ..) | Ret::TryEvict(k, v, ..) | Ret::TryOcc(k, v)
            | Ret::MutBig(k, v, ..) => vec![k.tok, v.tok],
            Ret::Items(kind, l) => {
                let mut out = Vec::new();
                for (k, v) in l.iter().flatten() {
                    match kind {
                        IterKind::Drain | IterKind::Into => {
                            out.push(k.tok);
                            out.push(v.tok);
                        }
                        IterKind::IntoK => out.push(k.tok),
                        IterKind::IntoV => out.push(v.tok),
                        _ => {}
                    }
                }
                out
            }
            _ => vec![],
        }
    }
}

#[derive(Clone, Debug, PartialEq, Eq)]
pub struct SE {
    pub k: KD,
    pub v: VD,
    /// `entry_size(k, v)` recomputed through the public function
    pub esize: usize,
}

/// Everything observable about a live cache after an operation.
#[derive(Clone, Debug, PartialEq, Eq, Default)]
pub struct Snap {
    pub len: usize,
    pub cur: usize,
    pub max: usize,
    pub cap: usize,
    pub bk: usize,
    pub is_empty: bool,
    pub full: bool,
    /// LRU→MRU via `iter()`
    pub ord: Vec<SE>,
    /// recorded sizes LRU→MRU via the hook (None: no hook or walk failed)
    pub rs: Option<Vec<usize>>,
    /// ids via `iter().rev()`
    pub rord: Vec<u32>,
    pub lru: Option<(KD, VD)>,
    pub mru: Option<(KD, VD)>,
    /// structural error reported by the hook walk or the mirror checks
    pub walk_err: Option<String>,
    /// the hook met a pointer that is null or leaves the current table allocation: nothing may follow
    /// the list any more. (Other structural errors — a node in a vacated bucket of the *current*
    /// table, asymmetric links, a node its key's lookup does not find — leave the public traversals
    /// memory-safe for the instrumented types, so observation continues and the order / content
    /// monitors keep speaking.)
    pub walk_hard: bool,
    /// addresses etc. for the read-only fingerprint (C19)
    pub fingerprint: Vec<usize>,
    pub alloc_ptr: usize,
}

#[cfg(feature = "hooks")]
pub const HAVE_HOOKS: bool = true;
#[cfg(not(feature = "hooks"))]
pub const HAVE_HOOKS: bool = false;

#[cfg(feature = "hooks")]
fn hook_part(cache: &Cache, snap: &mut Snap) {
    let w = cache.verif_walk();
    snap.bk = if w.alloc_size == 0 { 0 } else { w.buckets };
    snap.alloc_ptr = w.alloc_ptr;
    if let Some(e) = &w.error {
        snap.walk_err = Some(e.clone());
        snap.walk_hard = !e.contains("to vacant bucket");
        return;
    }
    let len = cache.len();
    if w.by_prev.len() != len || w.by_next.len() != len {
        snap.walk_err = Some(format!(
            "walk lengths {} / {} differ from len() {}",
            w.by_prev.len(),
            w.by_next.len(),
            len
        ));
        return;
    }
    for (a, b) in w.by_prev.iter().zip(w.by_next.iter().rev()) {
        if a.addr != b.addr {
            snap.walk_err = Some("prev-walk and next-walk are not mirror images".to_owned());
            return;
        }
    }
    // link symmetry
    let n = w.by_prev.len();
    for i in 0..n {
        let node = &w.by_prev[i];
        let want_prev = if i + 1 < n { w.by_prev[i + 1].addr } else { w.seal };
        let want_next = if i > 0 { w.by_prev[i - 1].addr } else { w.seal };
        if node.prev != want_prev || node.next != want_next {
            snap.walk_err = Some(format!("node {} has asymmetric links", i));
            return;
        }
    }
    // each traversed node is the entry a lookup of its key finds
    for node in &w.by_prev {
        match cache.verif_node_entry(node.addr) {
            Some((k, _)) => {
                if cache.verif_find_addr(k.id) != Some(node.addr) {
                    snap.walk_err = Some(format!("lookup of key {} does not find its list node", k.id.id()));
                    return;
                }
            }
            None => {
                snap.walk_err = Some("node vanished".to_owned());
                return;
            }
        }
    }
    snap.rs = Some(w.by_prev.iter().map(|n| n.size).collect());
    let mut fp = vec![w.seal, w.seal_prev, w.seal_next, w.alloc_ptr, w.alloc_size, w.buckets];
    for node in &w.by_prev {
        fp.extend_from_slice(&[node.addr, node.bucket, node.prev, node.next, node.size]);
    }
    snap.fingerprint = fp;
}

#[cfg(not(feature = "hooks"))]
fn hook_part(cache: &Cache, snap: &mut Snap) {
    // without hooks: buckets are not observable; derive what the model calls buckets from the
    // capacity when there are no tombstones is impossible, so report a sentinel the comparison skips
    let _ = cache;
    snap.bk = usize::MAX;
}

/// Observes a cache through its public API (plus the hook). Must be called in quiet mode.
pub fn observe(cache: &Cache, full: bool) -> Snap {
    let mut snap = Snap {
        len: cache.len(),
        cur: cache.current_size(),
        max: cache.max_size(),
        cap: cache.capacity(),
        is_empty: cache.is_empty(),
        full,
        ..Snap::default()
    };
    hook_part(cache, &mut snap);
    if snap.walk_err.is_some() && snap.walk_hard {
        return snap;
    }
    if full {
        // (after a structural error only as far as the hook has validated the pointers)
        let limit = if snap.walk_err.is_some() { snap.len + 1 } else { snap.len + 2 };
        for (k, v) in cache.iter().take(limit) {
            snap.ord.push(SE { k: kd(k), v: vd(v), esize: entry_size(k, v) });
        }
        for (k, _) in cache.iter().rev().take(limit) {
            snap.rord.push(k.id.id());
        }
        snap.lru = cache.peek_lru().map(|(k, v)| (kd(k), vd(v)));
        snap.mru = cache.peek_mru().map(|(k, v)| (kd(k), vd(v)));
        if !HAVE_HOOKS {
            // public-API version of the coherence check
            if snap.ord.len() != snap.len || snap.rord.len() != snap.len {
                snap.walk_err = Some("iteration length differs from len()".to_owned());
            } else if snap.ord.iter().map(|e| e.k.id).ne(snap.rord.iter().rev().copied()) {
                snap.walk_err = Some("forward and reverse iteration are not mirror images".to_owned());
            } else {
                for e in &snap.ord {
                    match cache.peek_entry(kq(e.k.id)) {
                        Some((k, v)) if kd(k) == e.k && vd(v) == e.v => {}
                        _ => {
                            snap.walk_err = Some(format!("lookup of iterated key {} disagrees", e.k.id));
                            break;
                        }
                    }
                }
            }
        }
    }
    snap
}

fn list<T: std::fmt::Display>(v: impl Iterator<Item = T>) -> String {
    let items: Vec<String> = v.map(|x| x.to_string()).collect();
    format!("[{}]", items.join(","))
}

impl Snap {
    pub fn text(&self) -> String {
        let mut s = format!(" len={} cur={} max={} cap={} bk={}", self.len, self.cur, self.max, self.cap, self.bk);
        if self.walk_err.is_some() {
            s.push_str(" WALKERR");
            if self.walk_hard {
                return s;
            }
        }
        if self.full {
            let ord: Vec<String> =
                self.ord.iter().map(|e| format!("{}:{}", pair_str(&e.k, &e.v), e.esize)).collect();
            write!(s, " ord=[{}]", ord.join(",")).unwrap();
            match &self.rs {
                Some(rs) => write!(s, " rs={}", list(rs.iter())).unwrap(),
                // without the hook the recorded sizes are not observable: print the public ones
                None => write!(s, " rs={}", list(self.ord.iter().map(|e| e.esize))).unwrap(),
            }
            write!(s, " rord={}", list(self.rord.iter())).unwrap();
            let opt = |o: &Option<(KD, VD)>| match o {
                Some((k, v)) => pair_str(k, v),
                None => "-".to_owned(),
            };
            write!(s, " lru={} mru={} lb=ok", opt(&self.lru), opt(&self.mru)).unwrap();
        }
        s
    }
}

/// Result of executing one line.
pub struct Outcome {
    pub line: Line,
    pub ret: Ret,
    pub panicked: bool,
    /// the crate's own code panicked (not user code, not the allocator)
    pub internal: bool,
    pub injected: Option<(Kind, u64)>,
    pub log: OpLog,
    /// cache the observation is about (None: the op consumed or dropped it)
    pub post: Option<Snap>,
    pub pre: Option<Snap>,
    /// `clone`: the *source* observed again after the call (completed or aborted by a panic)
    pub src_post: Option<Snap>,
    pub alloc_refused: bool,
    /// ownership violations noticed during this op
    pub violations: Vec<String>,
    pub obs_text: String,
    pub ops_text: String,
}

pub struct World {
    pub hkind: HKind,
    pub caches: Vec<Option<Cache>>,
    pub snaps: Vec<Option<Snap>>,
    /// tokens that were moved into some cache and not yet accounted for
    pub moved_in: Vec<u64>,
    pub returned: Vec<u64>,
    pub line_no: usize,
}

pub fn params_line() -> String {
    let k = MK { id: KId::of(0, false), heap: 0, tok: 0 };
    let v = MV { heap: 0, tok: 0 };
    with_ctx(|c| c.quiet = true);
    let ovh = entry_size(&k, &v);
    std::mem::forget(k);
    std::mem::forget(v);
    format!("P {} {} {}", ovh, std::mem::size_of::<MV>(), usize::MAX)
}

pub fn ovh() -> usize {
    let k = MK { id: KId::of(0, false), heap: 0, tok: 0 };
    let v = MV { heap: 0, tok: 0 };
    with_ctx(|c| c.quiet = true);
    let ovh = entry_size(&k, &v);
    std::mem::forget(k);
    std::mem::forget(v);
    ovh
}

fn set_slot<T>(v: &mut Vec<Option<T>>, i: usize, x: Option<T>) {
    while v.len() <= i {
        v.push(None);
    }
    v[i] = x;
}

fn ev_text(evs: &[Ev], sorted: bool) -> String {
    let mut v: Vec<&Ev> = evs.iter().collect();
    if sorted {
        v.sort_by_key(|e| {
            let rank = match e {
                Ev::SzK(_) | Ev::SzV(_) => 0,
                Ev::CloneK(..) | Ev::CloneV(..) => 1,
                Ev::Pred(..) => 2,
                Ev::Closure(_) => 3,
                Ev::DropK(_) | Ev::DropV(_) => 4,
            };
            16 * e.tok() + rank
        });
    }
    let items: Vec<String> = v.iter().map(|e| e.to_string()).collect();
    format!("[{}]", items.join(" "))
}

impl World {
    pub fn new(hkind: HKind) -> World {
        with_ctx(|c| {
            c.toks.clear();
            c.violations.clear();
            c.next_tok = 1;
            c.quiet = true;
        });
        World { hkind, caches: Vec::new(), snaps: Vec::new(), moved_in: Vec::new(), returned: Vec::new(), line_no: 0 }
    }

    pub fn cache(&self, c: usize) -> Option<&Cache> {
        self.caches.get(c).and_then(|x| x.as_ref())
    }

    pub fn snap(&self, c: usize) -> Option<&Snap> {
        self.snaps.get(c).and_then(|x| x.as_ref())
    }

    fn finish(&mut self, line: &Line, ret: Ret, panicked: bool, log: OpLog, cidx: Option<usize>, pre: Option<Snap>,
              alloc_refused: bool, sorted: bool) -> Outcome {
        let violations = with_ctx(|c| std::mem::take(&mut c.violations));
        let post = cidx.and_then(|i| self.cache(i)).map(|c| observe(c, line.full));
        let mut obs = format!(
            "ret={} st={} h={} ev={}",
            ret.text(),
            if panicked { "panic" } else { "ok" },
            log.hashes.len(),
            ev_text(&log.events, sorted || panicked)
        );
        if line.full {
            if panicked {
                // which keys a rebuild had re-hashed when the panic struck depends on the table order
                obs.push_str(" hs=-");
            } else {
                let mut hs = log.hashes.clone();
                hs.sort();
                obs.push_str(&format!(" hs={}", list(hs.iter())));
            }
        }
        let mut hints = String::new();
        if let Some(p) = &post {
            obs.push_str(&p.text());
            hints = format!(" | {} {}", p.cap, p.bk);
            if alloc_refused {
                hints.push_str(" af");
            }
        }
        // a panicking `Eq` falls inside the lookup opened by the preceding `Hash` call
        if let Some((Kind::Eq, _)) = log.panicked {
            if hints.is_empty() {
                hints.push_str(" | 0 0");
            }
            hints.push_str(&format!(" pk=hash:{}", count_of(&log, Kind::Hash)));
        }
        if let (Some(i), Some(p)) = (cidx, &post) {
            if p.walk_err.is_some() && p.walk_hard {
                // quarantine: never touch this cache again, not even to drop it
                if let Some(c) = self.caches[i].take() {
                    std::mem::forget(c);
                }
                set_slot(&mut self.snaps, i, None);
            } else {
                set_slot(&mut self.snaps, i, Some(p.clone()));
            }
        }
        self.returned.extend(ret.owned());
        self.line_no += 1;
        Outcome {
            line: line.clone(),
            ret,
            panicked,
            internal: false,
            injected: log.panicked,
            ops_text: format!("{}{}", line.text(), hints),
            obs_text: obs,
            log,
            post,
            pre,
            src_post: None,
            alloc_refused,
            violations,
        }
    }

    /// Executes one line. Returns None if the line refers to a cache that does not exist.
    pub fn exec(&mut self, line: &Line) -> Option<Outcome> {
        match &line.op {
            Op::New { c, max, cap } => {
                begin_op(None);
                let cache = match cap {
                    None => Cache::with_hasher(*max, HB::new(self.hkind)),
                    Some(n) => Cache::with_capacity_and_hasher(*max, *n, HB::new(self.hkind)),
                };
                let log = end_op();
                set_slot(&mut self.caches, *c, Some(cache));
                Some(self.finish(line, Ret::Unit, false, log, Some(*c), None, false, false))
            }
            Op::Clone { c, d, base, from: true } => {
                // `Clone::clone_from` on an existing cache (the default is `*self = source.clone()`)
                if c == d {
                    return None;
                }
                let pre = self.snap(*c).cloned();
                self.cache(*c)?;
                let mut dst = self.caches.get_mut(*d)?.take()?;
                with_ctx(|x| x.next_tok = *base);
                begin_op(line.panic_at);
                let src = self.caches[*c].as_ref().unwrap();
                let r = catch_unwind(AssertUnwindSafe(|| dst.clone_from(src)));
                let log = end_op();
                if r.is_err() {
                    clone_abort_leaks(&log);
                }
                for e in &log.events {
                    match e {
                        Ev::CloneK(_, n) | Ev::CloneV(_, n) => self.moved_in.push(*n),
                        _ => {}
                    }
                }
                set_slot(&mut self.caches, *d, Some(dst));
                let mut o = self.finish(line, if r.is_ok() { Ret::Cloned } else { Ret::Panicked }, r.is_err(), log, Some(*d), pre, false, true);
                o.src_post = self.cache(*c).map(|x| observe(x, true));
                Some(o)
            }
            Op::Clone { c, d, base, from: false } => {
                let pre = self.snap(*c).cloned();
                let src = self.cache(*c)?;
                with_ctx(|x| x.next_tok = *base);
                begin_op(line.panic_at);
                let r = catch_unwind(AssertUnwindSafe(|| src.clone()));
                let log = end_op();
                match r {
                    Ok(clone) => {
                        for e in &log.events {
                            match e {
                                Ev::CloneK(_, n) | Ev::CloneV(_, n) => self.moved_in.push(*n),
                                _ => {}
                            }
                        }
                        set_slot(&mut self.caches, *d, Some(clone));
                        let mut o = self.finish(line, Ret::Cloned, false, log, Some(*d), pre, false, false);
                        o.src_post = self.cache(*c).map(|x| observe(x, true));
                        Some(o)
                    }
                    Err(_) => {
                        clone_abort_leaks(&log);
                        let mut o = self.finish(line, Ret::Panicked, true, log, None, pre, false, false);
                        o.src_post = self.cache(*c).map(|x| observe(x, true));
                        Some(o)
                    }
                }
            }
            Op::Drop { c } => {
                let pre = self.snap(*c).cloned();
                let cache = self.caches.get_mut(*c)?.take()?;
                set_slot(&mut self.snaps, *c, None);
                begin_op(None);
                drop(cache);
                let log = end_op();
                Some(self.finish(line, Ret::Unit, false, log, None, pre, false, true))
            }
            Op::On { c, op } => {
                let pre = self.snap(*c).cloned();
                self.cache(*c)?;
                if op.consumes() {
                    let cache = self.caches[*c].take().unwrap();
                    set_slot(&mut self.snaps, *c, None);
                    let (ret, log, panicked) = run_consuming(cache, op, line.panic_at);
                    return Some(self.finish(line, ret, panicked, log, None, pre, false, false));
                }
                if let OpKind::Ins { kt, vt, .. } | OpKind::TIns { kt, vt, .. } = op {
                    self.moved_in.push(*kt);
                    self.moved_in.push(*vt);
                }
                if let OpKind::MutRep { tok, .. } = op {
                    self.moved_in.push(*tok);
                }
                let cache = self.caches[*c].as_mut().unwrap();
                if line.fail_alloc {
                    alloc::fail_next_alloc_at_least(256);
                }
                begin_op(line.panic_at);
                let r = catch_unwind(AssertUnwindSafe(|| run_op(cache, op)));
                let log = end_op();
                let refused = line.fail_alloc && !alloc::disarm();
                let (ret, panicked) = match r {
                    Ok(ret) => (ret, false),
                    Err(_) => (Ret::Panicked, true),
                };
                if !panicked && matches!(op, OpKind::RetainIdx(_) | OpKind::RetainIds(_) | OpKind::MutSet { .. }) {
                    // C15 / C11: the predicate / the closure must have been shown the entry that lives in the
                    // cache (its "actual key and value"), not a copy: every object that is still in the
                    // cache is at the address it was shown at (neither operation moves entries)
                    let shown = with_ctx(|c| std::mem::take(&mut c.shown));
                    let cache = self.caches[*c].as_ref().unwrap();
                    let limit = cache.len() + 1;
                    for (k, v) in cache.iter().take(limit) {
                        for (kt, ka, vt, va) in &shown {
                            let bad_k = *kt != 0 && *kt == k.tok && *ka != k as *const MK as usize;
                            let bad_v = *vt == v.tok && *va != v as *const MV as usize;
                            if bad_k || bad_v {
                                let what = if matches!(op, OpKind::MutSet { .. }) { "C11 the mutate closure" } else { "C15 the retain predicate" };
                                with_ctx(|c| c.violations.push(format!("{} was handed a copy of entry {} instead of the entry stored in the cache (address differs)", what, k.id)));
                            }
                        }
                    }
                }
                let sorted = matches!(op, OpKind::Clear);
                // The crate's own code panicked — no user callback did, the allocator did not refuse, and the
                // operation is not one that panics by contract: an arithmetic overflow / underflow (the
                // harness is built with overflow checks on), an `unwrap`, an assertion. The state the cache
                // is left in is unspecified; it is emptied (quietly) so that the sequence can go on, and
                // the observation of this line is just the fact (`ar=ovf`), which the model must predict
                // from its list of arithmetic steps (`arithOf`, Proofs/Arith.lean).
                let internal = panicked && log.panicked.is_none() && line.panic_at.is_none() && !line.fail_alloc
                    && !matches!(op, OpKind::Reserve(_) | OpKind::Shrink(_) | OpKind::ShrinkFit);
                if internal {
                    let cache = self.caches[*c].as_mut().unwrap();
                    let _ = catch_unwind(AssertUnwindSafe(|| cache.clear()));
                }
                let mut o = self.finish(line, ret, panicked, log, Some(*c), pre, refused, sorted);
                if internal {
                    o.obs_text = "ar=ovf".to_owned();
                    o.internal = true;
                }
                Some(o)
            }
        }
    }

    /// Drops every remaining cache (sorted drop logs), returning the outcomes.
    pub fn drop_all(&mut self, full: bool) -> Vec<Outcome> {
        let mut out = Vec::new();
        for i in 0..self.caches.len() {
            if self.caches[i].is_some() {
                let line = Line { full, op: Op::Drop { c: i }, fail_alloc: false, panic_at: None };
                if let Some(o) = self.exec(&line) {
                    out.push(o);
                }
            }
        }
        out
    }
}

fn own_pair(p: Option<(MK, MV)>) -> Ret {
    // the descriptors are copied; the objects themselves are dropped by the harness in quiet mode
    let d = p.as_ref().map(|(k, v)| (kd(k), vd(v)));
    hold(p);
    Ret::OwnPair(d)
}

thread_local! {
    /// owned objects handed back by the cache, kept until the operation is over so that their
    /// drops are not attributed to the cache
    static HELD: std::cell::RefCell<Vec<Box<dyn std::any::Any>>> = std::cell::RefCell::new(Vec::new());
}

fn hold<T: 'static>(x: T) {
    HELD.with(|h| h.borrow_mut().push(Box::new(x)));
}

pub fn release_held() {
    let v = HELD.with(|h| std::mem::take(&mut *h.borrow_mut()));
    drop(v);
}

fn run_op(cache: &mut Cache, op: &OpKind) -> Ret {
    match op {
        OpKind::Ins { id, kh, kt, vh, vt } => {
            match cache.insert(MK::with_tok(*id, *kh, *kt), MV::with_tok(*vh, *vt)) {
                Ok(old) => {
                    let d = old.as_ref().map(vd);
                    hold(old);
                    Ret::OwnVal(d)
                }
                Err(InsertError::EntryTooLarge { key, value, entry_size, max_size }) => {
                    let r = Ret::InsBig(kd(&key), vd(&value), entry_size, max_size);
                    hold((key, value));
                    r
                }
            }
        }
        OpKind::TIns { id, kh, kt, vh, vt } => {
            match cache.try_insert(MK::with_tok(*id, *kh, *kt), MV::with_tok(*vh, *vt)) {
                Ok(()) => Ret::Unit,
                Err(e) => {
                    // exercise the accessor glue of error.rs; all views must agree
                    let (k1, v1) = e.entry();
                    let views_agree = kd(k1) == kd(e.key()) && vd(v1) == vd(e.value());
                    let r = match &e {
                        TryInsertError::EntryTooLarge { key, value, entry_size, max_size } => {
                            Ret::TryBig(kd(key), vd(value), *entry_size, *max_size)
                        }
                        TryInsertError::WouldEjectLru { key, value, entry_size, free_memory } => {
                            Ret::TryEvict(kd(key), vd(value), *entry_size, *free_memory)
                        }
                        TryInsertError::OccupiedEntry { key, value } => Ret::TryOcc(kd(key), vd(value)),
                    };
                    let same = match &r {
                        Ret::TryBig(k, v, ..) | Ret::TryEvict(k, v, ..) | Ret::TryOcc(k, v) => {
                            *k == kd(k1) && *v == vd(v1)
                        }
                        _ => false,
                    };
                    if !views_agree || !same {
                        with_ctx(|c| c.violations.push("TryInsertError accessors disagree".to_owned()));
                    }
                    // alternate between the three owning accessors
                    match kt % 3 {
                        0 => hold(e.into_entry()),
                        1 => {
                            // into_key drops the value: keep quiet so the drop is not attributed
                            // to the cache, then restore
                            let was = with_ctx(|c| std::mem::replace(&mut c.quiet, true));
                            let k = e.into_key();
                            with_ctx(|c| c.quiet = was);
                            if kd(&k).tok != *kt {
                                with_ctx(|c| c.violations.push("into_key returned a different key".to_owned()));
                            }
                            hold(k)
                        }
                        _ => {
                            let was = with_ctx(|c| std::mem::replace(&mut c.quiet, true));
                            let v = e.into_value();
                            with_ctx(|c| c.quiet = was);
                            if vd(&v).tok != *vt {
                                with_ctx(|c| c.violations.push("into_value returned a different value".to_owned()));
                            }
                            hold(v)
                        }
                    }
                    r
                }
            }
        }
        OpKind::Get(id) => Ret::RefVal(cache.get(kq(*id)).map(vd)),
        OpKind::GetE(id) => Ret::RefPair(cache.get_entry(kq(*id)).map(|(k, v)| (kd(k), vd(v)))),
        OpKind::Touch(id) => {
            cache.touch(kq(*id));
            Ret::Unit
        }
        OpKind::Peek(id) => Ret::RefVal(cache.peek(kq(*id)).map(vd)),
        OpKind::PeekE(id) => Ret::RefPair(cache.peek_entry(kq(*id)).map(|(k, v)| (kd(k), vd(v)))),
        OpKind::Has(id) => Ret::Bool(cache.contains(kq(*id))),
        OpKind::Rm(id) => {
            let v = cache.remove(kq(*id));
            let d = v.as_ref().map(vd);
            hold(v);
            Ret::OwnVal(d)
        }
        OpKind::RmE(id) => own_pair(cache.remove_entry(kq(*id))),
        OpKind::RmLru => own_pair(cache.remove_lru()),
        OpKind::RmMru => own_pair(cache.remove_mru()),
        OpKind::GetLru => Ret::RefPair(cache.get_lru().map(|(k, v)| (kd(k), vd(v)))),
        OpKind::PeekLru => Ret::RefPair(cache.peek_lru().map(|(k, v)| (kd(k), vd(v)))),
        OpKind::PeekMru => Ret::RefPair(cache.peek_mru().map(|(k, v)| (kd(k), vd(v)))),
        OpKind::SetMax(m) => {
            cache.set_max_size(*m);
            Ret::Unit
        }
        OpKind::Reserve(a) => {
            cache.reserve(*a);
            Ret::Unit
        }
        OpKind::TryReserve(a) => match cache.try_reserve(*a) {
            Ok(()) => Ret::ResOk,
            Err(hashbrown::TryReserveError::CapacityOverflow) => Ret::ResOverflow,
            Err(hashbrown::TryReserveError::AllocError { .. }) => Ret::ResAlloc,
        },
        OpKind::Shrink(m) => {
            cache.shrink_to(*m);
            Ret::Unit
        }
        OpKind::ShrinkFit => {
            cache.shrink_to_fit();
            Ret::Unit
        }
        OpKind::MutSet { id, h } => {
            let r = cache.mutate(kq(*id), |v| {
                note_closure(v);
                let old = v.heap;
                v.heap = *h;
                old
            });
            mutate_ret(r)
        }
        OpKind::MutRep { id, h, tok } => {
            let r = cache.mutate(kq(*id), |v| {
                note_closure(v);
                let old = v.heap;
                *v = MV::with_tok(*h, *tok);
                old
            });
            mutate_ret(r)
        }
        OpKind::RetainIdx(bits) => {
            let mut i = 0;
            cache.retain(|k, v| {
                note_pred(k, v);
                let keep = bits.get(i).copied().unwrap_or(true);
                i += 1;
                keep
            });
            Ret::Unit
        }
        OpKind::RetainIds(ids) => {
            cache.retain(|k, v| {
                note_pred(k, v);
                !ids.contains(&k.id.id())
            });
            Ret::Unit
        }
        OpKind::Clear => {
            cache.clear();
            Ret::Unit
        }
        OpKind::It { kind, calls, forget, unwind, via } => {
            let mut items = Vec::new();
            match kind {
                IterKind::Iter => {
                    let mut it = cache.iter();
                    for f in calls {
                        let x = if *f { it.next() } else { it.next_back() };
                        items.push(x.map(|(k, v)| (kd(k), vd(v))));
                    }
                    if *forget {
                        std::mem::forget(it);
                    }
                }
                IterKind::Keys => {
                    let mut it = cache.keys();
                    for f in calls {
                        let x = if *f { it.next() } else { it.next_back() };
                        items.push(x.map(|k| (kd(k), VD { heap: 0, tok: 0 })));
                    }
                    if *forget {
                        std::mem::forget(it);
                    }
                }
                IterKind::Values => {
                    let mut it = cache.values();
                    for f in calls {
                        let x = if *f { it.next() } else { it.next_back() };
                        items.push(x.map(|v| (KD { id: 0, heap: 0, tok: 0 }, vd(v))));
                    }
                    if *forget {
                        std::mem::forget(it);
                    }
                }
                IterKind::Drain => {
                    let mut it = cache.drain();
                    for f in calls {
                        let x = if *f { it.next() } else { it.next_back() };
                        items.push(x.as_ref().map(|(k, v)| (kd(k), vd(v))));
                        hold(x);
                    }
                    if *forget {
                        std::mem::forget(it);
                    } else if *unwind {
                        unwind_holding(it);
                    } else {
                        consume_via(it, *via);
                    }
                }
                _ => unreachable!(),
            }
            if kind.borrowing() {
                check_adapters(&*cache, calls);
            }
            Ret::Items(*kind, items)
        }
        OpKind::Dbg => {
            let s = format!("{:?}", cache);
            Ret::Items(IterKind::Iter, parse_debug(&s))
        }
        OpKind::Nop => Ret::Items(IterKind::Iter, vec![]),
        OpKind::Readers { threads, seed } => {
            run_readers(&*cache, *threads as usize, *seed);
            Ret::Items(IterKind::Iter, vec![])
        }
    }
}

/// C06 for a `clone()` cut short by a panic of `Clone`/`Hash`: the half-built clone is dropped while unwinding,
/// so every copy that had been *inserted* into it is dropped exactly once (copies still in flight at the
/// panic — a key whose value's clone panicked, a pair whose key's hash panicked — sit in `MaybeUninit` and are
/// leaked, which is allowed). The token table shows which copies are still alive.
fn clone_abort_leaks(log: &OpLog) {
    let mut pairs: Vec<(u64, Option<u64>)> = Vec::new();
    for e in &log.events {
        match e {
            Ev::CloneK(_, n) => pairs.push((*n, None)),
            Ev::CloneV(_, n) => { if let Some(l) = pairs.last_mut() { if l.1.is_none() { l.1 = Some(*n); } } }
            _ => {}
        }
    }
    let mut complete: Vec<(u64, u64)> = pairs.iter().filter_map(|(k, v)| v.map(|v| (*k, v))).collect();
    match log.panicked {
        Some((Kind::Hash, _)) | Some((Kind::Eq, _)) => { complete.pop(); }
        // the panicking clone call itself logged its event before it panicked: that copy never existed
        Some((Kind::CloneK, _)) => {}
        Some((Kind::CloneV, _)) => { complete.pop(); }
        _ => return,
    }
    with_ctx(|c| {
        for (k, v) in complete {
            for t in [k, v] {
                if c.toks.get(&t) == Some(&TokState::Live) {
                    c.violations.push(format!("copy {} made for a clone that was aborted by a panic had been inserted into the half-built clone but was never dropped", t));
                }
            }
        }
    });
}

/// C12 for the iterator methods a caller reaches through adapters (`count`, `last`, `nth`, `nth_back`,
/// `size_hint`, `fold`, `rfold` — provided by the traits from `next`/`next_back` unless the crate
/// overrides them): after the same prefix of `next`/`next_back` calls, each of them must agree with
/// the remaining LRU→MRU segment. Runs quietly (nothing is recorded or injected).
fn check_adapters(cache: &Cache, calls: &[bool]) {
    let was = with_ctx(|c| std::mem::replace(&mut c.quiet, true));
    let mut all: Vec<(u64, u64)> = Vec::new();
    {
        let mut it = cache.iter();
        while let Some((k, v)) = it.next() {
            all.push((kd(k).tok, vd(v).tok));
            if all.len() > cache.len() + 1 {
                break;
            }
        }
    }
    let (mut i, mut j) = (0usize, all.len());
    for f in calls {
        if i < j {
            if *f { i += 1 } else { j -= 1 }
        }
    }
    let rem: Vec<(u64, u64)> = all[i..j].to_vec();
    let n = rem.len();
    let mut bad: Vec<String> = Vec::new();
    let proj = |which: usize, x: (u64, u64)| match which { 0 => x, 1 => (x.0, 0), _ => (0, x.1) };
    for which in 0..3 {
        let name = ["iter", "keys", "values"][which];
        let want: Vec<(u64, u64)> = rem.iter().map(|x| proj(which, *x)).collect();
        // size_hint (on the crate's own iterator type, before the projection)
        let hint = match which {
            0 => { let mut it = cache.iter(); for f in calls { if *f { it.next(); } else { it.next_back(); } } it.size_hint() }
            1 => { let mut it = cache.keys(); for f in calls { if *f { it.next(); } else { it.next_back(); } } it.size_hint() }
            _ => { let mut it = cache.values(); for f in calls { if *f { it.next(); } else { it.next_back(); } } it.size_hint() }
        };
        if hint.0 > n || hint.1.map(|h| h < n).unwrap_or(false) {
            bad.push(format!("{}: size_hint {:?} but {} items remain", name, hint, n));
        }
        // count / last / nth / nth_back / fold / rfold on the crate's own iterator types
        macro_rules! on { ($ctor:expr, $p:expr) => {{
            let adv = |it: &mut _| { let it: &mut dyn DoubleEndedIterator<Item = _> = it; for f in calls { if *f { it.next(); } else { it.next_back(); } } };
            // bounded probe first: an iterator that yields more than what remains (an entry twice, a cycle)
            // must be reported, not looped over by the unbounded adapters below
            let mut it = $ctor; adv(&mut it);
            let mut got = 0usize;
            while got <= n + 1 { if it.next().is_none() { break; } got += 1; }
            let mut it = $ctor; adv(&mut it);
            let mut gotb = 0usize;
            while gotb <= n + 1 { if it.next_back().is_none() { break; } gotb += 1; }
            if got != n || gotb != n {
                bad.push(format!("{}: after the calls {:?} (true = next, false = next_back) {} items remain, but next() then yields {}{} and next_back() {}{}",
                    name, calls, n, got, if got > n + 1 { "+" } else { "" }, gotb, if gotb > n + 1 { "+" } else { "" }));
                continue;
            }
            let mut it = $ctor; adv(&mut it);
            let c = it.count();
            if c != n { bad.push(format!("{}: count() = {} but {} items remain", name, c, n)); }
            let mut it = $ctor; adv(&mut it);
            let l = it.last().map($p);
            if l != want.last().copied() { bad.push(format!("{}: last() differs from the last remaining item", name)); }
            for k in [0usize, 1, n.saturating_sub(1), n] {
                let mut it = $ctor; adv(&mut it);
                if it.nth(k).map($p) != want.get(k).copied() { bad.push(format!("{}: nth({}) differs from the remaining segment", name, k)); }
                let mut it = $ctor; adv(&mut it);
                let wb = if k < n { Some(want[n - 1 - k]) } else { None };
                if it.nth_back(k).map($p) != wb { bad.push(format!("{}: nth_back({}) differs from the remaining segment", name, k)); }
            }
            let mut it = $ctor; adv(&mut it);
            let f: Vec<(u64, u64)> = it.fold(Vec::new(), |mut a, x| { a.push($p(x)); a });
            if f != want { bad.push(format!("{}: fold visits a different sequence than next()", name)); }
            let mut it = $ctor; adv(&mut it);
            let mut r: Vec<(u64, u64)> = it.rfold(Vec::new(), |mut a, x| { a.push($p(x)); a });
            r.reverse();
            if r != want { bad.push(format!("{}: rfold visits a different sequence than next_back()", name)); }
        }}}
        match which {
            0 => on!(cache.iter(), |(k, v): (&MK, &MV)| (kd(k).tok, vd(v).tok)),
            1 => on!(cache.keys(), |k: &MK| (kd(k).tok, 0u64)),
            _ => on!(cache.values(), |v: &MV| (0u64, vd(v).tok)),
        }
    }
    with_ctx(|c| c.quiet = was);
    for b in bad.into_iter().take(3) {
        with_ctx(|c| c.violations.push(format!("C12 {}", b)));
    }
}

/// One shared-reference operation of the reader script, with everything it returns as text.
fn run_shared(cache: &Cache, step: u64) -> String {
    let len = cache.len() as u64;
    let id = (step >> 8) as u32 % (len as u32 + 6);
    match step % 13 {
        0 => format!("peek {:?}", cache.peek(kq(id)).map(vd)),
        1 => format!("peeke {:?}", cache.peek_entry(kq(id)).map(|(k, v)| (kd(k), vd(v)))),
        2 => format!("has {}", cache.contains(kq(id))),
        3 => format!("lru {:?}", cache.peek_lru().map(|(k, v)| (kd(k), vd(v)))),
        4 => format!("mru {:?}", cache.peek_mru().map(|(k, v)| (kd(k), vd(v)))),
        5 => format!("nums {} {} {} {} {}", cache.len(), cache.is_empty(), cache.current_size(), cache.max_size(), cache.capacity()),
        6 => format!("iter {:?}", cache.iter().take(cache.len() + 2).map(|(k, v)| (kd(k), vd(v))).collect::<Vec<_>>()),
        7 => format!("riter {:?}", cache.iter().rev().take(cache.len() + 2).map(|(k, v)| (kd(k), vd(v))).collect::<Vec<_>>()),
        8 => format!("keys {:?}", cache.keys().take(cache.len() + 2).map(kd).collect::<Vec<_>>()),
        9 => format!("rvalues {:?}", cache.values().rev().take(cache.len() + 2).map(vd).collect::<Vec<_>>()),
        10 => format!("dbg {:?}", cache),
        11 => {
            // both ends alternately
            let mut it = cache.iter();
            let mut out = Vec::new();
            for _ in 0..cache.len() + 2 {
                match it.next() { Some((k, _)) => out.push(kd(k).id), None => break }
                match it.next_back() { Some((k, _)) => out.push(kd(k).id), None => break }
            }
            format!("zip {:?}", out)
        }
        _ => {
            // clone: compared by contents (the copies carry their own tokens), then dropped here
            let c2 = cache.clone();
            let a: Vec<(u32, usize, usize)> = c2.iter().map(|(k, v)| (kd(k).id, kd(k).heap, vd(v).heap)).collect();
            format!("clone {:?} {} {}", a, c2.current_size(), c2.max_size())
        }
    }
}

/// C19: the script is run once alone, then by `threads` threads at the same time on the same
/// `&LruCache`; every thread must see exactly what the lone run saw. (Under Miri this is also
/// checked for data races.)
fn run_readers(cache: &Cache, threads: usize, seed: u64) {
    let was = with_ctx(|c| std::mem::replace(&mut c.quiet, true));
    let mut x = seed | 1;
    let script: Vec<u64> = (0..24).map(|_| {
        x ^= x << 13;
        x ^= x >> 7;
        x ^= x << 17;
        x >> 3
    }).collect();
    let expected: Vec<String> = script.iter().map(|s| run_shared(cache, *s)).collect();
    let bad: Vec<String> = std::thread::scope(|sc| {
        let hs: Vec<_> = (0..threads).map(|t| {
            let script = &script;
            let expected = &expected;
            sc.spawn(move || {
                with_ctx(|c| c.quiet = true);
                let mut bad = Vec::new();
                for i in 0..script.len() {
                    let j = (i + 5 * t) % script.len();
                    let got = run_shared(cache, script[j]);
                    if got != expected[j] {
                        bad.push(format!("reader {} saw `{}` where the lone run saw `{}`", t, got, expected[j]));
                    }
                }
                bad
            })
        }).collect();
        hs.into_iter().flat_map(|h| h.join().unwrap_or_else(|_| vec!["a reader thread panicked".to_owned()])).collect()
    });
    with_ctx(|c| c.quiet = was);
    for b in bad.into_iter().take(3) {
        with_ctx(|c| c.violations.push(format!("C19 {}", b)));
    }
}

fn mutate_ret(r: Result<Option<usize>, MutateError<MK, MV>>) -> Ret {
    match r {
        Ok(None) => Ret::MutNone,
        Ok(Some(x)) => Ret::MutOk(x),
        Err(MutateError::EntryTooLarge { key, value, old_entry_size, new_entry_size, max_size }) => {
            let r = Ret::MutBig(kd(&key), vd(&value), old_entry_size, new_entry_size, max_size);
            hold((key, value));
            r
        }
    }
}

fn parse_debug(s: &str) -> Vec<Option<(KD, VD)>> {
    let inner = s.trim().trim_start_matches('{').trim_end_matches('}');
    let mut out = Vec::new();
    if inner.is_empty() {
        return out;
    }
    for item in inner.split(", ") {
        let nums: Vec<u64> = item.replace(": ", ":").split(':').filter_map(|x| x.parse().ok()).collect();
        if nums.len() == 5 {
            out.push(Some((
                KD { id: nums[0] as u32, heap: nums[1] as usize, tok: nums[2] },
                VD { heap: nums[3] as usize, tok: nums[4] },
            )));
        } else {
            out.push(None);
        }
    }
    out
}

/// The rest of an owning iterator consumed through one of the adapter methods a caller reaches (`nth`, `skip`,
/// `count`, `last`, `nth_back` — provided by the traits from `next`/`next_back` unless the crate overrides them),
/// then the iterator is dropped: whatever way, every entry it still owned is dropped exactly once.
fn consume_via<T, I: DoubleEndedIterator<Item = T>>(mut it: I, via: u8) {
    match via {
        1 => { let _ = it.nth(usize::MAX); }
        2 => { let _ = it.by_ref().skip(usize::MAX / 2).next(); }
        3 => { let _ = it.by_ref().count(); }
        4 => { let _ = it.by_ref().last(); }
        5 => { let _ = it.nth_back(usize::MAX); }
        _ => {}
    }
    drop(it);
}

pub struct ConsumerPanic;

/// The consumer of an iterator panics while holding it: the iterator is dropped *during unwinding*
/// (`std::thread::panicking()` is true inside its `Drop`). Whatever it still owns must be dropped all the same.
fn unwind_holding<T>(it: T) {
    let was = with_ctx(|c| c.quiet);
    let _ = catch_unwind(AssertUnwindSafe(move || {
        let _held = it;
        std::panic::panic_any(ConsumerPanic);
    }));
    with_ctx(|c| c.quiet = was);
}

fn run_consuming(cache: Cache, op: &OpKind, panic_at: Option<(Kind, u64)>) -> (Ret, OpLog, bool) {
    let (kind, calls, forget, unwind, via) = match op {
        OpKind::It { kind, calls, forget, unwind, via } => (*kind, calls.clone(), *forget, *unwind, *via),
        _ => unreachable!(),
    };
    begin_op(panic_at);
    let r = catch_unwind(AssertUnwindSafe(move || {
        let mut items = Vec::new();
        match kind {
            IterKind::Into => {
                let mut it = cache.into_iter();
                for f in &calls {
                    let x = if *f { it.next() } else { it.next_back() };
                    items.push(x.as_ref().map(|(k, v)| (kd(k), vd(v))));
                    hold(x);
                }
                if forget {
                    std::mem::forget(it);
                } else if unwind {
                    unwind_holding(it);
                } else {
                    consume_via(it, via);
                }
            }
            IterKind::IntoK => {
                let mut it = cache.into_keys();
                for f in &calls {
                    let x = if *f { it.next() } else { it.next_back() };
                    items.push(x.as_ref().map(|k| (kd(k), VD { heap: 0, tok: 0 })));
                    hold(x);
                }
                if forget {
                    std::mem::forget(it);
                } else if unwind {
                    unwind_holding(it);
                } else {
                    consume_via(it, via);
                }
            }
            IterKind::IntoV => {
                let mut it = cache.into_values();
                for f in &calls {
                    let x = if *f { it.next() } else { it.next_back() };
                    items.push(x.as_ref().map(|v| (KD { id: 0, heap: 0, tok: 0 }, vd(v))));
                    hold(x);
                }
                if forget {
                    std::mem::forget(it);
                } else if unwind {
                    unwind_holding(it);
                } else {
                    consume_via(it, via);
                }
            }
            _ => unreachable!(),
        }
        Ret::Items(kind, items)
    }));
    let log = end_op();
    match r {
        Ok(ret) => (ret, log, false),
        Err(_) => (Ret::Panicked, log, true),
    }
}
