//! Sequence generators. Every random choice comes from one xorshift state.

use crate::exec::{Snap, World};
use crate::ops::{IterKind, Line, Op, OpKind, ITER_KINDS};
use crate::types::{peek_next_tok, HKind, Kind};

pub struct Rng(pub u64);

impl Rng {
    pub fn new(seed: u64) -> Rng {
        Rng(seed.wrapping_mul(0x9e3779b97f4a7c15) ^ 0xd1b54a32d192ed03 | 1)
    }

    pub fn next(&mut self) -> u64 {
        let mut x = self.0;
        x ^= x << 13;
        x ^= x >> 7;
        x ^= x << 17;
        self.0 = x;
        x.wrapping_mul(0x2545f4914f6cdd1d)
    }

    pub fn below(&mut self, n: u64) -> u64 {
        if n == 0 { 0 } else { self.next() % n }
    }

    pub fn chance(&mut self, num: u64, den: u64) -> bool {
        self.below(den) < num
    }

    pub fn pick<T: Copy>(&mut self, v: &[T]) -> T {
        v[self.below(v.len() as u64) as usize]
    }
}

/// Parameters of the random walk generator.
#[derive(Clone, Debug)]
pub struct Profile {
    pub name: &'static str,
    pub universe: u32,
    pub len: usize,
    pub full: bool,
    /// weights: insert, try_insert, lookups, removals, mutate, set_max, capacity ops, retain,
    /// iterator scenarios, clear, clone, debug
    pub w: [u32; 12],
    pub allow_consume: bool,
    pub max_caches: usize,
    pub big_limit: bool,
    pub forget: bool,
    pub panics: bool,
}

pub const W_INS: usize = 0;
pub const W_TINS: usize = 1;
pub const W_LOOK: usize = 2;
pub const W_RM: usize = 3;
pub const W_MUT: usize = 4;
pub const W_SETMAX: usize = 5;
pub const W_CAP: usize = 6;
pub const W_RETAIN: usize = 7;
pub const W_ITER: usize = 8;
pub const W_CLEAR: usize = 9;
pub const W_CLONE: usize = 10;
pub const W_DBG: usize = 11;

pub fn profile(name: &str) -> Option<Profile> {
    let base = Profile {
        name: "rand",
        universe: 6,
        len: 80,
        full: true,
        w: [30, 10, 20, 10, 12, 4, 5, 3, 4, 1, 0, 1],
        allow_consume: false,
        max_caches: 1,
        big_limit: false,
        forget: false,
        panics: false,
    };
    Some(match name {
        "rand" => base,
        "tiny" => Profile { name: "tiny", universe: 3, len: 30, ..base },
        "wide" => Profile { name: "wide", universe: 40, len: 300, w: [40, 10, 15, 10, 8, 2, 4, 2, 2, 1, 0, 1], ..base },
        "churn" => Profile { name: "churn", universe: 600, len: 3000, full: false, big_limit: true,
            w: [45, 5, 5, 35, 2, 0, 3, 1, 0, 0, 0, 0], ..base },
        "mutate" => Profile { name: "mutate", universe: 5, len: 80, w: [20, 5, 8, 5, 45, 5, 2, 2, 2, 1, 0, 0], ..base },
        "insert" => Profile { name: "insert", universe: 5, len: 60, w: [40, 35, 5, 8, 4, 6, 2, 0, 0, 0, 0, 0], ..base },
        "huge" => Profile { name: "huge", universe: 6000, len: 9000, full: false, big_limit: true,
            w: [72, 3, 6, 12, 2, 0, 3, 0, 0, 0, 0, 0], ..base },
        "readers" => Profile { name: "readers", universe: 12, len: 60, w: [30, 5, 10, 8, 6, 2, 4, 2, 3, 1, 0, 30], ..base },
        "capacity" => Profile { name: "capacity", universe: 120, len: 500, w: [50, 5, 4, 22, 2, 0, 25, 1, 1, 0, 0, 0], big_limit: true, ..base },
        "retain" => Profile { name: "retain", universe: 8, len: 60, w: [40, 5, 10, 5, 5, 2, 2, 30, 0, 1, 0, 0], ..base },
        "iter" => Profile { name: "iter", universe: 7, len: 50, w: [40, 5, 8, 6, 4, 2, 2, 2, 30, 1, 0, 0], allow_consume: true, ..base },
        "forget" => Profile { name: "forget", universe: 7, len: 50, w: [40, 5, 8, 6, 4, 2, 2, 2, 30, 1, 0, 0], allow_consume: true, forget: true, ..base },
        "clone" => Profile { name: "clone", universe: 8, len: 90, w: [30, 6, 12, 10, 10, 3, 5, 2, 2, 1, 8, 1], max_caches: 3, ..base },
        "order" => Profile { name: "order", universe: 9, len: 100, w: [20, 8, 40, 6, 12, 1, 4, 2, 3, 0, 0, 3], ..base },
        // limits above usize::MAX / 2 and sizes of the same magnitude: every sum `a + b` of two sizes that the
        // code might form instead of a difference overflows here (sizes of pairs that exist still fit usize)
        "extreme" => Profile { name: "extreme", universe: 4, len: 40, w: [30, 30, 8, 8, 14, 6, 1, 1, 1, 1, 0, 0], ..base },
        "panic" => Profile { name: "panic", universe: 6, len: 40, w: [30, 10, 14, 10, 14, 4, 8, 8, 0, 1, 4, 0], max_caches: 2, panics: true, ..base },
        _ => return None,
    })
}

pub struct Gen<'a> {
    pub rng: &'a mut Rng,
    pub prof: Profile,
    pub ovh: usize,
}

impl<'a> Gen<'a> {
    pub fn limit(&mut self) -> usize {
        let o = self.ovh;
        if self.prof.name == "extreme" {
            return match self.rng.below(7) {
                0 => usize::MAX,
                1 => usize::MAX - 1,
                2 => usize::MAX / 2 + 1 + self.rng.below(3 * o as u64) as usize,
                3 => 1 << 63,
                4 => (1 << 63) + o,
                5 => usize::MAX - o,
                _ => usize::MAX / 2 + (1 << 61),
            };
        }
        if self.prof.name == "huge" {
            return match self.rng.below(3) {
                0 => usize::MAX,
                1 => o * 5000 + 3,
                _ => o * 2500 + self.rng.below(o as u64) as usize,
            };
        }
        if self.prof.big_limit {
            return match self.rng.below(4) {
                0 => usize::MAX,
                1 => o * 40 + self.rng.below(o as u64) as usize,
                2 => o * 300,
                _ => o * 2000 + 17,
            };
        }
        match self.rng.below(24) {
            0 => 0,
            1 => o - 1,
            2 => o,
            3 => o + 1,
            12..=15 => 6 * o + self.rng.below(3 * o as u64) as usize,
            16..=19 => 3 * o + self.rng.below(2 * o as u64) as usize,
            20..=23 => 10 * o + self.rng.below(5 * o as u64) as usize,
            4 => 2 * o + self.rng.below(20) as usize,
            5 => 3 * o + self.rng.below(40) as usize,
            6 => 4 * o + 5,
            7 => 8 * o + 20,
            8 => usize::MAX,
            9 => 5 * o + self.rng.below(o as u64) as usize,
            10 => 12 * o + self.rng.below(100) as usize,
            _ => 3 * o,
        }
    }

    pub fn init_cap(&mut self) -> Option<usize> {
        match self.rng.below(8) {
            0 => Some(0),
            1 => Some(1),
            2 => Some(3),
            3 => Some(4),
            4 => Some(28),
            5 => Some(self.rng.below(70) as usize),
            _ => None,
        }
    }

    fn id(&mut self, snap: &Snap) -> u32 {
        // prefer present keys half of the time (light snaps have no ord: fall back to uniform)
        if !snap.ord.is_empty() && self.rng.chance(1, 2) {
            let i = self.rng.below(snap.ord.len() as u64) as usize;
            // bias towards the two ends
            let i = match self.rng.below(4) {
                0 => 0,
                1 => snap.ord.len() - 1,
                _ => i,
            };
            snap.ord[i].k.id
        } else {
            self.rng.below(self.prof.universe as u64) as u32
        }
    }

    /// value heap size chosen relative to the state: boundaries of every test in the code
    fn value_heap(&mut self, snap: &Snap, kh: usize, replacing: Option<usize>) -> usize {
        if self.prof.name == "huge" && !self.rng.chance(1, 3000) {
            // many small entries: the point of this family is the number of entries
            return self.rng.below(8) as usize;
        }
        let o = self.ovh + kh;
        let max = snap.max;
        let free = max.saturating_sub(snap.cur).saturating_add(replacing.unwrap_or(0));
        let lru = snap.ord.first().map(|e| e.esize).unwrap_or(0);
        let lru2 = snap.ord.get(1).map(|e| e.esize).unwrap_or(0);
        let cands: [Option<usize>; 10] = [
            Some(0),
            free.checked_sub(o),
            free.checked_sub(o).map(|x| x.saturating_add(1)),
            (free.saturating_add(lru)).checked_sub(o),
            (free.saturating_add(lru)).checked_sub(o).map(|x| x.saturating_add(1)),
            (free.saturating_add(lru).saturating_add(lru2)).checked_sub(o).map(|x| x.saturating_add(1)),
            max.checked_sub(o),
            max.checked_sub(o).map(|x| x.saturating_add(1)),
            free.checked_sub(o).and_then(|x| x.checked_sub(1)),
            Some(self.rng.below(40) as usize),
        ];
        if snap.ord.len() > 4 && self.rng.chance(1, 8) {
            // room for this entry only after a *long* run of evictions (5 … all but one of the entries held)
            let k = 3 + self.rng.below(snap.ord.len() as u64 - 3) as usize;
            let run: usize = snap.ord.iter().take(k).fold(0usize, |a, e| a.saturating_add(e.esize));
            return free.saturating_add(run).saturating_sub(o).saturating_add(self.rng.below(2) as usize).min(1 << 50);
        }
        if self.prof.name == "extreme" {
            // the size of the pair itself must exist (A-sizes): key heap + value heap + overhead <= usize::MAX
            let top = usize::MAX - o - 64;
            let c = match self.rng.below(16) {
                i @ 0..=9 => cands[i as usize],
                10 => Some(1 << 62),
                11 => Some(1 << 63),
                12 => Some(usize::MAX / 2),
                13 => Some(usize::MAX / 2 - o),
                14 => Some(top),
                _ => Some(self.rng.below(40) as usize),
            };
            return c.unwrap_or(0).min(top);
        }
        if self.rng.chance(1, 2) {
            let c = cands[self.rng.below(10) as usize];
            if let Some(x) = c {
                // keep honest sizes away from usize overflow (assumption A-sizes)
                return x.min(1 << 50);
            }
        }
        self.rng.below(30) as usize
    }

    pub fn calls(&mut self, n: usize) -> Vec<bool> {
        let k = self.rng.below(n as u64 + 4) as usize;
        let mode = self.rng.below(4);
        (0..k)
            .map(|i| match mode {
                0 => true,
                1 => false,
                2 => i % 2 == 0,
                _ => self.rng.chance(1, 2),
            })
            .collect()
    }

    /// Next operation on cache `c` given its last snapshot.
    pub fn next_op(&mut self, c: usize, snap: &Snap, ncaches: usize) -> Op {
        let total: u32 = self.prof.w.iter().sum();
        let mut r = self.rng.below(total as u64) as u32;
        let mut cat = 0;
        for (i, w) in self.prof.w.iter().enumerate() {
            if r < *w {
                cat = i;
                break;
            }
            r -= *w;
        }
        let kt = peek_next_tok();
        let op = match cat {
            W_INS | W_TINS => {
                let id = self.id(snap);
                let kh = if self.rng.chance(1, 4) { self.rng.below(12) as usize } else { 0 };
                let replacing = if cat == W_INS { snap.ord.iter().find(|e| e.k.id == id).map(|e| e.esize) } else { None };
                let vh = self.value_heap(snap, kh, replacing);
                if cat == W_INS {
                    OpKind::Ins { id, kh, kt, vh, vt: kt + 1 }
                } else {
                    OpKind::TIns { id, kh, kt, vh, vt: kt + 1 }
                }
            }
            W_LOOK => {
                let id = self.id(snap);
                match self.rng.below(11) {
                    0 | 1 => OpKind::Get(id),
                    2 => OpKind::GetE(id),
                    3 => OpKind::Touch(id),
                    4 => OpKind::Peek(id),
                    5 => OpKind::PeekE(id),
                    6 => OpKind::Has(id),
                    7 => OpKind::GetLru,
                    8 => OpKind::PeekLru,
                    9 => OpKind::PeekMru,
                    _ => OpKind::Get(id),
                }
            }
            W_RM => {
                let id = self.id(snap);
                match self.rng.below(6) {
                    0 | 1 => OpKind::Rm(id),
                    2 | 3 => OpKind::RmE(id),
                    4 => OpKind::RmLru,
                    _ => OpKind::RmMru,
                }
            }
            W_MUT => {
                let id = self.id(snap);
                let e = snap.ord.iter().find(|e| e.k.id == id);
                let (kh, old) = e.map(|e| (e.k.heap, e.esize)).unwrap_or((0, 0));
                let h = match (e, self.rng.below(6)) {
                    (Some(e), 0) => e.v.heap,
                    (Some(e), 1) => e.v.heap / 2,
                    _ => self.value_heap(snap, kh, Some(old)),
                };
                // A-sizes: the total may not pass usize::MAX while the grown value is accounted for
                // (`current_size += diff` happens before the eviction)
                let h = match e {
                    // the boundary itself: the growth that takes `current_size + diff` to exactly usize::MAX, and one more
                    Some(e) if self.prof.name == "extreme" && self.rng.chance(1, 5) =>
                        e.v.heap.saturating_add(usize::MAX - snap.cur).saturating_add(self.rng.below(2) as usize).min(usize::MAX - self.ovh - kh - 64),
                    // (one growing mutate in six is left unclamped: the overflow of `current_size += diff`
                    // is then the predicted outcome, `ar=ovf`)
                    Some(e) if self.prof.name == "extreme" && !self.rng.chance(1, 6) => h.min(e.v.heap.saturating_add(usize::MAX - snap.cur)),
                    _ => h,
                };
                if self.rng.chance(1, 4) {
                    OpKind::MutRep { id, h, tok: kt }
                } else {
                    OpKind::MutSet { id, h }
                }
            }
            W_SETMAX => {
                let m = if self.rng.chance(1, 2) {
                    // around the current total and around dropping one or two entries
                    let lru = snap.ord.first().map(|e| e.esize).unwrap_or(0);
                    match self.rng.below(6) {
                        0 => snap.cur,
                        1 => snap.cur.saturating_sub(1),
                        2 => snap.cur.saturating_sub(lru),
                        3 => snap.cur.saturating_sub(lru).saturating_sub(1),
                        4 => snap.cur.saturating_add(1),
                        _ => snap.cur / 2,
                    }
                } else {
                    self.limit()
                };
                OpKind::SetMax(m)
            }
            W_CAP => match self.rng.below(12) {
                0 | 1 => OpKind::Reserve(self.rng.below(40) as usize),
                2 => OpKind::Reserve(snap.cap.saturating_sub(snap.len)),
                3 => OpKind::Reserve(snap.cap.saturating_sub(snap.len) + 1),
                4 | 5 => OpKind::TryReserve(self.rng.below(60) as usize),
                6 => OpKind::Shrink(self.rng.below(40) as usize),
                7 | 8 => OpKind::ShrinkFit,
                9 => OpKind::Shrink(snap.len),
                10 => OpKind::TryReserve(0),
                _ => OpKind::Shrink(0),
            },
            W_RETAIN => {
                let n = snap.len;
                match self.rng.below(6) {
                    0 => OpKind::RetainIdx(vec![true; n]),
                    1 => OpKind::RetainIdx(vec![false; n]),
                    2 => OpKind::RetainIdx((0..n).map(|i| i % 2 == 0).collect()),
                    3 => OpKind::RetainIdx((0..n).map(|i| i != 0 && i + 1 != n).collect()),
                    4 => {
                        let k = self.rng.below(3) as usize;
                        OpKind::RetainIds((0..k).map(|_| self.rng.below(self.prof.universe as u64) as u32).collect())
                    }
                    _ => OpKind::RetainIdx((0..n).map(|_| self.rng.chance(1, 2)).collect()),
                }
            }
            W_ITER => {
                let kinds: &[IterKind] = if self.prof.allow_consume && self.rng.chance(1, 3) {
                    &ITER_KINDS
                } else {
                    &ITER_KINDS[..4]
                };
                let kind = self.rng.pick(kinds);
                let forget = self.prof.forget && self.rng.chance(2, 3);
                let unwind = !forget && self.rng.chance(1, 4);
                OpKind::It { kind, calls: self.calls(snap.len), forget, unwind, via: if !forget && !unwind && self.rng.chance(1, 3) { 1 + self.rng.below(5) as u8 } else { 0 } }
            }
            W_CLEAR => OpKind::Clear,
            W_CLONE => {
                if ncaches < self.prof.max_caches {
                    return Op::Clone { c, d: ncaches, base: kt, from: false };
                }
                OpKind::Nop
            }
            _ => {
                if self.rng.chance(1, 3) {
                    OpKind::Readers { threads: 2 + self.rng.below(3) as u8, seed: self.rng.below(1 << 30) }
                } else {
                    OpKind::Dbg
                }
            }
        };
        Op::On { c, op }
    }
}

/// malformed / extreme arguments for the capacity operations
pub fn extreme_args() -> Vec<usize> {
    vec![0, 1, usize::MAX, usize::MAX - 1, usize::MAX / 2, usize::MAX / 8, usize::MAX / 8 + 1, usize::MAX / 64,
         usize::MAX / 128, 1 << 40, 1 << 56, (1 << 57) - 1]
}

pub fn panic_kinds() -> [Kind; 8] {
    crate::types::KINDS
}

pub fn hashers_for(profile: &str) -> Vec<HKind> {
    match profile {
        "churn" | "capacity" => vec![HKind::Ident, HKind::Const, HKind::Mix, HKind::Mod4, HKind::Default],
        "huge" => vec![HKind::Mix, HKind::Ident, HKind::Default],
        "clone" | "panic" => vec![HKind::Reseed, HKind::OneShot, HKind::Mix, HKind::Const, HKind::Mod4, HKind::Ident, HKind::Default],
        _ => vec![HKind::Mix, HKind::Const, HKind::Mod4, HKind::Ident, HKind::Default, HKind::OneShot],
    }
}

pub fn live_caches(w: &World) -> Vec<usize> {
    (0..w.caches.len()).filter(|i| w.caches[*i].is_some()).collect()
}

pub fn mk_line(full: bool, op: Op) -> Line {
    Line { full, op, fail_alloc: false, panic_at: None }
}
