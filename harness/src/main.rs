//! Correspondence harness: drives the real `LruCache`, writes operation lines (input of the Lean
//! driver) and observation lines (to be compared with the driver's predictions), and runs the
//! implementation-side monitors.

mod alloc;
mod exec;
mod gen;
mod memsize;
mod monitors;
mod ops;
mod types;

use std::collections::{BTreeMap, HashSet};
use std::fs::File;
use std::io::{BufRead, BufReader, BufWriter, Write};

use exec::{Outcome, Ret, World};
use gen::{Gen, Profile, Rng};
use ops::{IterKind, Line, Op, OpKind, ITER_KINDS};
use types::{HKind, Kind, TokState};

#[global_allocator]
static ALLOC: alloc::CountingAlloc = alloc::CountingAlloc;

struct Sink {
    ops: BufWriter<File>,
    obs: BufWriter<File>,
    mon: BufWriter<File>,
    careful: bool,
    line_no: usize,
    seq_no: usize,
    seq_start_line: usize,
    ovh: usize,
    vsz: usize,
    stats: Stats,
    seq_text: String,
    seq_flags: HashSet<&'static str>,
    may_leak: bool,
    /// a panic left an entry whose recorded size no longer matches its value, or current_size > max_size:
    /// arithmetic of a later mutate / try_insert may overflow (documented limit of C16)
    stale: bool,
    /// an injected panic fired earlier in this sequence: from then on only C16's own promises are monitored
    after_panic: bool,
    /// an iterator was forgotten earlier in this sequence: ownership / structure failures from then on
    /// are C17's business as well
    after_forget: bool,
    /// tokens of objects the cache has handed over to the caller by value (C06/C17: they must never be
    /// seen inside the cache again — this also works for types without drop glue)
    moved_out: std::collections::HashSet<u64>,
    failures: usize,
}

#[derive(Default)]
struct Stats {
    ops: BTreeMap<String, u64>,
    rets: BTreeMap<String, u64>,
    evictions: BTreeMap<u64, u64>,
    reallocs: u64,
    tombstone_states: u64,
    max_len: usize,
    steps: u64,
    seqs: u64,
    nontrivial: BTreeMap<&'static str, HashSet<u64>>,
    samples: BTreeMap<&'static str, Vec<String>>,
    panics_fired: u64,
    hashers: BTreeMap<String, u64>,
}

fn hash_str(s: &str) -> u64 {
    let mut h: u64 = 0xcbf29ce484222325;
    for b in s.bytes() {
        h ^= b as u64;
        h = h.wrapping_mul(0x100000001b3);
    }
    h
}

fn ret_kind(r: &Ret) -> &'static str {
    match r {
        Ret::Unit => "unit",
        Ret::Bool(_) => "bool",
        Ret::OwnVal(None) | Ret::OwnPair(None) | Ret::RefVal(None) | Ret::RefPair(None) => "none",
        Ret::OwnVal(_) => "ownval",
        Ret::OwnPair(_) => "ownpair",
        Ret::RefVal(_) => "refval",
        Ret::RefPair(_) => "refpair",
        Ret::InsBig(..) => "E.big",
        Ret::TryBig(..) => "T.big",
        Ret::TryEvict(..) => "T.evict",
        Ret::TryOcc(..) => "T.occ",
        Ret::MutNone => "M.none",
        Ret::MutOk(_) => "M.ok",
        Ret::MutBig(..) => "M.big",
        Ret::ResOk => "R.ok",
        Ret::ResOverflow => "R.overflow",
        Ret::ResAlloc => "R.alloc",
        Ret::Items(..) => "items",
        Ret::Cloned => "cloned",
        Ret::Panicked => "panicked",
    }
}

impl Sink {
    fn new(prefix: &str, careful: bool) -> Sink {
        let f = |ext: &str| BufWriter::new(File::create(format!("{}.{}", prefix, ext)).expect("create output"));
        let mut s = Sink {
            ops: f("ops"),
            obs: f("obs"),
            mon: f("mon"),
            careful,
            line_no: 0,
            seq_no: 0,
            seq_start_line: 0,
            ovh: exec::ovh(),
            vsz: std::mem::size_of::<types::MV>(),
            stats: Stats::default(),
            seq_text: String::new(),
            seq_flags: HashSet::new(),
            may_leak: false,
            stale: false,
            after_panic: false,
            after_forget: false,
            moved_out: std::collections::HashSet::new(),
            failures: 0,
        };
        let p = exec::params_line();
        s.raw(&p, "P");
        s
    }

    fn raw(&mut self, ops: &str, obs: &str) {
        writeln!(self.ops, "{}", ops).unwrap();
        writeln!(self.obs, "{}", obs).unwrap();
        if self.careful {
            self.ops.flush().unwrap();
            self.obs.flush().unwrap();
        }
        self.line_no += 1;
    }

    fn begin_seq(&mut self, hkind: HKind, what: &str) -> World {
        self.seq_no += 1;
        self.seq_start_line = self.line_no;
        self.seq_text.clear();
        self.seq_flags.clear();
        self.may_leak = false;
        self.stale = false;
        self.after_panic = false;
        self.after_forget = false;
        self.moved_out.clear();
        self.stats.seqs += 1;
        *self.stats.hashers.entry(hkind.name().to_owned()).or_default() += 1;
        let l = if types::TRACK_K && types::TRACK_V {
            format!("# seq {} hasher={} {}", self.seq_no, hkind.name(), what)
        } else {
            format!("# seq {} hasher={} {} types={}", self.seq_no, hkind.name(), what, types::types_name())
        };
        self.raw(&l, "#");
        World::new(hkind)
    }

    fn flag(&mut self, p: &'static str) {
        self.seq_flags.insert(p);
    }

    fn record(&mut self, o: &Outcome) {
        // what happened, for the evidence's input distribution and the per-property
        // non-triviality rule
        self.stats.steps += 1;
        let name = match &o.line.op {
            Op::New { .. } => "new",
            Op::Clone { from: false, .. } => "clone",
            Op::Clone { from: true, .. } => "clonefrom",
            Op::Drop { .. } => "drop",
            Op::On { op, .. } => op.name(),
        };
        *self.stats.ops.entry(name.to_owned()).or_default() += 1;
        *self.stats.rets.entry(ret_kind(&o.ret).to_owned()).or_default() += 1;
        let drops = o.log.events.iter().filter(|e| matches!(e, types::Ev::DropK(_))).count() as u64;
        if let Op::On { op, .. } = &o.line.op {
            if matches!(op, OpKind::Ins { .. } | OpKind::SetMax(_) | OpKind::MutSet { .. } | OpKind::MutRep { .. }) {
                *self.stats.evictions.entry(drops).or_default() += 1;
                if drops > 0 {
                    self.flag("C01");
                    self.flag("C03");
                }
            }
            match op {
                OpKind::Ins { .. } | OpKind::TIns { .. } => {
                    if matches!(o.ret, Ret::InsBig(..) | Ret::TryBig(..) | Ret::TryEvict(..) | Ret::TryOcc(..)) {
                        self.flag("C10");
                        self.flag("C01");
                    }
                    if matches!(o.ret, Ret::OwnVal(Some(_))) {
                        self.flag("C04");
                        self.flag("C03");
                    }
                }
                OpKind::MutSet { .. } | OpKind::MutRep { .. } => {
                    if !matches!(o.ret, Ret::MutNone) {
                        self.flag("C11");
                    }
                }
                OpKind::It { forget, calls, .. } => {
                    if !calls.is_empty() {
                        self.flag("C12");
                    }
                    if *forget {
                        self.flag("C17");
                        self.may_leak = true;
                    }
                }
                OpKind::RetainIdx(_) | OpKind::RetainIds(_) => {
                    if o.pre.as_ref().map(|p| p.len > 0).unwrap_or(false) {
                        self.flag("C15");
                    }
                }
                OpKind::Reserve(_) | OpKind::TryReserve(_) | OpKind::Shrink(_) | OpKind::ShrinkFit => self.flag("C13"),
                OpKind::Get(_) | OpKind::GetE(_) | OpKind::Peek(_) | OpKind::PeekE(_) => {
                    if !matches!(o.ret, Ret::RefVal(None) | Ret::RefPair(None)) {
                        self.flag("C04");
                    }
                }
                _ => {}
            }
            if op.shared_ref() {
                self.flag("C19");
            }
            if let (Some(pre), Some(post)) = (&o.pre, &o.post) {
                if pre.cur != post.cur {
                    self.flag("C02");
                }
                if pre.full && post.full && pre.ord.len() > 1 && post.ord.last() != pre.ord.last()
                    && post.ord.len() == pre.ord.len() {
                    self.flag("C05");
                }
            }
            if !o.log.hashes.is_empty() {
                self.flag("C20");
            }
        }
        if let Op::Clone { .. } = &o.line.op {
            self.flag("C14");
        }
        if !o.ret.owned().is_empty() || drops > 0 {
            self.flag("C06");
        }
        if let (Some(pre), Some(post)) = (&o.pre, &o.post) {
            if pre.bk != post.bk {
                self.stats.reallocs += 1;
                self.flag("C07");
                self.flag("C13");
            }
            if post.len < pre.len {
                self.flag("C07");
            }
        }
        if let Some(post) = &o.post {
            if post.bk != usize::MAX && post.bk != 0 && post.cap < monitors::fresh_cap(post.cap.max(1)).min(usize::MAX)
                && post.cap < bucket_cap(post.bk) {
                self.stats.tombstone_states += 1;
            }
            self.stats.max_len = self.stats.max_len.max(post.len);
        }
        if let (Some((k, n)), Op::On { op: OpKind::MutSet { .. } | OpKind::MutRep { .. }, .. }) = (o.injected, &o.line.op) {
            if (k == Kind::SizeV && n >= 2) || ((k == Kind::Hash || k == Kind::Eq) && n >= 2) {
                self.stale = true;
            }
        }
        if o.injected.is_some() {
            self.stats.panics_fired += 1;
            self.flag("C16");
            self.may_leak = true;
        }
        if o.panicked {
            self.may_leak = true;
        }
    }

    /// Executes a line, writes it out, runs the monitors.
    fn step(&mut self, w: &mut World, line: &Line) -> Option<Outcome> {
        if self.stale {
            if let Op::On { c, op: OpKind::MutSet { .. } | OpKind::MutRep { .. } | OpKind::TIns { .. } } = &line.op {
                let nop = gen::mk_line(line.full, Op::On { c: *c, op: OpKind::Nop });
                return self.step_inner(w, &nop);
            }
        }
        self.step_inner(w, line)
    }

    fn step_inner(&mut self, w: &mut World, line: &Line) -> Option<Outcome> {
        if self.careful {
            // the line about to run, so that a crash can be attributed
            writeln!(self.mon, "RUN {} {}", self.line_no, line.text()).unwrap();
            self.mon.flush().unwrap();
        }
        let o = w.exec(line)?;
        exec::release_held();
        self.raw(&o.ops_text.clone(), &o.obs_text.clone());
        self.seq_text.push_str(&line.text());
        self.seq_text.push('\n');
        // the reference computations run on whatever state the real code produced; if that state is broken
        // beyond what they anticipate, a panic of the *harness* must not end the run (it would look like a
        // crash of the real code to every check): it is recorded and the line has no monitor verdict
        let (ovh, vsz) = (self.ovh, self.vsz);
        let mut fails = match std::panic::catch_unwind(std::panic::AssertUnwindSafe(|| monitors::check_outcome(&o, ovh, vsz))) {
            Ok(f) => f,
            Err(_) => {
                writeln!(self.mon, "MONPANIC line={} :: the harness's own reference computation panicked on `{}` (pre-state outside its domain); no monitor verdict for this line", self.line_no, line.text()).unwrap();
                Vec::new()
            }
        };
        if o.injected.is_some() {
            self.after_panic = true;
            fails.extend(monitors::check_panic(&o));
        }
        if let Op::On { op: OpKind::It { forget: true, .. }, .. } = &line.op {
            self.after_forget = true;
        }
        // objects moved out to the caller …
        match &o.ret {
            exec::Ret::OwnVal(Some(v)) => { self.moved_out.insert(v.tok); }
            exec::Ret::OwnPair(Some((k, v))) | exec::Ret::MutBig(k, v, ..) => { self.moved_out.insert(k.tok); self.moved_out.insert(v.tok); }
            exec::Ret::Items(kind, items) if !kind.borrowing() => {
                for (k, v) in items.iter().flatten() {
                    if k.tok != 0 { self.moved_out.insert(k.tok); }
                    if v.tok != 0 { self.moved_out.insert(v.tok); }
                }
            }
            _ => {}
        }
        // … must not be listed by the cache afterwards
        if let Some(post) = &o.post {
            if post.full && post.walk_err.is_none() {
                if let Some(e) = post.ord.iter().find(|e| self.moved_out.contains(&e.k.tok) || self.moved_out.contains(&e.v.tok)) {
                    fails.push(monitors::Fail { prop: "C06", msg: format!("the cache still lists entry {} whose key or value was already moved out to the caller", e.k.id) });
                }
            }
        }
        if self.after_forget {
            let extra: Vec<monitors::Fail> = fails.iter().filter(|f| f.prop == "C06" || f.prop == "C07")
                .map(|f| monitors::Fail { prop: "C17", msg: f.msg.clone() }).collect();
            fails.extend(extra);
        }
        if self.after_panic {
            // C16: the cache stays usable — no double drop / use after free (token table, C06 → C16),
            // traversals mirror and agree with lookups (hook walk, C07 → C16), current_size equals the
            // sum of the recorded sizes. Value sizes that a panicking size estimate left unrecorded,
            // and what later operations return on such a state, are not promised.
            let mut kept = Vec::new();
            for f in fails {
                match f.prop {
                    "C06" if f.msg.contains("aborted by a panic") => { kept.push(monitors::Fail { prop: "C06", msg: f.msg.clone() }); kept.push(monitors::Fail { prop: "C16", msg: f.msg }); }
                    "C06" | "C07" | "C16" => kept.push(monitors::Fail { prop: "C16", msg: f.msg }),
                    "C05" | "C15" if f.msg.contains("cut short by a panic") => kept.push(f),
                    "C02" if f.msg.contains("recorded sizes") => {
                        kept.push(monitors::Fail { prop: "C02", msg: f.msg.clone() });
                        // on the line of the panic itself it is also the accounting of the operation that unwound
                        if o.injected.is_some() {
                            match &line.op {
                                Op::On { op: OpKind::MutSet { .. } | OpKind::MutRep { .. }, .. } => kept.push(monitors::Fail { prop: "C11", msg: f.msg.clone() }),
                                Op::On { op: OpKind::RetainIdx(_) | OpKind::RetainIds(_), .. } => kept.push(monitors::Fail { prop: "C15", msg: f.msg.clone() }),
                                _ => {}
                            }
                        }
                        kept.push(monitors::Fail { prop: "C16", msg: f.msg });
                    }
                    _ => {}
                }
            }
            fails = kept;
        }
        // C14: an operation on one cache leaves every other live cache exactly as it was
        let touched = match &line.op {
            Op::New { c, .. } | Op::Drop { c } | Op::On { c, .. } => vec![*c],
            Op::Clone { c, d, .. } => vec![*c, *d],
        };
        for i in 0..w.caches.len() {
            if touched.contains(&i) {
                continue;
            }
            if let (Some(cache), Some(old)) = (w.caches[i].as_ref(), w.snaps.get(i).and_then(|x| x.as_ref())) {
                let now = exec::observe(cache, old.full);
                if now != *old {
                    fails.push(monitors::Fail { prop: "C14", msg: format!("`{}` changed cache {} which it does not operate on", line.text(), i) });
                }
            }
        }
        if let Op::Clone { c, .. } = &line.op {
            // the source must be untouched by clone (also C19)
            if let (Some(cache), Some(old)) = (w.caches.get(*c).and_then(|x| x.as_ref()), o.pre.as_ref()) {
                let now = exec::observe(cache, old.full);
                if now != *old {
                    fails.push(monitors::Fail { prop: "C14", msg: "clone() altered its source".to_owned() });
                    fails.push(monitors::Fail { prop: "C19", msg: "clone() altered its source".to_owned() });
                }
            }
        }
        for f in fails {
            self.failures += 1;
            writeln!(self.mon, "FAIL {} line={} seq={} start={} :: {}", f.prop, self.line_no - 1, self.seq_no,
                self.seq_start_line, f.msg).unwrap();
        }
        self.record(&o);
        Some(o)
    }

    fn end_seq(&mut self, mut w: World) {
        let full = true;
        for i in 0..w.caches.len() {
            if w.caches[i].is_some() {
                let line = gen::mk_line(full, Op::Drop { c: i });
                self.step(&mut w, &line);
            }
        }
        exec::release_held();
        // exactly-once accounting over the whole sequence (C06): everything moved in is gone now
        let (live, viol): (Vec<u64>, Vec<String>) = types::with_ctx(|c| {
            let live = w.moved_in.iter().copied().filter(|t| c.toks.get(t) == Some(&TokState::Live)).collect();
            (live, std::mem::take(&mut c.violations))
        });
        for m in viol {
            self.failures += 1;
            writeln!(self.mon, "FAIL C06 line={} seq={} start={} :: {}", self.line_no - 1, self.seq_no, self.seq_start_line, m).unwrap();
            if self.after_forget {
                writeln!(self.mon, "FAIL C17 line={} seq={} start={} :: {}", self.line_no - 1, self.seq_no, self.seq_start_line, m).unwrap();
            }
            if self.after_panic {
                writeln!(self.mon, "FAIL C16 line={} seq={} start={} :: {}", self.line_no - 1, self.seq_no, self.seq_start_line, m).unwrap();
            }
        }
        if !live.is_empty() && !self.may_leak {
            self.failures += 1;
            writeln!(self.mon, "FAIL C06 line={} seq={} start={} :: tokens {:?} neither dropped nor handed back (leak)",
                self.line_no - 1, self.seq_no, self.seq_start_line, live).unwrap();
        }
        let h = hash_str(&self.seq_text);
        let flags: Vec<&'static str> = self.seq_flags.iter().copied().collect();
        for p in flags {
            self.stats.nontrivial.entry(p).or_default().insert(h);
            let s = self.stats.samples.entry(p).or_default();
            if s.len() < 2 {
                let text: Vec<&str> = self.seq_text.lines().take(12).collect();
                s.push(text.join(" ; "));
            }
        }
        self.raw("# end", "#");
    }

    fn finish(mut self, prefix: &str) {
        self.ops.flush().unwrap();
        self.obs.flush().unwrap();
        self.mon.flush().unwrap();
        let mut f = BufWriter::new(File::create(format!("{}.stats", prefix)).unwrap());
        let st = &self.stats;
        let map = |m: &BTreeMap<String, u64>| {
            let items: Vec<String> = m.iter().map(|(k, v)| format!("\"{}\": {}", k, v)).collect();
            format!("{{{}}}", items.join(", "))
        };
        let ev: Vec<String> = st.evictions.iter().map(|(k, v)| format!("\"{}\": {}", k, v)).collect();
        let nt: Vec<String> = st.nontrivial.iter().map(|(k, v)| {
            let hs: Vec<String> = v.iter().map(|h| h.to_string()).collect();
            format!("\"{}\": [{}]", k, hs.join(","))
        }).collect();
        let sm: Vec<String> = st.samples.iter().map(|(k, v)| {
            let ss: Vec<String> = v.iter().map(|s| format!("\"{}\"", s.replace('"', "'"))).collect();
            format!("\"{}\": [{}]", k, ss.join(","))
        }).collect();
        writeln!(f, "{{\"steps\": {}, \"seqs\": {}, \"lines\": {}, \"reallocs\": {}, \"tombstone_states\": {}, \"max_len\": {}, \"panics_fired\": {}, \"monitor_failures\": {}, \"hooks\": {}, \"ops\": {}, \"rets\": {}, \"hashers\": {}, \"evictions_per_op\": {{{}}}, \"nontrivial\": {{{}}}, \"samples\": {{{}}}}}",
            st.steps, st.seqs, self.line_no, st.reallocs, st.tombstone_states, st.max_len, st.panics_fired, self.failures,
            exec::HAVE_HOOKS, map(&st.ops), map(&st.rets), map(&st.hashers), ev.join(", "), nt.join(", "), sm.join(", ")).unwrap();
    }
}

fn bucket_cap(b: usize) -> usize {
    if b == 0 { 0 } else if b <= 8 { b - 1 } else { b / 8 * 7 }
}

/// One random-walk sequence under a profile.
fn random_seq(sink: &mut Sink, rng: &mut Rng, prof: &Profile, hkind: HKind) {
    // very long sequences are replayed on the functional model only (see `St.noLb` in the driver)
    let mut w = sink.begin_seq(hkind, &format!("profile={}{}", prof.name, if prof.name == "huge" { " lb=off" } else { "" }));
    let ovh = sink.ovh;
    let mut g = Gen { rng, prof: prof.clone(), ovh };
    let max = g.limit();
    let cap = g.init_cap();
    sink.step(&mut w, &gen::mk_line(prof.full, Op::New { c: 0, max, cap }));
    let len = prof.len / 2 + g.rng.below(prof.len as u64 / 2 + 1) as usize;
    for i in 0..len {
        let live = gen::live_caches(&w);
        if live.is_empty() {
            break;
        }
        let c = live[g.rng.below(live.len() as u64) as usize];
        let snap = match w.snap(c) {
            Some(s) => s.clone(),
            None => break,
        };
        let mut op = g.next_op(c, &snap, w.caches.len());
        // `d.clone_from(&c)` into another live cache, now and then
        if live.len() >= 2 && prof.max_caches > 1 && g.rng.chance(1, 12) {
            let others: Vec<usize> = live.iter().copied().filter(|x| *x != c).collect();
            let d = others[g.rng.below(others.len() as u64) as usize];
            op = Op::Clone { c, d, base: types::peek_next_tok(), from: true };
        }
        // in light mode observe fully now and then
        let full = prof.full || i % 97 == 96;
        let mut line = gen::mk_line(full, op);
        if let Op::On { op: OpKind::TryReserve(_), .. } = &line.op {
            line.fail_alloc = g.rng.chance(1, 3);
        }
        if prof.panics && g.rng.chance(1, 4) {
            let kind = g.rng.pick(&gen::panic_kinds());
            line.panic_at = Some((kind, 1 + g.rng.below(4)));
        }
        if sink.step(&mut w, &line).is_none() {
            break;
        }
    }
    sink.end_seq(w);
}

/// Builds a cache with `n` entries of ids 0..n (value heap `i`), limit generous.
fn setup_entries(sink: &mut Sink, w: &mut World, n: usize, max: usize, cap: Option<usize>) {
    sink.step(w, &gen::mk_line(true, Op::New { c: 0, max, cap }));
    for i in 0..n {
        let kt = types::peek_next_tok();
        let op = OpKind::Ins { id: i as u32, kh: 0, kt, vh: i, vt: kt + 1 };
        sink.step(w, &gen::mk_line(true, Op::On { c: 0, op }));
    }
}

fn all_call_strings(max_len: usize) -> Vec<Vec<bool>> {
    let mut out = vec![vec![]];
    let mut frontier = vec![vec![]];
    for _ in 0..max_len {
        let mut next = Vec::new();
        for s in &frontier {
            for b in [true, false] {
                let mut t: Vec<bool> = s.clone();
                t.push(b);
                next.push(t);
            }
        }
        out.extend(next.iter().cloned());
        frontier = next;
    }
    out
}

/// Exhaustive iterator scenarios: every kind × cache length × call string × fate.
fn iter_exhaustive(sink: &mut Sink, rng: &mut Rng, max_entries: usize, max_calls: usize, forget: bool, shard: (u64, u64)) {
    let strings = all_call_strings(max_calls);
    let mut idx = 0u64;
    for n in 0..=max_entries {
        for kind in ITER_KINDS {
            for calls in &strings {
                // call strings longer than n + 2 add nothing new beyond "past exhaustion"
                if calls.len() > n + 3 {
                    continue;
                }
                idx += 1;
                if idx % shard.1 != shard.0 {
                    continue;
                }
                let hk = rng.pick(&[HKind::Mix, HKind::Const, HKind::Ident]);
                let mut w = sink.begin_seq(hk, "iter-exhaustive");
                setup_entries(sink, &mut w, n, usize::MAX, None);
                let op = OpKind::It { kind, calls: calls.clone(), forget, unwind: !forget && idx % 3 == 0, via: if !forget && idx % 3 == 1 { 1 + (idx % 5) as u8 } else { 0 } };
                sink.step(&mut w, &gen::mk_line(true, Op::On { c: 0, op }));
                if !kind.consumes() {
                    // the cache must be fully usable afterwards
                    let kt = types::peek_next_tok();
                    sink.step(&mut w, &gen::mk_line(true, Op::On { c: 0, op: OpKind::Ins { id: 100, kh: 0, kt, vh: 3, vt: kt + 1 } }));
                    sink.step(&mut w, &gen::mk_line(true, Op::On { c: 0, op: OpKind::Get(0) }));
                    sink.step(&mut w, &gen::mk_line(true, Op::On { c: 0, op: OpKind::It { kind: IterKind::Iter, calls: vec![true, false, true], forget: false, unwind: false, via: 0 } }));
                }
                sink.end_seq(w);
            }
        }
    }
}

/// retain with every subset of n entries, n ≤ max_n, plus end/alternating patterns on longer caches.
fn retain_exhaustive(sink: &mut Sink, rng: &mut Rng, max_n: usize, shard: (u64, u64)) {
    let mut idx = 0u64;
    for n in 0..=max_n {
        for mask in 0..(1u32 << n) {
            idx += 1;
            if idx % shard.1 != shard.0 {
                continue;
            }
            let hk = rng.pick(&[HKind::Mix, HKind::Const, HKind::Mod4]);
            let mut w = sink.begin_seq(hk, "retain-exhaustive");
            setup_entries(sink, &mut w, n, usize::MAX, Some(rng.below(20) as usize));
            // shuffle recency a little
            for _ in 0..rng.below(3) {
                let id = rng.below(n.max(1) as u64) as u32;
                sink.step(&mut w, &gen::mk_line(true, Op::On { c: 0, op: OpKind::Get(id) }));
            }
            let bits: Vec<bool> = (0..n).map(|i| mask & (1 << i) != 0).collect();
            sink.step(&mut w, &gen::mk_line(true, Op::On { c: 0, op: OpKind::RetainIdx(bits) }));
            let kt = types::peek_next_tok();
            sink.step(&mut w, &gen::mk_line(true, Op::On { c: 0, op: OpKind::Ins { id: 50, kh: 0, kt, vh: 1, vt: kt + 1 } }));
            sink.end_seq(w);
        }
    }
}

/// Capacity operations with extreme arguments, allocator refusal, and `with_capacity` agreement.
fn capacity_extremes(sink: &mut Sink, rng: &mut Rng) {
    for n in [0usize, 1, 3, 5, 20, 40] {
        for arg in gen::extreme_args() {
            for which in 0..4 {
                let hk = rng.pick(&[HKind::Mix, HKind::Ident]);
                let mut w = sink.begin_seq(hk, "capacity-extremes");
                setup_entries(sink, &mut w, n, usize::MAX, None);
                let op = match which {
                    0 => OpKind::TryReserve(arg),
                    1 => OpKind::Reserve(arg),
                    2 => OpKind::Shrink(arg),
                    _ => OpKind::SetMax(arg),
                };
                // a reserve that would really allocate terabytes aborts the process instead of
                // unwinding only when the request passes the layout check; refuse such requests
                // from the generator unless the allocation is made to fail (try_reserve)
                let huge = arg > (1 << 34) ;
                let mut line = gen::mk_line(true, Op::On { c: 0, op: op.clone() });
                if huge && matches!(op, OpKind::TryReserve(_) | OpKind::Reserve(_)) {
                    line.fail_alloc = true;
                }
                sink.step(&mut w, &line);
                let kt = types::peek_next_tok();
                sink.step(&mut w, &gen::mk_line(true, Op::On { c: 0, op: OpKind::Ins { id: 77, kh: 0, kt, vh: 1, vt: kt + 1 } }));
                sink.end_seq(w);
            }
        }
    }
    // with_capacity(n) takes n fresh insertions without the capacity changing
    for n in (0..70).chain([100, 200, 448, 449, 1000]) {
        let hk = rng.pick(&[HKind::Mix, HKind::Ident, HKind::Const]);
        let mut w = sink.begin_seq(hk, "with-capacity");
        sink.step(&mut w, &gen::mk_line(false, Op::New { c: 0, max: usize::MAX, cap: Some(n) }));
        for i in 0..n {
            let kt = types::peek_next_tok();
            let full = i + 1 == n;
            sink.step(&mut w, &gen::mk_line(full, Op::On { c: 0, op: OpKind::Ins { id: i as u32, kh: 0, kt, vh: 0, vt: kt + 1 } }));
        }
        sink.end_seq(w);
    }
}

/// Churn at constant length: a window of `len` consecutive keys slides through the cache (remove the
/// oldest, insert a fresh one). With the identity hasher the keys sit in consecutive buckets, so
/// every removal leaves a tombstone and the table reaches `growth_left == 0` again and again at a
/// constant number of entries — the histories in which the size of an automatic growth step matters.
fn sliding_window(sink: &mut Sink, rng: &mut Rng, shard: (u64, u64)) {
    let mut idx = 0u64;
    for (len, steps) in [(17usize, 260usize), (20, 300), (33, 500), (60, 900), (100, 1400), (6, 120), (15, 200)] {
        for hk in [HKind::Ident, HKind::Mix] {
            for cap in [None, Some(len), Some(4 * len)] {
                idx += 1;
                if idx % shard.1 != shard.0 {
                    continue;
                }
                let mut w = sink.begin_seq(hk, "sliding-window");
                sink.step(&mut w, &gen::mk_line(true, Op::New { c: 0, max: usize::MAX, cap }));
                for i in 0..len {
                    let kt = types::peek_next_tok();
                    sink.step(&mut w, &gen::mk_line(false, Op::On { c: 0, op: OpKind::Ins { id: i as u32, kh: 0, kt, vh: 0, vt: kt + 1 } }));
                }
                for s in 0..steps {
                    let oldest = s as u32;
                    let rm = match rng.below(8) {
                        0 => OpKind::RmLru,
                        1 => OpKind::RmE(oldest),
                        _ => OpKind::Rm(oldest),
                    };
                    sink.step(&mut w, &gen::mk_line(false, Op::On { c: 0, op: rm }));
                    let kt = types::peek_next_tok();
                    let full = s % 64 == 63 || s + 1 == steps;
                    sink.step(&mut w, &gen::mk_line(full, Op::On { c: 0, op: OpKind::Ins { id: (len + s) as u32, kh: 0, kt, vh: 0, vt: kt + 1 } }));
                }
                sink.end_seq(w);
            }
        }
    }
}

/// Tombstone-heavy tables: a table created for `cap` entries is filled completely with consecutive
/// keys (identity hasher: one long run of occupied buckets), then all but `keep` entries are removed
/// (each removal inside the run leaves a tombstone, so `growth_left` stays 0 while `len` drops), then
/// one capacity-sensitive operation runs: an insertion of a new key (automatic growth from a table
/// whose reported capacity is far below its bucket count), `shrink_to` / `shrink_to_fit` with
/// targets around the current length and capacity, `reserve`, `try_insert`, `clone`.
fn tombstones(sink: &mut Sink, rng: &mut Rng, shard: (u64, u64)) {
    let mut idx = 0u64;
    for cap in [28usize, 56, 112] {
        for keep in [0usize, 1, 3, 5, 7, 10, 12, 14, 20, 27, 28, 40, 56] {
            if keep >= cap {
                continue;
            }
            for fin in 0..9usize {
                for hk in [HKind::Ident, HKind::Mix, HKind::Const] {
                    idx += 1;
                    if idx % shard.1 != shard.0 {
                        continue;
                    }
                    let mut w = sink.begin_seq(hk, "tombstones");
                    sink.step(&mut w, &gen::mk_line(true, Op::New { c: 0, max: usize::MAX, cap: Some(cap) }));
                    for i in 0..cap {
                        let kt = types::peek_next_tok();
                        sink.step(&mut w, &gen::mk_line(false, Op::On { c: 0, op: OpKind::Ins { id: i as u32, kh: 0, kt, vh: 0, vt: kt + 1 } }));
                    }
                    // remove from the front, the back or the middle of the run
                    let from = match rng.below(3) { 0 => 0, 1 => keep, _ => keep / 2 };
                    let mut removed = 0;
                    let mut i = from;
                    while removed < cap - keep {
                        let id = (i % cap) as u32;
                        sink.step(&mut w, &gen::mk_line(false, Op::On { c: 0, op: OpKind::Rm(id) }));
                        removed += 1;
                        i += 1;
                    }
                    let fresh = (cap + 1000) as u32;
                    let kt = types::peek_next_tok();
                    let ops: Vec<OpKind> = match fin {
                        0 => vec![OpKind::Ins { id: fresh, kh: 0, kt, vh: 0, vt: kt + 1 }],
                        1 => vec![OpKind::ShrinkFit],
                        2 => vec![OpKind::Shrink(keep + 3)],
                        3 => vec![OpKind::Shrink(15)],
                        4 => vec![OpKind::Shrink(2 * keep + 1)],
                        5 => vec![OpKind::Reserve(1)],
                        6 => vec![OpKind::TIns { id: fresh, kh: 0, kt, vh: 0, vt: kt + 1 }],
                        7 => vec![OpKind::Shrink(cap / 2 - 1), OpKind::Ins { id: fresh, kh: 0, kt, vh: 0, vt: kt + 1 }],
                        _ => vec![OpKind::TryReserve(keep / 2 + 1), OpKind::ShrinkFit],
                    };
                    for op in ops {
                        sink.step(&mut w, &gen::mk_line(true, Op::On { c: 0, op }));
                    }
                    // and one more insertion afterwards
                    let kt = types::peek_next_tok();
                    sink.step(&mut w, &gen::mk_line(true, Op::On { c: 0, op: OpKind::Ins { id: fresh + 1, kh: 0, kt, vh: 0, vt: kt + 1 } }));
                    // then promotions of surviving entries and their neighbours (a link that went
                    // stale in a table rebuild shows in the order only after such accesses)
                    for t in 0..8u32 {
                        let live: Vec<u32> = w.snap(0).map(|s| s.ord.iter().map(|e| e.k.id).collect()).unwrap_or_default();
                        if live.is_empty() {
                            break;
                        }
                        let id = live[rng.below(live.len() as u64) as usize];
                        let op = match t % 4 { 0 => OpKind::Get(id), 1 => OpKind::Touch(id), 2 => OpKind::GetLru, _ => OpKind::GetE(id) };
                        sink.step(&mut w, &gen::mk_line(true, Op::On { c: 0, op }));
                    }
                    sink.end_seq(w);
                }
            }
        }
    }
}

/// Clustered keys under the identity hasher: many keys share a home bucket (`id = r + buckets * j`), so
/// entries sit far from their home probe group; the table is filled to capacity, most entries are
/// removed again (tombstones, `growth_left == 0`), then a key with a *different* home (an EMPTY
/// bucket) is inserted or capacity is requested — the states in which hashbrown would rehash in
/// place if the crate ever let it — followed by promotions of the survivors.
fn clustered(sink: &mut Sink, rng: &mut Rng, shard: (u64, u64)) {
    let mut idx = 0u64;
    for buckets in [32usize, 64, 128] {
        let cap = buckets / 8 * 7;
        for keep in [1usize, 3, 6, 7, 12, 13, 14, 20, 27] {
            if keep >= cap / 2 + 2 {
                continue;
            }
            for fin in 0..8usize {
                for rep in 0..2u64 {
                    idx += 1;
                    if idx % shard.1 != shard.0 {
                        continue;
                    }
                    let mut w = sink.begin_seq(HKind::Ident, "clustered");
                    sink.step(&mut w, &gen::mk_line(true, Op::New { c: 0, max: usize::MAX, cap: Some(cap) }));
                    let homes: Vec<usize> = if rep == 0 { vec![0] } else { vec![rng.below(buckets as u64) as usize, rng.below(buckets as u64) as usize] };
                    let mut ids: Vec<u32> = Vec::new();
                    for i in 0..cap {
                        let id = (homes[i % homes.len()] + buckets * (i / homes.len() + 1)) as u32;
                        ids.push(id);
                        let kt = types::peek_next_tok();
                        sink.step(&mut w, &gen::mk_line(false, Op::On { c: 0, op: OpKind::Ins { id, kh: 0, kt, vh: 0, vt: kt + 1 } }));
                    }
                    // keep `keep` entries, preferably late ones (deep in the probe sequence)
                    let mut order: Vec<usize> = (0..cap).collect();
                    for i in 0..cap {
                        if rng.chance(1, 4) {
                            let j = rng.below(cap as u64) as usize;
                            order.swap(i, j);
                        }
                    }
                    for &i in order.iter().take(cap - keep) {
                        let op = if rng.chance(1, 2) { OpKind::Rm(ids[i]) } else { OpKind::RmE(ids[i]) };
                        sink.step(&mut w, &gen::mk_line(false, Op::On { c: 0, op }));
                    }
                    // a key whose home bucket is elsewhere
                    let fresh = |rng: &mut Rng| -> u32 { (rng.below(buckets as u64) as usize + buckets * 50 + buckets * rng.below(40) as usize) as u32 };
                    for round in 0..3 {
                        let kt = types::peek_next_tok();
                        let f = fresh(rng);
                        let ops: Vec<OpKind> = match (fin + round) % 8 {
                            0 | 1 | 2 => vec![OpKind::Ins { id: f, kh: 0, kt, vh: 0, vt: kt + 1 }],
                            3 => vec![OpKind::TIns { id: f, kh: 0, kt, vh: 0, vt: kt + 1 }],
                            4 => vec![OpKind::Reserve(1 + rng.below(4) as usize)],
                            5 => vec![OpKind::TryReserve(1 + rng.below(keep as u64 + 2) as usize)],
                            6 => vec![OpKind::Shrink(keep + 1 + rng.below(6) as usize)],
                            _ => vec![OpKind::ShrinkFit, OpKind::Ins { id: f, kh: 0, kt, vh: 0, vt: kt + 1 }],
                        };
                        for op in ops {
                            sink.step(&mut w, &gen::mk_line(true, Op::On { c: 0, op }));
                        }
                        for t in 0..5u32 {
                            let live: Vec<u32> = w.snap(0).map(|s| s.ord.iter().map(|e| e.k.id).collect()).unwrap_or_default();
                            if live.is_empty() {
                                break;
                            }
                            let id = live[rng.below(live.len() as u64) as usize];
                            let op = match t % 5 { 0 => OpKind::Get(id), 1 => OpKind::Touch(id), 2 => OpKind::GetLru, 3 => OpKind::MutSet { id, h: rng.below(9) as usize }, _ => OpKind::GetE(id) };
                            sink.step(&mut w, &gen::mk_line(true, Op::On { c: 0, op }));
                        }
                    }
                    sink.end_seq(w);
                }
            }
        }
    }
}

/// One call that has to evict a *long* run of entries (15 … 65): a growing `mutate` of the LRU / a middle / the MRU
/// entry, an `insert` of a new or a present key, `set_max_size` — each sized so that exactly `k` entries must go.
fn big_evict(sink: &mut Sink, _rng: &mut Rng, shard: (u64, u64)) {
    let ovh = sink.ovh;
    let mut idx = 0u64;
    for n in [20usize, 36, 70] {
        for k in [15usize, 16, 17, 18, 31, 32, 33, 65] {
            if k + 2 > n {
                continue;
            }
            for mode in 0..6 {
                idx += 1;
                if idx % shard.1 != shard.0 {
                    continue;
                }
                let hk = [HKind::Mix, HKind::Ident, HKind::Const][(idx % 3) as usize];
                let mut w = sink.begin_seq(hk, "bigevict");
                // entry i has size ovh + i; the limit holds all of them exactly
                let total: usize = (0..n).map(|i| ovh + i).sum();
                setup_entries(sink, &mut w, n, total, None);
                let snap = w.snap(0).cloned().unwrap_or_default();
                // size of the k oldest entries other than `skip`
                let run = |skip: Option<u32>| -> usize { snap.ord.iter().filter(|e| Some(e.k.id) != skip).take(k).map(|e| e.esize).sum() };
                let kt = types::peek_next_tok();
                let op = match mode {
                    0 => OpKind::MutSet { id: 0, h: run(Some(0)) },                                  // the LRU entry grows
                    1 => OpKind::MutSet { id: (n / 2) as u32, h: (n / 2) + run(Some((n / 2) as u32)) }, // a middle entry grows
                    2 => OpKind::MutSet { id: (n - 1) as u32, h: (n - 1) + run(None) - 1 },          // the MRU entry grows, one byte less
                    3 => OpKind::Ins { id: 1000, kh: 0, kt, vh: run(None) - ovh, vt: kt + 1 },       // a new key
                    4 => OpKind::Ins { id: (n - 1) as u32, kh: 0, kt, vh: (n - 1) + run(None), vt: kt + 1 }, // a present key
                    _ => OpKind::SetMax(total - run(None)),
                };
                sink.step(&mut w, &gen::mk_line(true, Op::On { c: 0, op }));
                sink.step(&mut w, &gen::mk_line(true, Op::On { c: 0, op: OpKind::GetLru }));
                sink.step(&mut w, &gen::mk_line(true, Op::On { c: 0, op: OpKind::It { kind: IterKind::Keys, calls: vec![true, false], forget: false, unwind: false, via: 0 } }));
                sink.end_seq(w);
            }
        }
    }
}

/// Replacing an entry that sits deep in a probe sequence (every key collides, or clusters) with one so large
/// that all other entries are evicted by the same call — then the map must still find it. Also: removing
/// everything but one deep entry, then re-inserting / looking up.
fn deep_replace(sink: &mut Sink, rng: &mut Rng, shard: (u64, u64)) {
    let ovh = sink.ovh;
    let mut idx = 0u64;
    for hk in [HKind::Const, HKind::Mod4, HKind::Ident] {
        for n in [17usize, 20, 29, 33, 40, 57] {
            for victim in [n - 1, n / 2, 16, 0] {
                for mode in 0..3 {
                    idx += 1;
                    if idx % shard.1 != shard.0 {
                        continue;
                    }
                    let mut w = sink.begin_seq(hk, "deepreplace");
                    let max = ovh * (n + 2) + 50;
                    let cap = if mode == 2 { Some(n) } else { None };
                    sink.step(&mut w, &gen::mk_line(true, Op::New { c: 0, max, cap }));
                    // identity hasher: ids that share a home bucket modulo every table size up to 128
                    let id_of = |i: usize| -> u32 { if hk == HKind::Ident { (i * 128) as u32 } else { i as u32 } };
                    for i in 0..n {
                        let kt = types::peek_next_tok();
                        sink.step(&mut w, &gen::mk_line(false, Op::On { c: 0, op: OpKind::Ins { id: id_of(i), kh: 0, kt, vh: 0, vt: kt + 1 } }));
                    }
                    let v = id_of(victim);
                    let kt = types::peek_next_tok();
                    match mode {
                        // replace it by an entry that fills the cache: every other entry is evicted in the same call
                        0 | 2 => sink.step(&mut w, &gen::mk_line(true, Op::On { c: 0, op: OpKind::Ins { id: v, kh: 0, kt, vh: max - ovh, vt: kt + 1 } })),
                        // lower the limit so that only the youngest stay, then replace one of them
                        _ => {
                            sink.step(&mut w, &gen::mk_line(true, Op::On { c: 0, op: OpKind::Touch(v) }));
                            sink.step(&mut w, &gen::mk_line(true, Op::On { c: 0, op: OpKind::SetMax(ovh + 10) }));
                            sink.step(&mut w, &gen::mk_line(true, Op::On { c: 0, op: OpKind::Ins { id: v, kh: 0, kt, vh: 3, vt: kt + 1 } }))
                        }
                    };
                    for op in [OpKind::Has(v), OpKind::Peek(v), OpKind::Get(v)] {
                        sink.step(&mut w, &gen::mk_line(true, Op::On { c: 0, op }));
                    }
                    let kt = types::peek_next_tok();
                    sink.step(&mut w, &gen::mk_line(true, Op::On { c: 0, op: OpKind::Ins { id: v, kh: 0, kt, vh: 1, vt: kt + 1 } }));
                    sink.step(&mut w, &gen::mk_line(true, Op::On { c: 0, op: OpKind::SetMax(max) }));
                    for _ in 0..6 {
                        let id = id_of(rng.below(n as u64 + 2) as usize);
                        let kt = types::peek_next_tok();
                        let op = match rng.below(4) { 0 => OpKind::Ins { id, kh: 0, kt, vh: 2, vt: kt + 1 }, 1 => OpKind::Rm(id), 2 => OpKind::Get(id), _ => OpKind::TIns { id, kh: 0, kt, vh: 0, vt: kt + 1 } };
                        sink.step(&mut w, &gen::mk_line(true, Op::On { c: 0, op }));
                    }
                    sink.end_seq(w);
                }
            }
        }
    }
}

/// Systematic panic injection: for a set of small states, every operation, every callback kind and
/// every index n up to the number of callbacks the operation makes without a panic.
fn panic_systematic(sink: &mut Sink, rng: &mut Rng, shard: (u64, u64), rounds: usize) {
    let mut idx = 0u64;
    for round in 0..rounds {
        for n in [0usize, 1, 2, 3, 4, 7] {
            let ovh = sink.ovh;
            let ops: Vec<OpKind> = vec![
                OpKind::Ins { id: 90, kh: 0, kt: 0, vh: 1, vt: 0 },
                OpKind::Ins { id: 0, kh: 0, kt: 0, vh: 2, vt: 0 },
                OpKind::Ins { id: 91, kh: 0, kt: 0, vh: ovh * 2, vt: 0 },
                OpKind::TIns { id: 92, kh: 0, kt: 0, vh: 0, vt: 0 },
                OpKind::TIns { id: 0, kh: 0, kt: 0, vh: 0, vt: 0 },
                OpKind::Get(0),
                OpKind::GetE(1),
                OpKind::Touch(0),
                OpKind::Peek(0),
                OpKind::Has(1),
                OpKind::Rm(0),
                OpKind::RmE(1),
                OpKind::RmLru,
                OpKind::RmMru,
                OpKind::SetMax(ovh * 2),
                OpKind::Reserve(30),
                OpKind::TryReserve(30),
                OpKind::Shrink(0),
                OpKind::ShrinkFit,
                OpKind::MutSet { id: 0, h: ovh * 2 },
                OpKind::MutSet { id: 1, h: 0 },
                OpKind::MutSet { id: 0, h: usize::MAX / 4 },
                OpKind::RetainIdx(vec![true, false, true, false]),
                OpKind::RetainIdx(vec![false; 8]),
                OpKind::Clear,
            ];
            for (oi, op) in ops.iter().enumerate() {
                for kind in gen::panic_kinds() {
                    for nth in 1..=(n as u64 + 3) {
                        idx += 1;
                        if idx % shard.1 != shard.0 {
                            continue;
                        }
                        let hk = [HKind::Mix, HKind::Const, HKind::Ident][(round + oi) % 3];
                        let mut w = sink.begin_seq(hk, "panic-systematic");
                        // limit such that n entries (sizes ovh+i) fit exactly-ish; growth imminent for n = 3, 7
                        let max = if round % 2 == 0 { usize::MAX / 2 } else { ovh * (n + 1) + 40 };
                        let cap = if round % 3 == 2 { Some(16) } else { None };
                        setup_entries(sink, &mut w, n, max, cap);
                        let kt = types::peek_next_tok();
                        let op = match op.clone() {
                            OpKind::Ins { id, kh, vh, .. } => OpKind::Ins { id, kh, kt, vh, vt: kt + 1 },
                            OpKind::TIns { id, kh, vh, .. } => OpKind::TIns { id, kh, kt, vh, vt: kt + 1 },
                            o => o,
                        };
                        let mut line = gen::mk_line(true, Op::On { c: 0, op });
                        line.panic_at = Some((kind, nth));
                        sink.step(&mut w, &line);
                        // arbitrary further use
                        let prof = gen::profile("tiny").unwrap();
                        let mut g = Gen { rng, prof, ovh };
                        for _ in 0..6 {
                            if let Some(snap) = w.snap(0).cloned() {
                                let op = g.next_op(0, &snap, 1);
                                sink.step(&mut w, &gen::mk_line(true, op));
                            }
                        }
                        sink.end_seq(w);
                    }
                }
            }
            // clone with a panicking Clone / Hash
            for kind in [Kind::CloneK, Kind::CloneV, Kind::Hash] {
                for nth in 1..=(n as u64 + 1) {
                    idx += 1;
                    if idx % shard.1 != shard.0 {
                        continue;
                    }
                    let mut w = sink.begin_seq(HKind::Mix, "panic-clone");
                    setup_entries(sink, &mut w, n, usize::MAX / 2, None);
                    let base = types::peek_next_tok();
                    let mut line = gen::mk_line(true, Op::Clone { c: 0, d: 1, base, from: false });
                    line.panic_at = Some((kind, nth));
                    sink.step(&mut w, &line);
                    sink.step(&mut w, &gen::mk_line(true, Op::On { c: 0, op: OpKind::Nop }));
                    sink.end_seq(w);
                }
            }
        }
    }
}

/// Exhaustive small scope: every sequence of `depth` operations from a small alphabet whose sizes
/// are chosen relative to the state.
fn exhaustive(sink: &mut Sink, depth: usize, shard: (u64, u64)) {
    let ovh = sink.ovh;
    let limits = [0usize, ovh, ovh + 1, 2 * ovh + 3, 3 * ovh, usize::MAX];
    let caps = [None, Some(1), Some(4)];
    let mut idx = 0u64;
    // alphabet entries are closures over the snapshot
    type Mk = fn(&exec::Snap, usize, u64) -> OpKind;
    let alphabet: Vec<Mk> = vec![
        |_, _, t| OpKind::Ins { id: 0, kh: 0, kt: t, vh: 0, vt: t + 1 },
        |_, _, t| OpKind::Ins { id: 1, kh: 0, kt: t, vh: 1, vt: t + 1 },
        |s, o, t| OpKind::Ins { id: 2, kh: 0, kt: t, vh: s.max.saturating_sub(s.cur).saturating_sub(o).min(1 << 40), vt: t + 1 },
        |s, o, t| OpKind::Ins { id: 1, kh: 0, kt: t, vh: s.max.saturating_sub(s.cur).saturating_sub(o).saturating_add(1).min(1 << 40), vt: t + 1 },
        |s, o, t| OpKind::Ins { id: 0, kh: 1, kt: t, vh: s.max.saturating_sub(o).min(1 << 40), vt: t + 1 },
        |_, _, t| OpKind::TIns { id: 2, kh: 0, kt: t, vh: 0, vt: t + 1 },
        |s, o, t| OpKind::TIns { id: 0, kh: 0, kt: t, vh: s.max.saturating_sub(s.cur).saturating_sub(o).min(1 << 40), vt: t + 1 },
        |_, _, _| OpKind::Get(0),
        |_, _, _| OpKind::Peek(1),
        |_, _, _| OpKind::Rm(1),
        |_, _, _| OpKind::RmLru,
        |_, _, _| OpKind::GetLru,
        |s, _, _| OpKind::MutSet { id: 0, h: s.ord.iter().find(|e| e.k.id == 0).map(|e| e.v.heap.saturating_add(s.max.saturating_sub(s.cur))).unwrap_or(0).min(1 << 40) },
        |s, _, _| OpKind::MutSet { id: 1, h: s.ord.iter().find(|e| e.k.id == 1).map(|e| e.v.heap.saturating_add(s.max.saturating_sub(s.cur)).saturating_add(1)).unwrap_or(0).min(1 << 40) },
        |_, _, _| OpKind::MutSet { id: 0, h: 0 },
        |s, _, _| OpKind::SetMax(s.cur.saturating_sub(1)),
        |s, _, _| OpKind::SetMax(s.cur),
        |_, _, _| OpKind::RetainIdx(vec![false, true]),
        |_, _, _| OpKind::ShrinkFit,
        |_, _, _| OpKind::Reserve(5),
        |_, _, _| OpKind::It { kind: IterKind::Drain, calls: vec![true], forget: false, unwind: false, via: 0 },
        |_, _, _| OpKind::Clear,
    ];
    let a = alphabet.len();
    let total = (a as u64).pow(depth as u32);
    for max in limits {
        for cap in caps {
            for code in 0..total {
                idx += 1;
                if idx % shard.1 != shard.0 {
                    continue;
                }
                let hk = [HKind::Mix, HKind::Const][(code % 2) as usize];
                let mut w = sink.begin_seq(hk, "exhaustive");
                sink.step(&mut w, &gen::mk_line(true, Op::New { c: 0, max, cap }));
                let mut c = code;
                for _ in 0..depth {
                    let f = alphabet[(c % a as u64) as usize];
                    c /= a as u64;
                    let snap = w.snap(0).cloned().unwrap_or_default();
                    let op = f(&snap, ovh, types::peek_next_tok());
                    sink.step(&mut w, &gen::mk_line(true, Op::On { c: 0, op }));
                }
                sink.end_seq(w);
            }
        }
    }
}

/// Replays operation lines from a file (corpus entries, shrunk failing sequences).
fn replay(sink: &mut Sink, path: &str) {
    let f = BufReader::new(File::open(path).expect("open replay file"));
    let mut w: Option<World> = None;
    for l in f.lines() {
        let l = l.unwrap();
        let t = l.trim();
        if t.is_empty() || t.starts_with("P ") {
            continue;
        }
        if t.starts_with('#') {
            if t.starts_with("# seq") {
                if let Some(w) = w.take() {
                    sink.end_seq(w);
                }
                let hk = t.split(' ').find_map(|x| x.strip_prefix("hasher=")).and_then(HKind::parse).unwrap_or(HKind::Mix);
                let lb_off = t.split(' ').any(|x| x == "lb=off");
                w = Some(sink.begin_seq(hk, if lb_off { "replay lb=off" } else { "replay" }));
            }
            continue;
        }
        if w.is_none() {
            w = Some(sink.begin_seq(HKind::Mix, "replay"));
        }
        match Line::parse(t) {
            Some(line) => {
                if matches!(line.op, Op::Drop { .. }) && w.as_ref().map(|w| match &line.op { Op::Drop { c } => w.cache(*c).is_none(), _ => false }).unwrap_or(true) {
                    continue;
                }
                sink.step(w.as_mut().unwrap(), &line);
            }
            None => {
                eprintln!("unparseable line: {}", t);
                std::process::exit(3);
            }
        }
    }
    if let Some(w) = w.take() {
        sink.end_seq(w);
    }
}

fn main() {
    // panics are part of normal operation here (injected into user callbacks, overflow checks of the crate under
    // test): keep them quiet unless asked to show where they come from
    if std::env::var("VERIF_SHOW_PANICS").is_ok() {
        std::panic::set_hook(Box::new(|info| { eprintln!("panic: {}", info); }));
    } else {
        std::panic::set_hook(Box::new(|_| {}));
    }
    let args: Vec<String> = std::env::args().collect();
    let get = |name: &str| -> Option<String> {
        args.iter().position(|a| a == name).and_then(|i| args.get(i + 1).cloned())
    };
    let family = get("--family").unwrap_or_else(|| "rand".to_owned());
    let seed: u64 = get("--seed").and_then(|s| s.parse().ok()).unwrap_or(1);
    let seqs: usize = get("--seqs").and_then(|s| s.parse().ok()).unwrap_or(100);
    let out = get("--out").unwrap_or_else(|| "out".to_owned());
    let shard: (u64, u64) = get("--shard")
        .and_then(|s| s.split_once('/').map(|(a, b)| (a.parse().unwrap(), b.parse().unwrap())))
        .unwrap_or((0, 1));
    let depth: usize = get("--depth").and_then(|s| s.parse().ok()).unwrap_or(2);
    let careful = args.iter().any(|a| a == "--careful");
    let mut rng = Rng::new(seed.wrapping_mul(1000003).wrapping_add(shard.0));
    if family == "stack" {
        let n: usize = get("--n").and_then(|s| s.parse().ok()).unwrap_or(5_000_000);
        match memsize::stack_probe(n) {
            Ok(()) => println!("stack ok"),
            Err(e) => {
                println!("stack probe failed: {}", e);
                std::process::exit(1);
            }
        }
        return;
    }
    if family == "memsize" {
        let f = |ext: &str| BufWriter::new(File::create(format!("{}.{}", out, ext)).expect("create output"));
        let mut m = memsize::MemOut { ops: f("ops"), obs: f("obs"), mon: f("mon"), values: 0, helper_lines: 0, failures: 0,
            types: BTreeMap::new(), spare: 0, samples: Vec::new() };
        memsize::run_all(&mut m, &mut rng, seqs);
        m.ops.flush().unwrap();
        m.obs.flush().unwrap();
        m.mon.flush().unwrap();
        let mut st = f("stats");
        let types: Vec<String> = m.types.iter().map(|(k, v)| format!("\"{}\": {}", k.replace('"', "'"), v)).collect();
        let samples: Vec<String> = m.samples.iter().map(|s| format!("\"{}\"", s.replace('"', "'"))).collect();
        writeln!(st, "{{\"values\": {}, \"helper_lines\": {}, \"monitor_failures\": {}, \"with_buffers\": {}, \"types\": {{{}}}, \"samples\": [{}]}}",
            m.values, m.helper_lines, m.failures, m.spare, types.join(", "), samples.join(", ")).unwrap();
        return;
    }
    let mut sink = Sink::new(&out, careful);
    match family.as_str() {
        "replay" => replay(&mut sink, &get("--ops").expect("--ops file")),
        "iterx" => {
            let n = get("--entries").and_then(|s| s.parse().ok()).unwrap_or(4);
            let c = get("--calls").and_then(|s| s.parse().ok()).unwrap_or(6);
            iter_exhaustive(&mut sink, &mut rng, n, c, false, shard);
        }
        "forgetx" => {
            let n = get("--entries").and_then(|s| s.parse().ok()).unwrap_or(4);
            let c = get("--calls").and_then(|s| s.parse().ok()).unwrap_or(6);
            iter_exhaustive(&mut sink, &mut rng, n, c, true, shard);
        }
        "retainx" => {
            let n = get("--entries").and_then(|s| s.parse().ok()).unwrap_or(6);
            retain_exhaustive(&mut sink, &mut rng, n, shard);
        }
        "capx" => capacity_extremes(&mut sink, &mut rng),
        "slide" => sliding_window(&mut sink, &mut rng, shard),
        "tomb" => tombstones(&mut sink, &mut rng, shard),
        "cluster" => clustered(&mut sink, &mut rng, shard),
        "deepreplace" => deep_replace(&mut sink, &mut rng, shard),
        "bigevict" => big_evict(&mut sink, &mut rng, shard),
        "panicx" => panic_systematic(&mut sink, &mut rng, shard, get("--rounds").and_then(|s| s.parse().ok()).unwrap_or(1)),
        "exh" => exhaustive(&mut sink, depth, shard),
        name => {
            let prof = match gen::profile(name) {
                Some(p) => p,
                None => {
                    eprintln!("unknown family {}", name);
                    std::process::exit(2);
                }
            };
            let hashers = gen::hashers_for(name);
            for i in 0..seqs {
                let hk = hashers[i % hashers.len()];
                random_seq(&mut sink, &mut rng, &prof, hk);
            }
        }
    }
    sink.finish(&out);
}
