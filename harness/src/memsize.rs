//! C08 / C09: drives the real `HeapSize`/`ValueSize`/`MemSize` impls on values of ~50 concrete types
//! (every supported constructor and the interesting nestings), built by random scripts of
//! with_capacity / push / extend / reserve / shrink / truncate steps, measures what each value holds
//! from the counting global allocator, and writes type/value descriptors for the Lean model.

use std::collections::{BinaryHeap, HashMap, HashSet};
use std::ffi::{CStr, CString, OsStr, OsString};
use std::fmt::Write as _;
use std::io::Write;
use std::marker::PhantomData;
use std::mem::size_of;
use std::num::Wrapping;
use std::ops::{Range, RangeFrom, RangeInclusive, RangeTo, RangeToInclusive};
use std::path::{Path, PathBuf};
use std::sync::{Mutex, RwLock};

use lru_mem::{HeapSize, MemSize, ValueSize};

use crate::alloc::live_bytes;
use crate::gen::Rng;

pub trait Sample: HeapSize + ValueSize {
    fn ty() -> String;
    fn val(&self) -> String;
}

pub trait Gen: Sample + Sized {
    fn gen(rng: &mut Rng, depth: u32) -> Self;
}

fn len(rng: &mut Rng, depth: u32) -> usize {
    let max = if depth == 0 { 12 } else if depth == 1 { 5 } else { 3 };
    match rng.below(6) {
        0 => 0,
        1 => 1,
        _ => rng.below(max) as usize,
    }
}

macro_rules! prim {
    ($t:ty, $e:expr) => {
        impl Sample for $t {
            fn ty() -> String { format!("prim {}", size_of::<$t>()) }
            fn val(&self) -> String { "unit".to_owned() }
        }
        impl Gen for $t {
            fn gen(rng: &mut Rng, _d: u32) -> $t { let f: fn(&mut Rng) -> $t = $e; f(rng) }
        }
    };
}

prim!(u8, |r| r.next() as u8);
prim!(u64, |r| r.next());
prim!(u32, |r| r.next() as u32);
prim!(i16, |r| r.next() as i16);
prim!(bool, |r| r.chance(1, 2));
prim!((), |_| ());
prim!(char, |r| (b'a' + (r.below(26) as u8)) as char);
prim!(f64, |r| r.below(1000) as f64);
prim!(u128, |r| r.next() as u128);
prim!(std::time::Duration, |r| std::time::Duration::from_millis(r.below(1000)));

fn string_script(rng: &mut Rng) -> String {
    let mut s = if rng.chance(1, 2) { String::with_capacity(rng.below(40) as usize) } else { String::new() };
    for _ in 0..rng.below(5) {
        match rng.below(6) {
            0 => s.push('x'),
            1 => s.push_str(&"y".repeat(rng.below(20) as usize)),
            2 => s.reserve(rng.below(30) as usize),
            3 => s.shrink_to_fit(),
            4 => s.truncate(rng.below(4) as usize),
            _ => s.shrink_to(rng.below(10) as usize),
        }
    }
    s
}

impl Sample for String {
    fn ty() -> String { format!("string {}", size_of::<String>()) }
    fn val(&self) -> String { format!("buf {}", self.capacity()) }
}
impl Gen for String {
    fn gen(rng: &mut Rng, _d: u32) -> String { string_script(rng) }
}

impl Sample for OsString {
    fn ty() -> String { format!("string {}", size_of::<OsString>()) }
    fn val(&self) -> String { format!("buf {}", self.capacity()) }
}
impl Gen for OsString {
    fn gen(rng: &mut Rng, _d: u32) -> OsString {
        let mut s = OsString::with_capacity(rng.below(30) as usize);
        for _ in 0..rng.below(3) {
            s.push("ab");
        }
        if rng.chance(1, 3) { s.shrink_to_fit(); }
        if rng.chance(1, 3) { s.reserve(rng.below(40) as usize); }
        s
    }
}

impl Sample for PathBuf {
    fn ty() -> String { format!("string {}", size_of::<PathBuf>()) }
    fn val(&self) -> String { format!("buf {}", self.capacity()) }
}
impl Gen for PathBuf {
    fn gen(rng: &mut Rng, _d: u32) -> PathBuf {
        let mut p = PathBuf::with_capacity(rng.below(100) as usize);
        for _ in 0..rng.below(3) {
            p.push("a");
        }
        if rng.chance(1, 4) { p.shrink_to_fit(); }
        if rng.chance(1, 4) { p.reserve(rng.below(50) as usize); }
        p
    }
}

impl Sample for CString {
    fn ty() -> String { format!("cstring {}", size_of::<CString>()) }
    fn val(&self) -> String { format!("buf {}", self.as_bytes_with_nul().len()) }
}
impl Gen for CString {
    fn gen(rng: &mut Rng, _d: u32) -> CString {
        let mut v = Vec::with_capacity(rng.below(30) as usize);
        for _ in 0..rng.below(10) { v.push(b'a'); }
        CString::new(v).unwrap()
    }
}

// references: the target is not counted
impl Sample for &'static str {
    fn ty() -> String { format!("ref {} strlike", size_of::<&str>()) }
    fn val(&self) -> String { format!("ref bytes {}", self.len()) }
}
impl Gen for &'static str {
    fn gen(rng: &mut Rng, _d: u32) -> &'static str { ["", "a", "hello world"][rng.below(3) as usize] }
}
impl Sample for &'static u64 {
    fn ty() -> String { format!("ref {} prim 8", size_of::<&u64>()) }
    fn val(&self) -> String { "ref unit".to_owned() }
}
impl Gen for &'static u64 {
    fn gen(_r: &mut Rng, _d: u32) -> &'static u64 { &42 }
}
impl Sample for &'static String {
    fn ty() -> String { format!("ref {} {}", size_of::<&String>(), String::ty()) }
    fn val(&self) -> String { format!("ref {}", (**self).val()) }
}
impl Gen for &'static String {
    fn gen(rng: &mut Rng, _d: u32) -> &'static String {
        // leaked on purpose before measurement: never attributed to the value
        Box::leak(Box::new("x".repeat(rng.below(9) as usize)))
    }
}

// unsized pointees
impl Sample for str {
    fn ty() -> String { "strlike".to_owned() }
    fn val(&self) -> String { format!("bytes {}", self.len()) }
}
impl Sample for CStr {
    fn ty() -> String { "strlike".to_owned() }
    fn val(&self) -> String { format!("bytes {}", self.to_bytes_with_nul().len()) }
}
impl Sample for OsStr {
    fn ty() -> String { "strlike".to_owned() }
    fn val(&self) -> String { format!("bytes {}", self.len()) }
}
impl Sample for Path {
    fn ty() -> String { "path".to_owned() }
    fn val(&self) -> String { format!("bytes {}", self.as_os_str().len()) }
}
impl<T: Sample + MemSize> Sample for [T] {
    fn ty() -> String { format!("slice {}", T::ty()) }
    fn val(&self) -> String {
        let mut s = format!("seq {}", self.len());
        for x in self { write!(s, " {}", x.val()).unwrap(); }
        s
    }
}

impl<T: Sample + MemSize + ?Sized> Sample for Box<T> {
    fn ty() -> String { format!("box {} {}", size_of::<Box<T>>(), T::ty()) }
    fn val(&self) -> String { format!("box {}", (**self).val()) }
}
impl<T: Gen + MemSize> Gen for Box<T> {
    fn gen(rng: &mut Rng, d: u32) -> Box<T> { Box::new(T::gen(rng, d + 1)) }
}
impl Gen for Box<str> {
    fn gen(rng: &mut Rng, _d: u32) -> Box<str> { string_script(rng).into_boxed_str() }
}
impl Gen for Box<CStr> {
    fn gen(rng: &mut Rng, d: u32) -> Box<CStr> { CString::gen(rng, d).into_boxed_c_str() }
}
impl Gen for Box<OsStr> {
    fn gen(rng: &mut Rng, d: u32) -> Box<OsStr> { OsString::gen(rng, d).into_boxed_os_str() }
}
impl Gen for Box<Path> {
    fn gen(rng: &mut Rng, d: u32) -> Box<Path> { PathBuf::gen(rng, d).into_boxed_path() }
}
impl<T: Gen + MemSize> Gen for Box<[T]> {
    fn gen(rng: &mut Rng, d: u32) -> Box<[T]> { Vec::<T>::gen(rng, d).into_boxed_slice() }
}

fn vec_script<T: Gen>(rng: &mut Rng, d: u32) -> Vec<T> {
    let mut v: Vec<T> = if rng.chance(1, 2) { Vec::with_capacity(rng.below(12) as usize) } else { Vec::new() };
    let n = len(rng, d);
    for _ in 0..n { v.push(T::gen(rng, d + 1)); }
    for _ in 0..rng.below(3) {
        match rng.below(5) {
            0 => v.reserve(rng.below(10) as usize),
            1 => v.shrink_to_fit(),
            2 => v.truncate(rng.below(4) as usize),
            3 => v.shrink_to(rng.below(6) as usize),
            _ => { let k = rng.below(3); v.extend((0..k).map(|_| T::gen(&mut Rng::new(k + 7), d + 1))) }
        }
    }
    v
}

impl<T: Sample + MemSize> Sample for Vec<T> {
    fn ty() -> String { format!("vec {} {}", size_of::<Vec<T>>(), T::ty()) }
    fn val(&self) -> String {
        let mut s = format!("coll {} {}", self.capacity(), self.len());
        for x in self { write!(s, " {}", x.val()).unwrap(); }
        s
    }
}
impl<T: Gen + MemSize> Gen for Vec<T> {
    fn gen(rng: &mut Rng, d: u32) -> Vec<T> { vec_script(rng, d) }
}

impl<T: Sample + MemSize + Ord> Sample for BinaryHeap<T> {
    fn ty() -> String { format!("bheap {} {}", size_of::<BinaryHeap<T>>(), T::ty()) }
    fn val(&self) -> String {
        let mut s = format!("coll {} {}", self.capacity(), self.len());
        for x in self.iter() { write!(s, " {}", x.val()).unwrap(); }
        s
    }
}
impl<T: Gen + MemSize + Ord> Gen for BinaryHeap<T> {
    fn gen(rng: &mut Rng, d: u32) -> BinaryHeap<T> {
        let mut h = BinaryHeap::with_capacity(rng.below(10) as usize);
        for _ in 0..len(rng, d) { h.push(T::gen(rng, d + 1)); }
        if rng.chance(1, 3) { h.shrink_to_fit(); }
        if rng.chance(1, 3) { h.reserve(rng.below(9) as usize); }
        h
    }
}

impl Sample for std::collections::hash_map::RandomState {
    fn ty() -> String { format!("prim {}", size_of::<std::collections::hash_map::RandomState>()) }
    fn val(&self) -> String { "unit".to_owned() }
}

impl<T: Sample + MemSize + Eq + std::hash::Hash> Sample for HashSet<T> {
    fn ty() -> String {
        format!("hset {} {} {}", size_of::<HashSet<T>>(), T::ty(), std::collections::hash_map::RandomState::ty())
    }
    fn val(&self) -> String {
        let mut s = format!("set {} {}", self.capacity(), self.len());
        for x in self.iter() { write!(s, " {}", x.val()).unwrap(); }
        s.push_str(" unit");
        s
    }
}
impl<T: Gen + MemSize + Eq + std::hash::Hash> Gen for HashSet<T> {
    fn gen(rng: &mut Rng, d: u32) -> HashSet<T> {
        let mut h = if rng.chance(1, 2) { HashSet::with_capacity(rng.below(20) as usize) } else { HashSet::new() };
        for _ in 0..len(rng, d) { h.insert(T::gen(rng, d + 1)); }
        if rng.chance(1, 4) { h.shrink_to_fit(); }
        if rng.chance(1, 4) { h.reserve(rng.below(20) as usize); }
        h
    }
}

impl<K: Sample + MemSize + Eq + std::hash::Hash, V: Sample + MemSize> Sample for HashMap<K, V> {
    fn ty() -> String {
        format!("hmap {} {} {} {} {}", size_of::<HashMap<K, V>>(), size_of::<(K, V)>(), K::ty(), V::ty(),
            std::collections::hash_map::RandomState::ty())
    }
    fn val(&self) -> String {
        let mut s = format!("map {} {}", self.capacity(), self.len());
        let items: Vec<(&K, &V)> = self.iter().collect();
        for (k, _) in &items { write!(s, " {}", k.val()).unwrap(); }
        for (_, v) in &items { write!(s, " {}", v.val()).unwrap(); }
        s.push_str(" unit");
        s
    }
}
impl<K: Gen + MemSize + Eq + std::hash::Hash, V: Gen + MemSize> Gen for HashMap<K, V> {
    fn gen(rng: &mut Rng, d: u32) -> HashMap<K, V> {
        let mut h = if rng.chance(1, 2) { HashMap::with_capacity(rng.below(20) as usize) } else { HashMap::new() };
        for _ in 0..len(rng, d) { h.insert(K::gen(rng, d + 1), V::gen(rng, d + 1)); }
        if rng.chance(1, 4) { h.shrink_to_fit(); }
        if rng.chance(1, 4) { h.reserve(rng.below(20) as usize); }
        h
    }
}

impl<T: Sample + MemSize, const N: usize> Sample for [T; N] {
    fn ty() -> String { format!("array {} {} {}", size_of::<[T; N]>(), N, T::ty()) }
    fn val(&self) -> String {
        let mut s = format!("seq {}", N);
        for x in self { write!(s, " {}", x.val()).unwrap(); }
        s
    }
}
impl<T: Gen + MemSize, const N: usize> Gen for [T; N] {
    fn gen(rng: &mut Rng, d: u32) -> [T; N] { std::array::from_fn(|_| T::gen(rng, d + 1)) }
}

impl<T: Sample + MemSize> Sample for Option<T> {
    fn ty() -> String { format!("option {} {}", size_of::<Option<T>>(), T::ty()) }
    fn val(&self) -> String {
        match self { None => "none".to_owned(), Some(x) => format!("some {}", x.val()) }
    }
}
impl<T: Gen + MemSize> Gen for Option<T> {
    fn gen(rng: &mut Rng, d: u32) -> Option<T> { if rng.chance(1, 3) { None } else { Some(T::gen(rng, d + 1)) } }
}

impl<T: Sample + MemSize, E: Sample + MemSize> Sample for Result<T, E> {
    fn ty() -> String { format!("result {} {} {}", size_of::<Result<T, E>>(), T::ty(), E::ty()) }
    fn val(&self) -> String {
        match self { Ok(x) => format!("ok {}", x.val()), Err(e) => format!("err {}", e.val()) }
    }
}
impl<T: Gen + MemSize, E: Gen + MemSize> Gen for Result<T, E> {
    fn gen(rng: &mut Rng, d: u32) -> Result<T, E> {
        if rng.chance(1, 2) { Ok(T::gen(rng, d + 1)) } else { Err(E::gen(rng, d + 1)) }
    }
}

impl<T: Sample + MemSize> Sample for Wrapping<T> {
    fn ty() -> String { format!("wrapping {} {}", size_of::<Wrapping<T>>(), T::ty()) }
    fn val(&self) -> String { format!("wrap {}", self.0.val()) }
}
impl<T: Gen + MemSize> Gen for Wrapping<T> {
    fn gen(rng: &mut Rng, d: u32) -> Wrapping<T> { Wrapping(T::gen(rng, d + 1)) }
}

impl<T: Sample + MemSize> Sample for Range<T> {
    fn ty() -> String { format!("range2 {} {}", size_of::<Range<T>>(), T::ty()) }
    fn val(&self) -> String { format!("two {} {}", self.start.val(), self.end.val()) }
}
impl<T: Gen + MemSize> Gen for Range<T> {
    fn gen(rng: &mut Rng, d: u32) -> Range<T> { T::gen(rng, d + 1)..T::gen(rng, d + 1) }
}
impl<T: Sample + MemSize> Sample for RangeInclusive<T> {
    fn ty() -> String { format!("range2 {} {}", size_of::<RangeInclusive<T>>(), T::ty()) }
    fn val(&self) -> String { format!("two {} {}", self.start().val(), self.end().val()) }
}
impl<T: Gen + MemSize> Gen for RangeInclusive<T> {
    fn gen(rng: &mut Rng, d: u32) -> RangeInclusive<T> { T::gen(rng, d + 1)..=T::gen(rng, d + 1) }
}
impl<T: Sample + MemSize> Sample for RangeFrom<T> {
    fn ty() -> String { format!("range1 {} {}", size_of::<RangeFrom<T>>(), T::ty()) }
    fn val(&self) -> String { format!("one {}", self.start.val()) }
}
impl<T: Gen + MemSize> Gen for RangeFrom<T> {
    fn gen(rng: &mut Rng, d: u32) -> RangeFrom<T> { T::gen(rng, d + 1).. }
}
impl<T: Sample + MemSize> Sample for RangeTo<T> {
    fn ty() -> String { format!("range1 {} {}", size_of::<RangeTo<T>>(), T::ty()) }
    fn val(&self) -> String { format!("one {}", self.end.val()) }
}
impl<T: Gen + MemSize> Gen for RangeTo<T> {
    fn gen(rng: &mut Rng, d: u32) -> RangeTo<T> { ..T::gen(rng, d + 1) }
}
impl<T: Sample + MemSize> Sample for RangeToInclusive<T> {
    fn ty() -> String { format!("range1 {} {}", size_of::<RangeToInclusive<T>>(), T::ty()) }
    fn val(&self) -> String { format!("one {}", self.end.val()) }
}
impl<T: Gen + MemSize> Gen for RangeToInclusive<T> {
    fn gen(rng: &mut Rng, d: u32) -> RangeToInclusive<T> { ..=T::gen(rng, d + 1) }
}

impl<T: Sample + MemSize> Sample for Mutex<T> {
    fn ty() -> String { format!("lock {} {}", size_of::<Mutex<T>>(), T::ty()) }
    fn val(&self) -> String { format!("wrap {}", self.lock().unwrap().val()) }
}
impl<T: Gen + MemSize> Gen for Mutex<T> {
    fn gen(rng: &mut Rng, d: u32) -> Mutex<T> { Mutex::new(T::gen(rng, d + 1)) }
}
impl<T: Sample + MemSize> Sample for RwLock<T> {
    fn ty() -> String { format!("lock {} {}", size_of::<RwLock<T>>(), T::ty()) }
    fn val(&self) -> String { format!("wrap {}", self.read().unwrap().val()) }
}
impl<T: Gen + MemSize> Gen for RwLock<T> {
    fn gen(rng: &mut Rng, d: u32) -> RwLock<T> { RwLock::new(T::gen(rng, d + 1)) }
}

impl<T> Sample for PhantomData<T> {
    fn ty() -> String { "phantom".to_owned() }
    fn val(&self) -> String { "unit".to_owned() }
}
impl<T> Gen for PhantomData<T> {
    fn gen(_r: &mut Rng, _d: u32) -> PhantomData<T> { PhantomData }
}

macro_rules! tuple_sample {
    ($($t:ident $i:tt),+) => {
        impl<$($t: Sample + MemSize),+> Sample for ($($t,)+) {
            fn ty() -> String {
                let parts: Vec<String> = vec![$($t::ty()),+];
                format!("tuple {} {} {}", size_of::<($($t,)+)>(), parts.len(), parts.join(" "))
            }
            fn val(&self) -> String {
                let parts: Vec<String> = vec![$(self.$i.val()),+];
                format!("tup {} {}", parts.len(), parts.join(" "))
            }
        }
        impl<$($t: Gen + MemSize),+> Gen for ($($t,)+) {
            fn gen(rng: &mut Rng, d: u32) -> ($($t,)+) { ($($t::gen(rng, d + 1),)+) }
        }
    };
}
tuple_sample!(A 0);
tuple_sample!(A 0, B 1);
tuple_sample!(A 0, B 1, C 2);
tuple_sample!(A 0, B 1, C 2, D 3);
tuple_sample!(A 0, B 1, C 2, D 3, E 4);
tuple_sample!(A 0, B 1, C 2, D 3, E 4, F 5);
tuple_sample!(A 0, B 1, C 2, D 3, E 4, F 5, G 6);
tuple_sample!(A 0, B 1, C 2, D 3, E 4, F 5, G 6, H 7);
tuple_sample!(A 0, B 1, C 2, D 3, E 4, F 5, G 6, H 7, I 8);
tuple_sample!(A 0, B 1, C 2, D 3, E 4, F 5, G 6, H 7, I 8, J 9);

/// A user-defined type with its own `heap_size` and the trait's default bulk helpers: a `Copy` handle (no drop
/// glue) that reports the bytes it stands for elsewhere — legal, and nothing the crate may second-guess.
#[derive(Clone, Copy, PartialEq, Eq, Hash, PartialOrd, Ord, Debug)]
pub struct Handle(pub u32);
impl lru_mem::HeapSize for Handle {
    fn heap_size(&self) -> usize { self.0 as usize }
}
impl Sample for Handle {
    fn ty() -> String { format!("user {}", size_of::<Handle>()) }
    fn val(&self) -> String { format!("buf {}", self.0) }
}
impl Gen for Handle {
    fn gen(rng: &mut Rng, _d: u32) -> Handle { Handle(if rng.chance(1, 4) { 0 } else { rng.below(200) as u32 }) }
}

/// A user-defined *unsized* type with its own `value_size` (rounded up to an allocator block, i.e. not
/// `size_of_val`), measured through `Box<dyn Blob>` and containers of it: the trait's default
/// `value_size_sum_*` helpers must go through `value_size`.
pub trait Blob { fn payload(&self) -> usize; }
pub struct Blob8(pub [u8; 8]);
pub struct Blob40(pub [u8; 40]);
impl Blob for Blob8 { fn payload(&self) -> usize { self.0.len() } }
impl Blob for Blob40 { fn payload(&self) -> usize { self.0.len() } }
impl lru_mem::ValueSize for dyn Blob {
    fn value_size(&self) -> usize { (std::mem::size_of_val(self) + 31) / 32 * 32 + 16 }
}
impl lru_mem::HeapSize for dyn Blob {
    fn heap_size(&self) -> usize { 0 }
}
impl Sample for dyn Blob {
    fn ty() -> String { "userdyn".to_owned() }
    fn val(&self) -> String { format!("bytes {}", lru_mem::ValueSize::value_size(self)) }
}
impl Gen for Box<dyn Blob> {
    fn gen(rng: &mut Rng, _d: u32) -> Box<dyn Blob> { if rng.chance(1, 2) { Box::new(Blob8([1; 8])) } else { Box::new(Blob40([2; 40])) } }
}

pub struct MemOut {
    pub ops: std::io::BufWriter<std::fs::File>,
    pub obs: std::io::BufWriter<std::fs::File>,
    pub mon: std::io::BufWriter<std::fs::File>,
    pub values: u64,
    pub helper_lines: u64,
    pub failures: u64,
    pub types: std::collections::BTreeMap<String, u64>,
    pub spare: u64,
    pub samples: Vec<String>,
}

/// One type: `rounds` values measured one by one, then the bulk helpers over lists of them through
/// plain, filtered, mapped and chained iterators.
pub fn run_type<T: Gen + MemSize + 'static>(out: &mut MemOut, rng: &mut Rng, rounds: usize, name: &str) {
    let ty = T::ty();
    *out.types.entry(name.to_owned()).or_default() += rounds as u64;
    let mut kept: Vec<T> = Vec::new();
    for _ in 0..rounds {
        let before = live_bytes();
        let v = T::gen(rng, 0);
        let held = live_bytes() - before;
        let heap = v.heap_size();
        let val = v.value_size();
        let mem = v.mem_size();
        let desc = v.val();
        writeln!(out.ops, "M {} ; {}", ty, desc).unwrap();
        // a reference's target is not owned by the value: nothing the generator leaked for it counts
        let held = if ty.starts_with("ref ") { 0 } else { held };
        writeln!(out.obs, "heap={} val={} mem={} alloc={}", heap, val, mem, held).unwrap();
        out.values += 1;
        if out.samples.len() < 6 && desc.len() < 160 {
            out.samples.push(format!("{} : {} => heap={} alloc={}", name, desc, heap, held));
        }
        // implementation-side monitors
        if mem != val + heap {
            out.failures += 1;
            writeln!(out.mon, "FAIL C08 type={} :: mem_size {} != value_size {} + heap_size {} for {}", name, mem, val, heap, desc).unwrap();
        }
        // what a user type reports is its author's business, not the allocator's (C09 is about std's owned buffers)
        let hashy = ty.contains("hset") || ty.contains("hmap");
        let user = ty.contains("user");
        let borrowed = ty.starts_with("ref ");
        if !hashy && !borrowed && !user && heap as isize != held {
            out.failures += 1;
            writeln!(out.mon, "FAIL C09 type={} :: heap_size {} but the allocator holds {} bytes for {}", name, heap, held, desc).unwrap();
        }
        if hashy && !user && heap as isize > held {
            out.failures += 1;
            writeln!(out.mon, "FAIL C09 type={} :: heap_size {} exceeds the {} bytes held from the allocator for {}", name, heap, held, desc).unwrap();
        }
        if held > 0 && (desc.contains("coll") || desc.contains("buf")) {
            out.spare += 1;
        }
        kept.push(v);
        if kept.len() >= 7 || rng.chance(1, 5) {
            helpers(out, &ty, name, &kept);
            kept.clear();
        }
    }
    helpers(out, &ty, name, &kept);
}

fn helpers<T: Gen + MemSize>(out: &mut MemOut, ty: &str, name: &str, items: &[T]) {
    let naive_h: usize = items.iter().map(|x| x.heap_size()).sum();
    let naive_v: usize = items.iter().map(|x| x.value_size()).sum();
    let hsi = T::heap_size_sum_iter(|| items.iter());
    let hse = T::heap_size_sum_exact_size_iter(|| items.iter());
    let vsi = T::value_size_sum_iter(items.iter());
    let vse = T::value_size_sum_exact_size_iter(items.iter());
    // the same through adapters (filtered, mapped, chained, reversed)
    let variants = [
        T::heap_size_sum_iter(|| items.iter().filter(|_| true)),
        T::heap_size_sum_iter(|| items.iter().map(|x| x)),
        T::heap_size_sum_iter(|| items.iter().take(items.len() / 2).chain(items.iter().skip(items.len() / 2))),
        T::heap_size_sum_exact_size_iter(|| items.iter().rev()),
        T::heap_size_sum_exact_size_iter(|| items.iter().map(|x| x)),
    ];
    let vvariants = [
        T::value_size_sum_iter(items.iter().filter(|_| true)),
        T::value_size_sum_iter(items.iter().take(items.len() / 2).chain(items.iter().skip(items.len() / 2))),
        T::value_size_sum_exact_size_iter(items.iter().rev()),
    ];
    let mut s = format!("H {} ; {}", ty, items.len());
    for x in items { write!(s, " {}", x.val()).unwrap(); }
    writeln!(out.ops, "{}", s).unwrap();
    writeln!(out.obs, "hsi={} hse={} vsi={} vse={}", hsi, hse, vsi, vse).unwrap();
    out.helper_lines += 1;
    if hsi != naive_h || hse != naive_h || variants.iter().any(|x| *x != naive_h) {
        out.failures += 1;
        writeln!(out.mon, "FAIL C08 type={} :: heap-size bulk helpers {} / {} / {:?} differ from the element-wise sum {} over {} items",
            name, hsi, hse, variants, naive_h, items.len()).unwrap();
    }
    if vsi != naive_v || vse != naive_v || vvariants.iter().any(|x| *x != naive_v) {
        out.failures += 1;
        writeln!(out.mon, "FAIL C08 type={} :: value-size bulk helpers {} / {} / {:?} differ from the element-wise sum {}",
            name, vsi, vse, vvariants, naive_v).unwrap();
    }
    // half of the items filtered out
    let mut k = 0;
    let half: Vec<&T> = items.iter().filter(|_| { k += 1; k % 2 == 0 }).collect();
    let want: usize = half.iter().map(|x| T::heap_size(*x)).sum();
    let got = T::heap_size_sum_iter(|| { let mut j = 0; items.iter().filter(move |_| { j += 1; j % 2 == 0 }) });
    if want != got {
        out.failures += 1;
        let hs: Vec<usize> = items.iter().map(|x| x.heap_size()).collect();
        writeln!(out.mon, "FAIL C08 type={} :: heap_size_sum_iter over a filtered iterator gives {} instead of {} (items {:?})", name, got, want, hs).unwrap();
    }
}

macro_rules! types {
    ($out:expr, $rng:expr, $rounds:expr; $($t:ty),+ $(,)?) => {
        $( run_type::<$t>($out, $rng, $rounds, stringify!($t)); )+
    };
}

pub fn run_all(out: &mut MemOut, rng: &mut Rng, rounds: usize) {
    types!(out, rng, rounds;
        u8, u64, bool, (), char, f64, u128, std::time::Duration,
        String, OsString, PathBuf, CString, &'static str, &'static u64, &'static String,
        Box<u64>, Box<str>, Box<CStr>, Box<OsStr>, Box<Path>, Box<[u8]>, Box<[String]>, Box<String>, Box<Vec<String>>,
        Box<[Box<str>]>, Box<(String, u8)>, Box<[u64; 3]>, Box<()>,
        Vec<u8>, Vec<String>, Vec<Vec<u8>>, Vec<Box<str>>, Vec<(String, u64)>, Vec<Option<String>>, Vec<[String; 2]>,
        Vec<[String; 0]>, Vec<[u8; 4]>, Vec<Box<[String; 2]>>, Vec<Wrapping<u32>>, Vec<()>, Vec<Box<Vec<String>>>,
        Vec<(Box<String>, [Vec<u8>; 2], Option<Box<str>>)>,
        [String; 3], [u8; 16], [String; 0], [Vec<String>; 2], [[String; 2]; 2], [(String, Box<u8>); 2], [Box<[String; 2]>; 2],
        (String,), (u8, String), (String, Vec<u8>, Box<str>), (u8, u16x, u32, u64), (String, String, String, String, String),
        (u8, String, u8, String, u8, String), (String, u8, u8, u8, u8, u8, String),
        (u8, u8, u8, u8, String, u8, u8, u8), (String, u8, u8, u8, u8, u8, u8, u8, Vec<u8>),
        (u8, String, u8, u8, u8, Box<str>, u8, u8, u8, Vec<String>),
        Option<String>, Option<Box<Vec<u8>>>, Option<u64>, Result<String, Vec<u8>>, Result<u8, Box<str>>,
        Wrapping<u64>, Wrapping<u8>, Range<String>, RangeInclusive<u64>, RangeFrom<String>, RangeTo<Vec<u8>>, RangeToInclusive<String>,
        Mutex<String>, Mutex<Vec<String>>, RwLock<Vec<u8>>, RwLock<Box<str>>, PhantomData<String>,
        BinaryHeap<u64>, BinaryHeap<String>, BinaryHeap<(u8, String)>,
        HashSet<u64>, HashSet<String>, HashMap<u64, String>, HashMap<String, Vec<u8>>, HashMap<u8, [String; 2]>,
        Vec<HashMap<u8, String>>, Option<HashSet<String>>,
        // every wrapper once more *inside* a collection: the bulk-helper overrides of the element type
        // decide what the container reports
        Vec<Result<String, Vec<u8>>>, Box<[Result<u8, Box<str>>]>, [Result<String, String>; 3], Vec<Option<Result<u8, String>>>,
        Vec<Range<String>>, Vec<RangeFrom<String>>, Vec<RangeTo<Vec<u8>>>, Vec<RangeToInclusive<String>>, Box<[Range<String>]>,
        [Range<String>; 2], Vec<Mutex<String>>, Vec<RwLock<Vec<u8>>>, Vec<PathBuf>, Vec<OsString>, Vec<CString>,
        Vec<BinaryHeap<String>>, BinaryHeap<Option<String>>, HashMap<String, Result<u8, String>>, HashMap<u8, Range<String>>,
        HashSet<Option<String>>, Option<Result<String, Vec<u8>>>, (Result<String, String>, Option<Vec<u8>>),
        Vec<(Range<String>, Result<u8, String>)>, Vec<Wrapping<u64>>, Vec<Box<Result<String, u8>>>,
        // payloads whose exact-size helper multiplies by the iterator's length (Box of a sized type), behind wrappers
        // that may hold nothing
        Vec<Option<Box<u64>>>, Vec<Option<Box<String>>>, [Option<Box<u32>>; 3], BinaryHeap<Option<Box<u8>>>,
        Vec<Option<(Box<u8>, u8)>>, Vec<Option<[Box<u8>; 2]>>, Vec<Option<Wrapping<Box<u32>>>>, Box<[Option<Box<u64>>]>,
        Vec<Result<Box<u64>, Box<u8>>>, Vec<Wrapping<Box<u64>>>, Vec<Range<Box<u64>>>, Vec<(Option<Box<u64>>, Option<Box<u8>>)>,
        Vec<Option<Option<Box<u64>>>>, Vec<[Option<Box<u8>>; 2]>, Vec<Box<Option<Box<u64>>>>, Option<Vec<Option<Box<u64>>>>,
        // a user-defined type (own heap_size, default helpers, no drop glue) alone and inside every kind of container
        Handle, Vec<Handle>, [Handle; 3], Box<[Handle]>, (Handle, u8), Option<Handle>, Vec<Option<Handle>>, HashMap<u8, Handle>,
        Vec<(Box<Handle>, u8)>, Box<Handle>, Vec<[Handle; 2]>, BinaryHeap<Handle>, HashSet<Handle>, Wrapping<Handle>, Vec<Wrapping<Handle>>,
        Range<Handle>, Vec<Result<Handle, String>>, Mutex<Vec<Handle>>,
        // a user-defined unsized type (own value_size, default helpers) behind Box, alone and in containers
        Box<dyn Blob>, Vec<Box<dyn Blob>>, [Box<dyn Blob>; 2], Box<[Box<dyn Blob>]>, Vec<(Box<dyn Blob>, u8)>, Option<Box<dyn Blob>>,
        Vec<Option<Box<dyn Blob>>>,
    );
}

#[allow(non_camel_case_types)]
type u16x = i16;

/// Totality: every helper on millions of elements, on a small stack (run in a debug build).
pub fn stack_probe(n: usize) -> Result<(), String> {
    let handle = std::thread::Builder::new()
        .stack_size(256 * 1024)
        .spawn(move || {
            let zst: Vec<[String; 0]> = vec![[]; n];
            let a = zst.heap_size();
            let b = <[String; 0]>::heap_size_sum_exact_size_iter(|| zst.iter());
            let c = <[String; 0]>::heap_size_sum_iter(|| zst.iter());
            let mixed: Vec<[String; 0]> = vec![[]; n];
            let bytes: Vec<u8> = vec![0; n];
            let d = bytes.heap_size() + u8::heap_size_sum_iter(|| bytes.iter());
            let units: Vec<()> = vec![(); n];
            let e = units.heap_size();
            let strings: Vec<String> = (0..n / 20).map(|_| String::new()).collect();
            let f = strings.heap_size() + String::heap_size_sum_iter(|| strings.iter().filter(|s| s.is_empty()));
            let arrs: Vec<[u8; 2]> = vec![[0; 2]; n / 2];
            let g = arrs.heap_size() + <[u8; 2]>::heap_size_sum_exact_size_iter(|| arrs.iter());
            let boxes: Vec<Box<[String; 0]>> = (0..n / 50).map(|_| Box::new([])).collect();
            let h = boxes.heap_size();
            let tup: Vec<(u8, [String; 0])> = (0..n / 10).map(|_| (0, [])).collect();
            let i = tup.heap_size() + <(u8, [String; 0])>::value_size_sum_iter(tup.iter());
            let nested: Vec<[[String; 0]; 3]> = vec![[[], [], []]; n / 4];
            let j = nested.heap_size();
            let _ = mixed;
            // zero-sized elements make astronomically long slices legal (no memory is involved): every helper must
            // still return the element-wise sum — 0 — without overflowing a count of elements on the way
            let huge = |n: usize| -> Box<[()]> { let mut u: Vec<()> = Vec::new(); unsafe { u.set_len(n) }; u.into_boxed_slice() };
            let vv: Vec<Box<[()]>> = vec![huge(usize::MAX / 2 + 7), huge(usize::MAX / 2 + 9), huge(usize::MAX)];
            let own = vv.capacity() * std::mem::size_of::<Box<[()]>>();
            let k = [
                vv.heap_size() - own,
                <[()]>::value_size_sum_iter(vv.iter().map(|b| &**b)),
                <[()]>::value_size_sum_exact_size_iter(vv.iter().map(|b| &**b)),
                <[()]>::heap_size_sum_iter(|| vv.iter().map(|b| &**b)),
                <[()]>::heap_size_sum_exact_size_iter(|| vv.iter().map(|b| &**b)),
                <Box<[()]>>::heap_size_sum_iter(|| vv.iter()),
                <Box<[()]>>::heap_size_sum_exact_size_iter(|| vv.iter()),
                vv.iter().map(|b| b.mem_size() - std::mem::size_of::<Box<[()]>>()).sum::<usize>(),
            ];
            assert!(k.iter().all(|x| *x == 0), "size estimation of huge zero-sized-element slices: {:?}", k);
            // vectors of zero-sized elements report capacity usize::MAX: sums of capacities must not be formed
            let zv: Vec<Vec<()>> = vec![vec![(); 3], Vec::new(), vec![(); 1]];
            let za2: [Vec<()>; 2] = [vec![(); 2], vec![(); 5]];
            let zb: Box<[Vec<[u8; 0]>]> = vec![vec![[0u8; 0]; 4], vec![[0u8; 0]; 1]].into_boxed_slice();
            let zt: Vec<(Vec<()>, Vec<()>)> = vec![(vec![(); 1], vec![(); 2]), (Vec::new(), vec![(); 9])];
            let k2 = [
                zv.heap_size() - zv.capacity() * std::mem::size_of::<Vec<()>>(),
                za2.heap_size(),
                zb.heap_size() - zb.len() * std::mem::size_of::<Vec<[u8; 0]>>(),
                zt.heap_size() - zt.capacity() * std::mem::size_of::<(Vec<()>, Vec<()>)>(),
                <Vec<()>>::heap_size_sum_iter(|| zv.iter()),
                <Vec<()>>::heap_size_sum_exact_size_iter(|| zv.iter()),
                <Vec<()>>::heap_size_sum_iter(|| za2.iter().filter(|_| true)),
            ];
            assert!(k2.iter().all(|x| *x == 0), "size estimation of vectors of zero-sized elements: {:?}", k2);
            let za: Vec<[(); 1 << 40]> = { let mut u = Vec::new(); unsafe { u.set_len(1 << 30) }; u };
            assert_eq!(0, za.heap_size());
            assert_eq!(0, <[(); 1 << 40]>::heap_size_sum_iter(|| za.iter().take(3)));
            a + b + c + d + e + f + g + h + i + j
        })
        .map_err(|e| e.to_string())?;
    handle.join().map(|_| ()).map_err(|_| "panicked".to_owned())
}
