//! Implementation-side monitors: each given property stated directly against what the real cache
//! returned and what can be observed of it, independent of the Lean model. They are the search for
//! a concrete failing input; a monitor failure is a replayable violation of that property.

use crate::exec::*;
use crate::ops::{IterKind, Op, OpKind};
use crate::types::*;

#[derive(Clone, Debug)]
pub struct Fail {
    pub prop: &'static str,
    pub msg: String,
}

fn fail(v: &mut Vec<Fail>, prop: &'static str, msg: String) {
    v.push(Fail { prop, msg });
}

/// smallest n such that the sizes of l[n..] sum to at most t
fn need(l: &[SE], t: usize) -> usize {
    let mut sum: u128 = l.iter().map(|e| e.esize as u128).sum();
    let mut n = 0;
    while sum > t as u128 {
        sum -= l[n].esize as u128;
        n += 1;
    }
    n
}

fn find<'a>(l: &'a [SE], id: u32) -> Option<&'a SE> {
    l.iter().find(|e| e.k.id == id)
}

fn without(l: &[SE], id: u32) -> Vec<SE> {
    l.iter().filter(|e| e.k.id != id).cloned().collect()
}

fn ids(l: &[SE]) -> Vec<u32> {
    l.iter().map(|e| e.k.id).collect()
}

/// What the properties say the operation must return and leave behind.
pub struct Expect {
    pub ret: Option<Ret>,
    pub ord: Vec<SE>,
    pub max: usize,
    /// entries that must have left the cache, in order of departure
    pub departed: Vec<SE>,
    /// which property owns a wrong return value / wrong contents for this op
    pub ret_prop: &'static str,
    pub set_prop: &'static str,
}

pub fn expect(pre: &Snap, op: &OpKind, ovh: usize, vsz: usize) -> Expect {
    let l = &pre.ord;
    let max = pre.max;
    let cur: usize = pre.cur;
    let same = |ret: Option<Ret>, rp: &'static str| Expect {
        ret,
        ord: l.clone(),
        max,
        departed: vec![],
        ret_prop: rp,
        set_prop: "C03",
    };
    let promote = |id: u32| -> Vec<SE> {
        match find(l, id) {
            Some(e) => {
                let mut v = without(l, id);
                v.push(e.clone());
                v
            }
            None => l.clone(),
        }
    };
    let pair = |e: &SE| (e.k, e.v);
    match op {
        OpKind::Ins { id, kh, kt, vh, vt } => {
            let k = KD { id: *id, heap: *kh, tok: *kt };
            let v = VD { heap: *vh, tok: *vt };
            let s = kh + vh + ovh;
            if s > max {
                return same(Some(Ret::InsBig(k, v, s, max)), "C10");
            }
            let old = find(l, *id).cloned();
            let l0 = without(l, *id);
            let n = need(&l0, max - s);
            let mut ord = l0[n..].to_vec();
            ord.push(SE { k, v, esize: s });
            let mut departed: Vec<SE> = old.iter().cloned().collect();
            departed.extend_from_slice(&l0[..n]);
            Expect { ret: Some(Ret::OwnVal(old.map(|e| e.v))), ord, max, departed, ret_prop: "C04", set_prop: "C03" }
        }
        OpKind::TIns { id, kh, kt, vh, vt } => {
            let k = KD { id: *id, heap: *kh, tok: *kt };
            let v = VD { heap: *vh, tok: *vt };
            let s = kh + vh + ovh;
            if s > max {
                return same(Some(Ret::TryBig(k, v, s, max)), "C10");
            }
            // (a broken pre-state with current_size > max_size — reported where it arose — must not take the reference down)
            let free = max.saturating_sub(cur);
            if s > free {
                return same(Some(Ret::TryEvict(k, v, s, free)), "C10");
            }
            if find(l, *id).is_some() {
                return same(Some(Ret::TryOcc(k, v)), "C10");
            }
            let mut ord = l.clone();
            ord.push(SE { k, v, esize: s });
            Expect { ret: Some(Ret::Unit), ord, max, departed: vec![], ret_prop: "C10", set_prop: "C10" }
        }
        OpKind::Get(id) => Expect {
            ret: Some(Ret::RefVal(find(l, *id).map(|e| e.v))),
            ord: promote(*id),
            ..same(None, "C04")
        },
        OpKind::GetE(id) => Expect {
            ret: Some(Ret::RefPair(find(l, *id).map(pair))),
            ord: promote(*id),
            ..same(None, "C04")
        },
        OpKind::Touch(id) => Expect { ret: Some(Ret::Unit), ord: promote(*id), ..same(None, "C04") },
        OpKind::Peek(id) => same(Some(Ret::RefVal(find(l, *id).map(|e| e.v))), "C04"),
        OpKind::PeekE(id) => same(Some(Ret::RefPair(find(l, *id).map(pair))), "C04"),
        OpKind::Has(id) => same(Some(Ret::Bool(find(l, *id).is_some())), "C04"),
        OpKind::Rm(id) => Expect {
            ret: Some(Ret::OwnVal(find(l, *id).map(|e| e.v))),
            ord: without(l, *id),
            departed: find(l, *id).into_iter().cloned().collect(),
            ..same(None, "C04")
        },
        OpKind::RmE(id) => Expect {
            ret: Some(Ret::OwnPair(find(l, *id).map(pair))),
            ord: without(l, *id),
            departed: find(l, *id).into_iter().cloned().collect(),
            ..same(None, "C04")
        },
        OpKind::RmLru => Expect {
            ret: Some(Ret::OwnPair(l.first().map(pair))),
            ord: l.iter().skip(1).cloned().collect(),
            departed: l.first().into_iter().cloned().collect(),
            ..same(None, "C05")
        },
        OpKind::RmMru => Expect {
            ret: Some(Ret::OwnPair(l.last().map(pair))),
            ord: l[..l.len().saturating_sub(1)].to_vec(),
            departed: l.last().into_iter().cloned().collect(),
            ..same(None, "C05")
        },
        OpKind::GetLru => Expect {
            ret: Some(Ret::RefPair(l.first().map(pair))),
            ord: match l.first() {
                Some(e) => promote(e.k.id),
                None => vec![],
            },
            ..same(None, "C05")
        },
        OpKind::PeekLru => same(Some(Ret::RefPair(l.first().map(pair))), "C05"),
        OpKind::PeekMru => same(Some(Ret::RefPair(l.last().map(pair))), "C05"),
        OpKind::SetMax(m) => {
            let n = need(l, *m);
            Expect {
                ret: Some(Ret::Unit),
                ord: l[n..].to_vec(),
                max: *m,
                departed: l[..n].to_vec(),
                ret_prop: "C03",
                set_prop: "C03",
            }
        }
        OpKind::Reserve(_) | OpKind::Shrink(_) | OpKind::ShrinkFit => Expect { set_prop: "C13", ..same(None, "C13") },
        OpKind::TryReserve(_) => Expect { set_prop: "C13", ..same(None, "C13") },
        OpKind::MutSet { id, h } | OpKind::MutRep { id, h, .. } => {
            let e = match find(l, *id) {
                None => return Expect { set_prop: "C11", ..same(Some(Ret::MutNone), "C11") },
                Some(e) => e.clone(),
            };
            let newv = match op {
                OpKind::MutRep { tok, .. } => VD { heap: *h, tok: *tok },
                _ => VD { heap: *h, tok: e.v.tok },
            };
            let _ = vsz;
            let news = e.k.heap + newv.heap + ovh;
            let others = without(l, *id);
            if news > max {
                return Expect {
                    ret: Some(Ret::MutBig(e.k, newv, e.esize, news, max)),
                    ord: others,
                    max,
                    departed: vec![],
                    ret_prop: "C11",
                    set_prop: "C11",
                };
            }
            let n = need(&others, max - news);
            let mut ord = others[n..].to_vec();
            ord.push(SE { k: e.k, v: newv, esize: news });
            Expect {
                ret: Some(Ret::MutOk(e.v.heap)),
                ord,
                max,
                departed: others[..n].to_vec(),
                ret_prop: "C11",
                set_prop: if n > 0 { "C03" } else { "C11" },
            }
        }
        OpKind::RetainIdx(bits) => {
            let mut ord = vec![];
            let mut dep = vec![];
            for (i, e) in l.iter().enumerate() {
                if bits.get(i).copied().unwrap_or(true) {
                    ord.push(e.clone());
                } else {
                    dep.push(e.clone());
                }
            }
            Expect { ret: Some(Ret::Unit), ord, max, departed: dep, ret_prop: "C15", set_prop: "C15" }
        }
        OpKind::RetainIds(idsx) => {
            let mut ord = vec![];
            let mut dep = vec![];
            for e in l.iter() {
                if !idsx.contains(&e.k.id) {
                    ord.push(e.clone());
                } else {
                    dep.push(e.clone());
                }
            }
            Expect { ret: Some(Ret::Unit), ord, max, departed: dep, ret_prop: "C15", set_prop: "C15" }
        }
        OpKind::Clear => Expect {
            ret: Some(Ret::Unit),
            ord: vec![],
            max,
            departed: l.clone(),
            ret_prop: "C06",
            set_prop: "C02",
        },
        OpKind::It { kind, calls, .. } => {
            let mut rem: Vec<SE> = l.clone();
            let mut items = vec![];
            for f in calls {
                let x = if rem.is_empty() {
                    None
                } else if *f {
                    Some(rem.remove(0))
                } else {
                    rem.pop()
                };
                items.push(x.map(|e| match kind {
                    IterKind::Keys | IterKind::IntoK => (e.k, VD { heap: 0, tok: 0 }),
                    IterKind::Values | IterKind::IntoV => (KD { id: 0, heap: 0, tok: 0 }, e.v),
                    _ => (e.k, e.v),
                }));
            }
            Expect {
                ret: Some(Ret::Items(*kind, items)),
                ord: if kind.borrowing() { l.clone() } else { vec![] },
                max,
                departed: vec![],
                ret_prop: "C12",
                set_prop: "C12",
            }
        }
        OpKind::Dbg => same(Some(Ret::Items(IterKind::Iter, l.iter().map(|e| Some((e.k, e.v))).collect())), "C05"),
        OpKind::Nop | OpKind::Readers { .. } => same(None, "C19"),
    }
}

/// The one place where the crate forms a sum of sizes before it knows that the result fits: a growing
/// `mutate` adds the growth to `current_size` and evicts afterwards. With sizes whose sum passes
/// `usize::MAX` (impossible for objects that exist in memory — assumption A-sizes) that addition
/// overflows although the grown entry alone fits the limit.
pub fn expected_overflow(pre: &Snap, op: &OpKind, vsz: usize) -> bool {
    let (id, h) = match op {
        OpKind::MutSet { id, h } | OpKind::MutRep { id, h, .. } => (*id, *h),
        _ => return false,
    };
    let (e, idx) = match pre.ord.iter().position(|e| e.k.id == id) {
        Some(i) => (&pre.ord[i], i),
        None => return false,
    };
    let recorded = pre.rs.as_ref().and_then(|r| r.get(idx).copied()).unwrap_or(e.esize);
    let (new, old) = (vsz as u128 + h as u128, vsz as u128 + e.v.heap as u128);
    if new <= old {
        return false;
    }
    let diff = new - old;
    let new_entry = recorded as u128 + diff;
    new_entry <= pre.max as u128 && pre.cur as u128 + diff > usize::MAX as u128
}

/// Monitors that need only the post-state.
pub fn check_state(post: &Snap, v: &mut Vec<Fail>) {
    if let Some(e) = &post.walk_err {
        fail(v, "C07", format!("structure incoherent: {}", e));
        if post.walk_hard {
            return;
        }
    }
    if post.cur > post.max {
        fail(v, "C01", format!("current_size {} exceeds max_size {}", post.cur, post.max));
    }
    if post.is_empty != (post.len == 0) {
        fail(v, "C02", "is_empty() disagrees with len()".to_owned());
    }
    if let Some(rs) = &post.rs {
        let sum: u128 = rs.iter().map(|x| *x as u128).sum();
        if sum != post.cur as u128 {
            fail(v, "C02", format!("current_size {} differs from the sum {} of the recorded sizes", post.cur, sum));
        }
    }
    if !post.full {
        return;
    }
    let sum: u128 = post.ord.iter().map(|e| e.esize as u128).sum();
    if sum > post.max as u128 {
        fail(v, "C01", format!("sum of entry sizes {} exceeds max_size {}", sum, post.max));
    }
    if sum != post.cur as u128 {
        fail(v, "C02", format!("current_size {} differs from the sum {} of entry_size over the contents", post.cur, sum));
    }
    if post.ord.len() != post.len {
        fail(v, "C02", format!("len() {} differs from the number {} of entries held", post.len, post.ord.len()));
        fail(v, "C07", format!("traversal yields {} entries, len() is {}", post.ord.len(), post.len));
    }
    if (post.cur == 0) != post.ord.is_empty() {
        fail(v, "C02", "current_size is 0 but the cache is not empty (or the reverse)".to_owned());
    }
    if let Some(rs) = &post.rs {
        if rs.iter().copied().ne(post.ord.iter().map(|e| e.esize)) {
            fail(v, "C02", "a recorded entry size differs from entry_size(key, value)".to_owned());
        }
    }
    let fwd = ids(&post.ord);
    let mut back = post.rord.clone();
    back.reverse();
    if fwd != back {
        fail(v, "C07", "forward and reverse traversal are not mirror images".to_owned());
        fail(v, "C05", "forward and reverse iteration disagree".to_owned());
    }
    let mut sorted = fwd.clone();
    sorted.sort();
    sorted.dedup();
    if sorted.len() != fwd.len() {
        fail(v, "C04", "two entries with the same key".to_owned());
    }
    let lru = post.ord.first().map(|e| (e.k, e.v));
    let mru = post.ord.last().map(|e| (e.k, e.v));
    if post.lru != lru || post.mru != mru {
        fail(v, "C05", "peek_lru / peek_mru disagree with the iteration order".to_owned());
    }
}

fn pred_events(log: &OpLog) -> Vec<(u64, u64)> {
    log.events.iter().filter_map(|e| if let Ev::Pred(k, v) = e { Some((*k, *v)) } else { None }).collect()
}

fn dropped(log: &OpLog) -> Vec<u64> {
    log.events
        .iter()
        .filter_map(|e| match e {
            Ev::DropK(t) | Ev::DropV(t) => Some(*t),
            _ => None,
        })
        .collect()
}

/// Monitors for one executed operation line (full observation mode).
pub fn check_outcome(o: &Outcome, ovh: usize, vsz: usize) -> Vec<Fail> {
    let mut v = Vec::new();
    for m in &o.violations {
        if let Some(rest) = m.strip_prefix("C19 ") {
            fail(&mut v, "C19", rest.to_owned());
        } else if let Some(rest) = m.strip_prefix("C12 ") {
            fail(&mut v, "C12", rest.to_owned());
        } else if let Some(rest) = m.strip_prefix("C15 ") {
            fail(&mut v, "C15", rest.to_owned());
        } else if let Some(rest) = m.strip_prefix("C11 ") {
            fail(&mut v, "C11", rest.to_owned());
        } else {
            fail(&mut v, "C06", m.clone());
        }
    }
    if let Some(post) = &o.post {
        check_state(post, &mut v);
    }
    // the capacity rules only need len / capacity / buckets, which light snapshots have too
    if let (Op::On { op, .. }, Some(pre), Some(post)) = (&o.line.op, &o.pre, &o.post) {
        if !(pre.full && post.full) && pre.walk_err.is_none() && post.walk_err.is_none() && o.line.panic_at.is_none() && !o.panicked {
            check_capacity(op, pre, post, o, true, &mut v);
        }
    }
    // `clone` takes `&self`: completed or aborted by a panic in user code, the source is as it was
    if let (Op::Clone { .. }, Some(pre), Some(sp)) = (&o.line.op, &o.pre, &o.src_post) {
        if pre.full && pre.walk_err.is_none() {
            let same = sp.walk_err.is_none()
                && (pre.len, pre.cur, pre.max, pre.cap, &pre.ord, &pre.rord) == (sp.len, sp.cur, sp.max, sp.cap, &sp.ord, &sp.rord)
                && (!HAVE_HOOKS || pre.fingerprint == sp.fingerprint);
            if !same {
                let how = if o.panicked { "a clone aborted by a panic in user code" } else { "clone" };
                for p in ["C19", "C14"] {
                    fail(&mut v, p, format!("{} changed the source cache ({})", how,
                        sp.walk_err.clone().unwrap_or_else(|| "state or link structure differs".to_owned())));
                }
                if o.panicked {
                    fail(&mut v, "C16", "a clone aborted by a panic in user code changed the source cache".to_owned());
                }
            }
        }
    }
    let (op, pre) = match (&o.line.op, &o.pre) {
        (Op::On { op, .. }, Some(pre)) if pre.full && !pre.walk_hard => (op, pre),
        (Op::Clone { .. }, Some(pre)) if pre.full => {
            check_clone(o, pre, &mut v);
            return v;
        }
        _ => return v,
    };
    // The reference below says what an operation must do *from a state that satisfies the cache's invariants*.
    // A state that already exceeds its limit, or whose total is not the sum of its recorded / recomputed sizes,
    // was reported by the state monitors on the line that produced it (C01 / C02); what a correct operation does
    // from there (evict more, refuse an insertion, underflow) is the echo of that, not a finding of its own.
    let pre_sum: u128 = pre.ord.iter().map(|e| e.esize as u128).sum();
    let pre_rec: Option<u128> = pre.rs.as_ref().map(|r| r.iter().map(|x| *x as u128).sum());
    if pre.cur > pre.max || pre_sum != pre.cur as u128 || pre_rec.map(|r| r != pre.cur as u128).unwrap_or(false) || pre.ord.len() != pre.len {
        return v;
    }
    if o.panicked && o.injected.is_none() && o.line.panic_at.is_none() && !o.line.fail_alloc
        && !matches!(op, OpKind::Reserve(_) | OpKind::Shrink(_) | OpKind::ShrinkFit) {
        // no user callback panicked and the allocator did not refuse: the crate's own code panicked
        // (an arithmetic overflow, an unwrap, an assertion) where the operation has a defined result
        if expected_overflow(pre, op, vsz) {
            // the boundary of assumption A-sizes: `current_size += diff` of a growing mutate passes usize::MAX
            return v;
        }
        let ex = expect(pre, op, ovh, vsz);
        let due = ex.ret.as_ref().map(|r| r.text()).unwrap_or_else(|| "a normal return".to_owned());
        fail(&mut v, ex.ret_prop, format!("{} panicked inside the crate (no user code panicked) where {} is due", op.text(), due));
        return v;
    }
    if o.line.panic_at.is_some() || o.panicked {
        return v;
    }
    let ex = expect(pre, op, ovh, vsz);
    if let Some(r) = &ex.ret {
        if *r != o.ret {
            fail(&mut v, ex.ret_prop, format!("{} returned {} where {} is due", op.text(), o.ret.text(), r.text()));
        }
    }
    // C15: len and current_size reflect the removals of `retain`
    if let (OpKind::RetainIdx(_) | OpKind::RetainIds(_), Some(post)) = (op, &o.post) {
        let want: u128 = ex.ord.iter().map(|e| e.esize as u128).sum();
        if post.cur as u128 != want || post.len != ex.ord.len() {
            fail(&mut v, "C15", format!("after {} len/current_size are {}/{} where {}/{} (the kept entries) are due", op.text(), post.len, post.cur, ex.ord.len(), want));
        }
    }
    // C20: hashing bound
    // "one per entry that leaves the cache during it": the entries that actually left (an implementation that evicts
    // more than the minimal run answers to C03 for that, not to C20), at least those the reference run loses
    let left_actually = match &o.post {
        Some(p) if p.full && p.walk_err.is_none() => pre.ord.iter().filter(|e| !p.ord.iter().any(|x| x.k.tok == e.k.tok && x.k.id == e.k.id)).count() as u64,
        _ => 0,
    };
    let deps = (ex.departed.len() as u64).max(left_actually);
    // only the operations the property names may rebuild the table (and then hash each held entry once):
    // reserve, try_reserve, shrink_to, shrink_to_fit and an insertion that grows it (clone is checked apart)
    let may_rebuild = matches!(op, OpKind::Reserve(_) | OpKind::TryReserve(_) | OpKind::Shrink(_) | OpKind::ShrinkFit)
        || (matches!(op, OpKind::Ins { .. } | OpKind::TIns { .. }) && !o.ret.is_rejection());
    let rebuilt = may_rebuild && match &o.post {
        Some(p) => p.alloc_ptr != pre.alloc_ptr || p.bk != pre.bk,
        None => false,
    };
    let h = o.log.hashes.len() as u64;
    let bound = 2 + deps + if rebuilt { pre.len as u64 } else { 0 };
    if h > bound {
        fail(&mut v, "C20", format!("{} hashed {} keys; bound is 2 + {} departures{}", op.text(), h, deps,
            if rebuilt { format!(" + {} for the rebuild", pre.len) } else { String::new() }));
    }
    let hash_free = matches!(op, OpKind::It { .. } | OpKind::Clear | OpKind::PeekLru | OpKind::PeekMru | OpKind::GetLru
        | OpKind::Dbg | OpKind::Nop | OpKind::Readers { .. });
    if hash_free && h != 0 {
        fail(&mut v, "C20", format!("{} hashed {} keys; traversals, clear and LRU/MRU peeks hash nothing", op.text(), h));
    }
    // departures are dropped exactly when not handed back
    let mut want_drops: Vec<u64> = Vec::new();
    for e in &ex.departed {
        want_drops.push(e.k.tok);
        want_drops.push(e.v.tok);
    }
    if let OpKind::MutRep { id, .. } = op {
        if let Some(e) = find(&pre.ord, *id) {
            want_drops.push(e.v.tok);
        }
    }
    if let OpKind::It { kind, calls, forget, .. } = op {
        if !kind.borrowing() {
            // drain: unconsumed entries are dropped unless the iterator is forgotten
            let consumed = calls.len().min(pre.ord.len());
            let _ = consumed;
            let yielded: Vec<u64> = o.ret.owned();
            if !*forget {
                for e in &pre.ord {
                    for t in [e.k.tok, e.v.tok] {
                        if !yielded.contains(&t) {
                            want_drops.push(t);
                        }
                    }
                }
            } else if let Ret::Items(k, items) = &o.ret {
                // forgotten: only the other halves of yielded pairs (into_keys / into_values)
                let _ = (k, items);
            }
        }
    }
    let returned = o.ret.owned();
    want_drops.retain(|t| !returned.contains(t) && crate::types::tracked(*t));
    let mut got_drops = dropped(&o.log);
    got_drops.sort();
    want_drops.sort();
    if !matches!(op, OpKind::It { forget: true, .. }) && got_drops != want_drops {
        // which objects leave (and are therefore dropped) is decided by the property that owns the
        // operation's contents; C06 itself is about exactly-once and is checked on the token table
        fail(&mut v, ex.set_prop, format!("{} dropped tokens {:?} where {:?} are due", op.text(), got_drops, want_drops));
        let mut g = got_drops.clone();
        g.dedup();
        if g.len() != got_drops.len() || got_drops.iter().any(|t| returned.contains(t)) {
            fail(&mut v, "C06", format!("{} dropped a token twice or dropped one it also handed back: {:?} / returned {:?}", op.text(), got_drops, returned));
        }
    }
    let post = match &o.post {
        Some(p) if p.full && !p.walk_hard => p,
        _ => return v,
    };
    if post.max != ex.max {
        fail(&mut v, "C01", format!("max_size is {} after {}", post.max, op.text()));
    }
    // contents / order
    let got = ids(&post.ord);
    let want = ids(&ex.ord);
    if got != want {
        let mut a = got.clone();
        a.sort();
        let mut b = want.clone();
        b.sort();
        if a != b {
            fail(&mut v, ex.set_prop, format!("after {} the cache holds {:?} where {:?} is due", op.text(), got, want));
            if ex.set_prop != "C04" {
                // C04 reads the cache as a sequential map *given* the evictions that happened: an entry that is gone
                // because it was evicted (its objects were dropped or handed back by this very call), or one that
                // stayed although a minimal eviction would have taken it, is C03's matter. The map is concerned by
                // an entry that vanished without its objects leaving, and by a key that appears from nowhere.
                let new_id = match op { OpKind::Ins { id, .. } | OpKind::TIns { id, .. } => Some(*id), _ => None };
                let vanished = want.iter().any(|id| !got.contains(id) && match find(&pre.ord, *id) {
                    Some(e) => [e.k.tok, e.v.tok].iter().any(|t| crate::types::tracked(*t) && !got_drops.contains(t) && !returned.contains(t)),
                    None => Some(*id) == new_id && !o.ret.is_rejection() && {
                        let own = o.ret.owned();
                        match op { OpKind::Ins { kt, vt, .. } | OpKind::TIns { kt, vt, .. } =>
                            [*kt, *vt].iter().any(|t| crate::types::tracked(*t) && !got_drops.contains(t) && !own.contains(t)), _ => false }
                    },
                });
                let phantom = got.iter().any(|id| !want.contains(id) && find(&pre.ord, *id).is_none() && Some(*id) != new_id);
                // an eviction takes a run of least-recently-used entries: what disappeared (the replaced entry of an
                // accepted insertion aside) must be a prefix of the previous order; and a rejected insertion evicts nothing
                let replaced = if o.ret.is_rejection() { None } else { new_id };
                let before: Vec<u32> = ids(&pre.ord).into_iter().filter(|id| Some(*id) != replaced).collect();
                let gone: Vec<u32> = before.iter().copied().filter(|id| !got.contains(id)).collect();
                let not_a_run = gone[..] != before[..gone.len().min(before.len())] || (o.ret.is_rejection() && !gone.is_empty());
                if vanished || phantom || not_a_run {
                    fail(&mut v, "C04", format!("after {} the cache holds keys {:?} where {:?} is due", op.text(), got, want));
                }
            }
            // the operation's own property also speaks about what stays: a rejected insertion leaves the
            // contents untouched (C10); mutate evicts older entries only, never the mutated one (C11)
            let own = match op {
                OpKind::Ins { .. } | OpKind::TIns { .. } if o.ret.is_rejection() => Some("C10"),
                OpKind::MutSet { .. } | OpKind::MutRep { .. } => Some("C11"),
                _ => None,
            };
            if let Some(p) = own {
                if p != ex.set_prop {
                    fail(&mut v, p, format!("after {} the cache holds keys {:?} where {:?} is due", op.text(), got, want));
                }
            }
        } else {
            fail(&mut v, "C05", format!("after {} the order is {:?} where {:?} is due", op.text(), got, want));
            // the order clause of the operation's own property
            let own = match op {
                OpKind::MutSet { .. } | OpKind::MutRep { .. } => Some("C11"),
                OpKind::RetainIdx(_) | OpKind::RetainIds(_) => Some("C15"),
                OpKind::Reserve(_) | OpKind::TryReserve(_) | OpKind::Shrink(_) | OpKind::ShrinkFit => Some("C13"),
                OpKind::It { .. } => Some("C12"),
                OpKind::Ins { .. } | OpKind::TIns { .. } if o.ret.is_rejection() => Some("C10"),
                _ => None,
            };
            if let Some(p) = own {
                fail(&mut v, p, format!("after {} the order is {:?} where {:?} is due", op.text(), got, want));
            }
        }
    } else if post.ord != ex.ord {
        let prop = match op {
            OpKind::MutSet { .. } | OpKind::MutRep { .. } => "C11",
            _ => "C04",
        };
        fail(&mut v, prop, format!("after {} an entry's key/value objects or size differ from what was stored", op.text()));
    }
    // order of evictions (C03: oldest first)
    if matches!(op, OpKind::Ins { .. } | OpKind::SetMax(_) | OpKind::MutSet { .. } | OpKind::MutRep { .. }) {
        let want_seq: Vec<u64> = ex
            .departed
            .iter()
            .filter(|e| !returned.contains(&e.k.tok) && crate::types::tracked(e.k.tok))
            .map(|e| e.k.tok)
            .collect();
        let got_seq: Vec<u64> = o.log.events.iter().filter_map(|e| if let Ev::DropK(t) = e { Some(*t) } else { None }).collect();
        if got_seq != want_seq && got_drops == want_drops {
            fail(&mut v, "C03", format!("{} evicted in the order {:?}, oldest-first is {:?}", op.text(), got_seq, want_seq));
        }
    }
    // retain: predicate visits
    if matches!(op, OpKind::RetainIdx(_) | OpKind::RetainIds(_)) {
        let want: Vec<(u64, u64)> = pre.ord.iter().map(|e| (e.k.tok, e.v.tok)).collect();
        let got = pred_events(&o.log);
        if got != want {
            fail(&mut v, "C15", format!("retain called the predicate on {:?}; the entries LRU→MRU are {:?}", got, want));
        }
    }
    // mutate: closure call count
    if let OpKind::MutSet { id, .. } | OpKind::MutRep { id, .. } = op {
        let calls = count_of(&o.log, Kind::Closure);
        let want = if find(&pre.ord, *id).is_some() { 1 } else { 0 };
        if calls != want {
            fail(&mut v, "C11", format!("mutate called the closure {} times, {} due", calls, want));
        }
    }
    // capacity rules
    check_capacity(op, pre, post, o, false, &mut v);
    // shared-reference operations change nothing at all
    if op.shared_ref() {
        if HAVE_HOOKS && pre.fingerprint != post.fingerprint {
            fail(&mut v, "C19", format!("{} changed the link structure / allocation", op.text()));
        }
        if (pre.len, pre.cur, pre.max, pre.cap, &pre.ord, &pre.rord) != (post.len, post.cur, post.max, post.cap, &post.ord, &post.rord) {
            fail(&mut v, "C19", format!("{} changed the observable state", op.text()));
        }
    }
    v
}

fn check_capacity(op: &OpKind, pre: &Snap, post: &Snap, o: &Outcome, light: bool, v: &mut Vec<Fail>) {
    match op {
        OpKind::Reserve(a) if !o.panicked => {
            if (post.cap as u128) < pre.len as u128 + *a as u128 {
                fail(v, "C13", format!("capacity {} after reserve({}) with len {}", post.cap, a, pre.len));
            }
        }
        OpKind::TryReserve(a) => match o.ret {
            Ret::ResOk => {
                if (post.cap as u128) < pre.len as u128 + *a as u128 {
                    fail(v, "C13", format!("capacity {} after try_reserve({}) with len {}", post.cap, a, pre.len));
                }
            }
            Ret::ResOverflow | Ret::ResAlloc => {
                if (!light && pre.fingerprint != post.fingerprint) || (pre.len, pre.cur, pre.max, pre.cap, pre.bk) != (post.len, post.cur, post.max, post.cap, post.bk) {
                    fail(v, "C13", "a failing try_reserve changed the cache".to_owned());
                }
            }
            _ => {}
        },
        OpKind::Shrink(_) | OpKind::ShrinkFit => {
            let m = if let OpKind::Shrink(m) = op { *m } else { 0 };
            if post.cap > pre.cap {
                fail(v, "C13", format!("shrink raised the capacity from {} to {}", pre.cap, post.cap));
            }
            let floor = pre.len.max(m);
            if post.cap < floor && post.cap != pre.cap {
                fail(v, "C13", format!("shrink left capacity {} below max(len, min) = {}", post.cap, floor));
            }
        }
        OpKind::Ins { .. } | OpKind::TIns { .. } => {
            // automatic growth only to the smallest table holding twice the entries
            // (the capacity doubled is the one at the moment of growth: entries this very call
            // removed before — the replaced one, evicted ones — that left tombstones lower it)
            if post.bk != pre.bk && post.bk != usize::MAX {
                let removed = (pre.len + 1).saturating_sub(post.len);
                let lo = pre.cap.saturating_sub(removed);
                let ok = (lo..=pre.cap).any(|k| post.cap == fresh_cap((2 * k).max(1)));
                if !ok {
                    let n = (2 * pre.cap).max(1);
                    fail(v, "C13", format!("automatic growth from capacity {} to {} (smallest table for {} is {}; {} entries left during the call)",
                        pre.cap, post.cap, n, fresh_cap(n), removed));
                }
            }
        }
        _ => {
            if post.cap != pre.cap && !matches!(op, OpKind::Reserve(_) | OpKind::It { kind: IterKind::Drain, .. } | OpKind::Clear
                | OpKind::Rm(_) | OpKind::RmE(_) | OpKind::RmLru | OpKind::RmMru | OpKind::SetMax(_) | OpKind::MutSet { .. }
                | OpKind::MutRep { .. } | OpKind::RetainIdx(_) | OpKind::RetainIds(_)) {
                fail(v, "C13", format!("{} changed the capacity from {} to {}", op.text(), pre.cap, post.cap));
            }
        }
    }
}

/// capacity of `RawTable::with_capacity(n)`, read off a real table
pub fn fresh_cap(n: usize) -> usize {
    hashbrown::raw::RawTable::<u64>::with_capacity(n).capacity()
}

fn check_clone(o: &Outcome, src: &Snap, v: &mut Vec<Fail>) {
    if let Some(p) = &o.post {
        if let Some(e) = &p.walk_err {
            // a freshly made clone whose list is not a closed structure over its own table and seal
            // (e.g. a link still pointing into the source) is not an independent cache
            fail(v, "C14", format!("the clone's own link structure is incoherent right after clone(): {}", e));
        }
    }
    let post = match &o.post {
        Some(p) if p.full && p.walk_err.is_none() => p,
        _ => return,
    };
    if post.len != src.len || post.cur != src.cur || post.max != src.max {
        fail(v, "C14", format!("clone has len/cur/max {}/{}/{}, source {}/{}/{}", post.len, post.cur, post.max, src.len, src.cur, src.max));
    }
    if post.cap < src.cap {
        fail(v, "C14", format!("clone has capacity {} below the source's {}", post.cap, src.cap));
    }
    let a: Vec<(u32, usize, usize, usize)> = post.ord.iter().map(|e| (e.k.id, e.k.heap, e.v.heap, e.esize)).collect();
    let b: Vec<(u32, usize, usize, usize)> = src.ord.iter().map(|e| (e.k.id, e.k.heap, e.v.heap, e.esize)).collect();
    if a != b {
        fail(v, "C14", "clone's entries or their order differ from the source's".to_owned());
    }
    for (x, y) in post.ord.iter().zip(src.ord.iter()) {
        if x.k.tok == y.k.tok || x.v.tok == y.v.tok {
            fail(v, "C14", "clone shares a key or value object with the source".to_owned());
        }
    }
    if HAVE_HOOKS && !post.fingerprint.is_empty() && !src.fingerprint.is_empty() {
        if post.fingerprint[0] == src.fingerprint[0] || (post.alloc_ptr == src.alloc_ptr && post.bk != 0) {
            fail(v, "C14", "clone shares its seal or table with the source".to_owned());
        }
    }
    let h = o.log.hashes.len();
    if h > src.len + 2 {
        fail(v, "C20", format!("clone hashed {} keys for {} entries", h, src.len));
    }
}

/// C16, at the line where the injected panic fired: when the panic came from the `mutate` closure or
/// the `retain` predicate itself, the memory bound still holds and no entry other than those the
/// predicate already rejected has been lost.
pub fn check_panic(o: &Outcome) -> Vec<Fail> {
    let mut v = Vec::new();
    let (pre, post) = match (&o.pre, &o.post) {
        (Some(a), Some(b)) if a.full && b.full && b.walk_err.is_none() => (a, b),
        _ => return v,
    };
    if let (Some((kind, _)), Op::On { op, .. }) = (o.injected, &o.line.op) {
        // C05 / C15: retain never changes the relative order of the entries that remain — also when it is cut short
        // by a panic of its predicate or of a key's Hash / Eq in one of its removals
        if matches!(op, OpKind::RetainIdx(_) | OpKind::RetainIds(_)) && o.panicked {
            let before: Vec<u64> = pre.ord.iter().map(|e| e.k.tok).filter(|t| post.ord.iter().any(|x| x.k.tok == *t)).collect();
            let after: Vec<u64> = post.ord.iter().map(|e| e.k.tok).collect();
            if before != after {
                for pid in ["C05", "C15"] {
                    fail(&mut v, pid, format!("`{}` cut short by a panic ({:?}) left the remaining entries in another relative order", op.text(), kind));
                }
            }
        }
        if matches!(kind, Kind::Closure | Kind::Pred) {
            if post.cur > post.max {
                fail(&mut v, "C16", format!("after a panic in the closure of `{}` current_size {} exceeds max_size {}", op.text(), post.cur, post.max));
            }
            // the entries the predicate rejected before the panicking call (decided from the
            // predicate itself, not from drop events: a key type without drop glue has none)
            let mut visited: Vec<u64> = o.log.events.iter().filter_map(|e| if let Ev::Pred(k, _) = e { Some(*k) } else { None }).collect();
            if kind == Kind::Pred {
                visited.pop();
            }
            let rejected: Vec<u64> = match op {
                OpKind::RetainIdx(bits) => visited.iter().enumerate()
                    .filter(|(i, _)| !bits.get(*i).copied().unwrap_or(true)).map(|(_, t)| *t).collect(),
                OpKind::RetainIds(ids) => visited.iter().copied()
                    .filter(|t| pre.ord.iter().any(|e| e.k.tok == *t && ids.contains(&e.k.id))).collect(),
                _ => Vec::new(),
            };
            for e in &pre.ord {
                let still = post.ord.iter().any(|x| x.k.tok == e.k.tok);
                if !still && !rejected.contains(&e.k.tok) {
                    fail(&mut v, "C16", format!("after a panic in the closure of `{}` entry {} is lost although it was not rejected", op.text(), e.k.id));
                }
            }
            if matches!(kind, Kind::Closure) && (post.ord != pre.ord || post.cur != pre.cur) {
                fail(&mut v, "C16", format!("a panic inside the mutate closure changed the cache (`{}`)", op.text()));
            }
        }
    }
    v
}
