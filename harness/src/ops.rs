//! The operation language shared with the Lean driver (one line per operation).

use crate::types::Kind;

#[derive(Clone, Copy, Debug, PartialEq, Eq)]
pub enum IterKind {
    Iter,
    Keys,
    Values,
    Drain,
    Into,
    IntoK,
    IntoV,
}

pub const ITER_KINDS: [IterKind; 7] = [
    IterKind::Iter,
    IterKind::Keys,
    IterKind::Values,
    IterKind::Drain,
    IterKind::Into,
    IterKind::IntoK,
    IterKind::IntoV,
];

impl IterKind {
    pub fn name(self) -> &'static str {
        match self {
            IterKind::Iter => "iter",
            IterKind::Keys => "keys",
            IterKind::Values => "values",
            IterKind::Drain => "drain",
            IterKind::Into => "into",
            IterKind::IntoK => "intok",
            IterKind::IntoV => "intov",
        }
    }

    pub fn parse(s: &str) -> Option<IterKind> {
        ITER_KINDS.iter().copied().find(|k| k.name() == s)
    }

    pub fn borrowing(self) -> bool {
        matches!(self, IterKind::Iter | IterKind::Keys | IterKind::Values)
    }

    pub fn consumes(self) -> bool {
        matches!(self, IterKind::Into | IterKind::IntoK | IterKind::IntoV)
    }
}

#[derive(Clone, Debug, PartialEq, Eq)]
pub enum OpKind {
    Ins { id: u32, kh: usize, kt: u64, vh: usize, vt: u64 },
    TIns { id: u32, kh: usize, kt: u64, vh: usize, vt: u64 },
    Get(u32),
    GetE(u32),
    Touch(u32),
    Peek(u32),
    PeekE(u32),
    Has(u32),
    Rm(u32),
    RmE(u32),
    RmLru,
    RmMru,
    GetLru,
    PeekLru,
    PeekMru,
    SetMax(usize),
    Reserve(usize),
    TryReserve(usize),
    Shrink(usize),
    ShrinkFit,
    MutSet { id: u32, h: usize },
    MutRep { id: u32, h: usize, tok: u64 },
    RetainIdx(Vec<bool>),
    RetainIds(Vec<u32>),
    Clear,
    /// `unwind`: the iterator is neither dropped normally nor forgotten — the consumer panics while holding it, so
    /// it is dropped during unwinding (the model treats this like a drop)
    /// `via`: how the rest is consumed before the iterator is dropped: 0 nothing, 1 `nth(usize::MAX)`, 2 `skip(big).next()`,
    /// 3 `count()`, 4 `last()`, 5 `nth_back(usize::MAX)` — for the model all of them are a drop of the iterator
    It { kind: IterKind, calls: Vec<bool>, forget: bool, unwind: bool, via: u8 },
    Dbg,
    Nop,
    /// `threads` reader threads run the same script of shared-reference operations concurrently
    /// on `&LruCache` (C19); for the model this is a no-op
    Readers { threads: u8, seed: u64 },
}

#[derive(Clone, Debug, PartialEq, Eq)]
pub enum Op {
    New { c: usize, max: usize, cap: Option<usize> },
    /// `from`: `d` is an existing cache and the call is `d.clone_from(&c)` (its old contents are dropped)
    Clone { c: usize, d: usize, base: u64, from: bool },
    Drop { c: usize },
    On { c: usize, op: OpKind },
}

/// A line of a sequence: an operation plus execution directives that are not part of the model
/// input proper (`fail_alloc`: make the allocator refuse during this op; `panic_at`).
#[derive(Clone, Debug, PartialEq, Eq)]
pub struct Line {
    pub full: bool,
    pub op: Op,
    pub fail_alloc: bool,
    pub panic_at: Option<(Kind, u64)>,
}

fn bits(v: &[bool]) -> String {
    if v.is_empty() {
        "-".to_owned()
    } else {
        v.iter().map(|b| if *b { '1' } else { '0' }).collect()
    }
}

fn calls_str(v: &[bool]) -> String {
    if v.is_empty() {
        "-".to_owned()
    } else {
        v.iter().map(|b| if *b { 'f' } else { 'b' }).collect()
    }
}

impl OpKind {
    pub fn text(&self) -> String {
        match self {
            OpKind::Ins { id, kh, kt, vh, vt } => format!("ins {} {} {} {} {}", id, kh, kt, vh, vt),
            OpKind::TIns { id, kh, kt, vh, vt } => format!("tins {} {} {} {} {}", id, kh, kt, vh, vt),
            OpKind::Get(id) => format!("get {}", id),
            OpKind::GetE(id) => format!("gete {}", id),
            OpKind::Touch(id) => format!("touch {}", id),
            OpKind::Peek(id) => format!("peek {}", id),
            OpKind::PeekE(id) => format!("peeke {}", id),
            OpKind::Has(id) => format!("has {}", id),
            OpKind::Rm(id) => format!("rm {}", id),
            OpKind::RmE(id) => format!("rme {}", id),
            OpKind::RmLru => "rmlru".to_owned(),
            OpKind::RmMru => "rmmru".to_owned(),
            OpKind::GetLru => "getlru".to_owned(),
            OpKind::PeekLru => "peeklru".to_owned(),
            OpKind::PeekMru => "peekmru".to_owned(),
            OpKind::SetMax(m) => format!("setmax {}", m),
            OpKind::Reserve(a) => format!("reserve {}", a),
            OpKind::TryReserve(a) => format!("tryreserve {}", a),
            OpKind::Shrink(m) => format!("shrink {}", m),
            OpKind::ShrinkFit => "shrinkfit".to_owned(),
            OpKind::MutSet { id, h } => format!("mut {} set {}", id, h),
            OpKind::MutRep { id, h, tok } => format!("mut {} rep {} {}", id, h, tok),
            OpKind::RetainIdx(b) => format!("retain idx {}", bits(b)),
            OpKind::RetainIds(ids) => {
                let mut s = "retain ids".to_owned();
                for i in ids {
                    s.push_str(&format!(" {}", i));
                }
                s
            }
            OpKind::Clear => "clear".to_owned(),
            OpKind::It { kind, calls, forget, unwind, via } => {
                let fate = if *forget { "f" } else if *unwind { "u" } else { ["d", "o", "s", "c", "l", "O"][(*via as usize).min(5)] };
                format!("it {} {} {}", kind.name(), calls_str(calls), fate)
            }
            OpKind::Dbg => "dbg".to_owned(),
            OpKind::Nop => "nop".to_owned(),
            OpKind::Readers { threads, seed } => format!("readers {} {}", threads, seed),
        }
    }

    pub fn name(&self) -> &'static str {
        match self {
            OpKind::Ins { .. } => "ins",
            OpKind::TIns { .. } => "tins",
            OpKind::Get(_) => "get",
            OpKind::GetE(_) => "gete",
            OpKind::Touch(_) => "touch",
            OpKind::Peek(_) => "peek",
            OpKind::PeekE(_) => "peeke",
            OpKind::Has(_) => "has",
            OpKind::Rm(_) => "rm",
            OpKind::RmE(_) => "rme",
            OpKind::RmLru => "rmlru",
            OpKind::RmMru => "rmmru",
            OpKind::GetLru => "getlru",
            OpKind::PeekLru => "peeklru",
            OpKind::PeekMru => "peekmru",
            OpKind::SetMax(_) => "setmax",
            OpKind::Reserve(_) => "reserve",
            OpKind::TryReserve(_) => "tryreserve",
            OpKind::Shrink(_) => "shrink",
            OpKind::ShrinkFit => "shrinkfit",
            OpKind::MutSet { .. } => "mutset",
            OpKind::MutRep { .. } => "mutrep",
            OpKind::RetainIdx(_) => "retainidx",
            OpKind::RetainIds(_) => "retainids",
            OpKind::Clear => "clear",
            OpKind::It { .. } => "it",
            OpKind::Dbg => "dbg",
            OpKind::Nop => "nop",
            OpKind::Readers { .. } => "readers",
        }
    }

    /// Operations available through `&LruCache` (C19).
    pub fn shared_ref(&self) -> bool {
        match self {
            OpKind::Peek(_) | OpKind::PeekE(_) | OpKind::Has(_) | OpKind::PeekLru | OpKind::PeekMru
            | OpKind::Dbg | OpKind::Nop | OpKind::Readers { .. } => true,
            OpKind::It { kind, .. } => kind.borrowing(),
            _ => false,
        }
    }

    pub fn consumes(&self) -> bool {
        matches!(self, OpKind::It { kind, .. } if kind.consumes())
    }
}

impl Line {
    /// The text sent to the Lean driver, without the observation hints.
    pub fn text(&self) -> String {
        let m = if self.full { "F" } else { "L" };
        let mut s = match &self.op {
            Op::New { c, max, cap: None } => format!("{} new {} {}", m, c, max),
            Op::New { c, max, cap: Some(n) } => format!("{} new {} {} {}", m, c, max, n),
            Op::Clone { c, d, base, from } => format!("{} {} {} {} {}", m, if *from { "clonefrom" } else { "clone" }, c, d, base),
            Op::Drop { c } => format!("{} drop {}", m, c),
            Op::On { c, op } => format!("{} {} {}", m, c, op.text()),
        };
        if let Some((k, n)) = self.panic_at {
            s = format!("{} !{}:{}", s, k.name(), n);
        }
        s
    }

    pub fn parse(text: &str) -> Option<Line> {
        let text = text.trim();
        let (op_part, hint_part) = match text.split_once(" | ") {
            Some((a, b)) => (a, b),
            None => (text, ""),
        };
        let fail_alloc = hint_part.split(' ').any(|t| t == "af");
        let mut toks: Vec<&str> = op_part.split(' ').collect();
        let mut panic_at = None;
        if let Some(last) = toks.last() {
            if let Some(rest) = last.strip_prefix('!') {
                let (k, n) = rest.split_once(':')?;
                panic_at = Some((Kind::parse(k)?, n.parse().ok()?));
                toks.pop();
            }
        }
        if toks.len() < 2 {
            return None;
        }
        let full = match toks[0] {
            "F" => true,
            "L" => false,
            _ => return None,
        };
        let n = |s: &str| s.parse::<usize>().ok();
        let op = match toks[1] {
            "new" => match toks.len() {
                4 => Op::New { c: n(toks[2])?, max: n(toks[3])?, cap: None },
                5 => Op::New { c: n(toks[2])?, max: n(toks[3])?, cap: Some(n(toks[4])?) },
                _ => return None,
            },
            "clone" | "clonefrom" if toks.len() == 5 => {
                Op::Clone { c: n(toks[2])?, d: n(toks[3])?, base: toks[4].parse().ok()?, from: toks[1] == "clonefrom" }
            }
            "drop" if toks.len() == 3 => Op::Drop { c: n(toks[2])? },
            _ => {
                let c = n(toks[1])?;
                let t = &toks[2..];
                let id = |s: &str| s.parse::<u32>().ok();
                let op = match t {
                    ["ins", a, b, c2, d, e] => OpKind::Ins { id: id(a)?, kh: n(b)?, kt: c2.parse().ok()?, vh: n(d)?, vt: e.parse().ok()? },
                    ["tins", a, b, c2, d, e] => OpKind::TIns { id: id(a)?, kh: n(b)?, kt: c2.parse().ok()?, vh: n(d)?, vt: e.parse().ok()? },
                    ["get", a] => OpKind::Get(id(a)?),
                    ["gete", a] => OpKind::GetE(id(a)?),
                    ["touch", a] => OpKind::Touch(id(a)?),
                    ["peek", a] => OpKind::Peek(id(a)?),
                    ["peeke", a] => OpKind::PeekE(id(a)?),
                    ["has", a] => OpKind::Has(id(a)?),
                    ["rm", a] => OpKind::Rm(id(a)?),
                    ["rme", a] => OpKind::RmE(id(a)?),
                    ["rmlru"] => OpKind::RmLru,
                    ["rmmru"] => OpKind::RmMru,
                    ["getlru"] => OpKind::GetLru,
                    ["peeklru"] => OpKind::PeekLru,
                    ["peekmru"] => OpKind::PeekMru,
                    ["setmax", a] => OpKind::SetMax(n(a)?),
                    ["reserve", a] => OpKind::Reserve(n(a)?),
                    ["tryreserve", a] => OpKind::TryReserve(n(a)?),
                    ["shrink", a] => OpKind::Shrink(n(a)?),
                    ["shrinkfit"] => OpKind::ShrinkFit,
                    ["mut", a, "set", h] => OpKind::MutSet { id: id(a)?, h: n(h)? },
                    ["mut", a, "rep", h, tk] => OpKind::MutRep { id: id(a)?, h: n(h)?, tok: tk.parse().ok()? },
                    ["retain", "idx", b] => OpKind::RetainIdx(b.chars().filter(|c| *c != '-').map(|c| c != '0').collect()),
                    ["retain", "ids", rest @ ..] => {
                        let mut v = Vec::new();
                        for r in rest {
                            v.push(id(r)?);
                        }
                        OpKind::RetainIds(v)
                    }
                    ["clear"] => OpKind::Clear,
                    ["it", k, calls, fate] => OpKind::It {
                        kind: IterKind::parse(k)?,
                        calls: calls.chars().filter(|c| *c == 'f' || *c == 'b').map(|c| c == 'f').collect(),
                        forget: *fate == "f",
                        unwind: *fate == "u",
                        via: match *fate { "o" => 1, "s" => 2, "c" => 3, "l" => 4, "O" => 5, _ => 0 },
                    },
                    ["dbg"] => OpKind::Dbg,
                    ["nop"] => OpKind::Nop,
                    ["readers", t, sd] => OpKind::Readers { threads: t.parse().ok()?, seed: sd.parse().ok()? },
                    _ => return None,
                };
                Op::On { c, op }
            }
        };
        Some(Line { full, op, fail_alloc, panic_at })
    }
}
