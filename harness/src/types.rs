//! Instrumented key / value / hasher types and the per-thread context that records what user code
//! the cache calls (callbacks), which objects it drops, and that can inject a panic at the n-th
//! callback of a given kind.

use std::borrow::Borrow;
use std::cell::RefCell;
use std::collections::HashMap;
use std::fmt;
use std::hash::{BuildHasher, Hash, Hasher};

use lru_mem::HeapSize;

#[derive(Clone, Copy, Debug, PartialEq, Eq, Hash)]
pub enum Kind {
    Hash,
    Eq,
    CloneK,
    CloneV,
    SizeK,
    SizeV,
    Pred,
    Closure,
}

pub const KINDS: [Kind; 8] = [
    Kind::Hash,
    Kind::Eq,
    Kind::CloneK,
    Kind::CloneV,
    Kind::SizeK,
    Kind::SizeV,
    Kind::Pred,
    Kind::Closure,
];

impl Kind {
    pub fn name(self) -> &'static str {
        match self {
            Kind::Hash => "hash",
            Kind::Eq => "eq",
            Kind::CloneK => "clonek",
            Kind::CloneV => "clonev",
            Kind::SizeK => "sizek",
            Kind::SizeV => "sizev",
            Kind::Pred => "pred",
            Kind::Closure => "closure",
        }
    }

    pub fn parse(s: &str) -> Option<Kind> {
        KINDS.iter().copied().find(|k| k.name() == s)
    }

    fn index(self) -> usize {
        KINDS.iter().position(|k| *k == self).unwrap()
    }
}

#[derive(Clone, Debug, PartialEq, Eq)]
pub enum Ev {
    SzK(u64),
    SzV(u64),
    CloneK(u64, u64),
    CloneV(u64, u64),
    Pred(u64, u64),
    Closure(u64),
    DropK(u64),
    DropV(u64),
}

impl Ev {
    pub fn tok(&self) -> u64 {
        match self {
            Ev::SzK(t) | Ev::SzV(t) | Ev::Closure(t) | Ev::DropK(t) | Ev::DropV(t) => *t,
            Ev::CloneK(s, _) | Ev::CloneV(s, _) => *s,
            Ev::Pred(k, _) => *k,
        }
    }
}

impl fmt::Display for Ev {
    fn fmt(&self, f: &mut fmt::Formatter<'_>) -> fmt::Result {
        match self {
            Ev::SzK(t) => write!(f, "sK:{}", t),
            Ev::SzV(t) => write!(f, "sV:{}", t),
            Ev::CloneK(s, n) => write!(f, "cK:{}>{}", s, n),
            Ev::CloneV(s, n) => write!(f, "cV:{}>{}", s, n),
            Ev::Pred(k, v) => write!(f, "pr:{},{}", k, v),
            Ev::Closure(t) => write!(f, "cl:{}", t),
            Ev::DropK(t) => write!(f, "dK:{}", t),
            Ev::DropV(t) => write!(f, "dV:{}", t),
        }
    }
}

#[derive(Clone, Copy, Debug, PartialEq, Eq)]
pub enum TokState {
    Live,
    Dropped,
}

#[derive(Default)]
pub struct Ctx {
    /// do not record anything and never panic (used while the harness itself observes)
    pub quiet: bool,
    pub events: Vec<Ev>,
    pub hashes: Vec<u32>,
    pub counts: [u64; 8],
    pub next_tok: u64,
    /// panic at the n-th (1-based) callback of this kind within the current operation
    pub panic_at: Option<(Kind, u64)>,
    pub panicked: Option<(Kind, u64)>,
    pub toks: HashMap<u64, TokState>,
    /// messages about ownership violations observed by the instrumented `Drop` impls
    pub violations: Vec<String>,
    /// (key token, key address, value token, value address) of the objects handed to the `retain`
    /// predicate / the `mutate` closure during the current operation
    pub shown: Vec<(u64, usize, u64, usize)>,
}

thread_local! {
    pub static CTX: RefCell<Ctx> = RefCell::new(Ctx { next_tok: 1, ..Ctx::default() });
}

pub fn with_ctx<R>(f: impl FnOnce(&mut Ctx) -> R) -> R {
    CTX.with(|c| f(&mut c.borrow_mut()))
}

pub struct InjectedPanic(pub Kind, pub u64);

/// Registers one callback; panics if the injection point is reached.
fn callback(kind: Kind, record: impl FnOnce(&mut Ctx)) {
    let fire = with_ctx(|c| {
        if c.quiet {
            return None;
        }
        record(c);
        c.counts[kind.index()] += 1;
        match c.panic_at {
            Some((k, n)) if k == kind && n == c.counts[kind.index()] => {
                c.panic_at = None;
                c.panicked = Some((k, n));
                Some((k, n))
            }
            _ => None,
        }
    });
    if let Some((k, n)) = fire {
        std::panic::panic_any(InjectedPanic(k, n));
    }
}

pub fn begin_op(panic_at: Option<(Kind, u64)>) {
    with_ctx(|c| {
        c.quiet = false;
        c.events.clear();
        c.hashes.clear();
        c.counts = [0; 8];
        c.panic_at = panic_at;
        c.panicked = None;
        c.shown.clear();
    });
}

pub struct OpLog {
    pub events: Vec<Ev>,
    pub hashes: Vec<u32>,
    pub counts: [u64; 8],
    pub panicked: Option<(Kind, u64)>,
}

pub fn end_op() -> OpLog {
    with_ctx(|c| {
        c.quiet = true;
        c.panic_at = None;
        OpLog {
            events: std::mem::take(&mut c.events),
            hashes: std::mem::take(&mut c.hashes),
            counts: c.counts,
            panicked: c.panicked.take(),
        }
    })
}

pub fn count_of(log: &OpLog, kind: Kind) -> u64 {
    log.counts[kind.index()]
}

/// Is the value type built *with* a `Drop` impl (the default)? The `plain-v` / `plain-k` builds of
/// the harness instantiate the cache with a value / key type that has no drop glue at all
/// (`mem::needs_drop::<T>() == false`): such objects are invisible to the token table.
#[cfg(not(feature = "plain-v"))]
pub const TRACK_V: bool = true;
#[cfg(feature = "plain-v")]
pub const TRACK_V: bool = false;
#[cfg(not(feature = "plain-k"))]
pub const TRACK_K: bool = true;
#[cfg(feature = "plain-k")]
pub const TRACK_K: bool = false;

pub fn types_name() -> &'static str {
    match (TRACK_K, TRACK_V) {
        (true, true) => "tracked",
        (true, false) => "plain-v",
        (false, true) => "plain-k",
        (false, false) => "plain-kv",
    }
}

/// does the token table know this token (false for objects of a plain type)
pub fn tracked(t: u64) -> bool {
    with_ctx(|c| c.toks.contains_key(&t))
}

fn fresh_tok_t(track: bool) -> u64 {
    with_ctx(|c| {
        let t = c.next_tok;
        c.next_tok += 1;
        if track {
            c.toks.insert(t, TokState::Live);
        }
        t
    })
}

fn register_tok_t(t: u64, track: bool) {
    with_ctx(|c| {
        if c.next_tok <= t {
            c.next_tok = t + 1;
        }
        if track {
            c.toks.insert(t, TokState::Live);
        }
    })
}

pub fn fresh_tok() -> u64 {
    with_ctx(|c| {
        let t = c.next_tok;
        c.next_tok += 1;
        c.toks.insert(t, TokState::Live);
        t
    })
}

pub fn peek_next_tok() -> u64 {
    with_ctx(|c| c.next_tok)
}

fn register_tok(t: u64) {
    with_ctx(|c| {
        if c.next_tok <= t {
            c.next_tok = t + 1;
        }
        c.toks.insert(t, TokState::Live);
    })
}

fn drop_tok(t: u64, key: bool) {
    with_ctx(|c| {
        match c.toks.get(&t) {
            Some(TokState::Live) => {
                c.toks.insert(t, TokState::Dropped);
            }
            Some(TokState::Dropped) => {
                c.violations.push(format!("token {} dropped twice", t));
            }
            None => {
                c.violations.push(format!("token {} dropped but never created (garbage read)", t));
            }
        }
        // drops are ownership events: recorded even in quiet mode would pollute; the harness
        // itself only drops objects it owns while not quiet, except at the end of an operation.
        if !c.quiet {
            c.events.push(if key { Ev::DropK(t) } else { Ev::DropV(t) });
        }
    })
}

/// The borrowed form of a key: `K: Borrow<KId>`. It is an **unsized** type, and all keys are prefixes of
/// one of two static pools (key `id` = the prefix of length `id + 1`): two *different* keys of the same
/// pool start at the same address, and two *equal* keys of different pools live at different addresses.
/// So neither "same address" nor "different address" says anything about equality — only `Eq` does —
/// and lookups go through fat references (`Q: ?Sized`).
#[repr(transparent)]
pub struct KId([u8]);

const POOL_LEN: usize = 1 << 20;
static POOL_A: [u8; POOL_LEN] = [0; POOL_LEN];
static POOL_B: [u8; POOL_LEN] = [0; POOL_LEN];

thread_local! {
    static LOOKUP_POOL: std::cell::Cell<bool> = std::cell::Cell::new(false);
}

impl KId {
    pub fn of(id: u32, pool_b: bool) -> &'static KId {
        let n = id as usize + 1;
        assert!(n <= POOL_LEN, "key id too large for the key pools");
        let s: &'static [u8] = if pool_b { &POOL_B[..n] } else { &POOL_A[..n] };
        // SAFETY: KId is a transparent wrapper of [u8]
        unsafe { &*(s as *const [u8] as *const KId) }
    }

    pub fn id(&self) -> u32 {
        (self.0.len() - 1) as u32
    }
}

/// A lookup key for `id`; the pool alternates from call to call (deterministically).
pub fn kq(id: u32) -> &'static KId {
    let b = LOOKUP_POOL.with(|c| {
        let b = c.get();
        c.set(!b);
        b
    });
    KId::of(id, b)
}

impl fmt::Display for KId {
    fn fmt(&self, f: &mut fmt::Formatter<'_>) -> fmt::Result {
        write!(f, "{}", self.id())
    }
}

impl Hash for KId {
    fn hash<H: Hasher>(&self, state: &mut H) {
        let id = self.id();
        callback(Kind::Hash, |c| c.hashes.push(id));
        state.write_u32(id);
    }
}

impl PartialEq for KId {
    fn eq(&self, other: &KId) -> bool {
        callback(Kind::Eq, |_| ());
        self.0.len() == other.0.len()
    }
}

impl Eq for KId {}

pub struct MK {
    pub id: &'static KId,
    pub heap: usize,
    pub tok: u64,
}

impl MK {
    pub fn new(id: u32, heap: usize) -> MK {
        let tok = fresh_tok_t(TRACK_K);
        MK { id: KId::of(id, tok & 2 != 0), heap, tok }
    }

    pub fn with_tok(id: u32, heap: usize, tok: u64) -> MK {
        register_tok_t(tok, TRACK_K);
        MK { id: KId::of(id, tok & 2 != 0), heap, tok }
    }
}

impl Hash for MK {
    fn hash<H: Hasher>(&self, state: &mut H) {
        self.id.hash(state)
    }
}

impl PartialEq for MK {
    fn eq(&self, other: &MK) -> bool {
        self.id == other.id
    }
}

impl Eq for MK {}

impl Borrow<KId> for MK {
    fn borrow(&self) -> &KId {
        self.id
    }
}

impl HeapSize for MK {
    fn heap_size(&self) -> usize {
        let t = self.tok;
        callback(Kind::SizeK, |c| c.events.push(Ev::SzK(t)));
        self.heap
    }
}

impl Clone for MK {
    fn clone(&self) -> MK {
        let src = self.tok;
        // the token is taken before the injection point so that model and code agree on numbering
        let new = with_ctx(|c| c.next_tok);
        callback(Kind::CloneK, |c| c.events.push(Ev::CloneK(src, new)));
        let tok = fresh_tok_t(TRACK_K);
        MK { id: self.id, heap: self.heap, tok }
    }
}

#[cfg(not(feature = "plain-k"))]
impl Drop for MK {
    fn drop(&mut self) {
        drop_tok(self.tok, true);
    }
}

impl fmt::Debug for MK {
    fn fmt(&self, f: &mut fmt::Formatter<'_>) -> fmt::Result {
        write!(f, "{}:{}:{}", self.id.id(), self.heap, self.tok)
    }
}

pub struct MV {
    pub heap: usize,
    pub tok: u64,
}

impl MV {
    pub fn new(heap: usize) -> MV {
        MV { heap, tok: fresh_tok_t(TRACK_V) }
    }

    pub fn with_tok(heap: usize, tok: u64) -> MV {
        register_tok_t(tok, TRACK_V);
        MV { heap, tok }
    }
}

impl HeapSize for MV {
    fn heap_size(&self) -> usize {
        let t = self.tok;
        callback(Kind::SizeV, |c| c.events.push(Ev::SzV(t)));
        self.heap
    }
}

impl Clone for MV {
    fn clone(&self) -> MV {
        let src = self.tok;
        let new = with_ctx(|c| c.next_tok);
        callback(Kind::CloneV, |c| c.events.push(Ev::CloneV(src, new)));
        let tok = fresh_tok_t(TRACK_V);
        MV { heap: self.heap, tok }
    }
}

#[cfg(not(feature = "plain-v"))]
impl Drop for MV {
    fn drop(&mut self) {
        drop_tok(self.tok, false);
    }
}

impl fmt::Debug for MV {
    fn fmt(&self, f: &mut fmt::Formatter<'_>) -> fmt::Result {
        write!(f, "{}:{}", self.heap, self.tok)
    }
}

pub fn note_pred(k: &MK, v: &MV) {
    let (kt, vt) = (k.tok, v.tok);
    // where the objects shown to the predicate live (must be the entry inside the cache, not a copy)
    with_ctx(|c| c.shown.push((kt, k as *const MK as usize, vt, v as *const MV as usize)));
    callback(Kind::Pred, |c| c.events.push(Ev::Pred(kt, vt)));
}

pub fn note_closure(v: &MV) {
    let vt = v.tok;
    with_ctx(|c| c.shown.push((0, 0, vt, v as *const MV as usize)));
    callback(Kind::Closure, |c| c.events.push(Ev::Closure(vt)));
}

/// Hasher kinds: the crate's default, a well-mixing deterministic one, and three adversarial ones.
#[derive(Clone, Copy, Debug, PartialEq, Eq)]
pub enum HKind {
    Default,
    Mix,
    Const,
    Mod4,
    Ident,
    /// a well-mixing hasher with a per-instance seed; `Clone` of the builder draws a *new* seed, so a
    /// cloned cache must bucket its entries with its own builder, never with its source's
    Reseed,
    /// a builder that overrides `BuildHasher::hash_one` with a *different* function than its streaming hasher
    /// computes (as `ahash` does under specialisation): a table must use one route for everything
    OneShot,
}

pub const HKINDS: [HKind; 7] = [HKind::Default, HKind::Mix, HKind::Const, HKind::Mod4, HKind::Ident, HKind::Reseed, HKind::OneShot];

impl HKind {
    pub fn name(self) -> &'static str {
        match self {
            HKind::Default => "default",
            HKind::Mix => "mix",
            HKind::Const => "const",
            HKind::Mod4 => "mod4",
            HKind::Ident => "ident",
            HKind::Reseed => "reseed",
            HKind::OneShot => "oneshot",
        }
    }

    pub fn parse(s: &str) -> Option<HKind> {
        HKINDS.iter().copied().find(|k| k.name() == s)
    }
}

pub struct HB {
    pub kind: HKind,
    default: hashbrown::hash_map::DefaultHashBuilder,
    seed: u64,
}

impl HB {
    pub fn new(kind: HKind) -> HB {
        HB { kind, default: Default::default(), seed: 0x5eed }
    }
}

impl Clone for HB {
    fn clone(&self) -> HB {
        let seed = if self.kind == HKind::Reseed {
            self.seed.wrapping_mul(6364136223846793005).wrapping_add(1442695040888963407)
        } else {
            self.seed
        };
        HB { kind: self.kind, default: self.default.clone(), seed }
    }
}

pub enum HH {
    Default(<hashbrown::hash_map::DefaultHashBuilder as BuildHasher>::Hasher),
    Acc(HKind, u64),
    Seeded(u64, u64),
}

impl BuildHasher for HB {
    type Hasher = HH;

    fn hash_one<T: Hash>(&self, x: T) -> u64 {
        let mut h = self.build_hasher();
        x.hash(&mut h);
        let v = h.finish();
        if self.kind == HKind::OneShot { v.rotate_left(17) ^ 0x5bd1_e995_9e37_79b9 } else { v }
    }

    fn build_hasher(&self) -> HH {
        match self.kind {
            HKind::Default => HH::Default(self.default.build_hasher()),
            HKind::Reseed => HH::Seeded(self.seed, 0),
            k => HH::Acc(k, 0),
        }
    }
}

impl Hasher for HH {
    fn finish(&self) -> u64 {
        match self {
            HH::Default(h) => h.finish(),
            HH::Seeded(seed, x) => {
                let mut z = (x ^ seed).wrapping_add(0x9e3779b97f4a7c15);
                z = (z ^ (z >> 30)).wrapping_mul(0xbf58476d1ce4e5b9);
                z = (z ^ (z >> 27)).wrapping_mul(0x94d049bb133111eb);
                z ^ (z >> 31)
            }
            HH::Acc(HKind::Const, _) => 0,
            HH::Acc(HKind::Mod4, x) => x % 4,
            HH::Acc(HKind::Ident, x) => *x,
            HH::Acc(_, x) => {
                // splitmix64
                let mut z = x.wrapping_add(0x9e3779b97f4a7c15);
                z = (z ^ (z >> 30)).wrapping_mul(0xbf58476d1ce4e5b9);
                z = (z ^ (z >> 27)).wrapping_mul(0x94d049bb133111eb);
                z ^ (z >> 31)
            }
        }
    }

    fn write(&mut self, bytes: &[u8]) {
        match self {
            HH::Default(h) => h.write(bytes),
            HH::Acc(_, x) | HH::Seeded(_, x) => {
                for b in bytes {
                    *x = (*x << 8) | (*b as u64);
                }
            }
        }
    }

    fn write_u32(&mut self, i: u32) {
        match self {
            HH::Default(h) => h.write_u32(i),
            HH::Acc(_, x) | HH::Seeded(_, x) => *x = i as u64,
        }
    }
}

impl HeapSize for HB {
    fn heap_size(&self) -> usize {
        0
    }
}
