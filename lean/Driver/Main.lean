import LruMem.Model.Step
import LruMem.Model.MemSize
import LruMem.Model.Ptr
import LruMem.Model.Panic
import LruMem.Model.PanicB
import LruMem.Model.Arith
import LruMem.Model.CloneFrom
/-!
# `lrudriver`: replays the harness's operation lines on the Level A model

One input line per operation (see `/verif/DESIGN.md` §4.2 and `harness/src/trace.rs`), one output
line with the model's prediction in exactly the format the harness uses for its observation, so
that agreement is byte equality. Imports only `LruMem/Model/*` (no Mathlib, links natively).
-/
open LruMem

namespace Driver

def natList (l : List Nat) : String := "[" ++ ",".intercalate (l.map toString) ++ "]"

def keyStr (k : Key) : String := s!"{k.id}:{k.heap}:{k.tok}"
def valStr (v : Val) : String := s!"{v.heap}:{v.tok}"
def pairStr (kv : Key × Val) : String := keyStr kv.1 ++ ":" ++ valStr kv.2

def itemStr (kind : IterKind) : Option (Key × Val) → String
  | none => "-"
  | some kv =>
    match kind with
    | .keys | .intoKeys => keyStr kv.1
    | .values | .intoValues => valStr kv.2
    | _ => pairStr kv

def outStr : Out → String
  | .unit => "unit"
  | .bool b => if b then "b:1" else "b:0"
  | .ownVal none => "none"
  | .ownVal (some v) => "V:" ++ valStr v
  | .ownPair none => "none"
  | .ownPair (some kv) => "P:" ++ pairStr kv
  | .refVal none => "none"
  | .refVal (some v) => "v:" ++ valStr v
  | .refPair none => "none"
  | .refPair (some kv) => "p:" ++ pairStr kv
  | .insTooLarge k v s m => s!"E.big:{pairStr (k, v)}:{s}:{m}"
  | .tryTooLarge k v s m => s!"T.big:{pairStr (k, v)}:{s}:{m}"
  | .tryWouldEject k v s f => s!"T.evict:{pairStr (k, v)}:{s}:{f}"
  | .tryOccupied k v => s!"T.occ:{pairStr (k, v)}"
  | .mutOk none => "M.none"
  | .mutOk (some r) => s!"M.ok:{r}"
  | .mutTooLarge k v o n m => s!"M.big:{pairStr (k, v)}:{o}:{n}:{m}"
  | .reserveOk => "R.ok"
  | .reserveOverflow => "R.overflow"
  | .reserveAlloc => "R.alloc"
  | .items kind l => "I[" ++ ";".intercalate (l.map (itemStr kind)) ++ "]"
  | .cloned => "cloned"

/-- sort key for canonicalised event lists: token, then kind rank -/
def evTok : Ev → Nat
  | .szK t | .szV t => 16 * t
  | .cloneK s _ | .cloneV s _ => 16 * s + 1
  | .pred k _ => 16 * k + 2
  | .closure t => 16 * t + 3
  | .dropK t | .dropV t => 16 * t + 4
  | .hash id => 16 * id + 5

def evStr : Ev → Option String
  | .hash _ => none
  | .szK t => some s!"sK:{t}"
  | .szV t => some s!"sV:{t}"
  | .cloneK s n => some s!"cK:{s}>{n}"
  | .cloneV s n => some s!"cV:{s}>{n}"
  | .pred k v => some s!"pr:{k},{v}"
  | .closure t => some s!"cl:{t}"
  | .dropK t => some s!"dK:{t}"
  | .dropV t => some s!"dV:{t}"

def insertSorted (f : α → Nat) (x : α) : List α → List α
  | [] => [x]
  | y :: ys => if f x ≤ f y then x :: y :: ys else y :: insertSorted f x ys

def sortBy (f : α → Nat) (l : List α) : List α :=
  (l.toArray.qsort (fun a b => f a < f b)).toList

def evsStr (evs : List Ev) (sorted : Bool) : String :=
  let l := if sorted then sortBy evTok evs else evs
  "[" ++ " ".intercalate (l.filterMap evStr) ++ "]"

def hashIds (evs : List Ev) : List Nat :=
  evs.filterMap fun | .hash id => some id | _ => none

def statusStr : Status → String
  | .ok => "ok" | .implPanic => "panic" | .diverge => "diverge" | .ub => "ub" | .userPanic => "panic"

def entryStr (p : Params) (e : Entry) : String :=
  s!"{pairStr (e.key, e.val)}:{entrySize p e.key e.val}"

def optPairStr : Option Entry → String
  | none => "-"
  | some e => pairStr (e.key, e.val)

/-- The observation of a live cache. -/
def obsStr (p : Params) (full : Bool) (c : Cache) (lb : String := "ok") : String :=
  let base := s!" len={c.shape.items} cur={c.cur} max={c.max} cap={c.shape.capacity} bk={c.shape.buckets}"
  if full then
    base ++ " ord=[" ++ ",".intercalate (c.entries.map (entryStr p)) ++ "]"
      ++ " rs=" ++ natList (c.entries.map (·.size))
      ++ " rord=" ++ natList (c.entries.reverse.map (·.key.id))
      ++ " lru=" ++ optPairStr (lruOf c.entries) ++ " mru=" ++ optPairStr (mruOf c.entries)
      ++ " lb=" ++ lb
  else base

structure St where
  p : Params := ⟨64, 16, 18446744073709551615⟩
  caches : Array (Option (Cache × Option CacheB)) := #[]
  /-- set by a `# seq … lb=off` header: this sequence is replayed on Level A only (very long
  sequences: the driver's per-step compaction of the Level B heap is linear in the allocation counter) -/
  noLb : Bool := false

def St.get? (s : St) (i : Nat) : Option (Cache × Option CacheB) := (s.caches[i]?).join
def St.set (s : St) (i : Nat) (c : Option (Cache × Option CacheB)) : St :=
  let cs := if i < s.caches.size then s.caches else s.caches ++ Array.replicate (i + 1 - s.caches.size) none
  { s with caches := cs.set! i c }

/-- Driver-level: replace the closure chains of the Level B heap by array lookups (same function on
every address below `fresh`, which are the only ones ever dereferenced validly). -/
def compactB (c : CacheB) : CacheB :=
  let n := c.fresh
  let la := (Array.range n).map c.links
  let sa := (Array.range n).map c.st
  let ea := (Array.range n).map c.ent
  let ha := (Array.range n).map c.has
  { c with links := fun x => la.getD x ⟨0, 0⟩, st := fun x => sa.getD x .dead,
           ent := fun x => ea.getD x default, has := fun x => ha.getD x false }

/-- Level B against Level A: same entries in the same order, same totals, no undefined access. -/
def lbStr (a : Cache) (b : CacheB) : String :=
  if b.ub then "ub"
  else if b.abs.entries != a.entries then "order"
  else if b.abs.cur != a.cur || b.abs.max != a.max then "sizes"
  else if b.shape != a.shape then "shape"
  else if b.table.length != a.entries.length then "table"
  else if (CacheB.walkNext b.links b.sl b.table.length (b.links b.sl).next) != b.order.reverse then "mirror"
  else "ok"

def parseKind : String → Option IterKind
  | "iter" => some .iter | "keys" => some .keys | "values" => some .values
  | "drain" => some .drain | "into" => some .intoIter | "intok" => some .intoKeys
  | "intov" => some .intoValues | _ => none

def parsePk (s : String) : Option (CbKind × Nat) :=
  match s.splitOn ":" with
  | [k, n] =>
    let kind := match k with
      | "hash" => some CbKind.hash | "sizek" => some .szK | "sizev" => some .szV
      | "clonek" => some .cloneK | "clonev" => some .cloneV | "pred" => some .pred | "closure" => some .closure
      | _ => none
    match kind, n.toNat? with
    | some kd, some n => some (kd, n)
    | _, _ => none
  | _ => none

def parseCalls (s : String) : List Bool :=
  s.toList.filterMap fun ch => if ch = 'f' then some true else if ch = 'b' then some false else none

def nats (l : List String) : Option (List Nat) := l.mapM String.toNat?

/-- Parse an operation (tokens after the cache index). -/
def parseOp (toks : List String) : Option Op :=
  match toks with
  | ["ins", id, kh, kt, vh, vt] => do
    let [id, kh, kt, vh, vt] ← nats [id, kh, kt, vh, vt] | none
    some (.insert ⟨id, kh, kt⟩ ⟨vh, vt⟩)
  | ["tins", id, kh, kt, vh, vt] => do
    let [id, kh, kt, vh, vt] ← nats [id, kh, kt, vh, vt] | none
    some (.tryInsert ⟨id, kh, kt⟩ ⟨vh, vt⟩)
  | ["get", id] => id.toNat?.map .get
  | ["gete", id] => id.toNat?.map .getEntry
  | ["touch", id] => id.toNat?.map .touch
  | ["peek", id] => id.toNat?.map .peek
  | ["peeke", id] => id.toNat?.map .peekEntry
  | ["has", id] => id.toNat?.map .contains
  | ["rm", id] => id.toNat?.map .remove
  | ["rme", id] => id.toNat?.map .removeEntry
  | ["rmlru"] => some .removeLru
  | ["rmmru"] => some .removeMru
  | ["getlru"] => some .getLru
  | ["peeklru"] => some .peekLru
  | ["peekmru"] => some .peekMru
  | ["setmax", m] => m.toNat?.map .setMaxSize
  | ["reserve", a] => a.toNat?.map .reserve
  | ["tryreserve", a] => a.toNat?.map .tryReserve
  | ["shrink", m] => m.toNat?.map .shrinkTo
  | ["shrinkfit"] => some .shrinkToFit
  | ["mut", id, "set", h] => do
    let id ← id.toNat?; let h ← h.toNat?
    some (.mutate id fun v => ({ v with heap := h }, v.heap))
  | ["mut", id, "rep", h, t] => do
    let id ← id.toNat?; let h ← h.toNat?; let t ← t.toNat?
    some (.mutate id fun v => (⟨h, t⟩, v.heap))
  | ["retain", "idx", bits] =>
    let bs := bits.toList.map (· != '0')
    some (.retain fun i _ _ => bs.getD i true)
  | "retain" :: "ids" :: rest => do
    let l ← nats rest
    some (.retain fun _ k _ => !l.contains k.id)
  | ["clear"] => some .clear
  | ["it", kind, calls, fate] => do
    let k ← parseKind kind
    some (.iterate k (parseCalls calls) (fate == "f"))
  | ["dbg"] => some .debugFmt
  | ["nop"] => some (.iterate .iter [] false)
  | ["readers", _, _] => some (.iterate .iter [] false)   -- concurrent `&self` readers: no effect on the model
  | _ => none

def isSortedOp : Op → Bool
  | .clear => true
  | _ => false

/-- Number of table removals and whether an insertion happened, from shapes. Used to bound the
oracle search. -/
def candidates (maxTombs : Nat) (allocOk : Bool) : List Oracle :=
  (List.range (maxTombs + 1)).flatMap fun t =>
    [{ tombs := t, reuse := false, allocOk := allocOk }, { tombs := t, reuse := true, allocOk := allocOk }]

def pickOracle (run : Oracle → Res) (items : Nat) (ocap obk : Nat) (allocOk : Bool) : Oracle × Res :=
  let o0 : Oracle := { allocOk := allocOk }
  let r0 := run o0
  if r0.cache.shape.capacity = ocap ∧ r0.cache.shape.buckets = obk then (o0, r0)
  else
    let k := items + 1 - r0.cache.shape.items
    match (candidates k allocOk).find? fun o =>
        let r := run o
        r.cache.shape.capacity = ocap ∧ r.cache.shape.buckets = obk with
    | some o => (o, run o)
    | none => (o0, r0)

def resLine (p : Params) (full sorted : Bool) (r : Res) (live : Option Cache) (lb : String := "ok") : String :=
  let hs := hashIds r.evs
  let s := s!"ret={outStr r.out} st={statusStr r.status} h={hs.length} ev={evsStr r.evs sorted}"
  let panicked := r.status == .userPanic || r.status == .implPanic
  let s := if full then s ++ " hs=" ++ (if panicked then "-" else natList (sortBy id hs)) else s
  match live with
  | some c => s ++ obsStr p full c lb
  | none => if lb == "ok" then s else s ++ " lb=" ++ lb

def processLine (s : St) (line : String) : St × String :=
  let line := line.trimAscii.toString
  if line.startsWith "# seq" then ({ s with noLb := (line.splitOn " ").contains "lb=off" }, "#")
  else if line.isEmpty || line.startsWith "#" then (s, "#")
  else
    let (opPart, hintPart) := match line.splitOn " | " with
      | [a, b] => (a, b)
      | [a] => (a, "")
      | _ => (line, "")
    let toks0 := opPart.splitOn " "
    let hints := hintPart.splitOn " "
    -- panic directive `!kind:n` (last token) and the harness's report `pk=kind:n` of where an `eq`
    -- panic fell (the lookup opened by that hash call)
    let directive := toks0.getLast?.bind fun t => if t.startsWith "!" then parsePk (t.drop 1).toString else none
    let toks := if (toks0.getLast?.map (·.startsWith "!")).getD false then toks0.dropLast else toks0
    let hintPk := hints.findSome? fun t => if t.startsWith "pk=" then parsePk (t.drop 3).toString else none
    let isEq := (toks0.getLast?.map (·.startsWith "!eq:")).getD false
    let pk : Option (CbKind × Nat) := if isEq then hintPk else directive
    let ocap := (hints[0]? >>= String.toNat?).getD 0
    let obk := (hints[1]? >>= String.toNat?).getD 0
    let allocOk := !(hints.contains "af")
    match toks with
    | ["P", a, b, c] =>
      match nats [a, b, c] with
      | some [a, b, c] => ({ s with p := ⟨a, b, c⟩, caches := #[] }, "P")
      | _ => (s, "bad-op")
    | mode :: "new" :: rest =>
      match nats rest with
      | some [i, m] => (s.set i (some (Cache.new m, if s.noLb then none else some (CacheB.new m 0))),
          "ret=unit st=ok h=0 ev=[]" ++ (if mode == "F" then " hs=[]" else "") ++ obsStr s.p (mode == "F") (Cache.new m))
      | some [i, m, n] => (s.set i (some (Cache.withCapacity m n, if s.noLb then none else some (CacheB.new m n))),
          "ret=unit st=ok h=0 ev=[]" ++ (if mode == "F" then " hs=[]" else "") ++ obsStr s.p (mode == "F") (Cache.withCapacity m n))
      | _ => (s, "bad-op")
    | [mode, "clone", i, j, base] =>
      match nats [i, j, base] with
      | some [i, j, base] =>
        match s.get? i with
        | some (c, cb) =>
          match pk with
          | some (kind, n) =>
            if cbCount kind (clone c base).2.1 < n then
              let r := clone c base
              let res : Res := { cache := r.1, out := .cloned, evs := r.2.1, status := r.2.2 }
              (s.set j (some (r.1, none)), resLine s.p (mode == "F") false res (some r.1))
            else
              let r := stepP s.p c (.cloneProbe base) {} kind n
              (s, resLine s.p (mode == "F") true r none)
          | none =>
            let r := clone c base
            let db := cb.map (·.clone base)
            let res : Res := { cache := r.1, out := .cloned, evs := r.2.1, status := r.2.2 }
            (s.set j (some (r.1, db.map compactB)), resLine s.p (mode == "F") false res (some r.1)
              (match db with | some d => lbStr r.1 d | none => "ok"))
        | none => (s, "bad-cache")
      | _ => (s, "bad-op")
    | [mode, "clonefrom", i, j, base] =>
      -- `d.clone_from(&c)` = `*d = c.clone()`: the clone is built, then the old `d` is dropped
      match nats [i, j, base] with
      | some [i, j, base] =>
        match s.get? i, s.get? j with
        | some (c, cb), some (d, db0) =>
          -- a panic of `Clone`/`Hash` while the clone is being built: `*d = c.clone()` never assigns, `d` is as it was
          -- (`Model/CloneFrom.lean`: `cloneFromP`, `cloneFrom`; theorems in `Props/C14c.lean`)
          if (match pk with | some (kind, n) => cloneFires c base kind n | none => false) then
            match pk with
            | some (kind, n) =>
              let r := cloneFromP s.p d c base kind n
              (s, resLine s.p (mode == "F") true r (some d))
            | none => (s, "bad-op")
          else
          let r := cloneFrom d c base
          let db := cb.map (·.clone base)
          let res : Res := { cache := r.1, out := .cloned, evs := r.2.1, status := r.2.2 }
          let oldUb := match db0 with | some b => b.dropCache.ub | none => false
          (s.set j (some (r.1, db.map compactB)), resLine s.p (mode == "F") true res (some r.1)
            (if oldUb then "ub" else match db with | some x => lbStr r.1 x | none => "ok"))
        | _, _ => (s, "bad-cache")
      | _ => (s, "bad-op")
    | [mode, "drop", i] =>
      match i.toNat? with
      | some i =>
        match s.get? i with
        | some (c, cb) =>
          let res : Res := { cache := c, out := .unit, evs := dropCache c }
          (s.set i none, resLine s.p (mode == "F") true res none
            (match cb with | some b => (if b.dropCache.ub then "ub" else "ok") | none => "ok"))
        | none => (s, "bad-cache")
      | none => (s, "bad-op")
    | mode :: i :: opToks =>
      match i.toNat?, parseOp opToks with
      | some i, some op =>
        match s.get? i with
        | some (c, cb) =>
          let full := mode == "F"
          if op.consumes then
            let r := step s.p c op {}
            let ub := match cb with | some b => (stepB s.p b op {}).ub | none => false
            (s.set i none, resLine s.p full false r none (if ub then "ub" else "ok"))
          else
            match pk with
            | some (kind, n) =>
              let (o, r) := pickOracle (fun o => stepP s.p c op o kind n) c.shape.items ocap obk allocOk
              -- Level B follows the panic: the pointer structure at the abort point (`Model/PanicB.lean`)
              let cb' := cb.map fun b => compactB (stepPB s.p b op o kind n)
              let lb := match cb' with | some b => lbStr r.cache b | none => "ok"
              if r.status == .userPanic then
                (s.set i (some (r.cache, cb')), resLine s.p full true r (some r.cache) lb)
              else
                (s.set i (some (r.cache, cb')), resLine s.p full (isSortedOp op) r (some r.cache) lb)
            | none =>
              let (o, r) := pickOracle (step s.p c op) c.shape.items ocap obk allocOk
              -- an arithmetic step of the operation leaves `usize` (Proofs/Arith.lean): the real code
              -- panics there (overflow checks are on in the harness build); the harness then empties the cache
              if !(arithOf s.p c op o).all (fun a => decide (a.ok s.p)) then
                (s.set i (some ({ c with entries := [], cur := 0, shape := c.shape.cleared }, none)), "ar=ovf")
              else
              let cb' := cb.map fun b => compactB (stepB s.p b op o)
              (s.set i (some (r.cache, cb')), resLine s.p full (isSortedOp op) r (some r.cache)
                (match cb' with | some b => lbStr r.cache b | none => "ok"))
        | none => (s, "bad-cache")
      | _, _ => (s, "bad-op")
    | _ => (s, "bad-op")

/-! ## size-estimation lines (C08 / C09) -/
namespace Mem
open LruMem.MemSize

/-- parse `k` items with `p` -/
def many {α : Type} (p : List String → Option (α × List String)) : Nat → List String → Option (List α × List String)
  | 0, ts => some ([], ts)
  | k + 1, ts => do
    let (x, ts) ← p ts
    let (xs, ts) ← many p k ts
    some (x :: xs, ts)

def parseTy : Nat → List String → Option (Ty × List String)
  | 0, _ => none
  | f + 1, toks =>
    match toks with
    | "prim" :: sz :: r => sz.toNat?.map fun n => (.prim n, r)
    | "strlike" :: r => some (.strLike, r)
    | "path" :: r => some (.path, r)
    | "phantom" :: r => some (.phantom, r)
    | "userdyn" :: r => some (.userDyn, r)
    | "string" :: sz :: r => sz.toNat?.map fun n => (.stringLike n, r)
    | "user" :: sz :: r => sz.toNat?.map fun n => (.user n, r)
    | "cstring" :: sz :: r => sz.toNat?.map fun n => (.cString n, r)
    | "slice" :: r => do let (t, r) ← parseTy f r; some (.slice t, r)
    | "array" :: sz :: n :: r => do
      let sz ← sz.toNat?; let n ← n.toNat?; let (t, r) ← parseTy f r; some (.array sz n t, r)
    | "tuple" :: sz :: k :: r => do
      let sz ← sz.toNat?; let k ← k.toNat?; let (ts, r) ← many (parseTy f) k r; some (.tuple sz ts, r)
    | "result" :: sz :: r => do
      let sz ← sz.toNat?; let (t, r) ← parseTy f r; let (e, r) ← parseTy f r; some (.result sz t e, r)
    | "hset" :: sz :: r => do
      let sz ← sz.toNat?; let (t, r) ← parseTy f r; let (s, r) ← parseTy f r; some (.hashSet sz t s, r)
    | "hmap" :: sz :: esz :: r => do
      let sz ← sz.toNat?; let esz ← esz.toNat?
      let (k, r) ← parseTy f r; let (v, r) ← parseTy f r; let (s, r) ← parseTy f r
      some (.hashMap sz esz k v s, r)
    | name :: sz :: r => do
      let sz ← sz.toNat?
      let (t, r) ← parseTy f r
      match name with
      | "ref" => some (.ref sz t, r)
      | "box" => some (.box sz t, r)
      | "option" => some (.option sz t, r)
      | "wrapping" => some (.wrapping sz t, r)
      | "range2" => some (.range2 sz t, r)
      | "range1" => some (.range1 sz t, r)
      | "lock" => some (.lock sz t, r)
      | "vec" => some (.vec sz t, r)
      | "bheap" => some (.binaryHeap sz t, r)
      | _ => none
    | _ => none

def parseVal : Nat → List String → Option (TVal × List String)
  | 0, _ => none
  | f + 1, toks =>
    match toks with
    | "unit" :: r => some (.unit, r)
    | "none" :: r => some (.none, r)
    | "bytes" :: n :: r => n.toNat?.map fun n => (.bytes n, r)
    | "buf" :: n :: r => n.toNat?.map fun n => (.buf n, r)
    | "ref" :: r => do let (v, r) ← parseVal f r; some (.ref v, r)
    | "box" :: r => do let (v, r) ← parseVal f r; some (.box v, r)
    | "some" :: r => do let (v, r) ← parseVal f r; some (.some v, r)
    | "ok" :: r => do let (v, r) ← parseVal f r; some (.ok v, r)
    | "err" :: r => do let (v, r) ← parseVal f r; some (.err v, r)
    | "wrap" :: r => do let (v, r) ← parseVal f r; some (.wrap v, r)
    | "one" :: r => do let (v, r) ← parseVal f r; some (.one v, r)
    | "two" :: r => do let (a, r) ← parseVal f r; let (b, r) ← parseVal f r; some (.two a b, r)
    | "seq" :: k :: r => do let k ← k.toNat?; let (vs, r) ← many (parseVal f) k r; some (.seq vs, r)
    | "tup" :: k :: r => do let k ← k.toNat?; let (vs, r) ← many (parseVal f) k r; some (.tup vs, r)
    | "coll" :: cap :: k :: r => do
      let cap ← cap.toNat?; let k ← k.toNat?; let (vs, r) ← many (parseVal f) k r; some (.coll cap vs, r)
    | "set" :: cap :: k :: r => do
      let cap ← cap.toNat?; let k ← k.toNat?; let (vs, r) ← many (parseVal f) k r
      let (h, r) ← parseVal f r; some (.set cap vs h, r)
    | "map" :: cap :: k :: r => do
      let cap ← cap.toNat?; let k ← k.toNat?
      let (ks, r) ← many (parseVal f) k r; let (vs, r) ← many (parseVal f) k r
      let (h, r) ← parseVal f r; some (.map cap ks vs h, r)
    | _ => none

def line (l : String) : String :=
  match l.splitOn " ; " with
  | [a, b] =>
    let atoks := a.splitOn " "
    let bt := b.splitOn " "
    match atoks with
    | "M" :: tt =>
      match parseTy 64 tt, parseVal 64 bt with
      | some (t, []), some (v, []) =>
        s!"heap={heapSize t v} val={valueSize t v} mem={memSize t v} alloc={allocBytes t v}"
      | _, _ => "bad-mem"
    | "H" :: tt =>
      match parseTy 64 tt, bt with
      | some (t, []), k :: rest =>
        match k.toNat? with
        | some k =>
          match many (parseVal 64) k rest with
          | some (vs, []) => s!"hsi={hsSumIter t vs} hse={hsSumExact t vs} vsi={vsSumIter t vs} vse={vsSumExact t vs}"
          | _ => "bad-mem"
        | none => "bad-mem"
      | _, _ => "bad-mem"
    | _ => "bad-mem"
  | _ => "bad-mem"

end Mem

/-! ## re-synchronisation with the implementation's observed state

When the harness's observation file is given as the first argument, the driver compares its own
prediction for a line with what the implementation showed. The prediction is printed unchanged (so the
disagreement is reported for that line), but if the two differ and the observation is a full one,
the model continues **from the implementation's observed state** (contents in order with their
recorded sizes, total, limit, table shape). Every line is thus checked as one transition from the
state the real code was actually in — the refinement square, step by step — and a divergence at
one line does not echo through the rest of the sequence. Level B is not tracked further for a cache
that was re-synchronised (its heap cannot be reconstructed from an observation). -/

def fieldOf (toks : List String) (name : String) : Option String :=
  toks.findSome? fun t => if t.startsWith (name ++ "=") then some (t.drop (name.length + 1)).toString else none

def bracketItems (s : String) : Option (List String) :=
  if s.startsWith "[" && s.endsWith "]" then
    let inner := ((s.drop 1).toString.dropEnd 1).toString
    some (if inner.isEmpty then [] else inner.splitOn ",")
  else none

def parseObsCache (obs : String) : Option Cache := do
  let toks := obs.splitOn " "
  if toks.contains "WALKERR" then none
  let len ← (fieldOf toks "len") >>= String.toNat?
  let cur ← (fieldOf toks "cur") >>= String.toNat?
  let max ← (fieldOf toks "max") >>= String.toNat?
  let cap ← (fieldOf toks "cap") >>= String.toNat?
  let bk ← (fieldOf toks "bk") >>= String.toNat?
  let ord ← (fieldOf toks "ord") >>= bracketItems
  let rs ← (fieldOf toks "rs") >>= bracketItems
  let sizes ← rs.mapM String.toNat?
  if sizes.length != ord.length || len != ord.length || cap < len then none
  let ents ← (ord.zip sizes).mapM fun (item, sz) =>
    match (item.splitOn ":").mapM String.toNat? with
    | some [id, kh, kt, vh, vt, _] => some ({ key := ⟨id, kh, kt⟩, val := ⟨vh, vt⟩, size := sz } : Entry)
    | _ => none
  some { entries := ents, cur := cur, max := max, shape := ⟨bk, len, cap - len⟩ }

/-- The cache whose state the observation of this line shows. -/
def lineCache (line : String) : Option Nat :=
  let opPart := (line.trimAscii.toString.splitOn " | ").headD ""
  match opPart.splitOn " " with
  | ["F", "clone", _, j, _] => j.toNat?
  | ["F", "clonefrom", _, j, _] => j.toNat?
  | "F" :: "new" :: i :: _ => i.toNat?
  | ["F", "drop", _] => none
  | "F" :: i :: _ => i.toNat?
  | _ => none

/-- light lines show their cache too (for the `ar=ovf` case) -/
def lineCacheAny (line : String) : Option Nat :=
  let opPart := (line.trimAscii.toString.splitOn " | ").headD ""
  match opPart.splitOn " " with
  | _ :: "new" :: _ => none
  | _ :: "clone" :: _ => none
  | _ :: "clonefrom" :: _ => none
  | _ :: "drop" :: _ => none
  | _ :: i :: _ => i.toNat?
  | _ => none

def resync (s : St) (line obs : String) : St :=
  if obs == "ar=ovf" then
    -- the real code panicked inside the crate although the model saw no failing arithmetic step: the harness
    -- has emptied that cache (`clear`), so does the model
    match lineCacheAny line with
    | none => s
    | some i =>
      match s.get? i with
      | some (c, _) => s.set i (some ({ c with entries := [], cur := 0, shape := c.shape.cleared }, none))
      | none => s
  else
  match lineCache line with
  | none => s
  | some i =>
    match s.get? i, parseObsCache obs with
    | some _, some c => s.set i (some (c, none))
    | _, _ => s

partial def loop (h : IO.FS.Stream) (obs : Option IO.FS.Stream) (out : IO.FS.Stream) (s : St) : IO Unit := do
  let line ← h.getLine
  if line.isEmpty then return ()
  let obsLine ← match obs with
    | some o => do let l ← o.getLine; pure (some l.trimAscii.toString)
    | none => pure none
  if line.startsWith "M " || line.startsWith "H " then
    out.putStrLn (Mem.line line.trimAscii.toString)
    loop h obs out s
  else
    let (s', o) := processLine s line
    out.putStrLn o
    let s'' := match obsLine with
      | some ol => if ol != o && !ol.isEmpty then resync s' line ol else s'
      | none => s'
    loop h obs out s''

end Driver

def main (args : List String) : IO Unit := do
  let stdin ← IO.getStdin
  let stdout ← IO.getStdout
  let obs ← match args with
    | path :: _ => do
      let hd ← IO.FS.Handle.mk path .read
      pure (some (IO.FS.Stream.ofHandle hd))
    | [] => pure none
  Driver.loop stdin obs stdout {}
