-- Root of the `LruMem` library: the models (import-free) and everything proved about them.
import LruMem.Model.Basic
import LruMem.Model.Events
import LruMem.Model.Abs
import LruMem.Model.Step
