-- Root of the `LruMem` library: the models (import-free) and everything proved about them.
import LruMem.Model.Basic
import LruMem.Model.Events
import LruMem.Model.Abs
import LruMem.Model.Step
import LruMem.Proofs.Lists
import LruMem.Proofs.Eject
import LruMem.Proofs.Hashbrown
import LruMem.Proofs.Inv
import LruMem.Proofs.Reach
import LruMem.Props.C01
import LruMem.Props.C02
