import LruMem.Model.Events
/-!
# Level A: every public operation of `LruCache` as a total function

Each definition mirrors the control flow and the arithmetic of the Rust method named in its
comment (`/repo/src/lib.rs`, `iter.rs`), over the list of entries in LRU→MRU order.
Subtractions are written where the code subtracts (truncated on `Nat`; `Proofs/Arith` shows they
never truncate under the invariant).
-/
namespace LruMem

/-! ## eviction -/

/-- Events of one `remove_lru` whose result is discarded: `remove_ptr` hashes the key
(`lib.rs` `remove_ptr`), the pair is dropped key first. -/
def evictEvs (e : Entry) : List Ev := [.hash e.key.id, .dropK e.key.tok, .dropV e.val.tok]

structure Ejected where
  rest : List Entry
  cur : Nat
  evicted : List Entry
  diverged : Bool
deriving Repr, DecidableEq, Inhabited

/-- `eject_to_target`: `while self.current_size > target { self.remove_lru(); }`.
On an empty list `remove_lru` does nothing, so the loop would spin: `diverged`. -/
def eject : List Entry → Nat → Nat → Ejected
  | [], cur, target => ⟨[], cur, [], decide (cur > target)⟩
  | e :: es, cur, target =>
    if cur > target then
      let r := eject es (cur - e.size) target
      ⟨r.rest, r.cur, e :: r.evicted, r.diverged⟩
    else ⟨e :: es, cur, [], false⟩

def evictAllEvs (l : List Entry) : List Ev := l.flatMap evictEvs

def rehashEvs (l : List Entry) : List Ev := l.map fun e => Ev.hash e.key.id

/-! ## insertion -/

structure Grown where
  cache : Cache
  evs : List Ev
  rebuilt : Option Nat
  status : Status
deriving Repr, DecidableEq, Inhabited

/-- `insert_unchecked`: try the table; on refusal `reallocate(max(2·capacity, 1))` and retry
(the loop is unrolled twice; a third round is reported as `diverge`). -/
def insertUnchecked (c : Cache) (e : Entry) (o : Oracle) : Grown :=
  if c.shape.canInsert o.reuse then
    { cache := { c with entries := c.entries ++ [e], cur := c.cur + e.size,
                        shape := c.shape.inserted o.reuse },
      evs := [], rebuilt := none, status := .ok }
  else
    let n := Nat.max (2 * c.shape.capacity) 1
    let sh := c.shape.rebuilt n
    if sh.canInsert false then
      { cache := { c with entries := c.entries ++ [e], cur := c.cur + e.size,
                          shape := sh.inserted false },
        evs := rehashEvs c.entries, rebuilt := some c.entries.length, status := .ok }
    else
      { cache := { c with shape := sh }, evs := rehashEvs c.entries,
        rebuilt := some c.entries.length, status := .diverge }

def oldSize (old : Option Entry) : Nat := match old with | some e => e.size | none => 0
def oldCount (old : Option Entry) : Nat := match old with | some _ => 1 | none => 0

/-- `LruCache::insert` (`lib.rs` `insert`, `prepare_insert`). -/
def insert (p : Params) (c : Cache) (k : Key) (v : Val) (o : Oracle) : Res :=
  let s := entrySize p k v
  if s > c.max then
    { cache := c, out := .insTooLarge k v s c.max, evs := [.szK k.tok, .szV v.tok] }
  else
    let old := lookup c.entries k.id
    let l1 := removeId c.entries k.id
    let cur1 := c.cur - oldSize old
    let ej := eject l1 cur1 (c.max - s)
    let c2 : Cache := { c with entries := ej.rest, cur := ej.cur,
                               shape := c.shape.remove (oldCount old + ej.evicted.length) o.tombs }
    let evs := [Ev.szK k.tok, .szV v.tok, .hash k.id]
      ++ (match old with | some e => [Ev.dropK e.key.tok] | none => [])
      ++ evictAllEvs ej.evicted
    if ej.diverged then
      { cache := c2, out := .unit, evs := evs, status := .diverge }
    else
      let g := insertUnchecked c2 ⟨k, v, s⟩ o
      { cache := g.cache, out := .ownVal (old.map (·.val)), evs := evs ++ g.evs,
        status := g.status, rebuilt := g.rebuilt }

/-- `LruCache::try_insert`. -/
def tryInsert (p : Params) (c : Cache) (k : Key) (v : Val) (o : Oracle) : Res :=
  let s := entrySize p k v
  let evs0 := [Ev.szK k.tok, .szV v.tok]
  if s > c.max then
    { cache := c, out := .tryTooLarge k v s c.max, evs := evs0 }
  else
    let free := c.max - c.cur
    if s > free then
      { cache := c, out := .tryWouldEject k v s free, evs := evs0 }
    else if (lookup c.entries k.id).isSome then
      { cache := c, out := .tryOccupied k v, evs := evs0 ++ [.hash k.id] }
    else
      let g := insertUnchecked c ⟨k, v, s⟩ o
      { cache := g.cache, out := .unit, evs := evs0 ++ [.hash k.id] ++ g.evs,
        status := g.status, rebuilt := g.rebuilt }

/-! ## lookups -/

def pairOf (e : Entry) : Key × Val := (e.key, e.val)

/-- `touch_ptr`: unhinge, then insert after the seal (most-recently-used end). -/
def touchList (l : List Entry) (e : Entry) : List Entry := removeId l e.key.id ++ [e]

/-- `get_entry` / `get` / `touch` share `get_mut_from_table` + `touch_ptr`. -/
def getEntry (c : Cache) (id : Nat) : Res :=
  match lookup c.entries id with
  | some e => { cache := { c with entries := touchList c.entries e },
                out := .refPair (some (pairOf e)), evs := [.hash id] }
  | none => { cache := c, out := .refPair none, evs := [.hash id] }

def get (c : Cache) (id : Nat) : Res :=
  let r := getEntry c id
  { r with out := .refVal ((lookup c.entries id).map (·.val)) }

def touch (c : Cache) (id : Nat) : Res :=
  { getEntry c id with out := .unit }

def peekEntry (c : Cache) (id : Nat) : Res :=
  { cache := c, out := .refPair ((lookup c.entries id).map pairOf), evs := [.hash id] }

def peek (c : Cache) (id : Nat) : Res :=
  { cache := c, out := .refVal ((lookup c.entries id).map (·.val)), evs := [.hash id] }

def contains (c : Cache) (id : Nat) : Res :=
  { cache := c, out := .bool (lookup c.entries id).isSome, evs := [.hash id] }

/-! ## removals -/

/-- `remove_entry`: `remove_from_table` + `remove_metadata`. -/
def removeEntry (c : Cache) (id : Nat) (o : Oracle) : Res :=
  match lookup c.entries id with
  | some e => { cache := { c with entries := removeId c.entries id, cur := c.cur - e.size,
                                  shape := c.shape.remove 1 o.tombs },
                out := .ownPair (some (pairOf e)), evs := [.hash id] }
  | none => { cache := c, out := .ownPair none, evs := [.hash id] }

/-- `remove`: the key of the removed pair is dropped, the value returned. -/
def remove (c : Cache) (id : Nat) (o : Oracle) : Res :=
  match lookup c.entries id with
  | some e => { removeEntry c id o with out := .ownVal (some e.val), evs := [.hash id, .dropK e.key.tok] }
  | none => { cache := c, out := .ownVal none, evs := [.hash id] }

def lruOf (l : List Entry) : Option Entry := l.head?
def mruOf (l : List Entry) : Option Entry := l.getLast?

/-- `remove_lru`: `lru_ptr` then `remove_ptr` (which hashes the stored key). -/
def removeLru (c : Cache) (o : Oracle) : Res :=
  match lruOf c.entries with
  | some e => { removeEntry c e.key.id o with out := .ownPair (some (pairOf e)) }
  | none => { cache := c, out := .ownPair none, evs := [] }

def removeMru (c : Cache) (o : Oracle) : Res :=
  match mruOf c.entries with
  | some e => { removeEntry c e.key.id o with out := .ownPair (some (pairOf e)) }
  | none => { cache := c, out := .ownPair none, evs := [] }

/-- `get_lru`: touches through the pointer, no hashing. -/
def getLru (c : Cache) : Res :=
  match lruOf c.entries with
  | some e => { cache := { c with entries := touchList c.entries e },
                out := .refPair (some (pairOf e)), evs := [] }
  | none => { cache := c, out := .refPair none, evs := [] }

def peekLru (c : Cache) : Res :=
  { cache := c, out := .refPair ((lruOf c.entries).map pairOf), evs := [] }

def peekMru (c : Cache) : Res :=
  { cache := c, out := .refPair ((mruOf c.entries).map pairOf), evs := [] }

/-! ## limit and capacity -/

/-- `set_max_size`: eject to the new limit, then store it. -/
def setMaxSize (c : Cache) (m : Nat) (o : Oracle) : Res :=
  let ej := eject c.entries c.cur m
  { cache := { c with entries := ej.rest, cur := ej.cur, max := m,
                      shape := c.shape.remove ej.evicted.length o.tombs },
    out := .unit, evs := evictAllEvs ej.evicted,
    status := if ej.diverged then .diverge else .ok }

/-- `move_to_table` into a fresh table for request `n`: every entry re-hashed once. -/
def rebuild (c : Cache) (n : Nat) : Cache × List Ev :=
  ({ c with shape := c.shape.rebuilt n }, rehashEvs c.entries)

/-- `reserve`: `new_capacity(additional).unwrap()`, then `reallocate` (`unwrap`). -/
def reserve (p : Params) (c : Cache) (a : Nat) (o : Oracle) : Res :=
  let n := c.shape.items + a
  if n > p.usizeMax then { cache := c, out := .unit, evs := [], status := .implPanic }
  else if c.shape.capacity < n then
    if tableOk p n && o.allocOk then
      { cache := (rebuild c n).1, out := .unit, evs := (rebuild c n).2, rebuilt := some c.entries.length }
    else { cache := c, out := .unit, evs := [], status := .implPanic }
  else { cache := c, out := .unit, evs := [] }

/-- `try_reserve`. -/
def tryReserve (p : Params) (c : Cache) (a : Nat) (o : Oracle) : Res :=
  let n := c.shape.items + a
  if n > p.usizeMax then { cache := c, out := .reserveOverflow, evs := [] }
  else if c.shape.capacity < n then
    if !tableOk p n then { cache := c, out := .reserveOverflow, evs := [] }
    else if !o.allocOk then { cache := c, out := .reserveAlloc, evs := [] }
    else
      { cache := (rebuild c n).1, out := .reserveOk, evs := (rebuild c n).2,
        rebuilt := some c.entries.length }
  else { cache := c, out := .reserveOk, evs := [] }

/-- `shrink_to` (after the `fix:` commit): allocate the table for `max(len, min)` first and move only
if it has fewer buckets and no higher capacity than the current one. -/
def shrinkTo (p : Params) (c : Cache) (m : Nat) (o : Oracle) : Res :=
  let n := Nat.max c.shape.items m
  if c.shape.capacity > n then
    if tableOk p n && o.allocOk then
      if bucketsFor n < c.shape.buckets ∧ freshCap n ≤ c.shape.capacity then
        { cache := (rebuild c n).1, out := .unit, evs := (rebuild c n).2,
          rebuilt := some c.entries.length }
      else { cache := c, out := .unit, evs := [] }
    else { cache := c, out := .unit, evs := [], status := .implPanic }
  else { cache := c, out := .unit, evs := [] }

def shrinkToFit (p : Params) (c : Cache) (o : Oracle) : Res := shrinkTo p c 0 o

/-! ## mutate -/

/-- `mutate` with the closure as a function `old value ↦ (new value, result)`. A closure that
replaces the object (different token) drops the old one itself. -/
def mutate (p : Params) (c : Cache) (id : Nat) (f : Val → Val × Nat) (o : Oracle) : Res :=
  match lookup c.entries id with
  | none => { cache := c, out := .mutOk none, evs := [.hash id] }
  | some e =>
    let oldSz := valMemSize p e.val
    let v' := (f e.val).1
    let r := (f e.val).2
    let newSz := valMemSize p v'
    let evs0 := [Ev.hash id, .szV e.val.tok, .closure e.val.tok]
      ++ (if v'.tok = e.val.tok then [] else [Ev.dropV e.val.tok]) ++ [.szV v'.tok]
    if newSz > oldSz then
      let diff := newSz - oldSz
      let newEntry := e.size + diff
      if newEntry > c.max then
        { cache := { c with entries := removeId c.entries id, cur := c.cur - e.size,
                            shape := c.shape.remove 1 o.tombs },
          out := .mutTooLarge e.key v' e.size newEntry c.max, evs := evs0 ++ [.hash id] }
      else
        let e' : Entry := { e with val := v', size := newEntry }
        let ej := eject (touchList c.entries e') (c.cur + diff) c.max
        { cache := { c with entries := ej.rest, cur := ej.cur,
                            shape := c.shape.remove ej.evicted.length o.tombs },
          out := .mutOk (some r), evs := evs0 ++ evictAllEvs ej.evicted,
          status := if ej.diverged then .diverge else .ok }
    else
      let diff := oldSz - newSz
      let e' : Entry := { e with val := v', size := e.size - diff }
      { cache := { c with entries := touchList c.entries e', cur := c.cur - diff },
        out := .mutOk (some r), evs := evs0 }

/-! ## retain, clear, clone, drop -/

structure Retained where
  kept : List Entry
  removed : List Entry
  evs : List Ev
deriving Repr, DecidableEq, Inhabited

/-- The walk of `retain` from the LRU end; `pr` is the `FnMut` predicate with its state threaded. -/
def retainGo {σ : Type} (pr : σ → Key → Val → Bool × σ) : σ → List Entry → Retained
  | _, [] => ⟨[], [], []⟩
  | st, e :: l =>
    let d := pr st e.key e.val
    let r := retainGo pr d.2 l
    if d.1 then ⟨e :: r.kept, r.removed, .pred e.key.tok e.val.tok :: r.evs⟩
    else ⟨r.kept, e :: r.removed,
          [.pred e.key.tok e.val.tok, .hash e.key.id, .dropK e.key.tok, .dropV e.val.tok] ++ r.evs⟩

def subSizes : Nat → List Entry → Nat
  | cur, [] => cur
  | cur, e :: l => subSizes (cur - e.size) l

def retain {σ : Type} (c : Cache) (pr : σ → Key → Val → Bool × σ) (st : σ) (o : Oracle) : Res :=
  let r := retainGo pr st c.entries
  { cache := { c with entries := r.kept, cur := subSizes c.cur r.removed,
                      shape := c.shape.remove r.removed.length o.tombs },
    out := .unit, evs := r.evs }

def dropAllEvs (l : List Entry) : List Ev := l.flatMap fun e => [.dropK e.key.tok, .dropV e.val.tok]

/-- `clear`: drains the table (dropping in table order — canonicalised when printed). -/
def clear (c : Cache) : Res :=
  { cache := { c with entries := [], cur := 0, shape := c.shape.cleared },
    out := .unit, evs := dropAllEvs c.entries }

/-- `Drop for LruCache`. -/
def dropCache (c : Cache) : List Ev := dropAllEvs c.entries

def cloneEntries : List Entry → Nat → List Entry
  | [], _ => []
  | e :: l, base =>
    { e with key := { e.key with tok := base }, val := { e.val with tok := base + 1 } }
      :: cloneEntries l (base + 2)

def cloneEvs : List Entry → Nat → List Ev
  | [], _ => []
  | e :: l, base =>
    [.cloneK e.key.tok base, .cloneV e.val.tok (base + 1), .hash e.key.id] ++ cloneEvs l (base + 2)

/-- `Clone for LruCache`: `with_capacity(capacity())`, `current_size` copied, then every entry
cloned LRU→MRU and `insert_untracked` (`unwrap_unchecked` on the table insert). Fresh objects get
tokens `base, base+1, …`. Returns the clone; the source is not part of the result because it is
only read. -/
def clone (c : Cache) (base : Nat) : Cache × List Ev × Status :=
  let cap := c.shape.capacity
  let sh := Shape.fresh cap
  let n := c.entries.length
  ({ entries := cloneEntries c.entries base, cur := c.cur, max := c.max,
     shape := { sh with items := n, growthLeft := sh.growthLeft - n } },
   cloneEvs c.entries base,
   if n ≤ sh.growthLeft then .ok else .ub)

/-! ## iterator scenarios at Level A -/

/-- One `next` (`front = true`) or `next_back` on what is left. -/
def iterStep (rem : List Entry) (front : Bool) : Option Entry × List Entry :=
  if front then (rem.head?, rem.tail) else (rem.getLast?, rem.dropLast)

def iterCalls : List Entry → List Bool → List (Option Entry) × List Entry
  | rem, [] => ([], rem)
  | rem, f :: fs =>
    let s := iterStep rem f
    let r := iterCalls s.2 fs
    (s.1 :: r.1, r.2)

/-- Events of the calls themselves: `into_keys` drops each value as it yields the key and
`into_values` each key. -/
def yieldEvs (kind : IterKind) (ys : List (Option Entry)) : List Ev :=
  match kind with
  | .intoKeys => ys.filterMap fun y => y.map fun e => Ev.dropV e.val.tok
  | .intoValues => ys.filterMap fun y => y.map fun e => Ev.dropK e.key.tok
  | _ => []

structure IterRes where
  /-- the cache afterwards (`none`: consumed by an owning iterator) -/
  cache : Option Cache
  out : Out
  evs : List Ev
deriving Repr, DecidableEq, Inhabited

/-- Create an iterator of this kind, make the calls, then drop (`forget = false`) or leak it. -/
def iterScenario (c : Cache) (kind : IterKind) (calls : List Bool) (forget : Bool) : IterRes :=
  let r := iterCalls c.entries calls
  let out := Out.items kind (r.1.map (·.map pairOf))
  if kind.borrowing then ⟨some c, out, []⟩
  else
    let evs := yieldEvs kind r.1 ++ (if forget then [] else dropAllEvs r.2)
    match kind with
    | .drain => ⟨some { c with entries := [], cur := 0, shape := c.shape.cleared }, out, evs⟩
    | _ => ⟨none, out, evs⟩

/-! ## constructors -/

def Cache.new (max : Nat) : Cache := { entries := [], cur := 0, max := max, shape := Shape.fresh 0 }
def Cache.withCapacity (max n : Nat) : Cache :=
  { entries := [], cur := 0, max := max, shape := Shape.fresh n }

end LruMem
