import LruMem.Model.Step
/-!
# The arithmetic steps of every operation (definitions; the theorems are in `Proofs/Arith.lean`)

Operation by operation and in program order, every addition and subtraction on sizes that the Rust
code performs (`entry.rs:35` `entry_size`; `lib.rs` `remove_metadata` `current_size -= entry.size()`,
`insert` `max_size - entry.size()`, `insert_unchecked` `current_size += size` and `capacity() * 2`,
`try_insert` `max_size - current_size`, `mutate` — both size estimates, `new - old`,
`entry.size + diff`, `current_size += diff`, `old - new`, `entry.size -= diff`,
`current_size -= diff` — and the subtractions of every eviction and of `retain`). Part of the model:
the driver evaluates `arithOf` on every replayed line and predicts `ar=ovf` (the real code panics
there: the harness is built with overflow checks on) exactly when a step leaves `usize`.
-/
namespace LruMem

/-- One arithmetic step on `usize` values. -/
inductive Arith
  | sub (a b : Nat)
  | add (a b : Nat)
deriving Repr, DecidableEq

/-- The step stays inside `usize`: no borrow, no carry. -/
def Arith.ok (p : Params) : Arith → Prop
  | .sub a b => b ≤ a
  | .add a b => a + b ≤ p.usizeMax

instance (p : Params) (a : Arith) : Decidable (a.ok p) := by
  cases a <;> simp only [Arith.ok] <;> infer_instance

/-- `entry_size(key, value)`: `key_heap_size + value_heap_size + size_of::<Entry>()`. -/
def sizeArith (p : Params) (k : Key) (v : Val) : List Arith :=
  [.add k.heap v.heap, .add (k.heap + v.heap) p.ovh]

/-- The `current_size -= entry.size()` of every eviction of `eject_to_target`, in order. -/
def ejectArith : List Entry → Nat → Nat → List Arith
  | [], _, _ => []
  | e :: es, cur, target =>
    if cur > target then .sub cur e.size :: ejectArith es (cur - e.size) target else []

/-- `insert_unchecked`: `capacity() * 2` when the table refuses, then `current_size += size`. -/
def insertUncheckedArith (c : Cache) (s : Nat) (o : Oracle) : List Arith :=
  (if c.shape.canInsert o.reuse then [] else [.add c.shape.capacity c.shape.capacity]) ++ [.add c.cur s]

/-- `current_size -= entry.size()` of each entry `retain` removes, in order. -/
def subArith : Nat → List Entry → List Arith
  | _, [] => []
  | cur, e :: l => .sub cur e.size :: subArith (cur - e.size) l

/-- Every addition and subtraction on sizes that the operation performs, in program order. -/
def arithOf (p : Params) (c : Cache) (op : Op) (o : Oracle) : List Arith :=
  match op with
  | .insert k v =>
    let s := entrySize p k v
    sizeArith p k v ++
    (if s > c.max then [] else
      let old := lookup c.entries k.id
      let cur1 := c.cur - oldSize old
      let ej := eject (removeId c.entries k.id) cur1 (c.max - s)
      let c2 : Cache := { c with cur := ej.cur,
                                 shape := c.shape.remove (oldCount old + ej.evicted.length) o.tombs }
      (match old with | some e => [Arith.sub c.cur e.size] | none => [])
      ++ [.sub c.max s]
      ++ ejectArith (removeId c.entries k.id) cur1 (c.max - s)
      ++ insertUncheckedArith c2 s o)
  | .tryInsert k v =>
    let s := entrySize p k v
    sizeArith p k v ++
    (if s > c.max then [] else
      [Arith.sub c.max c.cur] ++
      (if s > c.max - c.cur then [] else if (lookup c.entries k.id).isSome then []
       else insertUncheckedArith c s o))
  | .remove id | .removeEntry id =>
    match lookup c.entries id with | some e => [.sub c.cur e.size] | none => []
  | .removeLru => match lruOf c.entries with | some e => [.sub c.cur e.size] | none => []
  | .removeMru => match mruOf c.entries with | some e => [.sub c.cur e.size] | none => []
  | .setMaxSize m => ejectArith c.entries c.cur m
  | .mutate id f =>
    match lookup c.entries id with
    | none => []
    | some e =>
      let v' := (f e.val).1
      let oldSz := valMemSize p e.val
      let newSz := valMemSize p v'
      [Arith.add p.vsz e.val.heap, .add p.vsz v'.heap] ++
      (if newSz > oldSz then
        let diff := newSz - oldSz
        [Arith.sub newSz oldSz, .add e.size diff] ++
        (if e.size + diff > c.max then [Arith.sub c.cur e.size]
         else [Arith.add c.cur diff] ++
           ejectArith (touchList c.entries { e with val := v', size := e.size + diff }) (c.cur + diff) c.max)
       else
        let diff := oldSz - newSz
        [Arith.sub oldSz newSz, .sub e.size diff, .sub c.cur diff])
  | .retain pr => subArith c.cur (retainGo (indexPred pr) 0 c.entries).removed
  | _ => []

/-- What is assumed about the numbers involved (assumption **A-sizes** of DESIGN §8, made exact):
the limit is a `usize`; the size of a pair that is handed to the cache exists as a `usize`; a value
is part of its entry (`size_of::<V>() ≤ size_of::<Entry<K, V>>()`); a table that could not be doubled
cannot exist in memory; and while a grown value is accounted for, the total passes through
`current_size + diff` before anything is evicted. -/
def ASizes (p : Params) (c : Cache) (op : Op) : Prop :=
  c.max ≤ p.usizeMax ∧ p.vsz ≤ p.ovh ∧ c.shape.capacity + c.shape.capacity ≤ p.usizeMax ∧
  match op with
  | .insert k v | .tryInsert k v => entrySize p k v ≤ p.usizeMax
  | .mutate id f =>
    match lookup c.entries id with
    | none => True
    | some e =>
      entrySize p e.key (f e.val).1 ≤ p.usizeMax ∧
      (valMemSize p (f e.val).1 > valMemSize p e.val →
        c.cur + (valMemSize p (f e.val).1 - valMemSize p e.val) ≤ p.usizeMax)
  | _ => True

end LruMem
