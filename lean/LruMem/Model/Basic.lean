/-!
# Level A model of `lru-mem`: basic types and the hashbrown accounting

Import-free on purpose: everything under `LruMem/Model` is linked into the native
driver `lrudriver`.

Source anchors are given as `file:line` of `/repo/src`.
-/
namespace LruMem

/-- A key as the harness instantiates it: `Eq`/`Hash` look at `id` only, `heap` is what
`HeapSize::heap_size` reports, `tok` is the identity of this particular object. -/
structure Key where
  id : Nat
  heap : Nat
  tok : Nat
deriving Repr, DecidableEq, Inhabited

/-- A value: reported heap size and object identity. -/
structure Val where
  heap : Nat
  tok : Nat
deriving Repr, DecidableEq, Inhabited

/-- One entry of the cache, with the size *recorded* in the node (`entry.rs:71`). -/
structure Entry where
  key : Key
  val : Val
  size : Nat
deriving Repr, DecidableEq, Inhabited

/-- Constants of one instantiation `LruCache<K, V, S>`, reported by the harness. -/
structure Params where
  /-- `size_of::<Entry<K, V>>()` -/
  ovh : Nat
  /-- `size_of::<V>()` (the constant `value_size` of a sized value) -/
  vsz : Nat
  /-- `usize::MAX` -/
  usizeMax : Nat
deriving Repr, DecidableEq, Inhabited

/-- hashbrown's slot accounting for `RawTable` (`hashbrown/src/raw/mod.rs`):
`buckets = 0` stands for the unallocated empty singleton. Tombstones are implicit:
`bucketsToCap buckets - items - growthLeft`. -/
structure Shape where
  buckets : Nat
  items : Nat
  growthLeft : Nat
deriving Repr, DecidableEq, Inhabited

/-- The cache at Level A: entries from least- to most-recently-used. -/
structure Cache where
  entries : List Entry
  cur : Nat
  max : Nat
  shape : Shape
deriving Repr, DecidableEq, Inhabited

/-- `entry_size` (`entry.rs:31-36`). -/
def entrySize (p : Params) (k : Key) (v : Val) : Nat := k.heap + v.heap + p.ovh

/-- `mem_size` of a value: `value_size + heap_size` (`mem_size.rs:363-367`). -/
def valMemSize (p : Params) (v : Val) : Nat := p.vsz + v.heap

/-! ## hashbrown arithmetic (`raw/mod.rs:195-231`) -/

/-- Doubling search used by `nextPow2`; `fuel` bounds the number of doublings. -/
def nextPow2Go (n : Nat) : Nat → Nat → Nat
  | p, 0 => p
  | p, fuel + 1 => if n ≤ p then p else nextPow2Go n (2 * p) fuel

/-- `usize::next_power_of_two` for `n ≥ 1` (and 1 for 0). -/
def nextPow2 (n : Nat) : Nat := nextPow2Go n 1 n

/-- `capacity_to_buckets` (without the overflow check, which is `tableOk`). Requires `cap ≠ 0`. -/
def capToBuckets (cap : Nat) : Nat :=
  if cap < 4 then 4 else if cap < 8 then 8 else nextPow2 (cap * 8 / 7)

/-- `bucket_mask_to_capacity (buckets - 1)`, with 0 for the unallocated table. -/
def bucketsToCap (b : Nat) : Nat :=
  if b = 0 then 0 else if b ≤ 8 then b - 1 else b / 8 * 7

/-- Buckets of `RawTable::with_capacity n` (`n = 0` gives the empty singleton). -/
def bucketsFor (n : Nat) : Nat := if n = 0 then 0 else capToBuckets n

/-- The capacity of a freshly allocated table for request `n`: 0, 3, 7, 14, 28, 56, … -/
def freshCap (n : Nat) : Nat := bucketsToCap (bucketsFor n)

/-- Would `RawTable::try_with_capacity n` pass its overflow checks?
`capacity_to_buckets`: `cap.checked_mul(8)`; `calculate_layout_for`: data bytes rounded up to the
control alignment (16) plus `buckets + 16` control bytes must not exceed `isize::MAX - 15`. -/
def tableOk (p : Params) (n : Nat) : Bool :=
  if n = 0 then true
  else if n ≥ 8 ∧ n * 8 > p.usizeMax then false
  else
    let b := capToBuckets n
    let data := p.ovh * b
    if data + 15 > p.usizeMax then false
    else
      let ctrlOff := (data + 15) / 16 * 16
      let len := ctrlOff + b + 16
      decide (len ≤ p.usizeMax ∧ len ≤ p.usizeMax / 2 - 15)

/-- `RawTable::capacity()`. -/
def Shape.capacity (s : Shape) : Nat := s.items + s.growthLeft

/-- Number of tombstones (DELETED control bytes). -/
def Shape.tombstones (s : Shape) : Nat := bucketsToCap s.buckets - s.items - s.growthLeft

/-- A fresh table for request `n` holding nothing. -/
def Shape.fresh (n : Nat) : Shape :=
  { buckets := bucketsFor n, items := 0, growthLeft := freshCap n }

/-- Effect of `k` table removals of which `t` left a tombstone (`erase`, `raw/mod.rs:3376`). -/
def Shape.remove (s : Shape) (k t : Nat) : Shape :=
  { s with items := s.items - k, growthLeft := s.growthLeft + (k - min t k) }

/-- `clear_no_drop` / `drain`: every control byte becomes EMPTY. -/
def Shape.cleared (s : Shape) : Shape :=
  { s with items := 0, growthLeft := bucketsToCap s.buckets }

/-- `try_insert_no_grow` refuses iff no growth is left and the slot found is EMPTY
(`prepare_insert_no_grow`, `raw/mod.rs:2618`). `reuse` = the slot found is a tombstone,
honoured only if there is one. -/
def Shape.reuses (s : Shape) (reuse : Bool) : Bool := reuse && decide (0 < s.tombstones)

def Shape.canInsert (s : Shape) (reuse : Bool) : Bool :=
  decide (0 < s.growthLeft) || s.reuses reuse

/-- `record_item_insert_at`. -/
def Shape.inserted (s : Shape) (reuse : Bool) : Shape :=
  { s with items := s.items + 1,
           growthLeft := if s.reuses reuse then s.growthLeft else s.growthLeft - 1 }

/-- The table after `move_to_table` into a fresh table for request `n` (`lib.rs` `try_reallocate`):
all items re-inserted, no tombstones. -/
def Shape.rebuilt (s : Shape) (n : Nat) : Shape :=
  { buckets := bucketsFor n, items := s.items, growthLeft := freshCap n - s.items }

/-- Resolution of hashbrown-internal choices for one operation. -/
structure Oracle where
  /-- how many of this operation's table removals leave a tombstone -/
  tombs : Nat := 0
  /-- whether the insertion lands on a tombstone -/
  reuse : Bool := false
  /-- whether the allocator grants a `try_reserve` request -/
  allocOk : Bool := true
deriving Repr, DecidableEq, Inhabited

/-! ## List helpers with the recursion the proofs use -/

def sumSizes : List Entry → Nat
  | [] => 0
  | e :: l => e.size + sumSizes l

/-- `RawTable::find` through `equivalent_key`: the entry with this key id. -/
def lookup : List Entry → Nat → Option Entry
  | [], _ => none
  | e :: l, id => if e.key.id = id then some e else lookup l id

/-- The list without the (first) entry with this key id. -/
def removeId : List Entry → Nat → List Entry
  | [], _ => []
  | e :: l, id => if e.key.id = id then l else e :: removeId l id

def ids (l : List Entry) : List Nat := l.map (·.key.id)

end LruMem
