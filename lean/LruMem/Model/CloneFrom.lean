import LruMem.Model.Panic
/-!
# `clone_from` (definitions; the theorems are in `Props/C14c.lean`)

The crate does not override `Clone::clone_from`, so `d.clone_from(&c)` is std's `*d = c.clone()`: the
clone is built first — every callback (`Clone` of a key or value, `Hash` of a cloned key) runs while
`d` is still untouched —, then the old `d` is dropped and replaced. The driver evaluates these
definitions on every `clonefrom` line.
-/
namespace LruMem

/-- `d.clone_from(&c)`, no panic: the new `d`, the events (the clone's callbacks, then the drop of
the old `d`), and the status of the clone. -/
def cloneFrom (d c : Cache) (base : Nat) : Cache × List Ev × Status :=
  let r := clone c base
  (r.1, r.2.1 ++ dropCache d, r.2.2)

/-- Does the `n`-th callback of kind `kind` exist while `c` is being cloned? -/
def cloneFires (c : Cache) (base : Nat) (kind : CbKind) (n : Nat) : Bool :=
  decide (0 < n ∧ n ≤ cbCount kind (clone c base).2.1)

/-- `d.clone_from(&c)` with a panic injected at the `n`-th callback of kind `kind`: if that callback
exists the assignment never happens — `d` is what it was, the partial clone is dropped by the
unwinding —, otherwise the call completes. -/
def cloneFromP (p : Params) (d c : Cache) (base : Nat) (kind : CbKind) (n : Nat) : Res :=
  if cloneFires c base kind n then
    { stepP p c (.cloneProbe base) {} kind n with cache := d }
  else
    let r := cloneFrom d c base
    { cache := r.1, out := .cloned, evs := r.2.1, status := r.2.2 }

end LruMem
