/-!
# Declaration model for C18: auto traits and lifetime elision

The input table (`LruMem/Generated/Decls.lean`) is regenerated from `/repo/src/*.rs` on every run by
`/verif/tools/decls.py`. This file encodes the two language rules involved:

* **auto traits**: a struct is `Send`/`Sync` iff some explicit (`unsafe`) impl applies — its bounds
  hold for the given parameters — or there is *no* explicit impl for that struct and all its fields
  are; raw pointers are neither; `&T` is `Send`/`Sync` iff `T: Sync`; `&mut T` is `Send` iff
  `T: Send`, `Sync` iff `T: Sync`; `PhantomData<T>`, `MaybeUninit<T>` and std containers follow `T`.
* **lifetime elision**: with a `&self`/`&mut self` receiver every elided output lifetime is the
  receiver's.

Names (structs, type parameters, lifetimes, functions) are numbered by the translator — the
numbering is printed as comments in the generated file — because `decide` must evaluate in the
kernel, where string comparison does not reduce. Import-free (part of the model).
-/
namespace LruMem.Decls

inductive Auto | send | sync
deriving Repr, DecidableEq, Inhabited

/-- The shape of a field type, as far as auto traits are concerned. -/
inductive Ty
  /-- a type parameter of the enclosing struct -/
  | param (name : Nat)
  /-- `*mut T` / `*const T` -/
  | rawPtr
  /-- `&'a T` -/
  | ref (lt : Nat) (inner : Ty)
  /-- `&'a mut T` -/
  | refMut (lt : Nat) (inner : Ty)
  /-- transparent wrappers (`PhantomData<T>`, `MaybeUninit<T>`, std collections): follow the arguments -/
  | wrap (name : Nat) (args : List Ty)
  /-- plain data (`usize`, `()`, …) -/
  | plain
  /-- another struct of the table, instantiated with lifetimes and types -/
  | named (name : Nat) (lts : List Nat) (args : List Ty)
deriving Repr, Inhabited

structure Struct where
  name : Nat
  lifetimes : List Nat
  params : List Nat
  fields : List (Nat × Ty)
deriving Repr, Inhabited

/-- `unsafe impl<…bounds…> Tr for Target<…>`: for each type parameter of the target, the traits it
is bounded by in the impl header. -/
structure ExplicitImpl where
  tr : Auto
  target : Nat
  bounds : List (Nat × List Nat)
deriving Repr, Inhabited

inductive Recv | shared | excl | owned | none
deriving Repr, DecidableEq, Inhabited

/-- An output lifetime position of a public function's return type. -/
inductive OutLt
  | elided
  | named (name : Nat)
  | static_
deriving Repr, DecidableEq, Inhabited

structure Api where
  name : Nat
  recv : Recv
  /-- explicit lifetime of the receiver (`&'x self`), if written -/
  recvLt : Option Nat
  /-- lifetime parameters declared on the function itself (`fn f<'x>`) -/
  fnLifetimes : List Nat
  /-- lifetimes in the return type, one per reference or iterator-lifetime position -/
  outs : List OutLt
deriving Repr, Inhabited

structure Table where
  structs : List Struct
  impls : List ExplicitImpl
  apis : List Api
deriving Repr, Inhabited

/-- An assignment says, for each type parameter, whether it is `Send` and whether it is `Sync`. -/
abbrev Assign := Nat → Bool × Bool

def Assign.get (a : Assign) (tr : Auto) (x : Nat) : Bool :=
  match tr with | .send => (a x).1 | .sync => (a x).2

/-- trait ids in impl bounds: 0 = `Send`, 1 = `Sync`, anything else is irrelevant to auto traits -/
def boundHolds (a : Assign) (param : Nat) (b : Nat) : Bool :=
  if b == 0 then (a param).1 else if b == 1 then (a param).2 else true

def implApplies (a : Assign) (i : ExplicitImpl) : Bool :=
  i.bounds.all fun (x, bs) => bs.all (boundHolds a x)

mutual
/-- Does the type have the auto trait under the assignment? Every call spends one unit of `fuel`
(so the recursion is structural and evaluates in the kernel); running out of fuel answers `false`. -/
def tyAuto (t : Table) (tr : Auto) (a : Assign) : Nat → Ty → Bool
  | 0, _ => false
  | _ + 1, .param x => a.get tr x
  | _ + 1, .rawPtr => false
  | f + 1, .ref _ inner => tyAuto t .sync a f inner
  | f + 1, .refMut _ inner => tyAuto t tr a f inner
  | f + 1, .wrap _ args => tysAuto t tr a f args
  | _ + 1, .plain => true
  | f + 1, .named n _ args =>
    match t.structs.find? (·.name == n) with
    | none => false
    | some s =>
      -- instantiate: parameter i of the struct has the auto traits of args[i]
      let inst : Assign := fun x =>
        match (s.params.zip args).find? (·.1 == x) with
        | some (_, ty) => (tyAuto t .send a f ty, tyAuto t .sync a f ty)
        | none => (false, false)
      structAutoWith t tr inst f s

def tysAuto (t : Table) (tr : Auto) (a : Assign) : Nat → List Ty → Bool
  | 0, _ => false
  | _ + 1, [] => true
  | f + 1, x :: xs => tyAuto t tr a f x && tysAuto t tr a f xs

def structAutoWith (t : Table) (tr : Auto) (a : Assign) : Nat → Struct → Bool
  | 0, _ => false
  | f + 1, s =>
    let explicit := t.impls.filter fun i => i.tr == tr && i.target == s.name
    if explicit.isEmpty then fieldsAuto t tr a f s.fields
    else explicit.any (implApplies a)

def fieldsAuto (t : Table) (tr : Auto) (a : Assign) : Nat → List (Nat × Ty) → Bool
  | 0, _ => false
  | _ + 1, [] => true
  | f + 1, x :: xs => tyAuto t tr a f x.2 && fieldsAuto t tr a f xs
end

/-- Is struct `name` `Send`/`Sync` when its parameters have the given auto traits? -/
def structAuto (t : Table) (tr : Auto) (name : Nat) (a : Assign) : Bool :=
  match t.structs.find? (·.name == name) with
  | none => false
  | some s => structAutoWith t tr a 64 s

/-- Assignment for `LruCache<K, V, S>`: parameter ids 0, 1, 2 are `K`, `V`, `S` (the translator
numbers type parameters by name: K ↦ 0, V ↦ 1, S ↦ 2, others from 3). -/
def kvs (kSend kSync vSend vSync sSend sSync : Bool) : Assign := fun x =>
  if x == 0 then (kSend, kSync) else if x == 1 then (vSend, vSync) else if x == 2 then (sSend, sSync)
  else (false, false)

/-- A returned reference / borrowing iterator keeps the cache borrowed iff the function takes
`&self` or `&mut self` and every output lifetime is elided (hence the receiver's) — not `'static`,
not a free lifetime parameter of the function. -/
def apiBorrowsReceiver (f : Api) : Bool :=
  (f.recv == .shared || f.recv == .excl) &&
  f.outs.all fun o => match o with
    | .elided => true
    | .named n => f.recvLt == some n
    | .static_ => false

mutual
/-- Does a lifetime occur in a type? -/
def tyMentions (lt : Nat) : Nat → Ty → Bool
  | 0, _ => false
  | f + 1, .ref l i => l == lt || tyMentions lt f i
  | f + 1, .refMut l i => l == lt || tyMentions lt f i
  | f + 1, .wrap _ args => tysMention lt f args
  | f + 1, .named _ lts args => lts.contains lt || tysMention lt f args
  | _, _ => false

def tysMention (lt : Nat) : Nat → List Ty → Bool
  | _, [] => false
  | f, x :: xs => tyMentions lt f x || tysMention lt f xs
end

/-- A borrowing iterator struct carries its (first) lifetime parameter in some field — directly,
through a `PhantomData<&'a ()>` marker, or through a nested iterator instantiated with it. -/
def carriesLifetime (t : Table) (name : Nat) : Bool :=
  match t.structs.find? (·.name == name) with
  | none => false
  | some s =>
    match s.lifetimes with
    | [] => false
    | lt :: _ => s.fields.any fun f => tyMentions lt 8 f.2

end LruMem.Decls
