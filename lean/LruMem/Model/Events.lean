import LruMem.Model.Basic
/-!
# Events, return values and results of one operation
-/
namespace LruMem

/-- What user code and the outside world see happen during one operation, in order. -/
inductive Ev
  /-- `Hash::hash` of a key with this id (probe or stored key) -/
  | hash (id : Nat)
  /-- `HeapSize::heap_size` of the key / value object with this token -/
  | szK (tok : Nat)
  | szV (tok : Nat)
  /-- `Clone::clone` of a key / value: source token, token of the copy -/
  | cloneK (src new : Nat)
  | cloneV (src new : Nat)
  /-- the `retain` predicate called on this pair -/
  | pred (ktok vtok : Nat)
  /-- the `mutate` closure called on this value -/
  | closure (vtok : Nat)
  /-- `Drop::drop` of a key / value object -/
  | dropK (tok : Nat)
  | dropV (tok : Nat)
deriving Repr, DecidableEq, Inhabited

/-- The seven iterator kinds of `iter.rs`. -/
inductive IterKind
  | iter | keys | values | drain | intoIter | intoKeys | intoValues
deriving Repr, DecidableEq, Inhabited

def IterKind.borrowing : IterKind → Bool
  | .iter | .keys | .values => true
  | _ => false

/-- Canonical return values. Constructors named `own…`/errors carry *owned* objects handed back to
the caller; `ref…` are borrows. -/
inductive Out
  | unit
  | bool (b : Bool)
  | ownVal (v : Option Val)
  | ownPair (kv : Option (Key × Val))
  | refVal (v : Option Val)
  | refPair (kv : Option (Key × Val))
  /-- `InsertError::EntryTooLarge { key, value, entry_size, max_size }` -/
  | insTooLarge (k : Key) (v : Val) (size max : Nat)
  | tryTooLarge (k : Key) (v : Val) (size max : Nat)
  | tryWouldEject (k : Key) (v : Val) (size free : Nat)
  | tryOccupied (k : Key) (v : Val)
  /-- `mutate` → `Ok(None)` / `Ok(Some(r))` -/
  | mutOk (r : Option Nat)
  /-- `MutateError::EntryTooLarge { key, value, old_entry_size, new_entry_size, max_size }` -/
  | mutTooLarge (k : Key) (v : Val) (old new max : Nat)
  | reserveOk
  | reserveOverflow
  | reserveAlloc
  /-- items produced by an iterator scenario, one per call (`none` = the call returned `None`);
  for `keys`/`values`/`intoKeys`/`intoValues` only one component of each pair is handed out -/
  | items (kind : IterKind) (l : List (Option (Key × Val)))
  /-- the clone of a cache (the new cache is in `Res.extra`) -/
  | cloned
deriving Repr, DecidableEq, Inhabited

/-- Tokens of the objects an output hands to the caller as owned values. -/
def Out.owned : Out → List Nat
  | .ownVal (some v) => [v.tok]
  | .ownPair (some (k, v)) => [k.tok, v.tok]
  | .insTooLarge k v _ _ => [k.tok, v.tok]
  | .tryTooLarge k v _ _ => [k.tok, v.tok]
  | .tryWouldEject k v _ _ => [k.tok, v.tok]
  | .tryOccupied k v => [k.tok, v.tok]
  | .mutTooLarge k v _ _ _ => [k.tok, v.tok]
  | .items .drain l => (l.filterMap id).flatMap fun kv => [kv.1.tok, kv.2.tok]
  | .items .intoIter l => (l.filterMap id).flatMap fun kv => [kv.1.tok, kv.2.tok]
  | .items .intoKeys l => (l.filterMap id).map fun kv => kv.1.tok
  | .items .intoValues l => (l.filterMap id).map fun kv => kv.2.tok
  | _ => []

inductive Status
  | ok
  /-- the implementation itself panics (`unwrap` on a failed reservation) -/
  | implPanic
  /-- a loop of the implementation would not terminate -/
  | diverge
  /-- the implementation would perform an undefined operation (`unwrap_unchecked` on `Err`) -/
  | ub
  /-- user code called back by the operation panicked (C16) -/
  | userPanic
deriving Repr, DecidableEq, Inhabited

structure Res where
  cache : Cache
  out : Out
  evs : List Ev
  status : Status := .ok
  /-- did this operation rebuild the table, and with how many entries held? -/
  rebuilt : Option Nat := none
deriving Repr, DecidableEq, Inhabited

/-- Tokens dropped by an event list. -/
def droppedToks : List Ev → List Nat
  | [] => []
  | .dropK t :: l => t :: droppedToks l
  | .dropV t :: l => t :: droppedToks l
  | _ :: l => droppedToks l

def hashCount : List Ev → Nat
  | [] => 0
  | .hash _ :: l => hashCount l + 1
  | _ :: l => hashCount l

end LruMem
