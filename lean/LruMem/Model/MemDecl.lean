/-!
# The expression language of the size-estimation impls (C08 / C09)

`/verif/tools/memdecls.py` parses `/repo/src/mem_size.rs` on every run and writes each method body of every
`HeapSize` impl as a *sum of products of atoms* (`LruMem/Generated/MemDecls.lean`). This file defines the atoms.
What each one means, phrase by phrase, is the docstring of its constructor; `Props/C08b.lean` holds the table
that the hand-written model of `Model/MemSize.lean` was transcribed from and proves that the regenerated table is
that table. Import-free.
-/
namespace LruMem.MemDecl

inductive Atom
  /-- `0` -/
  | zero
  /-- `self.capacity()` -/
  | cap
  /-- `mem::size_of::<T>()` (the element type) -/
  | sizeOfElem
  /-- `mem::size_of::<(K, V)>()` -/
  | sizeOfPair
  /-- `self.as_bytes_with_nul().len()` -/
  | lenNul
  /-- `self.<field>.heap_size()`: 0 = `.0`, 1 = `start`, 2 = `end` -/
  | field (i : Nat)
  /-- `self.as_slice().heap_size()` / `self[..].heap_size()` -/
  | asSlice
  /-- `P::heap_size_sum_exact_size_iter(|| self.<src>())`: 0 = `T`/`iter`, 1 = `K`/`keys`, 2 = `V`/`values` -/
  | exactOver (i : Nat)
  /-- `self.hasher().heap_size()` -/
  | hasher
  /-- `T::mem_size(self.as_ref())` -/
  | derefMem
  /-- `self.lock().unwrap().heap_size()` / `self.read().unwrap().heap_size()` -/
  | locked
  /-- `match self { Some(v) => v.heap_size(), None => 0 }` -/
  | matchOpt
  /-- `match self { Ok(v) => v.heap_size(), Err(e) => e.heap_size() }` -/
  | matchRes
  /-- `T::heap_size_sum_[exact_size_]iter(|| make_iter().map(|item| &item.0))` -/
  | delegField (exact : Bool)
  /-- `<[T]>::heap_size_sum_iter(|| make_iter().map(|item| &item[..]))` -/
  | sliceOfArrays
  /-- `T::heap_size_sum_[exact_size_]iter(|| make_iter().map(|item| &**item))` -/
  | delegDeref (exact : Bool)
  /-- `T::value_size_sum_[exact_size_]iter(make_iter().map(|item| &**item))` -/
  | valueDeref (exact : Bool)
  /-- `T::heap_size_sum_exact_size_iter(|| SizedArrayFlatIterator { current_section: SliceIter::default(), subsequent_sections: make_iter() })` -/
  | flat
  /-- trait default: `make_iter().map(HeapSize::heap_size).sum()` -/
  | mapHeapSum
  /-- trait default: `Self::heap_size_sum_iter(make_iter)` -/
  | viaSumIter
  /-- trait default: `iterator.map(ValueSize::value_size).sum()` -/
  | mapValueSum
  /-- trait default: `Self::value_size_sum_iter(iterator)` -/
  | viaValueSumIter
  /-- `mem::size_of::<Self>()` -/
  | sizeOfSelf
  /-- `iterator.count()` -/
  | iterCount
  /-- `iterator.len()` -/
  | iterLen
  /-- `mem::size_of_val(self)` -/
  | sizeOfVal
  /-- `self.value_size()` -/
  | valueSize
  /-- `self.heap_size()` -/
  | heapSize
  /-- a phrase the translator does not know (hash of its text) -/
  | unknown (h : Nat)
deriving Repr, DecidableEq, Inhabited

/-- a method body: a sum (outer list) of products (inner lists) of atoms, both sorted by the translator -/
abbrev Body := List (List Atom)

inductive Target
  | wrapping | slice | array | vec | hashMap | hashSet | binaryHeap | box | mutex | rwLock | string | cString | osString
  | ref | refMut | option | result | phantom | range | rangeFrom | rangeTo | rangeInclusive | rangeToInclusive | path | pathBuf
deriving Repr, DecidableEq, Inhabited

structure Impl where
  target : Target
  heap : Body
  sumIter : Option Body
  sumExact : Option Body
deriving Repr, DecidableEq, Inhabited

end LruMem.MemDecl
