import LruMem.Model.Basic
/-!
# Model of the size-estimation traits (`mem_size.rs`) for C08 / C09

A deep embedding of the supported type constructors. Every type node carries the real
`size_of::<T>()` reported by the harness (`sz`; 0 for unsized types), so the compiler's layout is a
parameter of the model, not part of it.

`heapSize`, and the four bulk helpers `hsSumIter`, `hsSumExact`, `vsSumIter`, `vsSumExact`, are
written per constructor *as the source specialises them* (`mem_size.rs:369-821`): which helper calls
which, which ones are the trait defaults (`map(heap_size).sum()`), which are constant 0.
A bulk helper receives the list of values the iterator yields (assumption A-iter: the `Fn() -> Iter`
yields the same finite sequence on every call).

Imports only `Model/Basic` (part of the model, links into the driver).
-/
namespace LruMem.MemSize

inductive Ty
  /-- `basic_mem_size!` sized types: integers, floats, `bool`, `char`, `()`, `Duration`, … -/
  | prim (sz : Nat)
  /-- unsized string-likes with `basic_mem_size!` (`str`, `CStr`, `OsStr`) -/
  | strLike
  /-- `Path` (own impl: heap 0, default helpers) -/
  | path
  /-- `String`, `OsString`, `PathBuf`: heap = capacity -/
  | stringLike (sz : Nat)
  /-- `CString`: heap = bytes with nul -/
  | cString (sz : Nat)
  /-- `&T`, `&mut T` -/
  | ref (sz : Nat) (t : Ty)
  | box (sz : Nat) (t : Ty)
  /-- `[T]` (unsized) -/
  | slice (t : Ty)
  /-- `[T; n]` -/
  | array (sz : Nat) (n : Nat) (t : Ty)
  | tuple (sz : Nat) (ts : List Ty)
  | option (sz : Nat) (t : Ty)
  | result (sz : Nat) (t e : Ty)
  | wrapping (sz : Nat) (t : Ty)
  /-- `Range`, `RangeInclusive` (two bounds) -/
  | range2 (sz : Nat) (t : Ty)
  /-- `RangeFrom`, `RangeTo`, `RangeToInclusive` (one bound) -/
  | range1 (sz : Nat) (t : Ty)
  /-- `Mutex<T>`, `RwLock<T>` -/
  | lock (sz : Nat) (t : Ty)
  | phantom
  | vec (sz : Nat) (t : Ty)
  | binaryHeap (sz : Nat) (t : Ty)
  /-- `HashSet<T, S>`; `esz` = `size_of::<T>()` -/
  | hashSet (sz : Nat) (t s : Ty)
  /-- `HashMap<K, V, S>`; `esz` = `size_of::<(K, V)>()` -/
  | hashMap (sz : Nat) (esz : Nat) (k v s : Ty)
  /-- a user-defined type with its own `HeapSize::heap_size` (the value says what it reports) and the
  trait's *default* bulk helpers — e.g. a `Copy` handle into an arena: no drop glue, non-zero heap size -/
  | user (sz : Nat)
  /-- a user-defined *unsized* type (`dyn Trait`) with its own `value_size` (the value says what it reports —
  not necessarily `size_of_val`), heap size 0 and the trait's default bulk helpers -/
  | userDyn
deriving Repr, Inhabited

inductive TVal
  | unit
  /-- contents of an unsized string-like: its length in bytes -/
  | bytes (len : Nat)
  /-- an owned buffer: `cap` for `String`/`OsString`/`PathBuf`, length-with-nul for `CString` -/
  | buf (cap : Nat)
  | ref (v : TVal)
  | box (v : TVal)
  | seq (vs : List TVal)
  | tup (vs : List TVal)
  | none
  | some (v : TVal)
  | ok (v : TVal)
  | err (v : TVal)
  | wrap (v : TVal)
  | two (a b : TVal)
  | one (a : TVal)
  | coll (cap : Nat) (vs : List TVal)
  | set (cap : Nat) (vs : List TVal) (hasher : TVal)
  | map (cap : Nat) (ks vs : List TVal) (hasher : TVal)
deriving Repr, Inhabited

def Ty.size : Ty → Nat
  | .prim sz | .stringLike sz | .cString sz | .ref sz _ | .box sz _ | .array sz _ _ | .tuple sz _
  | .option sz _ | .result sz _ _ | .wrapping sz _ | .range2 sz _ | .range1 sz _ | .lock sz _
  | .vec sz _ | .binaryHeap sz _ | .hashSet sz _ _ | .hashMap sz _ _ _ _ | .user sz => sz
  | .strLike | .path | .slice _ | .phantom | .userDyn => 0

def sum (l : List Nat) : Nat := l.foldr (· + ·) 0

/-- `size_of_val`: what `ValueSize::value_size` returns. -/
def valueSize : Ty → TVal → Nat
  | .strLike, .bytes n => n
  | .path, .bytes n => n
  | .userDyn, .bytes n => n
  | .slice t, .seq vs => t.size * vs.length
  | t, _ => t.size

/-- the i-th component of each tuple value -/
def proj (i : Nat) (vs : List TVal) : List TVal :=
  vs.map fun v => match v with | .tup cs => cs.getD i .unit | _ => .unit

/-- `make_iter().map(|item| &item.0)` of `Wrapping` -/
def unwrapW : List TVal → List TVal
  | [] => []
  | .wrap x :: vs => x :: unwrapW vs
  | _ :: vs => unwrapW vs

/-- `make_iter().map(|item| &**item)` of `Box` -/
def unwrapB : List TVal → List TVal
  | [] => []
  | .box x :: vs => x :: unwrapB vs
  | _ :: vs => unwrapB vs

def elemsOf : TVal → List TVal
  | .seq vs => vs
  | _ => []

mutual
/-- `HeapSize::heap_size`. -/
def heapSize : Ty → TVal → Nat
  | .prim _, _ => 0
  | .strLike, _ => 0
  | .path, _ => 0
  | .stringLike _, .buf cap => cap
  | .cString _, .buf n => n
  | .user _, .buf n => n
  | .ref _ _, _ => 0
  | .box _ t, .box v => valueSize t v + heapSize t v
  | .slice t, .seq vs => hsSumExact t vs
  | .array _ _ t, .seq vs => hsSumExact t vs
  | .tuple _ ts, .tup vs => heapSizeTup ts vs
  | .option _ _, .none => 0
  | .option _ t, .some v => heapSize t v
  | .result _ t _, .ok v => heapSize t v
  | .result _ _ e, .err v => heapSize e v
  | .wrapping _ t, .wrap v => heapSize t v
  | .range2 _ t, .two a b => heapSize t a + heapSize t b
  | .range1 _ t, .one a => heapSize t a
  | .lock _ t, .wrap v => heapSize t v
  | .phantom, _ => 0
  | .vec _ t, .coll cap vs => hsSumExact t vs + cap * t.size
  | .binaryHeap _ t, .coll cap vs => hsSumExact t vs + cap * t.size
  | .hashSet _ t s, .set cap vs h => heapSize s h + hsSumExact t vs + cap * t.size
  | .hashMap _ esz k v s, .map cap ks vs h => heapSize s h + (hsSumExact k ks + hsSumExact v vs) + cap * esz
  | _, _ => 0

/-- `0 + A.heap_size() + B.heap_size() + …` of the tuple macro. -/
def heapSizeTup : List Ty → List TVal → Nat
  | t :: ts, v :: vs => heapSize t v + heapSizeTup ts vs
  | _, _ => 0

/-- the trait default `make_iter().map(HeapSize::heap_size).sum()` -/
def hsDefault : Ty → List TVal → Nat
  | _, [] => 0
  | t, v :: vs => heapSize t v + hsDefault t vs

/-- `T::heap_size_sum_iter` as implemented for `T`. -/
def hsSumIter : Ty → List TVal → Nat
  | .prim _, _ => 0
  | .strLike, _ => 0
  | .tuple _ ts, vs => hsSumIterTup ts 0 vs
  | .wrapping _ t, vs => hsSumIter t (unwrapW vs)
  | .array _ _ t, vs => hsDefault (.slice t) vs
  | .box _ t, vs => hsSumIter t (unwrapB vs) + vsSumIter t (unwrapB vs)
  | t, vs => hsDefault t vs

/-- `T::heap_size_sum_exact_size_iter` as implemented for `T` (default: delegates to `hsSumIter`). -/
def hsSumExact : Ty → List TVal → Nat
  | .prim _, _ => 0
  | .strLike, _ => 0
  | .tuple _ ts, vs => hsSumExactTup ts 0 vs
  | .wrapping _ t, vs => hsSumExact t (unwrapW vs)
  | .array _ _ t, vs => hsSumExact t (vs.flatMap elemsOf)
  | .box _ t, vs => hsSumExact t (unwrapB vs) + vsSumExact t (unwrapB vs)
  | t, vs => hsDefault t vs

def hsSumIterTup : List Ty → Nat → List TVal → Nat
  | [], _, _ => 0
  | t :: ts, i, vs => hsSumIter t (proj i vs) + hsSumIterTup ts (i + 1) vs

def hsSumExactTup : List Ty → Nat → List TVal → Nat
  | [], _, _ => 0
  | t :: ts, i, vs => hsSumExact t (proj i vs) + hsSumExactTup ts (i + 1) vs

/-- `T::value_size_sum_iter`: `size_of::<T>() * count` for sized `T`, the default `map + sum` for
unsized ones. -/
def vsSumIter : Ty → List TVal → Nat
  | .strLike, vs => vsDefault .strLike vs
  | .path, vs => vsDefault .path vs
  | .slice t, vs => vsDefault (.slice t) vs
  | .userDyn, vs => vsDefault .userDyn vs
  | t, vs => t.size * vs.length

def vsSumExact : Ty → List TVal → Nat
  | .strLike, vs => vsDefault .strLike vs
  | .path, vs => vsDefault .path vs
  | .slice t, vs => vsDefault (.slice t) vs
  | .userDyn, vs => vsDefault .userDyn vs
  | t, vs => t.size * vs.length

def vsDefault : Ty → List TVal → Nat
  | _, [] => 0
  | t, v :: vs => valueSize t v + vsDefault t vs
end

/-- `MemSize::mem_size`. -/
def memSize (t : Ty) (v : TVal) : Nat := valueSize t v + heapSize t v

/-! ## what std holds from the allocator (C09) -/

/-- buckets hashbrown allocates for a table reporting capacity `cap` (no tombstones) -/
def hbBuckets (cap : Nat) : Nat := LruMem.bucketsFor cap

/-- bytes of one hashbrown table with `cap` capacity and elements of `esz` bytes (align ≤ 16) -/
def hbBytes (cap esz : Nat) : Nat :=
  if cap = 0 then 0 else (esz * hbBuckets cap + 15) / 16 * 16 + hbBuckets cap + 16

mutual
/-- Bytes the value holds from the allocator, including reserved but unused capacity. A model of
std's external behaviour, validated against a counting global allocator on every run. -/
def allocBytes : Ty → TVal → Nat
  | .stringLike _, .buf cap => cap
  | .cString _, .buf n => n
  | .box _ t, .box v => valueSize t v + allocBytes t v
  | .array _ _ t, .seq vs => allocList t vs
  | .tuple _ ts, .tup vs => allocTup ts vs
  | .option _ t, .some v => allocBytes t v
  | .result _ t _, .ok v => allocBytes t v
  | .result _ _ e, .err v => allocBytes e v
  | .wrapping _ t, .wrap v => allocBytes t v
  | .range2 _ t, .two a b => allocBytes t a + allocBytes t b
  | .range1 _ t, .one a => allocBytes t a
  | .lock _ t, .wrap v => allocBytes t v
  | .vec _ t, .coll cap vs => allocList t vs + cap * t.size
  | .binaryHeap _ t, .coll cap vs => allocList t vs + cap * t.size
  | .slice t, .seq vs => allocList t vs
  | .hashSet _ t s, .set cap vs h => allocBytes s h + allocList t vs + hbBytes cap t.size
  | .hashMap _ esz k v s, .map cap ks vs h => allocBytes s h + (allocList k ks + allocList v vs) + hbBytes cap esz
  | _, _ => 0

def allocList : Ty → List TVal → Nat
  | _, [] => 0
  | t, v :: vs => allocBytes t v + allocList t vs

def allocTup : List Ty → List TVal → Nat
  | t :: ts, v :: vs => allocBytes t v + allocTup ts vs
  | _, _ => 0
end

/-! ## the flat iterator of `[T; N]::heap_size_sum_exact_size_iter` -/

/-- State of `SizedArrayFlatIterator`: rest of the current section, the sections still to come. -/
structure Flat where
  cur : List TVal
  rest : List (List TVal)
deriving Repr, Inhabited

/-- `SizedArrayFlatIterator::next` after the `fix:` commit: a loop that skips empty sections.
Returns the item, the new state, and the *call depth* of `next` itself (always 1: no recursion). -/
def Flat.next : Flat → Option TVal × Flat × Nat
  | ⟨x :: xs, rest⟩ => (some x, ⟨xs, rest⟩, 1)
  | ⟨[], []⟩ => (none, ⟨[], []⟩, 1)
  | ⟨[], s :: rest⟩ => Flat.next ⟨s, rest⟩
termination_by f => f.rest.length

/-- The pre-fix `next` recursed once per consecutive empty section; its stack depth: -/
def Flat.legacyDepth : Flat → Nat
  | ⟨_ :: _, _⟩ => 1
  | ⟨[], []⟩ => 1
  | ⟨[], s :: rest⟩ => Flat.legacyDepth ⟨s, rest⟩ + 1
termination_by f => f.rest.length

/-- Nesting depth of a type: the only thing the recursion depth of the estimators depends on. -/
def Ty.depth : Ty → Nat
  | .ref _ t | .box _ t | .slice t | .array _ _ t | .option _ t | .wrapping _ t | .range2 _ t
  | .range1 _ t | .lock _ t | .vec _ t | .binaryHeap _ t => t.depth + 1
  | .result _ t e => Nat.max t.depth e.depth + 1
  | .hashSet _ t s => Nat.max t.depth s.depth + 1
  | .hashMap _ _ k v s => Nat.max (Nat.max k.depth v.depth) s.depth + 1
  | .tuple _ ts => depthList ts + 1
  | _ => 0
where
  depthList : List Ty → Nat
    | [] => 0
    | t :: ts => Nat.max t.depth (depthList ts)

end LruMem.MemSize
