import LruMem.Model.Step
/-!
# Panics in user code (C16)

`stepP p c op o kind n`: operation `op` runs, and the `n`-th (1-based) callback of kind `kind` that
it makes into user code — `Hash::hash` of a key, the key's / value's size estimate, `Clone::clone`
of a key / value, the `retain` predicate, the `mutate` closure — panics. If the operation makes
fewer callbacks of that kind, it completes normally (`step`).

A panicking `Eq::eq` happens inside a table lookup, after that lookup's `hash` and before the lookup
has any effect: the harness reports it as a panic at the lookup's hash callback, which leaves the
same state.

The abort state is what the code has written so far, and the unwinding effects on locals are those
of Rust: owned `UnhingedEntry` / `(K, V)` / `Option<V>` locals are dropped (drop events), an `Entry`
holds `MaybeUninit`s and is leaked, the `ReallocationGuard` (the `fix:` for finding F2) empties the
cache when a re-hash panics during `move_to_table`.
-/
namespace LruMem

inductive CbKind | hash | szK | szV | cloneK | cloneV | pred | closure
deriving Repr, DecidableEq, Inhabited

def Ev.isCb (k : CbKind) : Ev → Bool
  | .hash _ => k == .hash
  | .szK _ => k == .szK
  | .szV _ => k == .szV
  | .cloneK _ _ => k == .cloneK
  | .cloneV _ _ => k == .cloneV
  | .pred _ _ => k == .pred
  | .closure _ => k == .closure
  | _ => false

def cbCount (k : CbKind) (evs : List Ev) : Nat := (evs.filter (Ev.isCb k)).length

/-- The events up to and including the `n`-th callback of kind `k` (drops that the normal run
performs *before* that point are kept: they have happened). -/
def evsUntil (k : CbKind) : Nat → List Ev → List Ev
  | 0, _ => []
  | _, [] => []
  | n + 1, e :: es => if e.isCb k then (if n = 0 then [e] else e :: evsUntil k n es) else e :: evsUntil k (n + 1) es

def dropKV (k : Key) (v : Val) : List Ev := [.dropK k.tok, .dropV v.tok]

/-- The cache emptied by the reallocation guard after it was moved towards a table for request `n`:
the entries are leaked. -/
def guardEmptied (c : Cache) (n : Nat) : Cache :=
  { c with entries := [], cur := 0, shape := (c.shape.rebuilt n).cleared }

def abortRes (c : Cache) (evs : List Ev) : Res :=
  { cache := c, out := .unit, evs := evs, status := .userPanic }

/-- A panic in the `j`-th (1-based) hash of an eviction loop over `l` starting from total `cur`:
`j - 1` evictions are complete. -/
def evictPrefix (l : List Entry) (cur : Nat) (j : Nat) : List Entry × Nat × List Ev :=
  let done := l.take (j - 1)
  (l.drop (j - 1), subSizes cur done, evictAllEvs done ++ ((l.drop (j - 1)).head?.map fun e => Ev.hash e.key.id).toList)

/-- `insert` aborted at callback (`kind`, `n`), given that the normal run makes at least `n`. -/
def insertAbort (p : Params) (c : Cache) (k : Key) (v : Val) (o : Oracle) (kind : CbKind) (n : Nat) : Res :=
  let s := entrySize p k v
  match kind with
  | .szK => abortRes c ([.szK k.tok] ++ dropKV k v)
  | .szV => abortRes c ([.szK k.tok, .szV v.tok] ++ dropKV k v)
  | .hash =>
    if n ≤ 1 then abortRes c ([.szK k.tok, .szV v.tok, .hash k.id] ++ dropKV k v)
    else
      let old := lookup c.entries k.id
      let l1 := removeId c.entries k.id
      let cur1 := c.cur - oldSize old
      let ej := eject l1 cur1 (c.max - s)
      let pre := [Ev.szK k.tok, .szV v.tok, .hash k.id] ++ (match old with | some e => [Ev.dropK e.key.tok] | none => [])
      let oldDrop := match old with | some e => [Ev.dropV e.val.tok] | none => []
      let j := n - 1
      if j ≤ ej.evicted.length then
        let x := evictPrefix l1 cur1 j
        abortRes { c with entries := x.1, cur := x.2.1, shape := c.shape.remove (oldCount old + (j - 1)) o.tombs }
          (pre ++ x.2.2 ++ oldDrop ++ dropKV k v)
      else
        -- a re-hash inside the growth of `insert_unchecked`: the guard empties the cache; the new
        -- entry is an `Entry` (leaked), the replaced value in `result` is dropped
        let c2 : Cache := { c with entries := ej.rest, cur := ej.cur,
                                   shape := c.shape.remove (oldCount old + ej.evicted.length) o.tombs }
        abortRes (guardEmptied c2 (Nat.max (2 * c2.shape.capacity) 1))
          (pre ++ evictAllEvs ej.evicted ++ (rehashEvs ej.rest).take (j - ej.evicted.length) ++ oldDrop)
  | _ => abortRes c []

def tryInsertAbort (p : Params) (c : Cache) (k : Key) (v : Val) (_o : Oracle) (kind : CbKind) (n : Nat) : Res :=
  match kind with
  | .szK => abortRes c ([.szK k.tok] ++ dropKV k v)
  | .szV => abortRes c ([.szK k.tok, .szV v.tok] ++ dropKV k v)
  | .hash =>
    if n ≤ 1 then abortRes c ([.szK k.tok, .szV v.tok, .hash k.id] ++ dropKV k v)
    else
      abortRes (guardEmptied c (Nat.max (2 * c.shape.capacity) 1))
        ([.szK k.tok, .szV v.tok, .hash k.id] ++ (rehashEvs c.entries).take (n - 1))
  | _ => abortRes c []

/-- `set_max_size` aborted in the hash of its `n`-th eviction: the limit is not stored yet. -/
def setMaxAbort (c : Cache) (m : Nat) (o : Oracle) (n : Nat) : Res :=
  let _ := m
  let x := evictPrefix c.entries c.cur n
  abortRes { c with entries := x.1, cur := x.2.1, shape := c.shape.remove (n - 1) o.tombs } x.2.2

/-- a re-hash panics inside `move_to_table` for request `req` -/
def rebuildAbort (c : Cache) (req n : Nat) : Res :=
  abortRes (guardEmptied c req) ((rehashEvs c.entries).take n)

def mutateAbort (p : Params) (c : Cache) (id : Nat) (f : Val → Val × Nat) (o : Oracle) (kind : CbKind) (n : Nat) : Res :=
  match lookup c.entries id with
  | none => abortRes c [.hash id]
  | some e =>
    let v' := (f e.val).1
    let replaced := if v'.tok = e.val.tok then [] else [Ev.dropV e.val.tok]
    -- the entry with the value already written by the closure but the old recorded size
    let written : List Entry := c.entries.map fun x => if x.key.id = id then { x with val := v' } else x
    let oldSz := valMemSize p e.val
    let newSz := valMemSize p v'
    match kind with
    | .closure => abortRes c [.hash id, .szV e.val.tok, .closure e.val.tok]
    | .szV =>
      if n ≤ 1 then abortRes c [.hash id, .szV e.val.tok]
      else abortRes { c with entries := written } ([.hash id, .szV e.val.tok, .closure e.val.tok] ++ replaced ++ [.szV v'.tok])
    | .hash =>
      let pre := [Ev.hash id, .szV e.val.tok, .closure e.val.tok] ++ replaced ++ [.szV v'.tok]
      if n ≤ 1 then abortRes c [.hash id]
      else if newSz > oldSz then
        let diff := newSz - oldSz
        let newEntry := e.size + diff
        if newEntry > c.max then
          -- the second lookup of the overflow branch (`remove_entry(key)`)
          abortRes { c with entries := written } (pre ++ [.hash id])
        else
          let e' : Entry := { e with val := v', size := newEntry }
          let x := evictPrefix (touchList c.entries e') (c.cur + diff) (n - 1)
          abortRes { c with entries := x.1, cur := x.2.1, shape := c.shape.remove (n - 2) o.tombs } (pre ++ x.2.2)
      else abortRes c []
    | _ => abortRes c []

/-- `retain` aborted at its `n`-th predicate call (`atPred`) or in the hash of the removal that
follows the `n`-th *rejecting* call: the entries visited before are processed. -/
def retainAbortGo (pr : Nat → Key → Val → Bool) (kind : CbKind) : Nat → Nat → List Entry → List Entry × List Entry × List Ev
  | _, _, [] => ([], [], [])
  | n, i, e :: l =>
    let pe := Ev.pred e.key.tok e.val.tok
    if kind = .pred ∧ n ≤ 1 then (e :: l, [], [pe])
    else
      let keep := pr i e.key e.val
      if keep then
        let r := retainAbortGo pr kind (if kind = .pred then n - 1 else n) (i + 1) l
        (e :: r.1, r.2.1, pe :: r.2.2)
      else if kind = .hash ∧ n ≤ 1 then (e :: l, [], [pe, .hash e.key.id])
      else
        let r := retainAbortGo pr kind (n - 1) (i + 1) l
        (r.1, e :: r.2.1, [pe, .hash e.key.id, .dropK e.key.tok, .dropV e.val.tok] ++ r.2.2)

def retainAbort (c : Cache) (pr : Nat → Key → Val → Bool) (o : Oracle) (kind : CbKind) (n : Nat) : Res :=
  let r := retainAbortGo pr kind n 0 c.entries
  abortRes { c with entries := r.1, cur := subSizes c.cur r.2.1, shape := c.shape.remove r.2.1.length o.tombs } r.2.2

/-- `clone` aborted: the partial clone is dropped (its complete entries are dropped; the entry being
built is leaked where it only exists inside `MaybeUninit`s). The source is only read. -/
def cloneAbortEvs (kind : CbKind) : Nat → List Entry → Nat → List Ev × List Ev
  | _, [], _ => ([], [])
  | n, e :: l, base =>
    let ck := Ev.cloneK e.key.tok base
    let cv := Ev.cloneV e.val.tok (base + 1)
    let h := Ev.hash e.key.id
    if n ≤ 1 then
      match kind with
      | .cloneK => ([ck], [])
      | .cloneV => ([ck, cv], [])
      | _ => ([ck, cv, h], [])
    else
      let r := cloneAbortEvs kind (n - 1) l (base + 2)
      ([ck, cv, h] ++ r.1, [.dropK base, .dropV (base + 1)] ++ r.2)

/-- One operation with a panic injected at the `n`-th callback of kind `kind`. -/
def stepP (p : Params) (c : Cache) (op : Op) (o : Oracle) (kind : CbKind) (n : Nat) : Res :=
  let r := step p c op o
  if n = 0 ∨ cbCount kind r.evs < n then r
  else
    match op with
    | .insert k v => insertAbort p c k v o kind n
    | .tryInsert k v => tryInsertAbort p c k v o kind n
    | .get id | .getEntry id | .touch id | .peek id | .peekEntry id | .contains id
    | .remove id | .removeEntry id => abortRes c [.hash id]
    | .removeLru => abortRes c ((lruOf c.entries).map fun e => Ev.hash e.key.id).toList
    | .removeMru => abortRes c ((mruOf c.entries).map fun e => Ev.hash e.key.id).toList
    | .setMaxSize m => setMaxAbort c m o n
    | .reserve a | .tryReserve a => rebuildAbort c (c.shape.items + a) n
    | .shrinkTo m => rebuildAbort c (Nat.max c.shape.items m) n
    | .shrinkToFit => rebuildAbort c (Nat.max c.shape.items 0) n
    | .mutate id f => mutateAbort p c id f o kind n
    | .retain pr => retainAbort c pr o kind n
    | .cloneProbe base =>
      let x := cloneAbortEvs kind n c.entries base
      abortRes c (x.1 ++ x.2)
    | _ => r

end LruMem
