import LruMem.Model.Ptr
import LruMem.Model.Panic
/-!
# Panics in user code, at the pointer level (C16)

`stepPB p c op o kind n` is the pointer structure the real code leaves behind when the `n`-th callback
of kind `kind` of operation `op` panics — what has been written to the heap up to that point, plus the
effect of unwinding:

* a panic in the first hash / size estimate of a call happens before anything is written;
* a panic in the hash of the `j`-th eviction of `eject_to_target` (the `remove_ptr` lookup) leaves
  `j - 1` complete evictions;
* a panic in a re-hash inside `move_to_table` fires the `ReallocationGuard` (the `fix:` of finding F2):
  the new table is emptied with `clear_no_drop` (the entries moved so far are leaked), the seal is
  linked to itself, `current_size = 0`; unwinding then drops `old_table.into_iter()`, which frees the
  old allocation (its remaining entries have no drop glue: leaked). `reallocateAbortLegacy` is the
  state *without* the guard (the code before the fix): links into the freed allocation survive.
* `mutate`: the closure has written the value in place; the recorded sizes are updated only after the
  second size estimate;
* `retain`: the walk stops at the panicking predicate call / removal lookup.
-/
namespace LruMem
namespace CacheB

/-- `k` complete iterations of the `eject_to_target` loop -/
def evictN : Nat → CacheB → Nat → CacheB
  | 0, c, _ => c
  | k + 1, c, tomb =>
    match c.lruPtr with
    | some x => evictN k (removeAt c x tomb) (tomb - 1)
    | none => c

/-- `move_to_table` for request `n` aborted by a panicking re-hash after `k` entries were moved: the
guard empties the cache, unwinding frees the old allocation. -/
def reallocateAbort (c : CacheB) (n k : Nat) : CacheB :=
  let start := c.fresh
  let c1 := moveAll c (c.table.take k)
  let c2 := { c1 with st := fun y => if y = c1.sl then c1.st y
                                      else if y < start then .dead
                                      else if c1.st y = SlotSt.full then .vacant else c1.st y,
                      table := [], cur := 0, shape := (c.shape.rebuilt n).cleared }
  setPrev (setNext c2 c2.sl c2.sl) c2.sl c2.sl

/-- The same abort *without* the guard (the code before the `fix:` commit): `self.table` is the new
table holding the `k` entries moved so far, the old allocation is freed by unwinding, the list still
runs through the entries that were not moved. -/
def reallocateAbortLegacy (c : CacheB) (n k : Nat) : CacheB :=
  let start := c.fresh
  let c1 := moveAll c (c.table.take k)
  { c1 with st := fun y => if y < start ∧ y ≠ c1.sl then .dead else c1.st y,
            table := (List.range k).map (· + start),
            shape := { buckets := bucketsFor n, items := k, growthLeft := freshCap n - k } }

def insertAbort (p : Params) (c : CacheB) (k : Key) (v : Val) (o : Oracle) (kind : CbKind) (n : Nat) : CacheB :=
  let s := entrySize p k v
  match kind with
  | .hash =>
    if n ≤ 1 then c
    else
      let tomb' := if (c.find k.id).isSome then o.tombs - 1 else o.tombs
      let c1 := c.dedupe k.id o.tombs
      let c2 := ejectTo (c1.table.length + 1) c1 (c.max - s) tomb'
      let ne := c1.table.length - c2.table.length
      let j := n - 1
      if j ≤ ne then evictN (j - 1) c1 tomb'
      else reallocateAbort c2 (Nat.max (2 * c2.shape.capacity) 1) (j - ne - 1)
  | _ => c

def tryInsertAbort (c : CacheB) (kind : CbKind) (n : Nat) : CacheB :=
  match kind with
  | .hash => if n ≤ 1 then c else reallocateAbort c (Nat.max (2 * c.shape.capacity) 1) (n - 2)
  | _ => c

def mutateAbort (p : Params) (c : CacheB) (id : Nat) (f : Val → Val × Nat) (o : Oracle) (kind : CbKind) (n : Nat) : CacheB :=
  match c.find id with
  | none => c
  | some x =>
    let e := c.ent x
    let oldSz := valMemSize p e.val
    let v' := (f e.val).1
    let newSz := valMemSize p v'
    let written := { c with ent := fun y => if y = x then { c.ent y with val := v' } else c.ent y }
    match kind with
    | .szV => if n ≤ 1 then c else written
    | .hash =>
      if n ≤ 1 then c
      else if newSz > oldSz then
        let diff := newSz - oldSz
        let newEntry := e.size + diff
        if newEntry > c.max then written
        else
          let c' := { written with ent := fun y => if y = x then { written.ent y with size := newEntry } else written.ent y,
                                   cur := c.cur + diff }
          evictN (n - 2) (touchPtr c' x) o.tombs
      else c
    | _ => c

/-- `retain` aborted at its `n`-th predicate call (`kind = pred`) or in the removal lookup after the
`n`-th rejecting call (`kind = hash`). -/
def retainAbortGoB (pr : Nat → Key → Val → Bool) (kind : CbKind) : Nat → CacheB → Nat → Nat → Nat → Nat → CacheB
  | 0, c, _, _, _, _ => c
  | fuel + 1, c, tail, n, i, tomb =>
    if tail = c.sl then c
    else if kind = .pred ∧ n ≤ 1 then c
    else
      let c := c.check (c.owns tail)
      let e := c.ent tail
      let keep := pr i e.key e.val
      if keep then
        retainAbortGoB pr kind fuel c (c.links tail).prev (if kind = .pred then n - 1 else n) (i + 1) tomb
      else if kind = .hash ∧ n ≤ 1 then c
      else
        let c1 := match c.find e.key.id with
          | some y => removeAt c y tomb
          | none => c.check false
        let c1 := c1.check (c1.readable tail)
        retainAbortGoB pr kind fuel c1 (c1.links tail).prev (n - 1) (i + 1) (tomb - 1)

def retainAbort (c : CacheB) (pr : Nat → Key → Val → Bool) (o : Oracle) (kind : CbKind) (n : Nat) : CacheB :=
  retainAbortGoB pr kind (c.table.length + 1) c (c.links c.sl).prev n 0 o.tombs

end CacheB

/-- One operation at Level B with a panic injected at the `n`-th callback of kind `kind` (state only;
the events and the decision whether the operation makes that many callbacks are Level A's). -/
def stepPB (p : Params) (c : CacheB) (op : Op) (o : Oracle) (kind : CbKind) (n : Nat) : CacheB :=
  if n = 0 ∨ cbCount kind (step p c.abs op o).evs < n then stepB p c op o
  else
    match op with
    | .insert k v => c.insertAbort p k v o kind n
    | .tryInsert _ _ => c.tryInsertAbort kind n
    | .setMaxSize _ => c.evictN (n - 1) o.tombs
    | .reserve a | .tryReserve a => c.reallocateAbort (c.shape.items + a) (n - 1)
    | .shrinkTo m => c.reallocateAbort (Nat.max c.shape.items m) (n - 1)
    | .shrinkToFit => c.reallocateAbort (Nat.max c.shape.items 0) (n - 1)
    | .mutate id f => c.mutateAbort p id f o kind n
    | .retain pr => c.retainAbort pr o kind n
    | .get _ | .getEntry _ | .touch _ | .peek _ | .peekEntry _ | .contains _ | .remove _ | .removeEntry _
    | .removeLru | .removeMru | .cloneProbe _ => c
    | _ => stepB p c op o

end LruMem
