import LruMem.Model.Step
/-!
# Level B: the pointer model

The cache as `lib.rs`/`entry.rs`/`iter.rs` build it: addressed slots holding `prev`, `next` and the
entry, a heap-allocated seal closing the list into a cycle, a table that lists the full slots, and raw
`EntryPtr` primitives. Every dereference is checked against the state of the slot it touches:

* `dead`   — never allocated, or part of a table allocation that has been freed, or a vacated bucket
             that a later insertion may have overwritten;
* `full`   — a bucket of the *current* table that holds an entry;
* `vacant` — a bucket of the current table whose entry was removed: its bytes (in particular `prev`
             and `next`) are still there until the next insertion or reallocation — this is what
             `retain` reads at `lib.rs` `tail = entry.prev` and what `Drain` relies on;
* `sealed` — the boxed dummy node (the seal).

`has a` says whether the key/value stored at `a` are still owned there (not yet moved out by
`ptr::read`, `remove`, …). An invalid access sets the sticky flag `ub`.

Addresses are abstract: every insertion and every bucket of a new table takes a fresh address (the
comparison with the real heap, through the hook, is up to renaming). Address 0 is the null pointer.
-/
namespace LruMem

inductive SlotSt | dead | full | vacant | sealed
deriving Repr, DecidableEq, Inhabited

structure Links where
  prev : Nat
  next : Nat
deriving Repr, DecidableEq, Inhabited

structure CacheB where
  links : Nat → Links
  st : Nat → SlotSt
  ent : Nat → Entry
  /-- key and value at this address are initialised and owned by the slot -/
  has : Nat → Bool
  /-- address of the seal -/
  sl : Nat
  /-- addresses of the full buckets, in table (bucket) order — an arbitrary order -/
  table : List Nat
  cur : Nat
  max : Nat
  shape : Shape
  /-- allocation counter: every address `≥ fresh` is unused -/
  fresh : Nat
  /-- some access so far was to freed, moved-out or null memory -/
  ub : Bool

namespace CacheB

def check (c : CacheB) (ok : Bool) : CacheB := { c with ub := c.ub || !ok }

/-- `EntryPtr::get`: the pointee's `Copy` fields may be read -/
def readable (c : CacheB) (a : Nat) : Bool := c.st a != .dead
/-- `EntryPtr::get_mut` on a node that is part of the structure -/
def writable (c : CacheB) (a : Nat) : Bool := c.st a == .full || c.st a == .sealed
/-- key / value may be read (or moved out) -/
def owns (c : CacheB) (a : Nat) : Bool := c.st a != .dead && c.has a

def setNext (c : CacheB) (a v : Nat) : CacheB :=
  { c with links := fun x => if x = a then { c.links x with next := v } else c.links x,
           ub := c.ub || !c.writable a }

def setPrev (c : CacheB) (a v : Nat) : CacheB :=
  { c with links := fun x => if x = a then { c.links x with prev := v } else c.links x,
           ub := c.ub || !c.writable a }

/-- `EntryPtr::unhinge` (`entry.rs:222-228`), also the link part of `Entry::unhinge`. -/
def unhinge (c : CacheB) (x : Nat) : CacheB :=
  let c := c.check (c.readable x)
  setPrev (setNext c (c.links x).prev (c.links x).next) (c.links x).next (c.links x).prev

/-- `set_head`: `entry.insert(self.sl, self.sl.get().next)` (`entry.rs:230-239`). The node's own
links are written through `get_mut`, so it has to be a full slot. -/
def setHead (c : CacheB) (x : Nat) : CacheB :=
  let c := c.check (c.readable c.sl && c.st x == .full)
  let n := (c.links c.sl).next
  let c1 := setNext c c.sl x
  let c2 := setPrev c1 n x
  let c3 := { c2 with links := fun y => if y = x then { c2.links y with next := n } else c2.links y }
  { c3 with links := fun y => if y = x then { c3.links y with prev := c.sl } else c3.links y }

/-- `touch_ptr` -/
def touchPtr (c : CacheB) (x : Nat) : CacheB := setHead (unhinge c x) x

/-- `RawTable::find` with `equivalent_key`: the full bucket whose key has this id. -/
def find (c : CacheB) (id : Nat) : Option Nat := c.table.find? fun a => (c.ent a).key.id == id

/-- `remove_from_table` + `remove_metadata`: the bucket becomes vacant, the entry is moved out (by
value), its neighbours are relinked from the moved-out copy's links, the total is reduced by the
recorded size. `tomb` = how many of the operation's remaining removals leave a tombstone (the first
`tomb` of them do; only the count matters for the accounting). -/
def removeAt (c : CacheB) (x : Nat) (tomb : Nat) : CacheB :=
  let c := c.check (c.owns x && c.st x == .full)
  let c1 := { c with st := fun y => if y = x then .vacant else c.st y,
                     has := fun y => if y = x then false else c.has y,
                     table := c.table.erase x,
                     shape := c.shape.remove 1 tomb }
  -- `Entry::unhinge(self)`: reads the copy's links, writes the neighbours
  let c2 := setPrev (setNext c1 (c.links x).prev (c.links x).next) (c.links x).next (c.links x).prev
  { c2 with cur := c2.cur - (c.ent x).size }

/-- `try_insert_no_grow` succeeded at a fresh bucket: write the entry with `prev = seal`,
`next = seal.next` (`Entry::new`), then `set_head`. Any bucket vacated earlier may have been the one
that was reused: vacant buckets are dead from now on. -/
def insertFresh (c : CacheB) (e : Entry) (reuse : Bool) : CacheB :=
  let a := c.fresh
  let c := c.check (c.readable c.sl)
  let c1 := { c with st := fun y => if y = a then .full else if c.st y = SlotSt.vacant then .dead else c.st y,
                     has := fun y => if y = a then true else c.has y,
                     ent := fun y => if y = a then e else c.ent y,
                     links := fun y => if y = a then ⟨c.sl, (c.links c.sl).next⟩ else c.links y,
                     table := c.table ++ [a],
                     shape := c.shape.inserted reuse,
                     fresh := a + 1 }
  setHead { c1 with cur := c1.cur + e.size } a

/-- One iteration of the move loop of `move_to_table`: the entry at `x` (old table) lands in a fresh
bucket `x'` of the new table; both neighbours are repaired at their *current* locations. -/
def moveOne (c : CacheB) (x : Nat) : CacheB :=
  let x' := c.fresh
  let c := c.check (c.owns x)
  let p := (c.links x).prev
  let n := (c.links x).next
  let c1 := { c with st := fun y => if y = x' then .full else c.st y,
                     has := fun y => if y = x' then true else if y = x then false else c.has y,
                     ent := fun y => if y = x' then c.ent x else c.ent y,
                     links := fun y => if y = x' then c.links x else c.links y,
                     fresh := x' + 1 }
  -- `prev_entry.get_mut().next = entry_ptr; next_entry.get_mut().prev = entry_ptr;`
  -- the neighbours may still sit in the old table (readable as long as the old allocation lives)
  let c2 := { c1 with links := fun y => if y = p then { c1.links y with next := x' } else c1.links y,
                      ub := c1.ub || !c1.readable p }
  { c2 with links := fun y => if y = n then { c2.links y with prev := x' } else c2.links y,
            ub := c2.ub || !c2.readable n }

def moveAll : CacheB → List Nat → CacheB
  | c, [] => c
  | c, x :: xs => moveAll (moveOne c x) xs

/-- `move_to_table` into a fresh table for request `n`: every entry moved (table order), then the old
allocation is freed: the old buckets, full or vacant, are dead. -/
def reallocate (c : CacheB) (n : Nat) : CacheB :=
  let old := c.table
  let start := c.fresh
  let c1 := moveAll c old
  { c1 with st := fun y => if y < start ∧ y ≠ c1.sl then .dead else c1.st y,
            table := (List.range old.length).map (· + start),
            shape := c.shape.rebuilt n }

/-- `insert_unchecked` -/
def insertUnchecked (c : CacheB) (e : Entry) (o : Oracle) : CacheB :=
  if c.shape.canInsert o.reuse then insertFresh c e o.reuse
  else
    let c1 := reallocate c (Nat.max (2 * c.shape.capacity) 1)
    insertFresh c1 e false

/-- `lru_ptr` -/
def lruPtr (c : CacheB) : Option Nat :=
  let p := (c.links c.sl).prev
  if p = c.sl then none else some p

def mruPtr (c : CacheB) : Option Nat :=
  let p := (c.links c.sl).next
  if p = c.sl then none else some p

/-- `eject_to_target`, with fuel for the loop (`items + 1` iterations always suffice). -/
def ejectTo : Nat → CacheB → Nat → Nat → CacheB
  | 0, c, _, _ => c
  | fuel + 1, c, target, tomb =>
    if c.cur > target then
      match c.lruPtr with
      | some x => ejectTo fuel (removeAt c x tomb) target (tomb - 1)
      | none => c
    else c

/-- the walk from the seal along `prev`: LRU → MRU -/
def walkPrev (links : Nat → Links) (sealA : Nat) : Nat → Nat → List Nat
  | 0, _ => []
  | fuel + 1, a => if a = sealA then [] else a :: walkPrev links sealA fuel (links a).prev

def walkNext (links : Nat → Links) (sealA : Nat) : Nat → Nat → List Nat
  | 0, _ => []
  | fuel + 1, a => if a = sealA then [] else a :: walkNext links sealA fuel (links a).next

/-- addresses in LRU→MRU order -/
def order (c : CacheB) : List Nat := walkPrev c.links c.sl c.table.length (c.links c.sl).prev

/-- The abstraction to Level A. -/
def abs (c : CacheB) : Cache :=
  { entries := c.order.map c.ent, cur := c.cur, max := c.max, shape := c.shape }

/-- `LruCache::with_capacity`: the seal is the only allocation (address 1). -/
def new (max n : Nat) : CacheB :=
  { links := fun _ => ⟨1, 1⟩, st := fun a => if a = 1 then .sealed else .dead, ent := fun _ => default,
    has := fun _ => false, sl := 1, table := [], cur := 0, max := max, shape := Shape.fresh n,
    fresh := 2, ub := false }

/-! ## public operations -/

/-- `self.table.remove_entry(hash, equivalent_key(key)).map(|e| remove_metadata(e))` -/
def dedupe (c : CacheB) (id : Nat) (tomb : Nat) : CacheB :=
  match c.find id with
  | some x => removeAt c x tomb
  | none => c

def insert (p : Params) (c : CacheB) (k : Key) (v : Val) (o : Oracle) : CacheB :=
  let s := entrySize p k v
  if s > c.max then c
  else
    let c1 := c.dedupe k.id o.tombs
    let c2 := ejectTo (c1.table.length + 1) c1 (c.max - s) (if (c.find k.id).isSome then o.tombs - 1 else o.tombs)
    insertUnchecked c2 ⟨k, v, s⟩ o

def tryInsert (p : Params) (c : CacheB) (k : Key) (v : Val) (o : Oracle) : CacheB :=
  let s := entrySize p k v
  if s > c.max then c
  else if s > c.max - c.cur then c
  else if (c.find k.id).isSome then c
  else insertUnchecked c ⟨k, v, s⟩ o

def getEntry (c : CacheB) (id : Nat) : CacheB :=
  match c.find id with
  | some x => touchPtr c x
  | none => c

def removeEntry (c : CacheB) (id : Nat) (o : Oracle) : CacheB :=
  match c.find id with
  | some x => removeAt c x o.tombs
  | none => c

def removeLru (c : CacheB) (o : Oracle) : CacheB :=
  match c.lruPtr with
  | some x =>
    -- `remove_ptr`: looks the key up again
    match c.find (c.ent x).key.id with
    | some y => removeAt (c.check (c.owns x)) y o.tombs
    | none => c.check false
  | none => c

def removeMru (c : CacheB) (o : Oracle) : CacheB :=
  match c.mruPtr with
  | some x =>
    match c.find (c.ent x).key.id with
    | some y => removeAt (c.check (c.owns x)) y o.tombs
    | none => c.check false
  | none => c

def getLru (c : CacheB) : CacheB :=
  match c.lruPtr with
  | some x => touchPtr c x
  | none => c

def setMaxSize (c : CacheB) (m : Nat) (o : Oracle) : CacheB :=
  { ejectTo (c.table.length + 1) c m o.tombs with max := m }

def reserve (p : Params) (c : CacheB) (a : Nat) (o : Oracle) : CacheB :=
  let n := c.shape.items + a
  if n > p.usizeMax then c
  else if c.shape.capacity < n then
    if tableOk p n && o.allocOk then reallocate c n else c
  else c

def shrinkTo (p : Params) (c : CacheB) (m : Nat) (o : Oracle) : CacheB :=
  let n := Nat.max c.shape.items m
  if c.shape.capacity > n then
    if tableOk p n && o.allocOk then
      if bucketsFor n < c.shape.buckets ∧ freshCap n ≤ c.shape.capacity then reallocate c n else c
    else c
  else c

def mutate (p : Params) (c : CacheB) (id : Nat) (f : Val → Val × Nat) (o : Oracle) : CacheB :=
  match c.find id with
  | none => c
  | some x =>
    let e := c.ent x
    let c := c.check (c.owns x)
    let oldSz := valMemSize p e.val
    let v' := (f e.val).1
    let newSz := valMemSize p v'
    -- the closure wrote the value in place
    let c := { c with ent := fun y => if y = x then { c.ent y with val := v' } else c.ent y }
    if newSz > oldSz then
      let diff := newSz - oldSz
      let newEntry := e.size + diff
      if newEntry > c.max then
        match c.find id with
        | some y => removeAt c y o.tombs
        | none => c.check false
      else
        let c := { c with ent := fun y => if y = x then { c.ent y with size := newEntry } else c.ent y,
                          cur := c.cur + diff }
        ejectTo (c.table.length + 1) (touchPtr c x) c.max o.tombs
    else
      let diff := oldSz - newSz
      let c := { c with ent := fun y => if y = x then { c.ent y with size := e.size - diff } else c.ent y,
                        cur := c.cur - diff }
      touchPtr c x

/-- `retain`: `tail = seal.prev; while tail != seal { … remove_entry(key) …; tail = entry.prev }` —
the link is read *after* the removal, from the just-vacated bucket. -/
def retainGoB (pr : Nat → Key → Val → Bool) : Nat → CacheB → Nat → Nat → Nat → CacheB
  | 0, c, _, _, _ => c
  | fuel + 1, c, tail, i, tomb =>
    if tail = c.sl then c
    else
      let c := c.check (c.owns tail)
      let e := c.ent tail
      let keep := pr i e.key e.val
      let c1 := if keep then c
        else match c.find e.key.id with
          | some y => removeAt c y tomb
          | none => c.check false
      let c1 := c1.check (c1.readable tail)
      retainGoB pr fuel c1 (c1.links tail).prev (i + 1) (if keep then tomb else tomb - 1)

def retain (c : CacheB) (pr : Nat → Key → Val → Bool) (o : Oracle) : CacheB :=
  retainGoB pr (c.table.length + 1) c (c.links c.sl).prev 0 o.tombs

/-- `clear`: drain the table dropping every entry, reset the seal. -/
def clear (c : CacheB) : CacheB :=
  let c := c.check (c.table.all fun a => c.owns a)
  let c1 := { c with st := fun y => if c.st y = SlotSt.full then .vacant else c.st y,
                     has := fun y => if c.st y = SlotSt.full then false else c.has y,
                     table := [], cur := 0, shape := c.shape.cleared }
  setPrev (setNext c1 c1.sl c1.sl) c1.sl c1.sl

/-- `Drop for LruCache`: every listed entry is dropped (it must still be owned), the seal freed. -/
def dropCache (c : CacheB) : CacheB :=
  let c := c.check (c.table.all fun a => c.owns a)
  { c with st := fun _ => .dead, has := fun _ => false, table := [] }

/-! ## iterators: two cursors -/

structure Cursors where
  /-- `None` = the null pointer (exhausted, or created on an empty cache) -/
  next : Option Nat
  nextBack : Nat
deriving Repr, DecidableEq, Inhabited

/-- `Iter::new` / `TakingIterator::new` -/
def cursorsNew (c : CacheB) : Cursors :=
  if c.shape.items = 0 then ⟨none, 0⟩ else ⟨some (c.links c.sl).prev, (c.links c.sl).next⟩

/-- One `next` (front) or `next_back`. `take`: the entry is moved out with `ptr::read`. Returns the
address yielded. -/
def cursorStep (c : CacheB) (it : Cursors) (front take : Bool) : CacheB × Cursors × Option Nat :=
  match it.next with
  | none => (c, it, none)
  | some nx =>
    let a := if front then nx else it.nextBack
    let c := c.check (c.owns a)
    let it' : Cursors :=
      if nx = it.nextBack then ⟨none, it.nextBack⟩
      else if front then ⟨some (c.links a).prev, it.nextBack⟩ else ⟨some nx, (c.links a).next⟩
    let c := if take then { c with has := fun y => if y = a then false else c.has y } else c
    (c, it', some a)

def cursorRun : CacheB → Cursors → List Bool → Bool → CacheB × Cursors × List (Option Nat)
  | c, it, [], _ => (c, it, [])
  | c, it, f :: fs, take =>
    let r := cursorStep c it f take
    let r2 := cursorRun r.1 r.2.1 fs take
    (r2.1, r2.2.1, r.2.2 :: r2.2.2)

/-- drain the rest from the front (the `for _ in self.by_ref() {}` of the `Drop` impls) -/
def cursorDrain : Nat → CacheB → Cursors → CacheB × Cursors
  | 0, c, it => (c, it)
  | fuel + 1, c, it =>
    match it.next with
    | none => (c, it)
    | some _ => let r := cursorStep c it true true; cursorDrain fuel r.1 r.2.1

/-- `Drain::new` after the `fix:` commit: cursors first, then the cache is reset
(`clear_no_drop`: the buckets become vacant but keep their contents). -/
def drainDetach (c : CacheB) : CacheB :=
  let c1 := { c with st := fun y => if c.st y = SlotSt.full then .vacant else c.st y,
                     table := [], cur := 0, shape := c.shape.cleared }
  setPrev (setNext c1 c1.sl c1.sl) c1.sl c1.sl

/-- An iterator scenario at Level B. Returns the cache afterwards (for the owning `into_*` kinds:
the state after the iterator *and the cache inside it* are gone, or leaked). -/
def iterScenario (c : CacheB) (kind : IterKind) (calls : List Bool) (forget : Bool) : CacheB × List (Option Nat) :=
  let it := cursorsNew c
  if kind.borrowing then
    let r := cursorRun c it calls false
    (r.1, r.2.2)
  else if kind = .drain then
    let c1 := drainDetach c
    let r := cursorRun c1 it calls true
    if forget then (r.1, r.2.2)
    else ((cursorDrain (c.table.length + 1) r.1 r.2.1).1, r.2.2)
  else
    let r := cursorRun c it calls true
    if forget then (r.1, r.2.2)
    else
      -- `IntoIter::drop`: consume the rest, `clear_no_drop`, then the cache itself is dropped
      let r2 := cursorDrain (c.table.length + 1) r.1 r.2.1
      let c2 := { r2.1 with table := [], st := fun y => if r2.1.st y = SlotSt.full then .vacant else r2.1.st y }
      (dropCache c2, r.2.2)

/-! ## clone -/

/-- `Clone`: a new seal and a table for `capacity()`; each entry copied LRU→MRU with the *source's*
links (as `Entry::clone` does), then `insert_untracked` → `set_head` overwrites them. The clone lives
in its own address space `CacheB` (fresh heap): sharing would show as a dereference of an address
that is dead *in the clone's heap*. -/
def cloneGo : Nat → CacheB → CacheB → Nat → Nat → CacheB
  | 0, _, d, _, _ => d
  | fuel + 1, src, d, cur, base =>
    if cur = src.sl then d
    else
      let e := src.ent cur
      let e' : Entry := { e with key := { e.key with tok := base }, val := { e.val with tok := base + 1 } }
      let a := d.fresh
      -- the copied node still carries the source's `prev`/`next` (addresses of the *source* heap,
      -- marked by an offset that is dead in the clone)
      let d1 := { d with st := fun y => if y = a then .full else d.st y,
                         has := fun y => if y = a then true else d.has y,
                         ent := fun y => if y = a then e' else d.ent y,
                         links := fun y => if y = a then ⟨(src.links cur).prev + 1000000007, (src.links cur).next + 1000000007⟩ else d.links y,
                         table := d.table ++ [a],
                         shape := d.shape.inserted false,
                         fresh := a + 1 }
      cloneGo fuel src (setHead d1 a) (src.links cur).prev (base + 2)

def clone (c : CacheB) (base : Nat) : CacheB :=
  let d := { CacheB.new c.max c.shape.capacity with cur := c.cur }
  cloneGo (c.table.length + 1) c d (c.links c.sl).prev base

end CacheB

/-- One operation at Level B (state only; return values and events are Level A's). -/
def stepB (p : Params) (c : CacheB) (op : Op) (o : Oracle) : CacheB :=
  match op with
  | .insert k v => c.insert p k v o
  | .tryInsert k v => c.tryInsert p k v o
  | .get id | .getEntry id | .touch id => c.getEntry id
  | .peek id | .peekEntry id | .contains id => let _ := c.find id; c
  | .remove id | .removeEntry id => c.removeEntry id o
  | .removeLru => c.removeLru o
  | .removeMru => c.removeMru o
  | .getLru => c.getLru
  | .peekLru | .peekMru | .debugFmt => c
  | .setMaxSize m => c.setMaxSize m o
  | .reserve a | .tryReserve a => c.reserve p a o
  | .shrinkTo m => c.shrinkTo p m o
  | .shrinkToFit => c.shrinkTo p 0 o
  | .mutate id f => c.mutate p id f o
  | .retain pr => c.retain pr o
  | .clear => c.clear
  | .iterate kind calls forget => (c.iterScenario kind calls forget).1
  | .cloneProbe base => let d := c.clone base; { c with ub := c.ub || (d.dropCache).ub }

end LruMem
