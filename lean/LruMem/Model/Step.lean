import LruMem.Model.Abs
/-!
# The operation alphabet and the single-cache step function
-/
namespace LruMem

/-- One public operation on one cache. Closures and predicates are arbitrary functions. -/
inductive Op
  | insert (k : Key) (v : Val)
  | tryInsert (k : Key) (v : Val)
  | get (id : Nat)
  | getEntry (id : Nat)
  | touch (id : Nat)
  | peek (id : Nat)
  | peekEntry (id : Nat)
  | contains (id : Nat)
  | remove (id : Nat)
  | removeEntry (id : Nat)
  | removeLru
  | removeMru
  | getLru
  | peekLru
  | peekMru
  | setMaxSize (m : Nat)
  | reserve (a : Nat)
  | tryReserve (a : Nat)
  | shrinkTo (m : Nat)
  | shrinkToFit
  | mutate (id : Nat) (f : Val → Val × Nat)
  /-- `retain` with a predicate that may depend on the visit number (any `FnMut`) -/
  | retain (pr : Nat → Key → Val → Bool)
  | clear
  /-- `iter`/`keys`/`values`/`drain` scenario: calls, then drop or forget the iterator -/
  | iterate (kind : IterKind) (calls : List Bool) (forget : Bool)
  /-- `Debug` formatting -/
  | debugFmt
  /-- `clone()` and drop of the clone (the clone's own life is modelled by `World`) -/
  | cloneProbe (base : Nat)

/-- `FnMut` predicate state for `Op.retain`: the visit counter. -/
def indexPred (pr : Nat → Key → Val → Bool) : Nat → Key → Val → Bool × Nat :=
  fun i k v => (pr i k v, i + 1)

/-- Does the cache survive the operation? Only the owning-iterator scenarios consume it. -/
def Op.consumes : Op → Bool
  | .iterate k _ _ => !k.borrowing && k != .drain
  | _ => false

/-- One operation on a cache that is not consumed by it. -/
def step (p : Params) (c : Cache) (op : Op) (o : Oracle) : Res :=
  match op with
  | .insert k v => insert p c k v o
  | .tryInsert k v => tryInsert p c k v o
  | .get id => get c id
  | .getEntry id => getEntry c id
  | .touch id => touch c id
  | .peek id => peek c id
  | .peekEntry id => peekEntry c id
  | .contains id => contains c id
  | .remove id => remove c id o
  | .removeEntry id => removeEntry c id o
  | .removeLru => removeLru c o
  | .removeMru => removeMru c o
  | .getLru => getLru c
  | .peekLru => peekLru c
  | .peekMru => peekMru c
  | .setMaxSize m => setMaxSize c m o
  | .reserve a => reserve p c a o
  | .tryReserve a => tryReserve p c a o
  | .shrinkTo m => shrinkTo p c m o
  | .shrinkToFit => shrinkToFit p c o
  | .mutate id f => mutate p c id f o
  | .retain pr => retain c (indexPred pr) 0 o
  | .clear => clear c
  | .iterate kind calls forget =>
    let r := iterScenario c kind calls forget
    { cache := r.cache.getD c, out := r.out, evs := r.evs }
  | .debugFmt => { cache := c, out := .items .iter (c.entries.map fun e => some (pairOf e)), evs := [] }
  | .cloneProbe base =>
    let r := clone c base
    { cache := c, out := .cloned, evs := r.2.1 ++ dropCache r.1, status := r.2.2,
      rebuilt := some c.entries.length }

end LruMem
