import LruMem.Proofs.Inv
import LruMem.Model.Arith
/-!
# The accounting arithmetic never leaves `usize`

The Level A model computes over `Nat`, the code over `usize` (overflow panics in a debug build and
wraps in a release build; a subtraction below zero likewise). This file lists, operation by
operation and in program order, every addition and subtraction on sizes that the Rust code performs
(`entry.rs:35` `entry_size`; `lib.rs` `remove_metadata` `current_size -= entry.size()`,
`insert` `max_size - entry.size()`, `insert_unchecked` `current_size += size` and
`capacity() * 2`, `try_insert` `max_size - current_size`, `mutate` — both size estimates, `new - old`,
`entry.size + diff`, `current_size += diff`, `old - new`, `entry.size -= diff`, `current_size -= diff` —
and the subtractions of every eviction and of `retain`), and proves that under the structural
invariant and the stated side conditions none of them overflows or goes below zero: truncated `Nat`
subtraction never truncates and every intermediate value is a `usize`, so `Nat` agrees with `usize`.
The list of sites is transcribed from the source by hand (it follows the control flow of
`Model/Abs.lean` line by line); the harness is built with overflow checks on, so an arithmetic site
missing here that can fail shows as a panic of the real code in the `extreme` family.
-/
namespace LruMem

theorem mem_size_le_sum {l : List Entry} {e : Entry} (h : e ∈ l) : e.size ≤ sumSizes l := by
  induction l with
  | nil => cases h
  | cons a l ih =>
    simp only [sumSizes_cons]
    rcases List.mem_cons.mp h with rfl | h
    · omega
    · have := ih h; omega

theorem ejectArith_ok (p : Params) (l : List Entry) (cur target : Nat) (h : cur = sumSizes l) :
    ∀ a ∈ ejectArith l cur target, a.ok p := by
  induction l generalizing cur with
  | nil => simp [ejectArith]
  | cons e es ih =>
    simp only [ejectArith]
    split
    · intro a ha
      rcases List.mem_cons.mp ha with rfl | ha
      · simp only [Arith.ok, h, sumSizes_cons]; omega
      · exact ih (cur - e.size) (by simp [h]) a ha
    · simp

theorem subArith_ok (p : Params) (l : List Entry) (cur : Nat) (h : sumSizes l ≤ cur) :
    ∀ a ∈ subArith cur l, a.ok p := by
  induction l generalizing cur with
  | nil => simp [subArith]
  | cons e es ih =>
    simp only [subArith, sumSizes_cons] at *
    intro a ha
    rcases List.mem_cons.mp ha with rfl | ha
    · simp only [Arith.ok]; omega
    · exact ih (cur - e.size) (by omega) a ha

theorem retainGo_sum {σ : Type} (pr : σ → Key → Val → Bool × σ) (st : σ) (l : List Entry) :
    sumSizes (retainGo pr st l).kept + sumSizes (retainGo pr st l).removed = sumSizes l := by
  induction l generalizing st with
  | nil => simp [retainGo]
  | cons e l ih =>
    simp only [retainGo]
    have := ih (pr st e.key e.val).2
    split <;> simp only [sumSizes_cons] <;> omega

end LruMem
