import LruMem.Model.Ptr
/-!
# The intrusive list as a closed chain (Level B)

`Chain h P`: along the path `P`, every consecutive pair `(a, b)` has `(h a).prev = b` and
`(h b).next = a` (`prev` runs LRU→MRU, `next` MRU→LRU; `seal.prev` = LRU, `seal.next` = MRU).
The list invariant is the *closed* path `s :: l ++ [s]` with `s :: l` duplicate-free.
Two structural lemmas carry every proof: `chain_append` (split a path at a node) and `chain_congr`
(frame: a heap that agrees on `prev` of the non-last and `next` of the non-first path nodes).
-/
namespace LruMem.Chain

abbrev Heap := Nat → Links

def setPrev (h : Heap) (a v : Nat) : Heap := fun x => if x = a then { h x with prev := v } else h x
def setNext (h : Heap) (a v : Nat) : Heap := fun x => if x = a then { h x with next := v } else h x

@[simp] theorem setPrev_prev (h : Heap) (a v x) : (setPrev h a v x).prev = if x = a then v else (h x).prev := by
  unfold setPrev; split <;> simp
@[simp] theorem setPrev_next (h : Heap) (a v x) : (setPrev h a v x).next = (h x).next := by
  unfold setPrev; split <;> simp
@[simp] theorem setNext_next (h : Heap) (a v x) : (setNext h a v x).next = if x = a then v else (h x).next := by
  unfold setNext; split <;> simp
@[simp] theorem setNext_prev (h : Heap) (a v x) : (setNext h a v x).prev = (h x).prev := by
  unfold setNext; split <;> simp

/-- consecutive elements of the path are linked both ways (prev forward, next backward) -/
def Chain (h : Heap) : List Nat → Prop
  | a :: b :: rest => (h a).prev = b ∧ (h b).next = a ∧ Chain h (b :: rest)
  | _ => True

@[simp] theorem chain_nil (h) : Chain h [] := trivial
@[simp] theorem chain_single (h a) : Chain h [a] := trivial
@[simp] theorem chain_cons2 (h a b rest) :
    Chain h (a :: b :: rest) ↔ (h a).prev = b ∧ (h b).next = a ∧ Chain h (b :: rest) := Iff.rfl

theorem chain_append (h : Heap) (X : List Nat) (a : Nat) (Y : List Nat) :
    Chain h (X ++ a :: Y) ↔ Chain h (X ++ [a]) ∧ Chain h (a :: Y) := by
  induction X with
  | nil => simp
  | cons x xs ih =>
    cases xs with
    | nil => cases Y <;> simp [and_assoc]
    | cons x' xs' =>
      simp only [List.cons_append, chain_cons2] at ih ⊢
      rw [ih]; simp [and_assoc]

/-- frame: a heap that agrees on `prev` of all non-last and `next` of all non-first path nodes -/
theorem chain_congr (h h' : Heap) (P : List Nat)
    (hp : ∀ x ∈ P.dropLast, (h' x).prev = (h x).prev)
    (hn : ∀ x ∈ P.tail, (h' x).next = (h x).next) :
    Chain h P → Chain h' P := by
  induction P with
  | nil => simp
  | cons a t ih =>
    cases t with
    | nil => simp
    | cons b rest =>
      intro ⟨h1, h2, h3⟩
      refine ⟨?_, ?_, ?_⟩
      · rw [hp a (by simp [List.dropLast])]; exact h1
      · rw [hn b (by simp)]; exact h2
      · apply ih _ _ h3
        · intro x hx; apply hp; simp [List.dropLast] at hx ⊢; exact Or.inr hx
        · intro x hx; apply hn; simp at hx ⊢; exact Or.inr hx

/-- EntryPtr::unhinge as in entry.rs:222-228 -/
def unhinge (h : Heap) (x : Nat) : Heap :=
  let p := (h x).prev
  let n := (h x).next
  setPrev (setNext h p n) n p

/-- EntryPtr::insert(prev, next) as in entry.rs:230-239 -/
def insertBetween (h : Heap) (x p n : Nat) : Heap :=
  let h1 := setNext h p x
  let h2 := setPrev h1 n x
  let h3 := setNext h2 x n
  setPrev h3 x p

/-- invariant: path s :: l ++ [s] is chained, s :: l has no duplicates -/
def LInv (h : Heap) (s : Nat) (l : List Nat) : Prop :=
  Chain h (s :: l ++ [s]) ∧ (s :: l).Nodup

theorem last_split (s : Nat) (l1 : List Nat) : ∃ X a, s :: l1 = X ++ [a] := by
  refine ⟨(s :: l1).dropLast, (s :: l1).getLast (by simp), ?_⟩
  exact (List.dropLast_concat_getLast (by simp)).symm

theorem unhinge_inv (h : Heap) (s : Nat) (l1 l2 : List Nat) (x : Nat)
    (hinv : LInv h s (l1 ++ x :: l2)) : LInv (unhinge h x) s (l1 ++ l2) := by
  obtain ⟨hc, hnd⟩ := hinv
  obtain ⟨X, a, hXa⟩ := last_split s l1
  -- b :: Y = l2 ++ [s]
  obtain ⟨b, Y, hbY⟩ : ∃ b Y, l2 ++ [s] = b :: Y := by
    cases l2 with
    | nil => exact ⟨s, [], rfl⟩
    | cons c cs => exact ⟨c, cs ++ [s], rfl⟩
  have hpath : s :: (l1 ++ x :: l2) ++ [s] = X ++ a :: x :: b :: Y := by
    have : s :: (l1 ++ x :: l2) ++ [s] = (s :: l1) ++ x :: (l2 ++ [s]) := by simp
    rw [this, hXa, hbY]; simp
  have hpath' : s :: (l1 ++ l2) ++ [s] = X ++ a :: b :: Y := by
    have : s :: (l1 ++ l2) ++ [s] = (s :: l1) ++ (l2 ++ [s]) := by simp
    rw [this, hXa, hbY]; simp
  rw [hpath] at hc
  rw [chain_append] at hc
  obtain ⟨hA, hax, hxa, hxb, hbx, hB⟩ := hc
  -- nodup facts
  have hnd2 : (X ++ a :: x :: Y.dropLast ++ []).Nodup ∨ True := Or.inr trivial
  have hmem : ∀ y, y ∈ s :: (l1 ++ x :: l2) ↔ y ∈ X ∨ y = a ∨ y = x ∨ y ∈ l2 := by
    intro y
    have : s :: (l1 ++ x :: l2) = (s :: l1) ++ x :: l2 := by simp
    rw [this, hXa]; simp [or_assoc]
  have hnd' : (X ++ [a] ++ x :: l2).Nodup := by
    have : s :: (l1 ++ x :: l2) = (s :: l1) ++ x :: l2 := by simp
    rw [this, hXa] at hnd; exact hnd
  have htail : (X ++ [a]).tail = l1 := by rw [← hXa]; rfl
  have ha : a ∈ s :: l1 := by rw [hXa]; simp
  have hdl : (b :: Y).dropLast = l2 := by rw [← hbY]; simp
  have hnd0 : (s :: (l1 ++ x :: l2)).Nodup := hnd
  have hnd3 : (l2 ++ [s]).Nodup := by
    simp [List.nodup_append] at hnd0 ⊢; grind
  have hbY' : (b :: Y).Nodup := by rw [← hbY]; exact hnd3
  have hbmem : b ∈ l2 ++ [s] := by rw [hbY]; simp
  have hsep : ∀ y, y ∈ l1 → y ∉ l2 ++ [s] := by
    simp [List.nodup_append] at hnd0 ⊢; grind
  have hsep2 : ∀ y, y ∈ s :: l1 → y ∉ l2 := by
    simp [List.nodup_append] at hnd0 ⊢; grind
  have hu : unhinge h x = setPrev (setNext h b a) a b := by
    unfold unhinge; simp [hxa, hxb]
  refine ⟨?_, ?_⟩
  · rw [hpath', chain_append]
    refine ⟨?_, ?_⟩
    · apply chain_congr h _ _ _ _ hA
      · intro y hy
        rw [hu]; simp at hy ⊢
        intro hya; subst hya
        simp [List.nodup_append] at hnd'; grind
      · intro y hy
        rw [hu]; simp
        intro hyb; subst hyb
        rw [htail] at hy
        exact absurd hbmem (hsep _ hy)
    · refine ⟨by rw [hu]; simp, by rw [hu]; simp, ?_⟩
      apply chain_congr h _ _ _ _ hB
      · intro y hy
        rw [hu]; simp
        intro hya; subst hya
        rw [hdl] at hy
        exact absurd hy (hsep2 _ ha)
      · intro y hy
        rw [hu]; simp at hy ⊢
        intro hyb; subst hyb
        simp at hbY'; exact absurd hy hbY'.1
  · have : s :: (l1 ++ l2) = (s :: l1) ++ l2 := by simp
    rw [this, hXa]
    simp [List.nodup_append] at hnd' ⊢; grind


/-- set_head: insert x (not in the list, not the seal) between seal and seal.next: becomes MRU = last -/
theorem setHead_inv (h : Heap) (s : Nat) (l : List Nat) (x : Nat)
    (hinv : LInv h s l) (hx : x ∉ s :: l) :
    LInv (insertBetween h x s (h s).next) s (l ++ [x]) := by
  obtain ⟨hc, hnd⟩ := hinv
  -- path s :: l ++ [s] = P ++ [m, s] where m = old MRU (or s when l = [])
  obtain ⟨P, m, hPm⟩ := last_split s l
  have hpath : s :: l ++ [s] = P ++ m :: [s] := by
    have : s :: l ++ [s] = (s :: l) ++ [s] := by simp
    rw [this, hPm]; simp
  have hpath' : s :: (l ++ [x]) ++ [s] = P ++ m :: x :: [s] := by
    have : s :: (l ++ [x]) ++ [s] = (s :: l) ++ [x, s] := by simp
    rw [this, hPm]; simp
  rw [hpath, chain_append] at hc
  obtain ⟨hA, hms, hsm, -⟩ := hc
  have hm : m ∈ s :: l := by rw [hPm]; simp
  have hxm : x ≠ m := fun e => hx (e ▸ hm)
  have hxs : x ≠ s := by simp at hx; exact hx.1
  have hu : insertBetween h x s (h s).next
      = setPrev (setNext (setPrev (setNext h s x) m x) x m) x s := by
    unfold insertBetween; simp [hsm]
  refine ⟨?_, ?_⟩
  · rw [hpath', chain_append]
    refine ⟨?_, ?_⟩
    · apply chain_congr h _ _ _ _ hA
      · intro y hy
        have hyne : y ≠ m := by
          intro e; subst e
          have : (P ++ [y]).Nodup := by rw [← hPm]; exact hnd
          simp [List.nodup_append] at this hy; grind
        have hyx : y ≠ x := by
          intro e; subst e; apply hx; rw [hPm]; simp at hy ⊢; exact Or.inl hy
        rw [hu]; simp [hyne, hyx]
      · intro y hy
        have hyl : y ∈ l := by
          have : (P ++ [m]).tail = l := by rw [← hPm]; rfl
          rw [this] at hy; exact hy
        have hys : y ≠ s := by
          intro e; subst e; simp at hnd; exact hnd.1 hyl
        have hyx : y ≠ x := by
          intro e; subst e; apply hx; simp [hyl]
        rw [hu]; simp [hys, hyx]
    · rw [hu]; simp [hxm, hxs, Ne.symm hxm, Ne.symm hxs]
  · have : s :: (l ++ [x]) = (s :: l) ++ [x] := by simp
    rw [this]; simp [List.nodup_append] at hnd hx ⊢; grind


/-! ### walking the chain -/

theorem walkPrev_chain (h : Heap) (s : Nat) (l : List Nat) (a : Nat)
    (hc : Chain h (a :: l ++ [s])) (hs : s ∉ l) :
    CacheB.walkPrev h s l.length (h a).prev = l := by
  induction l generalizing a with
  | nil => simp [CacheB.walkPrev]
  | cons b l ih =>
    simp only [List.cons_append, chain_cons2] at hc
    obtain ⟨h1, _, h3⟩ := hc
    simp only [List.mem_cons, not_or] at hs
    have hb : ¬ b = s := fun e => hs.1 e.symm
    simp only [List.length_cons, CacheB.walkPrev, h1, hb, if_false]
    rw [ih b h3 hs.2]

/-- Walking `prev` from the seal for `len` steps visits exactly the list, LRU first. -/
theorem walkPrev_eq (h : Heap) (s : Nat) (l : List Nat) (hinv : LInv h s l) :
    CacheB.walkPrev h s l.length (h s).prev = l := by
  obtain ⟨hc, hnd⟩ := hinv
  exact walkPrev_chain h s l s hc (by simp at hnd; exact hnd.1)

theorem chain_reverse_next (h : Heap) (s : Nat) : ∀ (n : Nat) (l : List Nat) (a : Nat), l.length = n →
    Chain h (s :: l ++ [a]) → s ∉ l → CacheB.walkNext h s l.length (h a).next = l.reverse := by
  intro n
  induction n with
  | zero =>
    intro l a hl _ _
    have : l = [] := List.length_eq_zero_iff.mp hl
    subst this; simp [CacheB.walkNext]
  | succ n ih =>
    intro l a hl hc hs
    have hne : l ≠ [] := by intro e; subst e; simp at hl
    have hsplit := (List.dropLast_concat_getLast hne).symm
    generalize l.dropLast = l0 at hsplit
    generalize l.getLast hne = b at hsplit
    subst hsplit
    have hc' : Chain h ((s :: l0) ++ b :: [a]) := by simpa using hc
    rw [chain_append] at hc'
    obtain ⟨hA, _, hba, _⟩ := hc'
    simp only [List.mem_append, List.mem_singleton, not_or] at hs
    have hb : ¬ b = s := fun e => hs.2 e.symm
    have hl0 : l0.length = n := by simpa using hl
    simp only [List.length_append, List.length_singleton, CacheB.walkNext, hba, hb, if_false,
      List.reverse_append, List.reverse_singleton, List.singleton_append]
    rw [ih l0 b hl0 (by simpa using hA) hs.1]

/-- Walking `next` from the seal visits the list in reverse: the two traversals are mirror images. -/
theorem walkNext_eq (h : Heap) (s : Nat) (l : List Nat) (hinv : LInv h s l) :
    CacheB.walkNext h s l.length (h s).next = l.reverse := by
  obtain ⟨hc, hnd⟩ := hinv
  exact chain_reverse_next h s l.length l s rfl hc (by simp at hnd; exact hnd.1)

/-- `seal.prev` is the least-recently-used node (or the seal itself), `seal.next` the most-recently-used. -/
theorem seal_ends (h : Heap) (s : Nat) (l : List Nat) (hinv : LInv h s l) :
    (h s).prev = (l.head?).getD s ∧ (h s).next = (l.getLast?).getD s := by
  obtain ⟨hc, _⟩ := hinv
  constructor
  · cases l with
    | nil => simpa using hc.1
    | cons a l => simpa using hc.1
  · by_cases hne : l = []
    · subst hne; simpa using hc.2.1
    · have hsplit := (List.dropLast_concat_getLast hne).symm
      have hlast : l.getLast? = some (l.getLast hne) := List.getLast?_eq_some_getLast hne
      rw [hlast]
      generalize l.getLast hne = b at hsplit
      generalize l.dropLast = l0 at hsplit
      subst hsplit
      have hc' : Chain h ((s :: l0) ++ b :: [s]) := by simpa using hc
      rw [chain_append] at hc'
      simpa using hc'.2.2.1

/-! ### moving a node to a fresh address (one step of the reallocation loop) -/

/-- `move_to_table`, one entry: copy the node to `x'`, then `prev_entry.next = x'`,
`next_entry.prev = x'`. -/
def moveLinks (h : Heap) (x x' : Nat) : Heap :=
  setPrev (setNext (fun y => if y = x' then h x else h y) (h x).prev x') (h x).next x'

theorem move_inv (h : Heap) (s : Nat) (l1 l2 : List Nat) (x x' : Nat)
    (hinv : LInv h s (l1 ++ x :: l2)) (hx' : x' ∉ s :: (l1 ++ x :: l2)) :
    LInv (moveLinks h x x') s (l1 ++ x' :: l2) := by
  obtain ⟨hc, hnd⟩ := hinv
  obtain ⟨X, a, hXa⟩ := last_split s l1
  obtain ⟨b, Y, hbY⟩ : ∃ b Y, l2 ++ [s] = b :: Y := by
    cases l2 with
    | nil => exact ⟨s, [], rfl⟩
    | cons c cs => exact ⟨c, cs ++ [s], rfl⟩
  have hpath : s :: (l1 ++ x :: l2) ++ [s] = X ++ a :: x :: b :: Y := by
    have : s :: (l1 ++ x :: l2) ++ [s] = (s :: l1) ++ x :: (l2 ++ [s]) := by simp
    rw [this, hXa, hbY]; simp
  have hpath' : s :: (l1 ++ x' :: l2) ++ [s] = X ++ a :: x' :: b :: Y := by
    have : s :: (l1 ++ x' :: l2) ++ [s] = (s :: l1) ++ x' :: (l2 ++ [s]) := by simp
    rw [this, hXa, hbY]; simp
  rw [hpath, chain_append] at hc
  obtain ⟨hA, hax, hxa, hxb, hbx, hB⟩ := hc
  have hnd0 : (s :: (l1 ++ x :: l2)).Nodup := hnd
  have hnd' : (X ++ [a] ++ x :: l2).Nodup := by
    have : s :: (l1 ++ x :: l2) = (s :: l1) ++ x :: l2 := by simp
    rw [this, hXa] at hnd; exact hnd
  have htail : (X ++ [a]).tail = l1 := by rw [← hXa]; rfl
  have ha : a ∈ s :: l1 := by rw [hXa]; simp
  have hdl : (b :: Y).dropLast = l2 := by rw [← hbY]; simp
  have hbmem : b ∈ l2 ++ [s] := by rw [hbY]; simp
  have hYsub : ∀ y, y ∈ Y → y ∈ l2 ++ [s] := by intro y hy; rw [hbY]; simp [hy]
  have hXsub : ∀ y, y ∈ X → y ∈ s :: l1 := by intro y hy; rw [hXa]; simp [hy]
  -- x' is none of the old nodes
  have hx'all : ∀ y, y ∈ s :: (l1 ++ x :: l2) → y ≠ x' := fun y hy e => hx' (e ▸ hy)
  have hx's : x' ≠ s := fun e => hx' (by simp [e])
  have hx'a : a ≠ x' := by
    apply hx'all; have : a ∈ s :: l1 := ha
    simp at this ⊢; rcases this with h1 | h1
    · exact Or.inl h1
    · exact Or.inr (Or.inl h1)
  have hx'b : b ≠ x' := by
    apply hx'all
    simp at hbmem ⊢
    rcases hbmem with h1 | h1
    · exact Or.inr (Or.inr (Or.inr h1))
    · exact Or.inl h1
  have hu : moveLinks h x x' = setPrev (setNext (fun y => if y = x' then h x else h y) b x') a x' := by
    unfold moveLinks; rw [hxb, hxa]
  have hsep : ∀ y, y ∈ l1 → y ∉ l2 ++ [s] := by
    simp [List.nodup_append] at hnd0 ⊢; grind
  have hsep2 : ∀ y, y ∈ s :: l1 → y ∉ l2 := by
    simp [List.nodup_append] at hnd0 ⊢; grind
  have hnd3 : (l2 ++ [s]).Nodup := by
    simp [List.nodup_append] at hnd0 ⊢; grind
  have hbY' : (b :: Y).Nodup := by rw [← hbY]; exact hnd3
  refine ⟨?_, ?_⟩
  · rw [hpath', chain_append]
    refine ⟨?_, ?_⟩
    · -- the prefix X ++ [a] is untouched except a.prev, which is last (not constrained)
      apply chain_congr h _ _ _ _ hA
      · intro y hy
        have hyX : y ∈ X := by simpa using hy
        have hya : y ≠ a := by
          intro e; subst e
          simp [List.nodup_append] at hnd'; grind
        have hyx' : y ≠ x' := by
          apply hx'all
          have := hXsub y hyX
          simp at this ⊢
          rcases this with h1 | h1
          · exact Or.inl h1
          · exact Or.inr (Or.inl h1)
        rw [hu]; simp [hya, hyx']
      · intro y hy
        rw [htail] at hy
        have hyb : y ≠ b := fun e => hsep y hy (e ▸ hbmem)
        have hyx' : y ≠ x' := by apply hx'all; simp [hy]
        rw [hu]; simp [hyb, hyx']
    · refine ⟨?_, ?_, ?_, ?_, ?_⟩
      · rw [hu]; simp
      · rw [hu]; simp [Ne.symm hx'b, hxa]
      · rw [hu]; simp [Ne.symm hx'a, hxb]
      · rw [hu]; simp
      · apply chain_congr h _ _ _ _ hB
        · intro y hy
          rw [hdl] at hy
          have hya : y ≠ a := fun e => hsep2 a ha (e ▸ hy)
          have hyx' : y ≠ x' := by apply hx'all; simp [hy]
          rw [hu]; simp [hya, hyx']
        · intro y hy
          have hyY : y ∈ Y := by simpa using hy
          have hyb : y ≠ b := by
            intro e; subst e
            simp at hbY'; exact hbY'.1 hyY
          have hyx' : y ≠ x' := by
            apply hx'all
            have := hYsub y hyY
            simp at this ⊢
            rcases this with h1 | h1
            · exact Or.inr (Or.inr (Or.inr h1))
            · exact Or.inl h1
          rw [hu]; simp [hyb, hyx']
  · have e1 : s :: (l1 ++ x' :: l2) = (s :: l1) ++ x' :: l2 := by simp
    have e2 : s :: (l1 ++ x :: l2) = (s :: l1) ++ x :: l2 := by simp
    rw [e1]; rw [e2] at hnd hx'
    simp [List.nodup_append] at hnd hx' ⊢; grind

end LruMem.Chain
