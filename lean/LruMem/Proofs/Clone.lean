import LruMem.Proofs.Refine2
/-!
# `Clone` at Level B (C14): the clone is a closed structure of its own

`cloneGo` copies each node *with the source's links* (as `Entry::clone` does) and then `set_head`
overwrites them. Result: the clone satisfies `Rep` for its own list of fresh nodes — its chain is
closed (no link of a listed node or of its seal leaves the clone's own nodes), its entries are the
Level A `cloneEntries`, and the source structure is not written at all (it is only an argument).
-/
namespace LruMem
open LruMem.Chain

/-- one iteration of the clone loop -/
def CacheB.cloneNode (src d : CacheB) (cur base : Nat) : CacheB :=
  let e := src.ent cur
  let e' : Entry := { e with key := { e.key with tok := base }, val := { e.val with tok := base + 1 } }
  let a := d.fresh
  let d1 := { d with st := fun y => if y = a then .full else d.st y,
                     has := fun y => if y = a then true else d.has y,
                     ent := fun y => if y = a then e' else d.ent y,
                     links := fun y => if y = a then ⟨(src.links cur).prev + 1000000007, (src.links cur).next + 1000000007⟩ else d.links y,
                     table := d.table ++ [a],
                     shape := d.shape.inserted false,
                     fresh := a + 1 }
  CacheB.setHead d1 a

theorem cloneGo_succ (fuel : Nat) (src d : CacheB) (cur base : Nat) :
    CacheB.cloneGo (fuel + 1) src d cur base =
      if cur = src.sl then d else CacheB.cloneGo fuel src (src.cloneNode d cur base) (src.links cur).prev (base + 2) := rfl

def cloneEntry (e : Entry) (base : Nat) : Entry :=
  { e with key := { e.key with tok := base }, val := { e.val with tok := base + 1 } }

theorem cloneNode_rep {src d : CacheB} {l : List Nat} (cur base : Nat) (r : Rep d l) :
    Rep (src.cloneNode d cur base) (l ++ [d.fresh]) ∧
    (∀ a, a ∈ l → (src.cloneNode d cur base).ent a = d.ent a) ∧
    (src.cloneNode d cur base).ent d.fresh = cloneEntry (src.ent cur) base ∧
    (src.cloneNode d cur base).cur = d.cur ∧ (src.cloneNode d cur base).max = d.max ∧
    (src.cloneNode d cur base).shape = d.shape.inserted false ∧ (src.cloneNode d cur base).sl = d.sl ∧
    (src.cloneNode d cur base).fresh = d.fresh + 1 := by
  have hdead : d.st d.fresh = .dead := r.freshDead _ (Nat.le_refl _)
  have hanot : d.fresh ∉ d.sl :: l := by
    simp only [List.mem_cons, not_or]
    constructor
    · intro e'; have := r.sealSt; rw [← e', hdead] at this; cases this
    · intro hm; have := (r.full _).mp hm; rw [hdead] at this; cases this
  have hne : ∀ a, a ∈ d.sl :: l → a ≠ d.fresh := fun a ha e' => hanot (e' ▸ ha)
  let h1 : Heap := fun y => if y = d.fresh then ⟨(src.links cur).prev + 1000000007, (src.links cur).next + 1000000007⟩ else d.links y
  have hinv1 : LInv h1 d.sl l := linv_congr_off r.chain (fun a ha => by simp [h1, hne a ha])
  have hs := setHead_inv h1 d.sl l d.fresh hinv1 hanot
  have hsl1 : h1 d.sl = d.links d.sl := by simp [h1, hne d.sl (by simp)]
  have hlinks : (src.cloneNode d cur base).links = Chain.insertBetween h1 d.fresh d.sl (h1 d.sl).next := rfl
  have hmru : (d.links d.sl).next ∈ d.sl :: l := by
    rw [(seal_ends _ _ _ r.chain).2]
    cases hl : l.getLast? with
    | none => simp
    | some z => simp; exact Or.inr (List.mem_of_getLast? hl)
  have hst : ∀ a, (src.cloneNode d cur base).st a = if a = d.fresh then .full else d.st a := by
    intro a; rfl
  have hstm : ∀ a, a ∈ d.sl :: l → (src.cloneNode d cur base).st a = d.st a := by
    intro a ha
    rw [hst, if_neg (hne a ha)]
  have hub : (src.cloneNode d cur base).ub = false := by
    have w1 := r.writable_mem (a := d.sl) (by simp)
    have w2 := r.writable_mem hmru
    have r1 := r.readable_mem (a := d.sl) (by simp)
    simp only [CacheB.writable, CacheB.readable] at w1 w2 r1
    have n1 : ¬ d.sl = d.fresh := hne d.sl (by simp)
    have n2 : ¬ (d.links d.sl).next = d.fresh := hne _ hmru
    simp [CacheB.cloneNode, CacheB.setHead, CacheB.check, CacheB.setNext, CacheB.setPrev, CacheB.writable,
      CacheB.readable, r.noUb, n1, n2, w1, w2, r1]
  refine ⟨⟨?_, ?_, ?_, ?_, ?_, ?_, ?_, hub⟩, ?_, ?_, rfl, rfl, rfl, rfl, rfl⟩
  · rw [hlinks, hsl1]; rw [hsl1] at hs; exact hs
  · intro a
    rw [hst]
    by_cases ha : a = d.fresh
    · simp [ha]
    · simp only [List.mem_append, List.mem_singleton, ha, or_false, if_false]
      exact r.full a
  · show (src.cloneNode d cur base).st d.sl = .sealed
    rw [hstm d.sl (by simp)]; exact r.sealSt
  · intro a ha
    rw [hst] at ha
    by_cases h1 : a = d.fresh
    · simp [h1] at ha
    · rw [if_neg h1] at ha; exact r.oneSeal a ha
  · intro a ha
    show (if a = d.fresh then true else d.has a) = true
    simp only [List.mem_append, List.mem_singleton] at ha
    rcases ha with ha | ha
    · rw [if_neg (hne a (by simp [ha]))]; exact r.owns a ha
    · simp [ha]
  · show (d.table ++ [d.fresh]).Perm (l ++ [d.fresh])
    exact r.table.append_right _
  · intro a ha
    have ha' : d.fresh + 1 ≤ a := ha
    rw [hst, if_neg (by omega)]
    exact r.freshDead a (by omega)
  · intro a ha
    show (if a = d.fresh then _ else d.ent a) = d.ent a
    rw [if_neg (hne a (by simp [ha]))]
  · show (if d.fresh = d.fresh then _ else d.ent d.fresh) = _
    simp [cloneEntry]

theorem cloneEntries_append (l : List Entry) (e : Entry) (base : Nat) :
    cloneEntries (l ++ [e]) base = cloneEntries l base ++ [cloneEntry e (base + 2 * l.length)] := by
  induction l generalizing base with
  | nil => simp [cloneEntries, cloneEntry]
  | cons x l ih =>
    simp only [List.cons_append, cloneEntries, ih, List.length_cons]
    have : base + 2 + 2 * l.length = base + 2 * (l.length + 1) := by omega
    rw [this]

def insertedN : Nat → Shape → Shape
  | 0, s => s
  | n + 1, s => insertedN n (s.inserted false)

/-- The clone loop: `done` (source nodes already copied) and `rest` (still to copy, `cur` points at
its head or at the seal); the clone so far is well-formed with list `l'` mirroring `done`. -/
theorem cloneGo_rep {src : CacheB} {sl : List Nat} (rs : Rep src sl) (base0 : Nat) :
    ∀ (rest done : List Nat) (d : CacheB) (l' : List Nat) (fuel : Nat),
      sl = done ++ rest → Rep d l' → l'.map d.ent = cloneEntries (done.map src.ent) base0 →
      rest.length < fuel →
      ∃ l'', Rep (CacheB.cloneGo fuel src d (rest.head?.getD src.sl) (base0 + 2 * done.length)) l'' ∧
        l''.map (CacheB.cloneGo fuel src d (rest.head?.getD src.sl) (base0 + 2 * done.length)).ent =
          cloneEntries (sl.map src.ent) base0 ∧
        (CacheB.cloneGo fuel src d (rest.head?.getD src.sl) (base0 + 2 * done.length)).cur = d.cur ∧
        (CacheB.cloneGo fuel src d (rest.head?.getD src.sl) (base0 + 2 * done.length)).max = d.max ∧
        (CacheB.cloneGo fuel src d (rest.head?.getD src.sl) (base0 + 2 * done.length)).shape =
          insertedN rest.length d.shape := by
  intro rest
  induction rest with
  | nil =>
    intro done d l' fuel hsl r hmap hfuel
    cases fuel with
    | zero => simp at hfuel
    | succ fuel =>
      rw [cloneGo_succ]
      simp only [List.head?_nil, Option.getD_none, if_true]
      simp only [List.append_nil] at hsl
      refine ⟨l', r, by rw [hsl]; exact hmap, ?_, ?_, ?_⟩ <;> first | trivial | rfl
  | cons x rest ih =>
    intro done d l' fuel hsl r hmap hfuel
    cases fuel with
    | zero => simp at hfuel
    | succ fuel =>
      rw [cloneGo_succ]
      have hxmem : x ∈ sl := by rw [hsl]; simp
      have hxne : x ≠ src.sl := fun e => rs.sl_not_mem (e ▸ hxmem)
      simp only [List.head?_cons, Option.getD_some, hxne, if_false]
      obtain ⟨r1, e1, e2, e3, e4, e5, e6, e7⟩ := cloneNode_rep (src := src) x (base0 + 2 * done.length) r
      have hprev : (src.links x).prev = rest.head?.getD src.sl := by
        have := rs; rw [hsl] at this; exact this.prev_of
      have hmap1 : (l' ++ [d.fresh]).map (src.cloneNode d x (base0 + 2 * done.length)).ent =
          cloneEntries ((done ++ [x]).map src.ent) base0 := by
        rw [List.map_append, List.map_append, List.map_congr_left (fun a ha => e1 a ha), hmap]
        simp only [List.map_cons, List.map_nil, e2]
        rw [cloneEntries_append]; simp
      have hb : base0 + 2 * done.length + 2 = base0 + 2 * (done ++ [x]).length := by simp; omega
      obtain ⟨l'', r2, g1, g2, g3, g4⟩ := ih (done ++ [x]) (src.cloneNode d x (base0 + 2 * done.length)) (l' ++ [d.fresh]) fuel
        (by rw [hsl]; simp) r1 hmap1 (by simp at hfuel; omega)
      rw [hprev, hb]
      refine ⟨l'', r2, g1, by rw [g2, e3], by rw [g3, e4], ?_⟩
      rw [g4, e5]; rfl

/-- every link of the seal and of a listed node stays within the structure -/
theorem linv_closed {h : Heap} {s : Nat} {l : List Nat} (hinv : LInv h s l) :
    ∀ a ∈ s :: l, (h a).prev ∈ s :: l ∧ (h a).next ∈ s :: l := by
  obtain ⟨hc, _⟩ := hinv
  intro a ha
  -- `a` occurs in the closed path with a successor and (as a later occurrence or itself) a predecessor
  have key : ∀ (P : List Nat), Chain h P → ∀ X Y b, P = X ++ b :: Y →
      (Y ≠ [] → (h b).prev ∈ Y) ∧ (X ≠ [] → (h b).next ∈ X) := by
    intro P hP X Y b hPe
    rw [hPe] at hP
    rw [chain_append] at hP
    constructor
    · intro hY
      cases Y with
      | nil => exact absurd rfl hY
      | cons y Y => have := hP.2; simp at this; simp [this.1]
    · intro hX
      obtain ⟨X', z, rfl⟩ : ∃ X' z, X = X' ++ [z] := ⟨X.dropLast, X.getLast hX, (List.dropLast_concat_getLast hX).symm⟩
      have := hP.1
      rw [show X' ++ [z] ++ [b] = X' ++ z :: [b] by simp, chain_append] at this
      have := this.2; simp at this; simp [this.2]
  simp only [List.mem_cons] at ha
  rcases ha with rfl | ha
  · -- the seal: successor from its first occurrence, predecessor from its last
    have k1 := key _ hc [] (l ++ [a]) a (by simp)
    have k2 := key _ hc (a :: l) [] a (by simp)
    have p1 := k1.1 (by simp)
    have p2 := k2.2 (by simp)
    simp only [List.mem_append, List.mem_singleton, List.mem_cons, List.not_mem_nil, or_false] at p1 p2 ⊢
    exact ⟨by rcases p1 with p | p <;> simp [p], by rcases p2 with p | p <;> simp [p]⟩
  · obtain ⟨l1, l2, rfl⟩ := List.append_of_mem ha
    have k := key _ hc (s :: l1) (l2 ++ [s]) a (by simp)
    have p1 := k.1 (by simp)
    have p2 := k.2 (by simp)
    simp only [List.mem_append, List.mem_singleton, List.mem_cons, List.not_mem_nil, or_false] at p1 p2 ⊢
    exact ⟨by rcases p1 with p | p <;> simp [p], by rcases p2 with p | p <;> simp [p]⟩

end LruMem
