import LruMem.Proofs.Clone
/-!
# Iterators at Level B: two cursors walking the chain

`CurInv`: what is left of the walk is a doubly linked, duplicate-free segment whose nodes all still
hold their key and value, with the cursors on its two ends. One `next`/`next_back` keeps it
(`cursorStep_spec`), so any call sequence does (`cursorRun_spec`), and the `Drop` of a taking
iterator moves out exactly the rest (`cursorDrain_spec`). The scenario theorems `iter_borrowing`,
`iter_drain`, `iter_into` tie creation, calls and drop/leak together.
-/
namespace LruMem
open LruMem.Chain

/-- what is left of the walk: `rem` is linked both ways, duplicate-free, every node in it still
holds its key and value, and the two cursors sit on its ends (`next = null` iff nothing is left) -/
structure CurInv (c : CacheB) (rem : List Nat) (it : CacheB.Cursors) : Prop where
  chain : Chain c.links rem
  nodup : rem.Nodup
  live : ∀ a ∈ rem, c.owns a = true
  front : it.next = rem.head?
  back : ∀ h : rem ≠ [], it.nextBack = rem.getLast h

def stepRem (rem : List Nat) (front : Bool) : Option Nat × List Nat :=
  if front then (rem.head?, rem.tail) else (rem.getLast?, rem.dropLast)

theorem chain_tail {h : Heap} {a : Nat} {l : List Nat} (hc : Chain h (a :: l)) : Chain h l := by
  cases l with
  | nil => trivial
  | cons b l => exact hc.2.2

theorem chain_dropLast {h : Heap} : ∀ {l : List Nat}, Chain h l → Chain h l.dropLast
  | [], _ => trivial
  | [_], _ => trivial
  | [_, _], _ => trivial
  | a :: b :: c :: l, hc => by
    have ih := chain_dropLast (l := b :: c :: l) hc.2.2
    simp only [List.dropLast_cons₂] at ih ⊢
    exact ⟨hc.1, hc.2.1, ih⟩

/-- the node before the last one is the last one's `next` -/
theorem chain_last_next {h : Heap} : ∀ {l : List Nat} {a b : Nat}, Chain h (l ++ [a, b]) → (h b).next = a
  | [], _, _, hc => hc.2.1
  | [x], _, _, hc => hc.2.2.2.1
  | x :: y :: l, a, b, hc => chain_last_next (l := y :: l) hc.2.2

theorem owns_take {c : CacheB} {take : Bool} {x a : Nat} (hne : a ≠ x) (h : c.owns a = true) :
    (if take then { c with has := fun y => if y = x then false else c.has y } else c).owns a = true := by
  cases take
  · exact h
  · simp only [CacheB.owns, if_true] at h ⊢
    simpa [hne] using h

theorem cursorStep_spec {c : CacheB} {rem : List Nat} {it : CacheB.Cursors} (front take : Bool)
    (h : CurInv c rem it) :
    (c.cursorStep it front take).2.2 = (stepRem rem front).1 ∧
    CurInv (c.cursorStep it front take).1 (stepRem rem front).2 (c.cursorStep it front take).2.1 ∧
    (c.cursorStep it front take).1.ub = c.ub ∧
    (c.cursorStep it front take).1.links = c.links ∧
    (c.cursorStep it front take).1.st = c.st ∧
    (take = false → (c.cursorStep it front take).1 = c) ∧
    (∀ y, (c.cursorStep it front take).1.has y =
      if take ∧ some y = (stepRem rem front).1 then false else c.has y) := by
  cases rem with
  | nil =>
    have hn : it.next = none := h.front
    have hstep : c.cursorStep it front take = (c, it, none) := by simp only [CacheB.cursorStep, hn]
    have hs : stepRem [] front = (none, []) := by cases front <;> rfl
    rw [hstep, hs]
    exact ⟨rfl, h, rfl, rfl, rfl, fun _ => rfl, fun y => by simp⟩
  | cons x rest =>
    have hn : it.next = some x := h.front
    have hb := h.back (by simp)
    cases front with
    | true =>
      have hox : c.owns x = true := h.live x (by simp)
      have hstep : c.cursorStep it true take =
          ((if take then { c with has := fun y => if y = x then false else c.has y } else c),
           (if x = it.nextBack then ⟨none, it.nextBack⟩ else ⟨some (c.links x).prev, it.nextBack⟩), some x) := by
        simp only [CacheB.cursorStep, hn, if_true, hox, check_true]
      rw [hstep]
      have hs : stepRem (x :: rest) true = (some x, rest) := rfl
      rw [hs]
      refine ⟨rfl, ?_, by cases take <;> rfl, by cases take <;> rfl, by cases take <;> rfl,
        fun ht => by simp [ht], fun y => by cases take <;> simp [eq_comm]⟩
      have hlinks : (if take then { c with has := fun y => if y = x then false else c.has y } else c).links = c.links := by
        cases take <;> rfl
      have hx_notin : x ∉ rest := (List.nodup_cons.mp h.nodup).1
      refine ⟨by rw [hlinks]; exact chain_tail h.chain, (List.nodup_cons.mp h.nodup).2, ?_, ?_, ?_⟩
      · intro a ha
        have hne : a ≠ x := fun e => hx_notin (e ▸ ha)
        exact owns_take hne (h.live a (by simp [ha]))
      · cases rest with
        | nil =>
          have : it.nextBack = x := by simpa using hb
          simp [this]
        | cons y rest' =>
          have hne : x ≠ it.nextBack := by
            rw [hb]
            intro e
            have : (x :: y :: rest').getLast (by simp) ∈ y :: rest' := by
              rw [List.getLast_cons (by simp)]; exact List.getLast_mem _
            rw [← e] at this; exact hx_notin this
          simp only [hne, if_false, List.head?_cons]
          rw [h.chain.1]
      · intro hne
        cases rest with
        | nil => exact absurd rfl hne
        | cons y rest' =>
          have hne' : x ≠ it.nextBack := by
            rw [hb]
            intro e
            have : (x :: y :: rest').getLast (by simp) ∈ y :: rest' := by
              rw [List.getLast_cons (by simp)]; exact List.getLast_mem _
            rw [← e] at this; exact hx_notin this
          simp only [hne', if_false]
          rw [hb, List.getLast_cons (by simp)]
    | false =>
      -- from the back: `rem = init ++ [z]`
      obtain ⟨init, z, hrem⟩ : ∃ init z, x :: rest = init ++ [z] :=
        ⟨(x :: rest).dropLast, (x :: rest).getLast (by simp), (List.dropLast_concat_getLast (by simp)).symm⟩
      have hz : it.nextBack = z := by rw [hb]; simp [hrem]
      have hoz : c.owns z = true := h.live z (by rw [hrem]; simp)
      have hstep : c.cursorStep it false take =
          ((if take then { c with has := fun y => if y = z then false else c.has y } else c),
           (if x = z then ⟨none, z⟩ else ⟨some x, (c.links z).next⟩), some z) := by
        simp only [CacheB.cursorStep, hn, hz, Bool.false_eq_true, if_false, hoz, check_true]
      rw [hstep]
      have hlast : (x :: rest).getLast? = some z := by rw [hrem]; simp
      have hdl : (x :: rest).dropLast = init := by rw [hrem]; simp
      have hs : stepRem (x :: rest) false = (some z, init) := by
        simp only [stepRem, Bool.false_eq_true, if_false, hlast, hdl]
      rw [hs]
      refine ⟨rfl, ?_, by cases take <;> rfl, by cases take <;> rfl, by cases take <;> rfl,
        fun ht => by simp [ht], fun y => by cases take <;> simp [eq_comm]⟩
      have hlinks : (if take then { c with has := fun y => if y = z then false else c.has y } else c).links = c.links := by
        cases take <;> rfl
      have hnd : (init ++ [z]).Nodup := hrem ▸ h.nodup
      have hz_notin : z ∉ init := by
        intro hm
        have := List.nodup_append.mp hnd
        exact this.2.2 z hm z (by simp) rfl
      have hch : Chain c.links (init ++ [z]) := hrem ▸ h.chain
      refine ⟨?_, (List.nodup_append.mp hnd).1, ?_, ?_, ?_⟩
      · rw [hlinks]; have := chain_dropLast hch; simpa using this
      · intro a ha
        have hne : a ≠ z := fun e => hz_notin (e ▸ ha)
        exact owns_take hne (h.live a (by rw [hrem]; simp [ha]))
      · cases init with
        | nil =>
          have : x = z := (by simpa using hrem : x = z ∧ rest = []).1
          simp [this]
        | cons y init' =>
          have hxy : x = y := by simp at hrem; exact hrem.1
          have hne : x ≠ z := by
            intro e; apply hz_notin; rw [← e, hxy]; simp
          rw [if_neg hne]; simp [hxy]
      · intro hne
        cases init with
        | nil => exact absurd rfl hne
        | cons y init' =>
          have hxy : x = y := by simp at hrem; exact hrem.1
          have hne' : x ≠ z := by
            intro e; apply hz_notin; rw [← e, hxy]; simp
          simp only [hne', if_false]
          obtain ⟨init2, w, hw⟩ : ∃ init2 w, y :: init' = init2 ++ [w] :=
            ⟨(y :: init').dropLast, (y :: init').getLast (by simp), (List.dropLast_concat_getLast (by simp)).symm⟩
          have : (y :: init').getLast hne = w := by simp [hw]
          rw [this]
          have hc2 : Chain c.links (init2 ++ [w, z]) := by
            have : init2 ++ [w, z] = (y :: init') ++ [z] := by rw [hw]; simp
            rw [this]; exact hch
          exact chain_last_next hc2

theorem cursorStep_frame (c : CacheB) (it : CacheB.Cursors) (front take : Bool) :
    (c.cursorStep it front take).1 =
      { c with has := (c.cursorStep it front take).1.has, ub := (c.cursorStep it front take).1.ub } := by
  simp only [CacheB.cursorStep]
  cases it.next with
  | none => rfl
  | some nx => cases take <;> rfl

theorem frame_trans {c S X : CacheB} (h1 : S = { c with has := S.has, ub := c.ub }) (h2 : X = { S with has := X.has }) :
    X = { c with has := X.has } := by
  rw [h1] at h2; rw [h2]

/-- the calls on the list of addresses -/
def runRem : List Nat → List Bool → List (Option Nat) × List Nat
  | rem, [] => ([], rem)
  | rem, f :: fs =>
    let s := stepRem rem f
    let r := runRem s.2 fs
    (s.1 :: r.1, r.2)

theorem cursorRun_spec (take : Bool) : ∀ (calls : List Bool) {c : CacheB} {rem : List Nat} {it : CacheB.Cursors},
    CurInv c rem it →
    (c.cursorRun it calls take).2.2 = (runRem rem calls).1 ∧
    CurInv (c.cursorRun it calls take).1 (runRem rem calls).2 (c.cursorRun it calls take).2.1 ∧
    (c.cursorRun it calls take).1.ub = c.ub ∧
    (take = false → (c.cursorRun it calls take).1 = c) ∧
    (c.cursorRun it calls take).1 = { c with has := (c.cursorRun it calls take).1.has } ∧
    (∀ y, (c.cursorRun it calls take).1.has y =
      if take ∧ some y ∈ (runRem rem calls).1 then false else c.has y)
  | [], c, rem, it, h => ⟨rfl, h, rfl, fun _ => rfl, rfl, fun y => by simp [runRem, CacheB.cursorRun]⟩
  | f :: fs, c, rem, it, h => by
    obtain ⟨s1, s2, s3, _, _, s6, s7⟩ := cursorStep_spec f take h
    obtain ⟨r1, r2, r3, r4, r5, r6⟩ := cursorRun_spec take fs s2
    have hfr := cursorStep_frame c it f take
    refine ⟨?_, r2, ?_, ?_, ?_, ?_⟩
    · show _ :: _ = _ :: _
      rw [s1, r1]
    · show (CacheB.cursorRun _ _ fs take).1.ub = _
      rw [r3, s3]
    · intro ht
      show (CacheB.cursorRun _ _ fs take).1 = _
      rw [r4 ht, s6 ht]
    · show (CacheB.cursorRun _ _ fs take).1 = _
      rw [s3] at hfr
      exact frame_trans hfr r5
    · intro y
      show (CacheB.cursorRun _ _ fs take).1.has y = _
      rw [r6 y, s7 y]
      simp only [runRem, List.mem_cons]
      by_cases ht : take = true <;> by_cases h1 : some y = (stepRem rem f).1 <;>
        by_cases h2 : some y ∈ (runRem (stepRem rem f).2 fs).1 <;> simp [ht, h1, h2]

theorem stepRem_length (rem : List Nat) (f : Bool) : (stepRem rem f).2.length = rem.length - 1 := by
  cases f <;> simp [stepRem]

theorem stepRem_map (ent : Nat → Entry) (rem : List Nat) (f : Bool) :
    iterStep (rem.map ent) f = ((stepRem rem f).1.map ent, (stepRem rem f).2.map ent) := by
  cases f
  · simp [iterStep, stepRem, List.getLast?_map, List.map_dropLast]
  · simp [iterStep, stepRem, List.head?_map, List.map_tail]

theorem runRem_map (ent : Nat → Entry) : ∀ (calls : List Bool) (rem : List Nat),
    iterCalls (rem.map ent) calls = ((runRem rem calls).1.map (Option.map ent), (runRem rem calls).2.map ent)
  | [], rem => rfl
  | f :: fs, rem => by
    simp only [iterCalls, runRem, stepRem_map, runRem_map ent fs, List.map_cons]

/-- draining what is left from the front: every remaining node is moved out once -/
theorem cursorDrain_spec : ∀ (fuel : Nat) {c : CacheB} {rem : List Nat} {it : CacheB.Cursors},
    CurInv c rem it → rem.length < fuel →
    (c.cursorDrain fuel it).1.ub = c.ub ∧
    (c.cursorDrain fuel it).1 = { c with has := (c.cursorDrain fuel it).1.has } ∧
    (∀ y, (c.cursorDrain fuel it).1.has y = if y ∈ rem then false else c.has y)
  | 0, _, _, _, _, hf => by simp at hf
  | fuel + 1, c, rem, it, h, hf => by
    cases rem with
    | nil =>
      have hn : it.next = none := h.front
      have hunf : c.cursorDrain (fuel + 1) it = (c, it) := by simp only [CacheB.cursorDrain, hn]
      rw [hunf]
      exact ⟨rfl, rfl, fun y => by simp⟩
    | cons x rest =>
      have hn : it.next = some x := h.front
      obtain ⟨_, s2, s3, _, _, _, s7⟩ := cursorStep_spec true true h
      have hs : stepRem (x :: rest) true = (some x, rest) := rfl
      rw [hs] at s2 s7
      obtain ⟨d1, d2, d3⟩ := cursorDrain_spec fuel s2 (by simp at hf ⊢; omega)
      have hfr := cursorStep_frame c it true true
      have hunf : c.cursorDrain (fuel + 1) it = (c.cursorStep it true true).1.cursorDrain fuel (c.cursorStep it true true).2.1 := by
        simp only [CacheB.cursorDrain, hn]
      rw [hunf]
      refine ⟨by rw [d1, s3], ?_, ?_⟩
      · rw [s3] at hfr
        exact frame_trans hfr d2
      · intro y
        rw [d3 y, s7 y]
        by_cases h1 : y = x <;> by_cases h2 : y ∈ rest <;> simp [h1, h2]

/-- with nothing listed, `Rep` does not look at `has` -/
theorem Rep.congr_nil {c c' : CacheB} (r : Rep c []) (h1 : c'.links = c.links) (h2 : c'.st = c.st)
    (h4 : c'.sl = c.sl) (h5 : c'.table = c.table) (h6 : c'.fresh = c.fresh) (h7 : c'.ub = c.ub) :
    Rep c' [] :=
  ⟨by rw [h1, h4]; exact r.chain, by rw [h2]; exact r.full, by rw [h2, h4]; exact r.sealSt,
   by rw [h2, h4]; exact r.oneSeal, by simp, by rw [h5]; exact r.table,
   by rw [h2, h6]; exact r.freshDead, by rw [h7]; exact r.noUb⟩

theorem owns_has {b : Bool} (h : b = true) : b = true := h

theorem frame2 {c S X : CacheB} (h1 : S = { c with has := S.has }) (h2 : X = { S with has := X.has }) :
    X = { c with has := X.has } := by
  rw [h1] at h2; rw [h2]

theorem runRem_length : ∀ (calls : List Bool) (rem : List Nat), (runRem rem calls).2.length ≤ rem.length
  | [], rem => Nat.le_refl _
  | f :: fs, rem => by
    have := runRem_length fs (stepRem rem f).2
    have h2 := stepRem_length rem f
    simp only [runRem]; omega

/-- every node of the list is either yielded or still left -/
theorem runRem_cover : ∀ (calls : List Bool) (rem : List Nat) (a : Nat), a ∈ rem →
    a ∉ (runRem rem calls).2 → some a ∈ (runRem rem calls).1
  | [], rem, a, ha, hn => absurd ha hn
  | f :: fs, rem, a, ha, hn => by
    simp only [runRem, List.mem_cons] at hn ⊢
    by_cases h1 : some a = (stepRem rem f).1
    · exact Or.inl h1
    · right
      apply runRem_cover fs _ a _ hn
      cases f
      · simp only [stepRem, Bool.false_eq_true, if_false] at h1 ⊢
        cases hl : rem.getLast? with
        | none => simp [List.getLast?_eq_none_iff.mp hl] at ha
        | some z =>
          have hr : rem = rem.dropLast ++ [z] := by
            have hne : rem ≠ [] := by intro e; simp [e] at hl
            rw [List.getLast?_eq_some_getLast hne] at hl
            have := List.dropLast_concat_getLast hne
            simp at hl; rw [← hl]; exact this.symm
          rw [hl] at h1
          rw [hr] at ha
          simp only [List.mem_append, List.mem_singleton] at ha
          rcases ha with ha | ha
          · exact ha
          · exact absurd (by rw [ha]) h1
      · simp only [stepRem, if_true] at h1 ⊢
        cases rem with
        | nil => simp at ha
        | cons x rest =>
          simp only [List.head?_cons, List.tail_cons] at h1 ⊢
          simp only [List.mem_cons] at ha
          rcases ha with ha | ha
          · exact absurd (by rw [ha]) h1
          · exact ha

/-- the cursors of a fresh iterator sit on the ends of the whole list -/
theorem cursorsNew_inv {p : Params} {c : CacheB} {l : List Nat} (h : RefInv p c l) :
    CurInv c l c.cursorsNew := by
  have hitems : c.shape.items = l.length := by
    have := h.inv.items
    rw [h.rep.abs_entries] at this
    simpa [CacheB.abs] using this
  obtain ⟨e1, e2⟩ := seal_ends _ _ _ h.rep.chain
  have hch : Chain c.links l := by
    have := h.rep.chain.1
    rw [show c.sl :: l ++ [c.sl] = [c.sl] ++ (l ++ [c.sl]) by simp] at this
    cases l with
    | nil => trivial
    | cons x rest =>
      have h2 : Chain c.links (x :: rest ++ [c.sl]) := by
        simp only [List.singleton_append] at this
        exact chain_tail this
      obtain ⟨init, z, hz⟩ : ∃ init z, x :: rest = init ++ [z] :=
        ⟨(x :: rest).dropLast, (x :: rest).getLast (by simp), (List.dropLast_concat_getLast (by simp)).symm⟩
      rw [hz] at h2 ⊢
      rw [show init ++ [z] ++ [c.sl] = init ++ z :: [c.sl] by simp, chain_append] at h2
      exact h2.1
  refine ⟨hch, h.rep.nodup, fun a ha => owns_of_mem h.rep ha, ?_, ?_⟩
  · cases l with
    | nil => simp [CacheB.cursorsNew, hitems]
    | cons x rest =>
      have : c.shape.items ≠ 0 := by rw [hitems]; simp
      simp [CacheB.cursorsNew, this, e1]
  · intro hne
    cases l with
    | nil => exact absurd rfl hne
    | cons x rest =>
      have : c.shape.items ≠ 0 := by rw [hitems]; simp
      simp only [CacheB.cursorsNew, this, if_false, e2]
      rw [List.getLast?_eq_some_getLast hne]; rfl

/-- `Drain::new` (after the fix): the cache left behind is the well-formed empty cache; the nodes
keep their contents and their interior links -/
theorem drainDetach_rep {p : Params} {c : CacheB} {l : List Nat} (h : RefInv p c l) :
    Rep c.drainDetach [] ∧ c.drainDetach.has = c.has ∧ c.drainDetach.ent = c.ent ∧
    (∀ a ∈ l, c.drainDetach.links a = c.links a) ∧ (∀ a ∈ l, c.drainDetach.st a = .vacant) ∧
    c.drainDetach.abs = { c.abs with entries := [], cur := 0, shape := c.shape.cleared } := by
  have hsl : c.st c.sl = .sealed := h.rep.sealSt
  have hne : ¬ c.st c.sl = SlotSt.full := by rw [hsl]; simp
  have rep' : Rep c.drainDetach [] := by
    refine ⟨⟨?_, by simp⟩, ?_, ?_, ?_, ?_, ?_, ?_, ?_⟩
    · simp [CacheB.drainDetach, CacheB.setPrev, CacheB.setNext, Chain.Chain]
    · intro a
      simp only [List.not_mem_nil, false_iff]
      simp only [CacheB.drainDetach, CacheB.setPrev, CacheB.setNext]
      by_cases hf : c.st a = SlotSt.full
      · simp [hf]
      · simp [hf]
    · simp [CacheB.drainDetach, CacheB.setPrev, CacheB.setNext, hne, hsl]
    · intro a ha
      simp only [CacheB.drainDetach, CacheB.setPrev, CacheB.setNext] at ha ⊢
      by_cases hf : c.st a = SlotSt.full
      · simp [hf] at ha
      · simp only [hf, if_false] at ha; exact h.rep.oneSeal a ha
    · simp
    · simp [CacheB.drainDetach, CacheB.setPrev, CacheB.setNext]
    · intro a ha
      simp only [CacheB.drainDetach, CacheB.setPrev, CacheB.setNext] at ha ⊢
      have := h.rep.freshDead a ha
      simp [this]
    · simp [CacheB.drainDetach, CacheB.setPrev, CacheB.setNext, CacheB.writable, h.rep.noUb, hne, hsl]
  refine ⟨rep', rfl, rfl, ?_, ?_, ?_⟩
  · intro a ha
    have hne : a ≠ c.sl := fun e => h.rep.sl_not_mem (e ▸ ha)
    simp [CacheB.drainDetach, CacheB.setPrev, CacheB.setNext, hne]
  · intro a ha
    simp [CacheB.drainDetach, CacheB.setPrev, CacheB.setNext, (h.rep.full a).mp ha]
  · rw [rep'.abs_eq]
    simp [CacheB.drainDetach, CacheB.setPrev, CacheB.setNext, CacheB.abs]

/-- the cursors created *before* the detach still describe the whole (now detached) list -/
theorem drainDetach_cur {p : Params} {c : CacheB} {l : List Nat} (h : RefInv p c l) :
    CurInv c.drainDetach l c.cursorsNew := by
  obtain ⟨_, hhas, _, hlinks, hst, _⟩ := drainDetach_rep h
  have h0 := cursorsNew_inv h
  refine ⟨?_, h0.nodup, ?_, h0.front, h0.back⟩
  · apply chain_congr c.links _ _ _ _ h0.chain
    · intro x hx; rw [hlinks x (List.dropLast_subset _ hx)]
    · intro x hx; rw [hlinks x (List.mem_of_mem_tail hx)]
  · intro a ha
    have := h0.live a ha
    simp only [CacheB.owns, hst a ha, hhas] at this ⊢
    simp only [CacheB.owns, Bool.and_eq_true] at this
    simp [this.2]

/-- **Borrowing iterators** (`iter`, `keys`, `values`): the cache is not changed at all, no invalid
node is read, and what is yielded is exactly the Level A sequence of entries. -/
theorem iter_borrowing {p : Params} {c : CacheB} {l : List Nat} (h : RefInv p c l) (kind : IterKind)
    (hk : kind.borrowing = true) (calls : List Bool) (forget : Bool) :
    (c.iterScenario kind calls forget).1 = c ∧
    (c.iterScenario kind calls forget).2.map (Option.map c.ent) = (iterCalls c.abs.entries calls).1 := by
  obtain ⟨r1, _, _, r4, _, _⟩ := cursorRun_spec false calls (cursorsNew_inv h)
  simp only [CacheB.iterScenario, hk, if_true]
  refine ⟨r4 rfl, ?_⟩
  rw [r1, h.rep.abs_entries, runRem_map]

theorem runRem_sub : ∀ (calls : List Bool) (rem : List Nat) (y : Nat),
    some y ∈ (runRem rem calls).1 ∨ y ∈ (runRem rem calls).2 → y ∈ rem
  | [], rem, y, h => by simpa [runRem] using h
  | f :: fs, rem, y, h => by
    simp only [runRem, List.mem_cons] at h
    have hsub : ∀ z, z ∈ (stepRem rem f).2 → z ∈ rem := by
      intro z hz
      cases f
      · exact List.dropLast_subset _ (by simpa [stepRem] using hz)
      · exact List.mem_of_mem_tail (by simpa [stepRem] using hz)
    rcases h with (h | h) | h
    · cases f
      · simp only [stepRem, Bool.false_eq_true, if_false] at h
        exact List.mem_of_getLast? h.symm
      · simp only [stepRem, if_true] at h
        exact List.mem_of_head? h.symm
    · exact hsub y (runRem_sub fs _ y (Or.inl h))
    · exact hsub y (runRem_sub fs _ y (Or.inr h))

/-- **`drain`**: the cache left behind is the empty, well-formed cache from the moment the iterator
exists (so also when the iterator is leaked); no node is moved out twice or read after being moved
out (`ub = false`); a dropped iterator has moved out every entry, a leaked one exactly those it
yielded. -/
theorem iter_drain {p : Params} {c : CacheB} {l : List Nat} (h : RefInv p c l) (calls : List Bool) (forget : Bool) :
    Rep (c.iterScenario .drain calls forget).1 [] ∧
    (c.iterScenario .drain calls forget).1.abs = { c.abs with entries := [], cur := 0, shape := c.shape.cleared } ∧
    (c.iterScenario .drain calls forget).2.map (Option.map c.ent) = (iterCalls c.abs.entries calls).1 ∧
    (∀ a ∈ l, (c.iterScenario .drain calls forget).1.has a =
      (forget && !decide (some a ∈ (c.iterScenario .drain calls forget).2))) := by
  obtain ⟨rep0, hhas, hent, _, _, habs⟩ := drainDetach_rep h
  obtain ⟨r1, r2, r3, _, r5, r6⟩ := cursorRun_spec true calls (drainDetach_cur h)
  have hys : (c.iterScenario .drain calls forget).2 = (runRem l calls).1 := by
    simp only [CacheB.iterScenario, IterKind.borrowing]
    cases forget <;> simp [r1]
  have hmap : (c.iterScenario .drain calls forget).2.map (Option.map c.ent) = (iterCalls c.abs.entries calls).1 := by
    rw [hys, h.rep.abs_entries, runRem_map]
  cases forget with
  | true =>
    have hres : (c.iterScenario .drain calls true).1 = (c.drainDetach.cursorRun c.cursorsNew calls true).1 := by
      simp [CacheB.iterScenario, IterKind.borrowing]
    have hrep : Rep (c.drainDetach.cursorRun c.cursorsNew calls true).1 [] := by
      rw [r5]; exact rep0.congr_nil rfl rfl rfl rfl rfl rfl
    refine ⟨by rw [hres]; exact hrep, ?_, hmap, ?_⟩
    · rw [hres, hrep.abs_eq, r5, ← habs, rep0.abs_eq]
    · intro a _
      rw [hys, hres, r6 a, hhas]
      by_cases hm : some a ∈ (runRem l calls).1
      · simp [hm]
      · simp [hm]
        exact owns_has (h.rep.owns a ‹_›)
  | false =>
    obtain ⟨d1, d2, d3⟩ := cursorDrain_spec (c.table.length + 1) r2 (by
      have : (runRem l calls).2.length ≤ l.length := runRem_length calls l
      rw [h.rep.length]; omega)
    have hres : (c.iterScenario .drain calls false).1 =
        ((c.drainDetach.cursorRun c.cursorsNew calls true).1.cursorDrain (c.table.length + 1)
          (c.drainDetach.cursorRun c.cursorsNew calls true).2.1).1 := by
      simp [CacheB.iterScenario, IterKind.borrowing]
    have hfr := frame2 r5 d2
    have hrep : Rep ((c.drainDetach.cursorRun c.cursorsNew calls true).1.cursorDrain (c.table.length + 1)
          (c.drainDetach.cursorRun c.cursorsNew calls true).2.1).1 [] := by
      rw [hfr]; exact rep0.congr_nil rfl rfl rfl rfl rfl rfl
    refine ⟨by rw [hres]; exact hrep, ?_, hmap, ?_⟩
    · rw [hres, hrep.abs_eq, hfr, ← habs, rep0.abs_eq]
    · intro a ha
      rw [hres, d3 a, r6 a]
      simp only [Bool.false_and]
      by_cases h1 : a ∈ (runRem l calls).2
      · simp [h1]
      · have : some a ∈ (runRem l calls).1 := runRem_cover calls l a ha h1
        simp [h1, this]

/-- **Owning iterators** (`into_iter`, `into_keys`, `into_values`): every yielded entry is moved out
of a node that still held it, nothing is moved out twice — neither by the calls nor by the `Drop`
of the iterator, which consumes the rest, empties the table without dropping (`clear_no_drop`) and
then drops the cache — and a leaked iterator leaves exactly the un-yielded entries unfreed. -/
theorem iter_into {p : Params} {c : CacheB} {l : List Nat} (h : RefInv p c l) (kind : IterKind)
    (hk : kind.borrowing = false) (hd : kind ≠ .drain) (calls : List Bool) (forget : Bool) :
    (c.iterScenario kind calls forget).1.ub = false ∧
    (c.iterScenario kind calls forget).2.map (Option.map c.ent) = (iterCalls c.abs.entries calls).1 ∧
    (forget = true → ∀ a, (c.iterScenario kind calls forget).1.has a =
      if some a ∈ (c.iterScenario kind calls forget).2 then false else c.has a) ∧
    (forget = false → ∀ a, (c.iterScenario kind calls forget).1.has a = false) := by
  obtain ⟨r1, r2, r3, _, r5, r6⟩ := cursorRun_spec true calls (cursorsNew_inv h)
  have hys : (c.iterScenario kind calls forget).2 = (runRem l calls).1 := by
    simp only [CacheB.iterScenario, hk, hd]
    cases forget <;> simp [r1]
  have hmap : (c.iterScenario kind calls forget).2.map (Option.map c.ent) = (iterCalls c.abs.entries calls).1 := by
    rw [hys, h.rep.abs_entries, runRem_map]
  cases forget with
  | true =>
    have hres : (c.iterScenario kind calls true).1 = (c.cursorRun c.cursorsNew calls true).1 := by
      simp [CacheB.iterScenario, hk, hd]
    refine ⟨by rw [hres, r3]; exact h.rep.noUb, hmap, ?_, fun hf => (by cases hf)⟩
    intro _ a
    rw [hys, hres, r6 a]; simp
  | false =>
    obtain ⟨d1, d2, d3⟩ := cursorDrain_spec (c.table.length + 1) r2 (by
      have : (runRem l calls).2.length ≤ l.length := runRem_length calls l
      rw [h.rep.length]; omega)
    refine ⟨?_, hmap, fun hf => (by cases hf), ?_⟩
    · simp only [CacheB.iterScenario, hk, hd, if_false, Bool.false_eq_true, CacheB.dropCache, CacheB.check]
      simp [d1, r3, h.rep.noUb]
    · intro _ a
      simp [CacheB.iterScenario, hk, hd, CacheB.dropCache, CacheB.check]

end LruMem
