import LruMem.Proofs.Lists
/-!
# The eviction loop `eject_to_target`

Termination (no `diverged`), exactness of the running total, minimality of the evicted prefix.
-/
namespace LruMem

/-- least `n` with `sumSizes (l.drop n) ≤ t` -/
def need : List Entry → Nat → Nat
  | [], _ => 0
  | e :: es, t => if sumSizes (e :: es) ≤ t then 0 else need es t + 1

theorem need_cons (e : Entry) (es : List Entry) (t : Nat) :
    need (e :: es) t = if e.size + sumSizes es ≤ t then 0 else need es t + 1 := rfl

theorem eject_spec (l : List Entry) (cur target : Nat) (h : cur = sumSizes l) :
    (eject l cur target).diverged = false ∧
    (eject l cur target).cur = sumSizes (eject l cur target).rest ∧
    (eject l cur target).cur ≤ target ∧
    (eject l cur target).evicted ++ (eject l cur target).rest = l := by
  induction l generalizing cur with
  | nil => simp [eject, h]
  | cons e es ih =>
    simp only [eject]
    split
    · have := ih (cur - e.size) (by simp [h])
      simpa using this
    · simp [h] at *; omega

theorem eject_eq_drop (l : List Entry) (cur target : Nat) (h : cur = sumSizes l) :
    (eject l cur target).rest = l.drop (need l target) ∧
    (eject l cur target).evicted = l.take (need l target) := by
  induction l generalizing cur with
  | nil => simp [eject, need]
  | cons e es ih =>
    simp only [eject, need]
    by_cases hc : cur > target
    · have hn : ¬ e.size + sumSizes es ≤ target := by simp at h; omega
      simp [hc, hn]
      exact ih (cur - e.size) (by simp [h])
    · have hn : e.size + sumSizes es ≤ target := by simp at h; omega
      simp [hc, hn]

theorem need_min (l : List Entry) (t : Nat) :
    sumSizes (l.drop (need l t)) ≤ t ∧ ∀ m, m < need l t → ¬ sumSizes (l.drop m) ≤ t := by
  induction l with
  | nil => simp [need]
  | cons e es ih =>
    simp only [need]
    split
    · simp_all
    · rename_i hgt
      refine ⟨by simpa using ih.1, ?_⟩
      intro m hm
      cases m with
      | zero => simpa using hgt
      | succ k => simpa using ih.2 k (by omega)

theorem need_le_length (l : List Entry) (t : Nat) : need l t ≤ l.length := by
  induction l with
  | nil => simp [need]
  | cons e es ih => simp only [need]; split <;> simp <;> omega

theorem need_eq_zero {l : List Entry} {t : Nat} (h : sumSizes l ≤ t) : need l t = 0 := by
  cases l with
  | nil => rfl
  | cons e es => simp only [need]; rw [if_pos h]

/-- If the list without its last element does not fit either way, the loop still never takes the
last element when that element alone fits the target. -/
theorem need_append_last (l : List Entry) (x : Entry) (t : Nat) (hx : x.size ≤ t) :
    need (l ++ [x]) t ≤ l.length := by
  induction l with
  | nil => simp [need, hx]
  | cons e es ih =>
    simp only [List.cons_append, need]
    split
    · omega
    · simp; exact ih

theorem eject_rest_sublist (l : List Entry) (cur target : Nat) : (eject l cur target).rest.Sublist l := by
  induction l generalizing cur with
  | nil => simp [eject]
  | cons e es ih =>
    simp only [eject]
    split
    · exact (ih _).cons _
    · exact List.Sublist.refl _

theorem eject_length (l : List Entry) (cur target : Nat) :
    (eject l cur target).evicted.length + (eject l cur target).rest.length = l.length := by
  induction l generalizing cur with
  | nil => simp [eject]
  | cons e es ih =>
    simp only [eject]
    split
    · have := ih (cur - e.size); simp; omega
    · simp

theorem eject_nothing {l : List Entry} {cur target : Nat} (h : cur ≤ target) :
    eject l cur target = ⟨l, cur, [], false⟩ := by
  cases l with
  | nil => simp [eject]; omega
  | cons e es => simp [eject]; omega

end LruMem
