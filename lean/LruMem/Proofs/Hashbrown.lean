import LruMem.Model.Basic
/-!
# Arithmetic of hashbrown's table sizes (`capacity_to_buckets`, `bucket_mask_to_capacity`)

`n ≤ freshCap n` (a table for `n` holds `n`), and the growth bound
`freshCap (max (2n) 1) < max (4n) 16` behind C13's "capacity stays below max(4·peak len, 16)".
-/
namespace LruMem

theorem nextPow2Go_spec (n : Nat) : ∀ (fuel p : Nat), 0 < p → n ≤ p * 2 ^ fuel →
    n ≤ nextPow2Go n p fuel ∧ (nextPow2Go n p fuel = p ∨ nextPow2Go n p fuel < 2 * n) ∧
    ∃ k, nextPow2Go n p fuel = p * 2 ^ k := by
  intro fuel
  induction fuel with
  | zero =>
    intro p hp h
    simp only [nextPow2Go]
    exact ⟨by simpa using h, Or.inl trivial, 0, by simp⟩
  | succ f ih =>
    intro p hp h
    simp only [nextPow2Go]
    split
    · rename_i hle
      exact ⟨hle, Or.inl rfl, 0, by simp⟩
    · rename_i hlt
      have h2 : n ≤ 2 * p * 2 ^ f := by
        rw [Nat.pow_succ] at h
        calc n ≤ p * (2 ^ f * 2) := h
          _ = 2 * p * 2 ^ f := by rw [Nat.mul_comm (2 ^ f) 2, ← Nat.mul_assoc, Nat.mul_comm p 2]
      obtain ⟨a, b, k, hk⟩ := ih (2 * p) (by omega) h2
      refine ⟨a, Or.inr ?_, k + 1, ?_⟩
      · rcases b with b | b
        · rw [b]; omega
        · exact b
      · rw [hk, Nat.pow_succ]
        rw [Nat.mul_comm (2 ^ k) 2, ← Nat.mul_assoc, Nat.mul_comm p 2]

theorem nextPow2_spec (n : Nat) :
    n ≤ nextPow2 n ∧ (nextPow2 n = 1 ∨ nextPow2 n < 2 * n) ∧ ∃ k, nextPow2 n = 2 ^ k := by
  have h := nextPow2Go_spec n n 1 (by omega) (by simpa using Nat.le_of_lt Nat.lt_two_pow_self)
  simpa [nextPow2] using h

theorem pow2_dvd8 {k : Nat} (h : 8 ≤ 2 ^ k) : ∃ m, 2 ^ k = 8 * m := by
  have hk : 3 ≤ k := by
    rcases Nat.lt_or_ge k 3 with h3 | h3
    · have : 2 ^ k ≤ 2 ^ 2 := Nat.pow_le_pow_right (by omega) (by omega)
      omega
    · exact h3
  refine ⟨2 ^ (k - 3), ?_⟩
  have : k = 3 + (k - 3) := by omega
  conv => lhs; rw [this, Nat.pow_add]

/-- The bucket count chosen for a request of at least 8: a multiple of 8 between `8n/7` and `2·(8n/7)`. -/
theorem capToBuckets_big {n : Nat} (h : 8 ≤ n) :
    ∃ m, capToBuckets n = 8 * m ∧ n * 8 / 7 ≤ 8 * m ∧ 8 * m < 2 * (n * 8 / 7) := by
  have h4 : ¬ n < 4 := by omega
  have h8 : ¬ n < 8 := by omega
  obtain ⟨hle, hlt, k, hk⟩ := nextPow2_spec (n * 8 / 7)
  have hx : 9 ≤ n * 8 / 7 := by omega
  obtain ⟨m, hm⟩ := pow2_dvd8 (k := k) (by rw [← hk]; omega)
  refine ⟨m, ?_, ?_, ?_⟩
  · simp only [capToBuckets, h4, h8, if_false]; rw [hk, hm]
  · rw [← hm, ← hk]; exact hle
  · rw [← hm, ← hk]
    rcases hlt with h1 | h1
    · omega
    · exact h1

theorem capToBuckets_pos (n : Nat) : 4 ≤ capToBuckets n := by
  unfold capToBuckets
  split
  · omega
  · split
    · omega
    · rename_i a b
      obtain ⟨m, hm, h1, _⟩ := capToBuckets_big (n := n) (by omega)
      simp only [capToBuckets, a, b, if_false] at hm
      rw [hm]; omega

/-- A table allocated for `n` elements can hold `n` elements. -/
theorem le_freshCap (n : Nat) : n ≤ freshCap n := by
  unfold freshCap bucketsFor
  split
  · omega
  · rename_i hn
    rcases Nat.lt_or_ge n 8 with h8 | h8
    · unfold capToBuckets bucketsToCap
      split
      · simp; omega
      · simp; omega
    · obtain ⟨m, hm, h1, _⟩ := capToBuckets_big h8
      rw [hm]
      unfold bucketsToCap
      have : ¬ 8 * m = 0 := by omega
      have : ¬ 8 * m ≤ 8 := by omega
      simp [*]
      omega

/-- Automatic growth: the table for twice the entries stays below four times the entries. -/
theorem freshCap_double_lt (n : Nat) : freshCap (Nat.max (2 * n) 1) < Nat.max (4 * n) 16 := by
  rcases Nat.lt_or_ge n 4 with h | h
  · have : n = 0 ∨ n = 1 ∨ n = 2 ∨ n = 3 := by omega
    rcases this with rfl | rfl | rfl | rfl <;> decide
  · have hm : Nat.max (2 * n) 1 = 2 * n := by simp [Nat.max_def]; omega
    rw [hm]
    obtain ⟨m, hm, h1, h2⟩ := capToBuckets_big (n := 2 * n) (by omega)
    unfold freshCap bucketsFor
    have : ¬ 2 * n = 0 := by omega
    simp only [this, if_false, hm]
    unfold bucketsToCap
    have : ¬ 8 * m = 0 := by omega
    have : ¬ 8 * m ≤ 8 := by omega
    simp [*]
    have : 4 * n ≤ Nat.max (4 * n) 16 := Nat.le_max_left _ _
    omega

theorem freshCap_zero : freshCap 0 = 0 := by decide

/-- `freshCap` only depends on the bucket count, and is monotone in the request. -/
theorem bucketsToCap_mono {a b : Nat} (h : a ≤ b) : bucketsToCap a ≤ bucketsToCap b := by
  unfold bucketsToCap
  by_cases ha : a = 0
  · simp [ha]
  · have hb : ¬ b = 0 := by omega
    simp only [ha, hb, if_false]
    by_cases ha8 : a ≤ 8
    · by_cases hb8 : b ≤ 8
      · simp [ha8, hb8]; omega
      · simp [ha8, hb8]; omega
    · have hb8 : ¬ b ≤ 8 := by omega
      simp only [ha8, hb8, if_false]
      exact Nat.mul_le_mul_right 7 (Nat.div_le_div_right h)

end LruMem
