import LruMem.Proofs.Eject
import LruMem.Proofs.Hashbrown
/-!
# The Level A invariant and its preservation by every operation
-/
namespace LruMem

/-- The structural invariant of a cache at Level A. -/
structure InvA (p : Params) (c : Cache) : Prop where
  /-- at most one entry per key -/
  nodup : (ids c.entries).Nodup
  /-- the size recorded in each entry is `entry_size(key, value)` -/
  sizes : ∀ e ∈ c.entries, e.size = entrySize p e.key e.val
  /-- the running total is the sum of the recorded sizes -/
  cur : c.cur = sumSizes c.entries
  /-- the memory bound -/
  bound : c.cur ≤ c.max
  /-- the table holds exactly the listed entries -/
  items : c.shape.items = c.entries.length
  /-- hashbrown's accounting: items + growth_left (+ tombstones) = full capacity of the buckets -/
  room : c.shape.items + c.shape.growthLeft ≤ bucketsToCap c.shape.buckets

/-! ### shapes -/

theorem Shape.remove_items (s : Shape) (k t : Nat) : (s.remove k t).items = s.items - k := rfl

theorem Shape.remove_room {s : Shape} (k t : Nat) (hk : k ≤ s.items)
    (h : s.items + s.growthLeft ≤ bucketsToCap s.buckets) :
    (s.remove k t).items + (s.remove k t).growthLeft ≤ bucketsToCap (s.remove k t).buckets := by
  simp only [Shape.remove]
  have : k - min t k ≤ k := Nat.sub_le _ _
  omega

theorem Shape.inserted_ok {s : Shape} {reuse : Bool} (hc : s.canInsert reuse = true)
    (h : s.items + s.growthLeft ≤ bucketsToCap s.buckets) :
    (s.inserted reuse).items = s.items + 1 ∧
    (s.inserted reuse).items + (s.inserted reuse).growthLeft ≤ bucketsToCap (s.inserted reuse).buckets := by
  refine ⟨rfl, ?_⟩
  simp only [Shape.inserted]
  by_cases hr : s.reuses reuse = true
  · simp only [hr, if_true]
    have ht : 0 < s.tombstones := by
      simp only [Shape.reuses, Bool.and_eq_true, decide_eq_true_eq] at hr
      exact hr.2
    simp only [Shape.tombstones] at ht
    omega
  · simp only [hr]
    simp only [Shape.canInsert, Bool.or_eq_true, decide_eq_true_eq] at hc
    rcases hc with hc | hc
    · simp; omega
    · exact absurd hc hr

theorem Shape.rebuilt_ok (s : Shape) {n : Nat} (h : s.items ≤ freshCap n) :
    (s.rebuilt n).items = s.items ∧
    (s.rebuilt n).items + (s.rebuilt n).growthLeft = bucketsToCap (s.rebuilt n).buckets := by
  unfold freshCap at h
  refine ⟨rfl, ?_⟩
  show s.items + (freshCap n - s.items) = bucketsToCap (bucketsFor n)
  unfold freshCap
  omega

theorem Shape.rebuilt_capacity (s : Shape) {n : Nat} (h : s.items ≤ freshCap n) :
    (s.rebuilt n).capacity = freshCap n := by
  show s.items + (freshCap n - s.items) = freshCap n
  omega

/-! ### insertion -/

theorem insertUnchecked_inv {p : Params} {c : Cache} (e : Entry) (o : Oracle) (h : InvA p c)
    (hid : e.key.id ∉ ids c.entries) (hsz : e.size = entrySize p e.key e.val)
    (hfit : c.cur + e.size ≤ c.max) :
    InvA p (insertUnchecked c e o).cache ∧ (insertUnchecked c e o).status = .ok ∧
    (insertUnchecked c e o).cache.entries = c.entries ++ [e] ∧
    (insertUnchecked c e o).cache.cur = c.cur + e.size ∧
    (insertUnchecked c e o).cache.max = c.max := by
  have common : ∀ sh : Shape, sh.items = c.entries.length + 1 →
      sh.items + sh.growthLeft ≤ bucketsToCap sh.buckets →
      InvA p { c with entries := c.entries ++ [e], cur := c.cur + e.size, shape := sh } := by
    intro sh h1 h2
    refine ⟨?_, ?_, ?_, hfit, ?_, h2⟩
    · simp only [ids_append, ids_cons, ids_nil]
      rw [List.nodup_append]
      refine ⟨h.nodup, by simp, ?_⟩
      intro a ha b hb
      simp at hb
      rintro rfl
      exact hid (hb ▸ ha)
    · intro x hx
      simp at hx
      rcases hx with hx | rfl
      · exact h.sizes x hx
      · exact hsz
    · simp [h.cur]
    · simp [h1]
  unfold insertUnchecked
  split
  · rename_i hc
    obtain ⟨a, b⟩ := Shape.inserted_ok hc h.room
    refine ⟨common _ (by rw [a, h.items]) b, ?_, ?_, ?_, ?_⟩ <;> first | rfl | trivial
  · -- the table refused: rebuild for max(2·capacity, 1), which always has room for one more
    have hcap : c.shape.items ≤ freshCap (Nat.max (2 * c.shape.capacity) 1) := by
      have := le_freshCap (Nat.max (2 * c.shape.capacity) 1)
      have h2 : 2 * c.shape.capacity ≤ Nat.max (2 * c.shape.capacity) 1 := Nat.le_max_left _ _
      simp only [Shape.capacity] at *
      omega
    have hroom : 0 < (c.shape.rebuilt (Nat.max (2 * c.shape.capacity) 1)).growthLeft := by
      have := le_freshCap (Nat.max (2 * c.shape.capacity) 1)
      have h1 : 1 ≤ Nat.max (2 * c.shape.capacity) 1 := Nat.le_max_right _ _
      have h2 : 2 * c.shape.capacity ≤ Nat.max (2 * c.shape.capacity) 1 := Nat.le_max_left _ _
      simp only [Shape.rebuilt, Shape.capacity] at *
      omega
    have hcan : (c.shape.rebuilt (Nat.max (2 * c.shape.capacity) 1)).canInsert false = true := by
      simp [Shape.canInsert, hroom]
    simp only [hcan, if_true]
    obtain ⟨r1, r2⟩ := Shape.rebuilt_ok c.shape hcap
    obtain ⟨a, b⟩ := Shape.inserted_ok hcan (Nat.le_of_eq r2)
    refine ⟨common _ (by rw [a, r1, h.items]) b, ?_, ?_, ?_, ?_⟩ <;> first | rfl | trivial

theorem oldSize_le_sum {l : List Entry} {id : Nat} : oldSize (lookup l id) ≤ sumSizes l := by
  have := sumSizes_removeId l id; omega

theorem oldCount_le_length {l : List Entry} {id : Nat} : oldCount (lookup l id) ≤ l.length := by
  have := length_removeId l id; omega

/-- Invariant of the cache after a removal of `id` followed by an eject: the state from which
`insert` calls `insert_unchecked`. -/
theorem after_remove_eject {p : Params} {c : Cache} (h : InvA p c) (id : Nat) (target : Nat) (t : Nat)
    (htm : target ≤ c.max) :
    InvA p { c with
      entries := (eject (removeId c.entries id) (c.cur - oldSize (lookup c.entries id)) target).rest,
      cur := (eject (removeId c.entries id) (c.cur - oldSize (lookup c.entries id)) target).cur,
      shape := c.shape.remove (oldCount (lookup c.entries id) +
        (eject (removeId c.entries id) (c.cur - oldSize (lookup c.entries id)) target).evicted.length) t } ∧
    (eject (removeId c.entries id) (c.cur - oldSize (lookup c.entries id)) target).diverged = false ∧
    (eject (removeId c.entries id) (c.cur - oldSize (lookup c.entries id)) target).cur ≤ target ∧
    id ∉ ids (eject (removeId c.entries id) (c.cur - oldSize (lookup c.entries id)) target).rest := by
  have hcur1 : c.cur - oldSize (lookup c.entries id) = sumSizes (removeId c.entries id) := by
    have := sumSizes_removeId c.entries id
    rw [h.cur]; omega
  obtain ⟨hd, hc, hle, happ⟩ := eject_spec (removeId c.entries id) _ target hcur1
  have hsub := eject_rest_sublist (removeId c.entries id) (c.cur - oldSize (lookup c.entries id)) target
  have hsub2 := hsub.trans (removeId_sublist _ _)
  have hlen := eject_length (removeId c.entries id) (c.cur - oldSize (lookup c.entries id)) target
  have hlen1 := length_removeId c.entries id
  refine ⟨⟨?_, ?_, hc, Nat.le_trans hle htm, ?_, ?_⟩, hd, hle, ?_⟩
  · exact (hsub2.map _).nodup h.nodup
  · intro e he; exact h.sizes e (hsub2.subset he)
  · simp only [Shape.remove_items, h.items]
    omega
  · apply Shape.remove_room _ _ _ h.room
    rw [h.items]
    omega
  · intro hmem
    have : id ∈ ids (removeId c.entries id) := (hsub.map _).subset hmem
    exact not_mem_ids_removeId h.nodup id this

theorem insert_inv {p : Params} {c : Cache} (k : Key) (v : Val) (o : Oracle) (h : InvA p c) :
    InvA p (insert p c k v o).cache ∧ (insert p c k v o).status = .ok := by
  simp only [insert]
  split
  · exact ⟨h, rfl⟩
  · rename_i hs
    have hs' : entrySize p k v ≤ c.max := by omega
    obtain ⟨hi, hd, hle, hnot⟩ := after_remove_eject h k.id (c.max - entrySize p k v) o.tombs (Nat.sub_le _ _)
    simp only [hd]
    have := insertUnchecked_inv (p := p) ⟨k, v, entrySize p k v⟩ o hi hnot rfl (by simp only; omega)
    exact ⟨this.1, this.2.1⟩

theorem tryInsert_inv {p : Params} {c : Cache} (k : Key) (v : Val) (o : Oracle) (h : InvA p c) :
    InvA p (tryInsert p c k v o).cache ∧ (tryInsert p c k v o).status = .ok := by
  simp only [tryInsert]
  split
  · exact ⟨h, rfl⟩
  · split
    · exact ⟨h, rfl⟩
    · split
      · exact ⟨h, rfl⟩
      · rename_i h1 h2 h3
        have hnot : k.id ∉ ids c.entries := by
          rw [← lookup_isSome_iff]; exact h3
        have hb := h.bound
        have := insertUnchecked_inv (p := p) ⟨k, v, entrySize p k v⟩ o h hnot rfl (by simp only; omega)
        exact ⟨this.1, this.2.1⟩

/-! ### promotion -/

theorem touchList_inv {p : Params} {c : Cache} (h : InvA p c) {e : Entry} (he : lookup c.entries e.key.id = some e) :
    InvA p { c with entries := touchList c.entries e } := by
  have hmem := (lookup_some_mem he).1
  have hsum := sumSizes_removeId c.entries e.key.id
  have hlen := length_removeId c.entries e.key.id
  rw [he] at hsum hlen
  simp only [oldSize, oldCount] at hsum hlen
  refine ⟨?_, ?_, ?_, h.bound, ?_, h.room⟩
  · simp only [touchList, ids_append, ids_cons, ids_nil]
    rw [List.nodup_append]
    refine ⟨nodup_removeId h.nodup _, by simp, ?_⟩
    intro a ha b hb
    simp at hb
    rintro rfl
    exact not_mem_ids_removeId h.nodup e.key.id (hb ▸ ha)
  · intro x hx
    simp only [touchList, List.mem_append, List.mem_singleton] at hx
    rcases hx with hx | rfl
    · exact h.sizes x (mem_removeId_of hx)
    · exact h.sizes x hmem
  · simp only [touchList, sumSizes_append, sumSizes_cons, sumSizes_nil, h.cur]; omega
  · simp only [touchList, List.length_append, List.length_singleton, h.items]; omega

theorem getEntry_inv {p : Params} {c : Cache} (id : Nat) (h : InvA p c) : InvA p (getEntry c id).cache := by
  unfold getEntry
  split
  · rename_i e he
    have := (lookup_some_mem he).2
    exact touchList_inv h (by rw [this]; exact he)
  · exact h

theorem getLru_inv {p : Params} {c : Cache} (h : InvA p c) : InvA p (getLru c).cache := by
  unfold getLru
  split
  · rename_i e he
    have hm : e ∈ c.entries := by
      unfold lruOf at he
      exact List.mem_of_mem_head? he
    exact touchList_inv h (lookup_of_mem h.nodup hm)
  · exact h

/-! ### removals -/

theorem removeEntry_inv {p : Params} {c : Cache} (id : Nat) (o : Oracle) (h : InvA p c) :
    InvA p (removeEntry c id o).cache := by
  unfold removeEntry
  split
  · rename_i e he
    have hsum := sumSizes_removeId c.entries id
    have hlen := length_removeId c.entries id
    rw [he] at hsum hlen
    simp only [oldSize, oldCount] at hsum hlen
    refine ⟨nodup_removeId h.nodup _, fun x hx => h.sizes x (mem_removeId_of hx), ?_, ?_, ?_, ?_⟩
    · simp only [h.cur]; omega
    · have := h.bound; simp only; omega
    · simp only [Shape.remove_items, h.items]; omega
    · exact Shape.remove_room _ _ (by rw [h.items]; omega) h.room
  · exact h

theorem remove_inv {p : Params} {c : Cache} (id : Nat) (o : Oracle) (h : InvA p c) :
    InvA p (remove c id o).cache := by
  unfold remove
  split
  · exact removeEntry_inv id o h
  · exact h

theorem removeLru_inv {p : Params} {c : Cache} (o : Oracle) (h : InvA p c) : InvA p (removeLru c o).cache := by
  unfold removeLru
  split
  · exact removeEntry_inv _ o h
  · exact h

theorem removeMru_inv {p : Params} {c : Cache} (o : Oracle) (h : InvA p c) : InvA p (removeMru c o).cache := by
  unfold removeMru
  split
  · exact removeEntry_inv _ o h
  · exact h

/-! ### limit -/

theorem eject_inv {p : Params} {c : Cache} (h : InvA p c) (target newMax t : Nat) (hm : target ≤ newMax) :
    InvA p { c with entries := (eject c.entries c.cur target).rest, cur := (eject c.entries c.cur target).cur,
                    max := newMax,
                    shape := c.shape.remove (eject c.entries c.cur target).evicted.length t } ∧
    (eject c.entries c.cur target).diverged = false := by
  obtain ⟨hd, hc, hle, happ⟩ := eject_spec c.entries c.cur target h.cur
  have hsub := eject_rest_sublist c.entries c.cur target
  have hlen := eject_length c.entries c.cur target
  refine ⟨⟨(hsub.map _).nodup h.nodup, fun e he => h.sizes e (hsub.subset he), hc, Nat.le_trans hle hm, ?_, ?_⟩, hd⟩
  · simp only [Shape.remove_items, h.items]
    omega
  · apply Shape.remove_room _ _ _ h.room
    rw [h.items]
    omega

theorem setMaxSize_inv {p : Params} {c : Cache} (m : Nat) (o : Oracle) (h : InvA p c) :
    InvA p (setMaxSize c m o).cache ∧ (setMaxSize c m o).status = .ok := by
  obtain ⟨a, b⟩ := eject_inv h m m o.tombs (Nat.le_refl _)
  simp only [setMaxSize]
  exact ⟨a, by simp only [b]; rfl⟩

/-! ### capacity -/

theorem rebuild_inv {p : Params} {c : Cache} (n : Nat) (h : InvA p c) (hn : c.shape.items ≤ freshCap n) :
    InvA p (rebuild c n).1 := by
  obtain ⟨a, b⟩ := Shape.rebuilt_ok c.shape hn
  exact ⟨h.nodup, h.sizes, h.cur, h.bound, a.trans h.items, Nat.le_of_eq b⟩

theorem reserve_inv {p : Params} {c : Cache} (a : Nat) (o : Oracle) (h : InvA p c) :
    InvA p (reserve p c a o).cache := by
  simp only [reserve]
  split
  · exact h
  · split
    · split
      · apply rebuild_inv _ h
        have := le_freshCap (c.shape.items + a); omega
      · exact h
    · exact h

theorem tryReserve_inv {p : Params} {c : Cache} (a : Nat) (o : Oracle) (h : InvA p c) :
    InvA p (tryReserve p c a o).cache ∧ (tryReserve p c a o).status = .ok := by
  simp only [tryReserve]
  split
  · exact ⟨h, rfl⟩
  · split
    · split
      · exact ⟨h, rfl⟩
      · split
        · exact ⟨h, rfl⟩
        · refine ⟨?_, rfl⟩
          apply rebuild_inv _ h
          have := le_freshCap (c.shape.items + a); omega
    · exact ⟨h, rfl⟩

theorem shrinkTo_inv {p : Params} {c : Cache} (m : Nat) (o : Oracle) (h : InvA p c) :
    InvA p (shrinkTo p c m o).cache := by
  simp only [shrinkTo]
  split
  · split
    · split
      · apply rebuild_inv _ h
        have := le_freshCap (Nat.max c.shape.items m)
        have : c.shape.items ≤ Nat.max c.shape.items m := Nat.le_max_left _ _
        omega
      · exact h
    · exact h
  · exact h

/-! ### mutate -/

theorem mutate_inv {p : Params} {c : Cache} (id : Nat) (f : Val → Val × Nat) (o : Oracle) (h : InvA p c) :
    InvA p (mutate p c id f o).cache ∧ (mutate p c id f o).status = .ok := by
  simp only [mutate]
  split
  · exact ⟨h, rfl⟩
  · rename_i e he
    obtain ⟨hmem, hid⟩ := lookup_some_mem he
    have hsz := h.sizes e hmem
    have hsum := sumSizes_removeId c.entries id
    have hlen := length_removeId c.entries id
    rw [he] at hsum hlen
    simp only [oldSize, oldCount] at hsum hlen
    have hcur := h.cur
    have hb := h.bound
    have hsz' : e.size = e.key.heap + e.val.heap + p.ovh := hsz
    have hv1 : valMemSize p e.val = p.vsz + e.val.heap := rfl
    have hv2 : valMemSize p (f e.val).1 = p.vsz + (f e.val).1.heap := rfl
    -- the touched list with the updated entry satisfies everything but the bound
    have touched : ∀ (e' : Entry) (cur' : Nat), e'.key = e.key → e'.size = entrySize p e'.key e'.val →
        cur' = c.cur - e.size + e'.size → (ids (touchList c.entries e')).Nodup ∧
        (∀ x ∈ touchList c.entries e', x.size = entrySize p x.key x.val) ∧
        cur' = sumSizes (touchList c.entries e') ∧ (touchList c.entries e').length = c.entries.length := by
      intro e' cur' hk hs hc
      have hid' : e'.key.id = id := by rw [hk]; exact hid
      refine ⟨?_, ?_, ?_, ?_⟩
      · simp only [touchList, ids_append, ids_cons, ids_nil, hid']
        rw [List.nodup_append]
        refine ⟨nodup_removeId h.nodup _, by simp, ?_⟩
        intro a ha b hb
        simp at hb
        rintro rfl
        exact not_mem_ids_removeId h.nodup id (hb ▸ ha)
      · intro x hx
        simp only [touchList, List.mem_append, List.mem_singleton] at hx
        rcases hx with hx | rfl
        · exact h.sizes x (mem_removeId_of hx)
        · exact hs
      · simp only [touchList, hid', sumSizes_append, sumSizes_cons, sumSizes_nil]; omega
      · simp only [touchList, hid', List.length_append, List.length_singleton]; omega
    by_cases hgrow : valMemSize p (f e.val).1 > valMemSize p e.val
    · rw [if_pos hgrow]
      by_cases hbig : e.size + (valMemSize p (f e.val).1 - valMemSize p e.val) > c.max
      · -- too large: removed
        rw [if_pos hbig]
        refine ⟨⟨nodup_removeId h.nodup _, fun x hx => h.sizes x (mem_removeId_of hx), ?_, ?_, ?_, ?_⟩, rfl⟩
        · simp only; omega
        · simp only; omega
        · simp only [Shape.remove_items, h.items]; omega
        · exact Shape.remove_room _ _ (by rw [h.items]; omega) h.room
      · rw [if_neg hbig]
        obtain ⟨t1, t2, t3, t4⟩ := touched
          { e with val := (f e.val).1, size := e.size + (valMemSize p (f e.val).1 - valMemSize p e.val) }
          (c.cur + (valMemSize p (f e.val).1 - valMemSize p e.val)) rfl
          (by simp only [entrySize] at *; omega) (by simp only; omega)
        have hc1 : InvA p { c with
            entries := touchList c.entries
              { e with val := (f e.val).1, size := e.size + (valMemSize p (f e.val).1 - valMemSize p e.val) },
            cur := c.cur + (valMemSize p (f e.val).1 - valMemSize p e.val),
            max := Nat.max c.max (c.cur + (valMemSize p (f e.val).1 - valMemSize p e.val)) } :=
          ⟨t1, t2, t3, Nat.le_max_right _ _, by simp only [t4, h.items], h.room⟩
        obtain ⟨a, b⟩ := eject_inv hc1 c.max c.max o.tombs (Nat.le_refl _)
        exact ⟨a, by simp only at b; simp only [b]; rfl⟩
    · rw [if_neg hgrow]
      obtain ⟨t1, t2, t3, t4⟩ := touched
        { e with val := (f e.val).1, size := e.size - (valMemSize p e.val - valMemSize p (f e.val).1) }
        (c.cur - (valMemSize p e.val - valMemSize p (f e.val).1)) rfl
        (by simp only [entrySize] at *; omega) (by simp only; omega)
      exact ⟨⟨t1, t2, t3, by simp only; omega, by simp only [t4, h.items], h.room⟩, rfl⟩

/-! ### retain, clear -/

theorem retainGo_spec {σ : Type} (pr : σ → Key → Val → Bool × σ) (st : σ) (l : List Entry) :
    (retainGo pr st l).kept.Sublist l ∧
    (retainGo pr st l).kept.length + (retainGo pr st l).removed.length = l.length ∧
    sumSizes (retainGo pr st l).kept + sumSizes (retainGo pr st l).removed = sumSizes l := by
  induction l generalizing st with
  | nil => simp [retainGo]
  | cons e l ih =>
    simp only [retainGo]
    obtain ⟨a, b, c⟩ := ih (pr st e.key e.val).2
    split
    · exact ⟨a.cons_cons _, by simp; omega, by simp; omega⟩
    · exact ⟨a.cons _, by simp; omega, by simp; omega⟩

theorem subSizes_eq (cur : Nat) (l : List Entry) (h : sumSizes l ≤ cur) : subSizes cur l = cur - sumSizes l := by
  induction l generalizing cur with
  | nil => simp [subSizes]
  | cons e l ih =>
    simp only [subSizes, sumSizes_cons] at *
    rw [ih _ (by omega)]; omega

theorem retain_inv {p : Params} {σ : Type} {c : Cache} (pr : σ → Key → Val → Bool × σ) (st : σ) (o : Oracle)
    (h : InvA p c) : InvA p (retain c pr st o).cache := by
  obtain ⟨a, b, d⟩ := retainGo_spec pr st c.entries
  have hcur := h.cur
  have hb := h.bound
  unfold retain
  refine ⟨(a.map _).nodup h.nodup, fun e he => h.sizes e (a.subset he), ?_, ?_, ?_, ?_⟩
  · simp only; rw [subSizes_eq _ _ (by omega)]; omega
  · simp only; rw [subSizes_eq _ _ (by omega)]; omega
  · simp only [Shape.remove_items, h.items]; omega
  · exact Shape.remove_room _ _ (by rw [h.items]; omega) h.room

theorem clear_inv {p : Params} {c : Cache} (_h : InvA p c) : InvA p (clear c).cache := by
  unfold clear
  exact ⟨by simp, by simp, rfl, Nat.zero_le _, rfl, by simp [Shape.cleared]⟩

theorem cleared_inv {p : Params} {c : Cache} (_h : InvA p c) :
    InvA p { c with entries := [], cur := 0, shape := c.shape.cleared } :=
  ⟨by simp, by simp, rfl, Nat.zero_le _, rfl, by simp [Shape.cleared]⟩

theorem new_inv (p : Params) (max n : Nat) : InvA p (Cache.withCapacity max n) :=
  ⟨by simp [Cache.withCapacity], by simp [Cache.withCapacity], rfl, Nat.zero_le _, rfl,
   by simp [Cache.withCapacity, Shape.fresh, freshCap]⟩

/-! ### every step -/

theorem step_inv {p : Params} {c : Cache} (op : Op) (o : Oracle) (h : InvA p c) : InvA p (step p c op o).cache := by
  cases op with
  | insert k v => exact (insert_inv k v o h).1
  | tryInsert k v => exact (tryInsert_inv k v o h).1
  | get id => exact getEntry_inv id h
  | getEntry id => exact getEntry_inv id h
  | touch id => exact getEntry_inv id h
  | peek id => exact h
  | peekEntry id => exact h
  | contains id => exact h
  | remove id => exact remove_inv id o h
  | removeEntry id => exact removeEntry_inv id o h
  | removeLru => exact removeLru_inv o h
  | removeMru => exact removeMru_inv o h
  | getLru => exact getLru_inv h
  | peekLru => exact h
  | peekMru => exact h
  | setMaxSize m => exact (setMaxSize_inv m o h).1
  | reserve a => exact reserve_inv a o h
  | tryReserve a => exact (tryReserve_inv a o h).1
  | shrinkTo m => exact shrinkTo_inv m o h
  | shrinkToFit => exact shrinkTo_inv 0 o h
  | mutate id f => exact (mutate_inv id f o h).1
  | retain pr => exact retain_inv _ _ o h
  | clear => exact clear_inv h
  | iterate kind calls forget =>
    simp only [step, iterScenario]
    split
    · exact h
    · cases kind <;> first | exact cleared_inv h | exact h
  | debugFmt => exact h
  | cloneProbe base => exact h

end LruMem
