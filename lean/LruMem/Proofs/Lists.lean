import LruMem.Model.Step
/-!
# Helper lemmas about the list functions of the model
-/
namespace LruMem

@[simp] theorem sumSizes_nil : sumSizes [] = 0 := rfl
@[simp] theorem sumSizes_cons (e : Entry) (l : List Entry) : sumSizes (e :: l) = e.size + sumSizes l := rfl

@[simp] theorem sumSizes_append (l₁ l₂ : List Entry) :
    sumSizes (l₁ ++ l₂) = sumSizes l₁ + sumSizes l₂ := by
  induction l₁ with
  | nil => simp
  | cons e l ih => simp [ih, Nat.add_assoc]

@[simp] theorem ids_nil : ids [] = [] := rfl
@[simp] theorem ids_cons (e : Entry) (l : List Entry) : ids (e :: l) = e.key.id :: ids l := rfl
@[simp] theorem ids_append (l₁ l₂ : List Entry) : ids (l₁ ++ l₂) = ids l₁ ++ ids l₂ := by
  simp [ids]

theorem mem_ids {l : List Entry} {id : Nat} : id ∈ ids l ↔ ∃ e ∈ l, e.key.id = id := by
  simp [ids]

/-! ### lookup -/

@[simp] theorem lookup_nil (id : Nat) : lookup [] id = none := rfl

theorem lookup_cons (e : Entry) (l : List Entry) (id : Nat) :
    lookup (e :: l) id = if e.key.id = id then some e else lookup l id := rfl

theorem lookup_some_mem {l : List Entry} {id : Nat} {e : Entry} (h : lookup l id = some e) :
    e ∈ l ∧ e.key.id = id := by
  induction l with
  | nil => simp at h
  | cons a l ih =>
    rw [lookup_cons] at h
    split at h
    · cases h; simp_all
    · have := ih h; simp_all

theorem lookup_none_iff {l : List Entry} {id : Nat} : lookup l id = none ↔ id ∉ ids l := by
  induction l with
  | nil => simp
  | cons a l ih =>
    rw [lookup_cons]
    split
    · simp_all
    · simp [ih]; omega

theorem lookup_isSome_iff {l : List Entry} {id : Nat} : (lookup l id).isSome ↔ id ∈ ids l := by
  cases h : lookup l id with
  | none => simp [lookup_none_iff.mp h]
  | some e =>
    have := lookup_some_mem h
    simp [mem_ids]; exact ⟨e, this.1, this.2⟩

/-- With distinct ids, membership determines the lookup. -/
theorem lookup_of_mem {l : List Entry} (hn : (ids l).Nodup) {e : Entry} (he : e ∈ l) :
    lookup l e.key.id = some e := by
  induction l with
  | nil => simp at he
  | cons a l ih =>
    rw [lookup_cons]
    simp only [ids_cons, List.nodup_cons] at hn
    rcases List.mem_cons.mp he with rfl | h
    · simp
    · have : a.key.id ≠ e.key.id := by
        intro heq; exact hn.1 (heq ▸ mem_ids.mpr ⟨e, h, rfl⟩)
      simp [this, ih hn.2 h]

theorem lookup_append (l₁ l₂ : List Entry) (id : Nat) :
    lookup (l₁ ++ l₂) id = (lookup l₁ id).or (lookup l₂ id) := by
  induction l₁ with
  | nil => simp
  | cons a l ih =>
    simp only [List.cons_append, lookup_cons]
    split <;> simp [ih]

/-! ### removeId -/

@[simp] theorem removeId_nil (id : Nat) : removeId [] id = [] := rfl

theorem removeId_cons (e : Entry) (l : List Entry) (id : Nat) :
    removeId (e :: l) id = if e.key.id = id then l else e :: removeId l id := rfl

theorem removeId_of_not_mem {l : List Entry} {id : Nat} (h : id ∉ ids l) : removeId l id = l := by
  induction l with
  | nil => rfl
  | cons a l ih =>
    simp only [ids_cons, List.mem_cons, not_or] at h
    rw [removeId_cons]
    have : ¬ a.key.id = id := fun x => h.1 x.symm
    simp [this, ih h.2]

theorem removeId_sublist (l : List Entry) (id : Nat) : (removeId l id).Sublist l := by
  induction l with
  | nil => exact List.Sublist.refl _
  | cons a l ih =>
    rw [removeId_cons]
    split
    · exact List.sublist_cons_self _ _
    · exact ih.cons_cons _

theorem mem_removeId_of {l : List Entry} {id : Nat} {e : Entry} (h : e ∈ removeId l id) : e ∈ l :=
  (removeId_sublist l id).subset h

theorem ids_removeId_sublist (l : List Entry) (id : Nat) : (ids (removeId l id)).Sublist (ids l) := by
  unfold ids; exact (removeId_sublist l id).map _

theorem nodup_removeId {l : List Entry} (h : (ids l).Nodup) (id : Nat) : (ids (removeId l id)).Nodup :=
  (ids_removeId_sublist l id).nodup h

/-- After removing the entry with `id` from a list with distinct ids, `id` is gone. -/
theorem not_mem_ids_removeId {l : List Entry} (h : (ids l).Nodup) (id : Nat) : id ∉ ids (removeId l id) := by
  induction l with
  | nil => simp
  | cons a l ih =>
    simp only [ids_cons, List.nodup_cons] at h
    rw [removeId_cons]
    split
    · rename_i heq; rw [← heq]; exact h.1
    · rename_i hne
      simp only [ids_cons, List.mem_cons, not_or]
      exact ⟨fun x => hne x.symm, ih h.2⟩

/-- The size bookkeeping of a removal: what is found is exactly what the sum loses. -/
theorem sumSizes_removeId (l : List Entry) (id : Nat) :
    sumSizes (removeId l id) + oldSize (lookup l id) = sumSizes l := by
  induction l with
  | nil => simp [oldSize]
  | cons a l ih =>
    rw [removeId_cons, lookup_cons]
    split
    · simp [oldSize]; omega
    · simp; omega

theorem length_removeId (l : List Entry) (id : Nat) :
    (removeId l id).length + oldCount (lookup l id) = l.length := by
  induction l with
  | nil => simp [oldCount]
  | cons a l ih =>
    rw [removeId_cons, lookup_cons]
    split
    · simp [oldCount]
    · simp; omega

theorem lookup_removeId_ne (l : List Entry) {id id' : Nat} (h : id' ≠ id) :
    lookup (removeId l id) id' = lookup l id' := by
  induction l with
  | nil => rfl
  | cons a l ih =>
    rw [removeId_cons]
    split
    · rename_i heq
      rw [lookup_cons]
      have : ¬ a.key.id = id' := by omega
      simp [this]
    · simp [lookup_cons, ih]

theorem lookup_removeId_self {l : List Entry} (h : (ids l).Nodup) (id : Nat) :
    lookup (removeId l id) id = none :=
  lookup_none_iff.mpr (not_mem_ids_removeId h id)

theorem mem_removeId {l : List Entry} (hn : (ids l).Nodup) {id : Nat} {e : Entry} :
    e ∈ removeId l id ↔ e ∈ l ∧ e.key.id ≠ id := by
  constructor
  · intro h
    refine ⟨mem_removeId_of h, fun heq => ?_⟩
    exact not_mem_ids_removeId hn id (mem_ids.mpr ⟨e, h, heq⟩)
  · intro ⟨h, hne⟩
    induction l with
    | nil => simp at h
    | cons a l ih =>
      simp only [ids_cons, List.nodup_cons] at hn
      rw [removeId_cons]
      rcases List.mem_cons.mp h with rfl | h'
      · simp [hne]
      · split
        · exact h'
        · exact List.mem_cons_of_mem _ (ih hn.2 h')

end LruMem
