import LruMem.Proofs.Spec
/-!
# Lookup lemmas: what the key→value map looks like after list surgery
-/
namespace LruMem

/-- In a sublist of a list with distinct ids, whatever is found is what the full list holds. -/
theorem lookup_sublist {l' l : List Entry} (hs : l'.Sublist l) (hn : (ids l).Nodup) {id : Nat} {e : Entry}
    (h : lookup l' id = some e) : lookup l id = some e := by
  obtain ⟨hm, hid⟩ := lookup_some_mem h
  have := lookup_of_mem hn (hs.subset hm)
  rw [hid] at this; exact this

/-- Promotion (`touch_ptr`) does not change the map. -/
theorem lookup_touchList {l : List Entry} (hn : (ids l).Nodup) {e : Entry} (he : lookup l e.key.id = some e)
    (id : Nat) : lookup (touchList l e) id = lookup l id := by
  simp only [touchList, lookup_append]
  by_cases hid : id = e.key.id
  · subst hid
    rw [lookup_removeId_self hn, he]
    simp [lookup_cons]
  · rw [lookup_removeId_ne _ hid]
    cases h : lookup l id with
    | some x => simp
    | none =>
      have : ¬ e.key.id = id := fun x => hid x.symm
      simp [lookup_cons, this]

/-- Looking up in `others ++ [new]` where `new`'s id is not among the others. -/
theorem lookup_append_new {l : List Entry} {x : Entry} (hx : x.key.id ∉ ids l) (id : Nat) :
    lookup (l ++ [x]) id = if id = x.key.id then some x else lookup l id := by
  rw [lookup_append]
  by_cases hid : id = x.key.id
  · subst hid
    rw [lookup_none_iff.mpr hx]; simp [lookup_cons]
  · have : ¬ x.key.id = id := fun h => hid h.symm
    simp only [hid, if_false]
    cases h : lookup l id with
    | some y => simp
    | none => simp [lookup_cons, this]

theorem lookup_drop_of_some {l : List Entry} (hn : (ids l).Nodup) (n : Nat) {id : Nat} {e : Entry}
    (h : lookup (l.drop n) id = some e) : lookup l id = some e :=
  lookup_sublist (List.drop_sublist n l) hn h

/-- After dropping the `n` oldest entries: an id found among the dropped ones is gone, every other
id maps to what it mapped to before. -/
theorem lookup_drop {l : List Entry} (hn : (ids l).Nodup) (n : Nat) (id : Nat) :
    lookup (l.drop n) id = if id ∈ ids (l.take n) then none else lookup l id := by
  induction n generalizing l with
  | zero => simp
  | succ n ih =>
    cases l with
    | nil => simp
    | cons a l =>
      simp only [ids_cons, List.nodup_cons] at hn
      simp only [List.drop_succ_cons, List.take_succ_cons, ids_cons, List.mem_cons]
      rw [ih hn.2]
      by_cases ha : id = a.key.id
      · subst ha
        have : a.key.id ∉ ids (l.take n) := fun hm => hn.1 (((List.take_sublist n l).map _).subset hm)
        simp [this, lookup_none_iff.mpr hn.1]
      · have : ¬ a.key.id = id := fun h => ha h.symm
        simp [ha, lookup_cons, this]

end LruMem
