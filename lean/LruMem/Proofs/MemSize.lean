import LruMem.Model.MemSize
/-!
# The bulk helpers agree with the element-wise sum (C08), for every type and every list of values
-/
namespace LruMem.MemSize

theorem hsDefault_nil (t : Ty) : hsDefault t [] = 0 := by simp [hsDefault]
theorem hsDefault_cons (t : Ty) (v : TVal) (vs : List TVal) :
    hsDefault t (v :: vs) = heapSize t v + hsDefault t vs := by simp [hsDefault]
theorem vsDefault_nil (t : Ty) : vsDefault t [] = 0 := by simp [vsDefault]
theorem vsDefault_cons (t : Ty) (v : TVal) (vs : List TVal) :
    vsDefault t (v :: vs) = valueSize t v + vsDefault t vs := by simp [vsDefault]

theorem hsDefault_append (t : Ty) (a b : List TVal) : hsDefault t (a ++ b) = hsDefault t a + hsDefault t b := by
  induction a with
  | nil => simp [hsDefault_nil]
  | cons v a ih => simp [hsDefault_cons, ih]; omega

theorem heapSize_unit (t : Ty) : heapSize t .unit = 0 := by
  cases t <;> simp [heapSize]

/-- Value sizes: for a sized type `size_of * count`, which is the element-wise sum; for unsized types
the helpers *are* the element-wise sum. -/
theorem vs_eq (t : Ty) (vs : List TVal) : vsSumIter t vs = vsDefault t vs ∧ vsSumExact t vs = vsDefault t vs := by
  have sized : (∀ v, valueSize t v = t.size) → t.size * vs.length = vsDefault t vs := by
    intro h
    induction vs with
    | nil => simp [vsDefault_nil]
    | cons v vs ih => rw [vsDefault_cons, h v, ← ih]; simp [Nat.mul_succ]; omega
  cases t with
  | strLike => exact ⟨by simp [vsSumIter], by simp [vsSumExact]⟩
  | path => exact ⟨by simp [vsSumIter], by simp [vsSumExact]⟩
  | slice t => exact ⟨by simp [vsSumIter], by simp [vsSumExact]⟩
  | userDyn => exact ⟨by simp [vsSumIter], by simp [vsSumExact]⟩
  | _ =>
    constructor
    · simp only [vsSumIter]; apply sized; intro v; cases v <;> simp [valueSize, Ty.size]
    · simp only [vsSumExact]; apply sized; intro v; cases v <;> simp [valueSize, Ty.size]

/-! ### tuples -/

def comp (k : Nat) : TVal → TVal
  | .tup cs => cs.getD k .unit
  | _ => .unit

/-- sum of the heap sizes of components `i, i+1, …` of one tuple value -/
def compHeap : List Ty → Nat → TVal → Nat
  | [], _, _ => 0
  | t :: ts, i, v => heapSize t (comp i v) + compHeap ts (i + 1) v

def sumOver (f : TVal → Nat) : List TVal → Nat
  | [] => 0
  | v :: vs => f v + sumOver f vs

theorem sumOver_add (f g : TVal → Nat) (vs : List TVal) :
    sumOver (fun v => f v + g v) vs = sumOver f vs + sumOver g vs := by
  induction vs with
  | nil => rfl
  | cons v vs ih => simp [sumOver, ih]; omega

theorem hsDefault_eq_sumOver (t : Ty) (vs : List TVal) : hsDefault t vs = sumOver (heapSize t) vs := by
  induction vs with
  | nil => simp [hsDefault_nil, sumOver]
  | cons v vs ih => simp [hsDefault_cons, sumOver, ih]

theorem proj_eq (i : Nat) (vs : List TVal) : proj i vs = vs.map (comp i) := by
  simp only [proj]
  apply List.map_congr_left
  intro v _
  cases v <;> rfl

theorem hsDefault_proj (t : Ty) (i : Nat) (vs : List TVal) :
    hsDefault t (proj i vs) = sumOver (fun v => heapSize t (comp i v)) vs := by
  rw [proj_eq]
  induction vs with
  | nil => simp [hsDefault_nil, sumOver]
  | cons v vs ih => simp [hsDefault_cons, sumOver, ih]

theorem compHeap_unit (ts : List Ty) (i : Nat) (v : TVal) (h : ∀ k, i ≤ k → comp k v = .unit) :
    compHeap ts i v = 0 := by
  induction ts generalizing i with
  | nil => rfl
  | cons t ts ih =>
    simp only [compHeap, h i (Nat.le_refl _), heapSize_unit, Nat.zero_add]
    exact ih (i + 1) (fun k hk => h k (by omega))

theorem heapSizeTup_eq (ts : List Ty) (cs : List TVal) (i : Nat) :
    heapSizeTup ts (cs.drop i) = compHeap ts i (.tup cs) := by
  induction ts generalizing i with
  | nil => simp [heapSizeTup, compHeap]
  | cons t ts ih =>
    by_cases hi : i < cs.length
    · have hd : cs.drop i = cs[i] :: cs.drop (i + 1) := List.drop_eq_getElem_cons hi
      rw [hd]
      simp only [heapSizeTup, compHeap, comp]
      rw [ih (i + 1)]
      simp [List.getD_eq_getElem?_getD, hi]
    · have hd : cs.drop i = [] := List.drop_eq_nil_of_le (by omega)
      rw [hd]
      simp only [heapSizeTup]
      rw [compHeap_unit]
      intro k hk
      simp only [comp]
      rw [List.getD_eq_getElem?_getD, List.getElem?_eq_none (by omega)]
      rfl

theorem heapSize_tuple (sz : Nat) (ts : List Ty) (v : TVal) : heapSize (.tuple sz ts) v = compHeap ts 0 v := by
  cases v with
  | tup cs =>
    have := heapSizeTup_eq ts cs 0
    simp only [List.drop_zero] at this
    simp [heapSize, this]
  | _ =>
    simp only [heapSize]
    rw [compHeap_unit]
    intro k _; rfl

/-! ### the main induction -/

theorem unwrapW_sum (t : Ty) (sz : Nat) (vs : List TVal) :
    hsDefault t (unwrapW vs) = hsDefault (.wrapping sz t) vs := by
  induction vs with
  | nil => simp [unwrapW, hsDefault_nil]
  | cons v vs ih =>
    cases v <;> simp [unwrapW, hsDefault_cons, heapSize, ih]

theorem unwrapB_sum (t : Ty) (sz : Nat) (vs : List TVal) :
    hsDefault t (unwrapB vs) + vsDefault t (unwrapB vs) = hsDefault (.box sz t) vs := by
  induction vs with
  | nil => simp [unwrapB, hsDefault_nil, vsDefault_nil]
  | cons v vs ih =>
    cases v <;> simp [unwrapB, hsDefault_cons, vsDefault_cons, heapSize] <;> omega

theorem flat_sum (t : Ty) (sz n : Nat) (vs : List TVal)
    (hE : ∀ es, hsSumExact t es = hsDefault t es) :
    hsDefault t (vs.flatMap elemsOf) = hsDefault (.array sz n t) vs := by
  induction vs with
  | nil => simp [hsDefault_nil]
  | cons v vs ih =>
    rw [List.flatMap_cons, hsDefault_append, ih, hsDefault_cons]
    cases v <;> simp [elemsOf, heapSize, hsDefault_nil, hE]

theorem slice_array_default (t : Ty) (sz n : Nat) (vs : List TVal) :
    hsDefault (.slice t) vs = hsDefault (.array sz n t) vs := by
  induction vs with
  | nil => simp [hsDefault_nil]
  | cons v vs ih => rw [hsDefault_cons, hsDefault_cons, ih]; cases v <;> simp [heapSize]

mutual
/-- For every type: both heap-size bulk helpers, as specialised in the source, return exactly the
element-wise sum `Σ heap_size(item)` over whatever the iterator yields. -/
theorem hs_eq : ∀ (t : Ty) (vs : List TVal), hsSumIter t vs = hsDefault t vs ∧ hsSumExact t vs = hsDefault t vs
  | .prim sz, vs => by
    have : hsDefault (.prim sz) vs = 0 := by
      induction vs with
      | nil => exact hsDefault_nil _
      | cons v vs ih => simp [hsDefault_cons, heapSize, ih]
    simp [hsSumIter, hsSumExact, this]
  | .strLike, vs => by
    have : hsDefault .strLike vs = 0 := by
      induction vs with
      | nil => exact hsDefault_nil _
      | cons v vs ih => simp [hsDefault_cons, heapSize, ih]
    simp [hsSumIter, hsSumExact, this]
  | .tuple sz ts, vs => by
    have h := hs_eq_tup ts 0 vs
    have hd : hsDefault (.tuple sz ts) vs = sumOver (compHeap ts 0) vs := by
      rw [hsDefault_eq_sumOver]
      congr 1
      funext v
      exact heapSize_tuple sz ts v
    simp only [hsSumIter, hsSumExact]
    exact ⟨by rw [h.1, hd], by rw [h.2, hd]⟩
  | .wrapping sz t, vs => by
    have h := hs_eq t (unwrapW vs)
    simp only [hsSumIter, hsSumExact]
    exact ⟨by rw [h.1, unwrapW_sum], by rw [h.2, unwrapW_sum]⟩
  | .array sz n t, vs => by
    have hE : ∀ es, hsSumExact t es = hsDefault t es := fun es => (hs_eq t es).2
    simp only [hsSumIter, hsSumExact]
    exact ⟨slice_array_default t sz n vs, by rw [hE, flat_sum t sz n vs hE]⟩
  | .box sz t, vs => by
    have h := hs_eq t (unwrapB vs)
    have hv := vs_eq t (unwrapB vs)
    simp only [hsSumIter, hsSumExact]
    exact ⟨by rw [h.1, hv.1, unwrapB_sum], by rw [h.2, hv.2, unwrapB_sum]⟩
  | .path, vs => by simp [hsSumIter, hsSumExact]
  | .stringLike _, vs => by simp [hsSumIter, hsSumExact]
  | .cString _, vs => by simp [hsSumIter, hsSumExact]
  | .ref _ _, vs => by simp [hsSumIter, hsSumExact]
  | .slice _, vs => by simp [hsSumIter, hsSumExact]
  | .option _ _, vs => by simp [hsSumIter, hsSumExact]
  | .result _ _ _, vs => by simp [hsSumIter, hsSumExact]
  | .range2 _ _, vs => by simp [hsSumIter, hsSumExact]
  | .range1 _ _, vs => by simp [hsSumIter, hsSumExact]
  | .lock _ _, vs => by simp [hsSumIter, hsSumExact]
  | .phantom, vs => by simp [hsSumIter, hsSumExact]
  | .vec _ _, vs => by simp [hsSumIter, hsSumExact]
  | .binaryHeap _ _, vs => by simp [hsSumIter, hsSumExact]
  | .hashSet _ _ _, vs => by simp [hsSumIter, hsSumExact]
  | .hashMap _ _ _ _ _, vs => by simp [hsSumIter, hsSumExact]
  | .user _, vs => by simp [hsSumIter, hsSumExact]
  | .userDyn, vs => by simp [hsSumIter, hsSumExact]

theorem hs_eq_tup : ∀ (ts : List Ty) (i : Nat) (vs : List TVal),
    hsSumIterTup ts i vs = sumOver (compHeap ts i) vs ∧ hsSumExactTup ts i vs = sumOver (compHeap ts i) vs
  | [], i, vs => by
    have : sumOver (compHeap [] i) vs = 0 := by
      induction vs with
      | nil => rfl
      | cons v vs ih => simp only [sumOver, compHeap, Nat.zero_add]; exact ih
    simp [hsSumIterTup, hsSumExactTup, this]
  | t :: ts, i, vs => by
    have h1 := hs_eq t (proj i vs)
    have h2 := hs_eq_tup ts (i + 1) vs
    have hs : sumOver (compHeap (t :: ts) i) vs =
        sumOver (fun v => heapSize t (comp i v)) vs + sumOver (compHeap ts (i + 1)) vs := by
      rw [← sumOver_add]; rfl
    simp only [hsSumIterTup, hsSumExactTup]
    exact ⟨by rw [h1.1, h2.1, hs, hsDefault_proj], by rw [h1.2, h2.2, hs, hsDefault_proj]⟩
end

end LruMem.MemSize
