import LruMem.Proofs.Spec
/-!
# Ownership accounting: which key/value objects a cache owns, and what each step does with them
-/
namespace LruMem

/-- Tokens of the key and value objects held by a list of entries. -/
def toks : List Entry → List Nat
  | [] => []
  | e :: l => e.key.tok :: e.val.tok :: toks l

def optToks : Option Entry → List Nat
  | some e => [e.key.tok, e.val.tok]
  | none => []

@[simp] theorem toks_nil : toks [] = [] := rfl
@[simp] theorem toks_cons (e : Entry) (l : List Entry) : toks (e :: l) = e.key.tok :: e.val.tok :: toks l := rfl

@[simp] theorem toks_append (a b : List Entry) : toks (a ++ b) = toks a ++ toks b := by
  induction a with
  | nil => rfl
  | cons e a ih => simp [ih]

theorem cnt_removeId (t : Nat) (l : List Entry) (id : Nat) :
    List.count t (toks (removeId l id)) + List.count t (optToks (lookup l id)) = List.count t (toks l) := by
  induction l with
  | nil => simp [optToks]
  | cons a l ih =>
    rw [removeId_cons, lookup_cons]
    split
    · simp [optToks, List.count_cons]; omega
    · simp [List.count_cons] at *; omega

theorem cnt_eject (t : Nat) (l : List Entry) (cur target : Nat) :
    List.count t (toks (eject l cur target).evicted) + List.count t (toks (eject l cur target).rest) = List.count t (toks l) := by
  induction l generalizing cur with
  | nil => simp [eject]
  | cons e es ih =>
    simp only [eject]
    split
    · have := ih (cur - e.size); simp [List.count_cons] at *; omega
    · simp

@[simp] theorem dropped_append (a b : List Ev) : droppedToks (a ++ b) = droppedToks a ++ droppedToks b := by
  induction a with
  | nil => rfl
  | cons e a ih => cases e <;> simp [droppedToks, ih]

@[simp] theorem dropped_evict (l : List Entry) : droppedToks (evictAllEvs l) = toks l := by
  induction l with
  | nil => rfl
  | cons e l ih =>
    simp only [evictAllEvs, List.flatMap_cons, evictEvs] at *
    simp [droppedToks, ih]

@[simp] theorem dropped_rehash (l : List Entry) : droppedToks (rehashEvs l) = [] := by
  induction l with
  | nil => rfl
  | cons e l ih => simpa [rehashEvs, droppedToks] using ih

@[simp] theorem dropped_dropAll (l : List Entry) : droppedToks (dropAllEvs l) = toks l := by
  induction l with
  | nil => rfl
  | cons e l ih =>
    simp only [dropAllEvs, List.flatMap_cons] at *
    simp [droppedToks, ih]

theorem cnt_retain {σ : Type} (t : Nat) (pr : σ → Key → Val → Bool × σ) (st : σ) (l : List Entry) :
    List.count t (toks (retainGo pr st l).kept) + List.count t (droppedToks (retainGo pr st l).evs) = List.count t (toks l) := by
  induction l generalizing st with
  | nil => simp [retainGo, droppedToks]
  | cons e l ih =>
    have := ih (pr st e.key e.val).2
    simp only [retainGo]
    split
    · simp [droppedToks, List.count_cons] at *; omega
    · simp [droppedToks, List.count_cons] at *; omega

theorem insertUnchecked_toks (c : Cache) (e : Entry) (o : Oracle) (hst : (insertUnchecked c e o).status = .ok) :
    (insertUnchecked c e o).cache.entries = c.entries ++ [e] ∧ droppedToks (insertUnchecked c e o).evs = [] := by
  simp only [insertUnchecked] at *
  split
  · exact ⟨rfl, rfl⟩
  · split
    · exact ⟨rfl, dropped_rehash _⟩
    · rename_i h1 h2
      simp [h1, h2] at hst

end LruMem
