import LruMem.Proofs.RefineW
import LruMem.Model.PanicB
/-!
# Level B abort states: specifications

`evictN` (a prefix of the eviction loop) and `reallocateAbort` (the reallocation guard firing) keep
the pointer structure well formed; their abstractions are Level A's `evictPrefix` / `guardEmptied`.
-/
namespace LruMem
open LruMem.Chain

/-- `k` evictions from the LRU end. -/
theorem evictN_rep : ∀ (k : Nat) (l : List Nat) (c : CacheB) (tomb : Nat), Rep c l → k ≤ l.length →
    Rep (c.evictN k tomb) (l.drop k) ∧ (c.evictN k tomb).ent = c.ent ∧
    (c.evictN k tomb).cur = subSizes c.cur ((l.take k).map c.ent) ∧ (c.evictN k tomb).max = c.max ∧
    (c.evictN k tomb).shape = c.shape.remove k tomb ∧ (c.evictN k tomb).sl = c.sl ∧
    (c.evictN k tomb).fresh = c.fresh := by
  intro k
  induction k with
  | zero =>
    intro l c tomb r _
    simp [CacheB.evictN, subSizes, Shape.remove_zero, r]
  | succ k ih =>
    intro l c tomb r hk
    cases l with
    | nil => simp at hk
    | cons a l =>
      have he := (ends_spec r).1
      simp only [List.head?_cons] at he
      have hr : Rep c ([] ++ a :: l) := r
      obtain ⟨r', hent, hc, hm, hs, hsl, _, _, hfr⟩ := removeAt_rep tomb hr
      obtain ⟨h1, h2, h3, h4, h5, h6, h7⟩ := ih l (c.removeAt a tomb) (tomb - 1) r' (by simpa using hk)
      simp only [CacheB.evictN, he, List.drop_succ_cons, List.take_succ_cons, List.map_cons, subSizes]
      refine ⟨h1, ?_, ?_, ?_, ?_, ?_, ?_⟩
      · rw [h2, hent]
      · rw [h3, hent, hc]
      · rw [h4, hm]
      · rw [h5, hs]; exact Shape.remove_succ _ _ _
      · rw [h6, hsl]
      · rw [h7, hfr]

/-- A prefix of a table in an arbitrary order is moved: `RepM` afterwards, nothing below the old
allocation counter changed state, the seal is where it was. (Instance of the loop invariant of
`moveAll_rep` for a sub-list of the table.) -/
theorem moveAll_take_repM {c : CacheB} {l : List Nat} (r : Rep c l) (k : Nat) :
    ∃ cur', RepM (c.moveAll (c.table.take k)) cur' ∧
      (c.moveAll (c.table.take k)).sl = c.sl ∧
      (c.moveAll (c.table.take k)).fresh = c.fresh + (c.table.take k).length ∧
      (c.moveAll (c.table.take k)).max = c.max := by
  have hnd : c.table.Nodup := r.table.nodup_iff.mpr r.nodup
  have hnd' : (c.table.take k).Nodup := hnd.sublist (List.take_sublist _ _)
  -- the chain order, split into the nodes that are not moved and those that are
  have hperm : l.Perm (c.table.drop k ++ c.table.take k) := by
    have : c.table.Perm (c.table.drop k ++ c.table.take k) := by
      have h := List.take_append_drop k c.table
      exact (List.perm_append_comm.trans (List.Perm.of_eq h)).symm
    exact r.table.symm.trans this
  have hdisj : ∀ a ∈ c.table.drop k, a ∉ c.table.take k := by
    intro a ha hb
    have h := List.take_append_drop k c.table
    rw [← h] at hnd
    exact (List.nodup_append.mp hnd).2.2 a hb a ha rfl
  obtain ⟨cur', r', _, _, hf, hs, _, _, _, hm⟩ :=
    moveAll_rep (c.table.take k) c l (c.table.drop k) r.toRepM hnd' hperm hdisj
  exact ⟨cur', r', hs, hf, hm⟩

/-- **The reallocation guard.** Whatever the table order and however many entries were already moved
when the re-hash panicked: the structure left behind is the well-formed *empty* cache — the seal
closed on itself, no full bucket, the old allocation dead and referenced by nothing, no invalid access
— with limit unchanged, total 0 and the new table's shape. -/
theorem reallocateAbort_rep {c : CacheB} {l : List Nat} (n k : Nat) (r : Rep c l) :
    Rep (c.reallocateAbort n k) [] ∧ (c.reallocateAbort n k).cur = 0 ∧
    (c.reallocateAbort n k).max = c.max ∧ (c.reallocateAbort n k).shape = (c.shape.rebuilt n).cleared ∧
    (c.reallocateAbort n k).sl = c.sl := by
  obtain ⟨cur', r', hs, hf, hm⟩ := moveAll_take_repM r k
  have hsl : (c.moveAll (c.table.take k)).st (c.moveAll (c.table.take k)).sl = .sealed := r'.sealSt
  refine ⟨⟨⟨?_, by simp⟩, ?_, ?_, ?_, ?_, ?_, ?_, ?_⟩, rfl, ?_, rfl, ?_⟩
  · simp [CacheB.reallocateAbort, CacheB.setPrev, CacheB.setNext, Chain.Chain]
  · intro a
    simp only [List.not_mem_nil, false_iff]
    simp only [CacheB.reallocateAbort, CacheB.setPrev, CacheB.setNext]
    by_cases h1 : a = (c.moveAll (c.table.take k)).sl
    · subst h1; rw [if_pos rfl, hsl]; simp
    · rw [if_neg h1]
      by_cases h2 : a < c.fresh
      · simp [h2]
      · rw [if_neg h2]
        by_cases h3 : (c.moveAll (c.table.take k)).st a = SlotSt.full
        · simp [h3]
        · simp [h3]
  · simp [CacheB.reallocateAbort, CacheB.setPrev, CacheB.setNext, hsl]
  · intro a ha
    simp only [CacheB.reallocateAbort, CacheB.setPrev, CacheB.setNext] at ha ⊢
    by_cases h1 : a = (c.moveAll (c.table.take k)).sl
    · exact h1
    · rw [if_neg h1] at ha
      by_cases h2 : a < c.fresh
      · simp [h2] at ha
      · rw [if_neg h2] at ha
        by_cases h3 : (c.moveAll (c.table.take k)).st a = SlotSt.full
        · simp [h3] at ha
        · rw [if_neg h3] at ha; exact r'.oneSeal a ha
  · simp
  · simp [CacheB.reallocateAbort, CacheB.setPrev, CacheB.setNext]
  · intro a ha
    simp only [CacheB.reallocateAbort, CacheB.setPrev, CacheB.setNext] at ha ⊢
    have hd := r'.freshDead a ha
    by_cases h1 : a = (c.moveAll (c.table.take k)).sl
    · rw [h1, hsl] at hd; cases hd
    · rw [if_neg h1]
      by_cases h2 : a < c.fresh
      · simp [h2]
      · simp [h2, hd]
  · simp [CacheB.reallocateAbort, CacheB.setPrev, CacheB.setNext, CacheB.writable, r'.noUb, hsl]
  · simp [CacheB.reallocateAbort, CacheB.setPrev, CacheB.setNext, hm]
  · simp [CacheB.reallocateAbort, CacheB.setPrev, CacheB.setNext, hs]

/-- … and its abstraction is Level A's `guardEmptied`. -/
theorem reallocateAbort_abs {c : CacheB} {l : List Nat} (n k : Nat) (r : Rep c l) :
    (c.reallocateAbort n k).abs = guardEmptied c.abs n := by
  obtain ⟨r', hc, hm, hsh, _⟩ := reallocateAbort_rep n k r
  rw [r'.abs_eq, hc, hm, hsh]
  simp [guardEmptied, CacheB.abs]

/-- abstraction of an eviction prefix -/
theorem evictN_abs {c : CacheB} {l : List Nat} (k tomb : Nat) (r : Rep c l) (hk : k ≤ l.length) :
    (c.evictN k tomb).abs =
      { entries := (l.map c.ent).drop k, cur := subSizes c.cur ((l.map c.ent).take k), max := c.max,
        shape := c.shape.remove k tomb } := by
  obtain ⟨r', he, hc, hm, hs, _, _⟩ := evictN_rep k l c tomb r hk
  rw [r'.abs_eq, he, hc, hm, hs, List.map_drop, List.map_take]

/-! ### `insert` -/

theorem insertAbort_refines {p : Params} {c : CacheB} {l : List Nat} (k : Key) (v : Val) (o : Oracle)
    (kind : CbKind) (n : Nat) (h : RefW c l) :
    ∃ l', Rep (c.insertAbort p k v o kind n) l' ∧
      (c.insertAbort p k v o kind n).abs = (LruMem.insertAbort p c.abs k v o kind n).cache := by
  have hmax : c.abs.max = c.max := rfl
  have hcur : c.abs.cur = c.cur := rfl
  have hshape : c.abs.shape = c.shape := rfl
  by_cases hk : kind = .hash
  rotate_left
  · refine ⟨l, ?_, ?_⟩
    · cases kind <;> first | exact absurd rfl hk | simpa [CacheB.insertAbort] using h.rep
    · cases kind <;> first | exact absurd rfl hk | simp [CacheB.insertAbort, LruMem.insertAbort, abortRes]
  subst hk
  by_cases hn : n ≤ 1
  · exact ⟨l, by simpa [CacheB.insertAbort, hn] using h.rep, by simp [CacheB.insertAbort, LruMem.insertAbort, hn, abortRes]⟩
  obtain ⟨l1, r1, habs1, hent1, hsome, hmap1⟩ := dedupe_refinesW k.id o.tombs h
  have htomb : (if (c.find k.id).isSome then o.tombs - 1 else o.tombs) = o.tombs - oldCount (lookup c.abs.entries k.id) := by
    rw [hsome]; cases lookup c.abs.entries k.id <;> simp [oldCount]
  have hoc : oldCount (lookup c.abs.entries k.id) ≤ 1 := by cases lookup c.abs.entries k.id <;> simp [oldCount]
  obtain ⟨l2, r2, h1, h2, h3, h4, h5, _, h7, _⟩ :=
    ejectTo_refines (target := c.max - entrySize p k v) l1 _ (o.tombs - oldCount (lookup c.abs.entries k.id))
      ((c.dedupe k.id o.tombs).table.length + 1) r1 (by rw [r1.length]; omega)
  have hcur1 : (c.dedupe k.id o.tombs).cur = c.cur - oldSize (lookup c.abs.entries k.id) := by
    have := congrArg Cache.cur habs1; simpa [CacheB.abs] using this
  have hmax1 : (c.dedupe k.id o.tombs).max = c.max := by
    have := congrArg Cache.max habs1; simpa [CacheB.abs] using this
  have hshape1 : (c.dedupe k.id o.tombs).shape = c.shape.remove (oldCount (lookup c.abs.entries k.id)) o.tombs := by
    have := congrArg Cache.shape habs1; simpa [CacheB.abs] using this
  rw [hent1, hmap1, hcur1] at h1 h2 h4
  rw [hmax1] at h3
  rw [hshape1, Shape.remove_add _ _ _ _ hoc] at h4
  -- the number of evictions, as Level B computes it
  have hne : (c.dedupe k.id o.tombs).table.length -
      ((c.dedupe k.id o.tombs).ejectTo ((c.dedupe k.id o.tombs).table.length + 1) (c.max - entrySize p k v)
        (o.tombs - oldCount (lookup c.abs.entries k.id))).table.length =
      (eject (removeId c.abs.entries k.id) (c.cur - oldSize (lookup c.abs.entries k.id)) (c.max - entrySize p k v)).evicted.length := by
    have e1 := eject_length (removeId c.abs.entries k.id) (c.cur - oldSize (lookup c.abs.entries k.id)) (c.max - entrySize p k v)
    have e2 : l2.length = (eject (removeId c.abs.entries k.id) (c.cur - oldSize (lookup c.abs.entries k.id)) (c.max - entrySize p k v)).rest.length := by
      rw [← h1, List.length_map]
    have e3 : l1.length = (removeId c.abs.entries k.id).length := by rw [← hmap1, List.length_map]
    have e4 := r1.length
    have e5 := r2.length
    omega
  by_cases hj : n - 1 ≤ (eject (removeId c.abs.entries k.id) (c.cur - oldSize (lookup c.abs.entries k.id)) (c.max - entrySize p k v)).evicted.length
  · -- a prefix of the eviction loop
    have hlen : n - 1 - 1 ≤ l1.length := by
      have e1 := eject_length (removeId c.abs.entries k.id) (c.cur - oldSize (lookup c.abs.entries k.id)) (c.max - entrySize p k v)
      have e3 : l1.length = (removeId c.abs.entries k.id).length := by rw [← hmap1, List.length_map]
      omega
    obtain ⟨r3, _⟩ := evictN_rep (n - 1 - 1) l1 _ (o.tombs - oldCount (lookup c.abs.entries k.id)) r1 hlen
    refine ⟨l1.drop (n - 1 - 1), ?_, ?_⟩
    · simpa [CacheB.insertAbort, hn, htomb, hne, hj] using r3
    · have := evictN_abs (n - 1 - 1) (o.tombs - oldCount (lookup c.abs.entries k.id)) r1 hlen
      simp only [CacheB.insertAbort, hn, htomb, hne, hj, if_true, if_false]
      rw [this, hent1, hmap1, hcur1, hmax1, hshape1, Shape.remove_add _ _ _ _ hoc]
      simp [LruMem.insertAbort, hn, hj, hmax, hcur, hshape, abortRes, evictPrefix]
  · -- the growth of `insert_unchecked`: the guard fires
    obtain ⟨r3, _⟩ := reallocateAbort_rep (Nat.max (2 * ((c.dedupe k.id o.tombs).ejectTo ((c.dedupe k.id o.tombs).table.length + 1) (c.max - entrySize p k v)
        (o.tombs - oldCount (lookup c.abs.entries k.id))).shape.capacity) 1)
      (n - 1 - (eject (removeId c.abs.entries k.id) (c.cur - oldSize (lookup c.abs.entries k.id)) (c.max - entrySize p k v)).evicted.length - 1) r2
    refine ⟨[], ?_, ?_⟩
    · simpa [CacheB.insertAbort, hn, htomb, hne, hj] using r3
    · simp only [CacheB.insertAbort, hn, htomb, hne, hj, if_false]
      rw [reallocateAbort_abs _ _ r2, r2.abs_eq, h1, h2, h3, h4]
      simp [LruMem.insertAbort, hn, hj, hmax, hcur, hshape, abortRes, guardEmptied, Shape.capacity]

/-! ### `try_insert`, `set_max_size`, the capacity operations -/

theorem tryInsertAbort_refines (p : Params) {c : CacheB} {l : List Nat} (k : Key) (v : Val) (o : Oracle)
    (kind : CbKind) (n : Nat) (h : RefW c l) :
    ∃ l', Rep (c.tryInsertAbort kind n) l' ∧
      (c.tryInsertAbort kind n).abs = (LruMem.tryInsertAbort p c.abs k v o kind n).cache := by
  by_cases hk : kind = .hash
  rotate_left
  · refine ⟨l, ?_, ?_⟩
    · cases kind <;> first | exact absurd rfl hk | simpa [CacheB.tryInsertAbort] using h.rep
    · cases kind <;> first | exact absurd rfl hk | simp [CacheB.tryInsertAbort, LruMem.tryInsertAbort, abortRes]
  subst hk
  by_cases hn : n ≤ 1
  · exact ⟨l, by simpa [CacheB.tryInsertAbort, hn] using h.rep,
      by simp [CacheB.tryInsertAbort, LruMem.tryInsertAbort, hn, abortRes]⟩
  · obtain ⟨r3, _⟩ := reallocateAbort_rep (Nat.max (2 * c.shape.capacity) 1) (n - 2) h.rep
    refine ⟨[], by simpa [CacheB.tryInsertAbort, hn] using r3, ?_⟩
    simp only [CacheB.tryInsertAbort, hn, if_false]
    rw [reallocateAbort_abs _ _ h.rep]
    simp [LruMem.tryInsertAbort, hn, abortRes, CacheB.abs]

/-- `set_max_size` aborted in the hash of its `n`-th eviction, provided the loop gets that far. -/
theorem setMaxAbort_refines {c : CacheB} {l : List Nat} (m : Nat) (o : Oracle) (n : Nat) (r : Rep c l)
    (hn : n - 1 ≤ l.length) :
    Rep (c.evictN (n - 1) o.tombs) (l.drop (n - 1)) ∧
      (c.evictN (n - 1) o.tombs).abs = (setMaxAbort c.abs m o n).cache := by
  obtain ⟨r3, _⟩ := evictN_rep (n - 1) l c o.tombs r hn
  refine ⟨r3, ?_⟩
  rw [evictN_abs _ _ r hn]
  simp [setMaxAbort, abortRes, evictPrefix, CacheB.abs, r.order]

theorem rebuildAbort_refines {c : CacheB} {l : List Nat} (req n : Nat) (r : Rep c l) :
    Rep (c.reallocateAbort req (n - 1)) [] ∧
      (c.reallocateAbort req (n - 1)).abs = (rebuildAbort c.abs req n).cache := by
  obtain ⟨r3, _⟩ := reallocateAbort_rep req (n - 1) r
  exact ⟨r3, by rw [reallocateAbort_abs _ _ r]; rfl⟩

/-! ### `mutate` -/

theorem inj_of_nodup_map {α β : Type} (f : α → β) : ∀ (l : List α), (l.map f).Nodup →
    ∀ a ∈ l, ∀ b ∈ l, f a = f b → a = b := by
  intro l
  induction l with
  | nil => intro _ a ha; cases ha
  | cons x l ih =>
    intro hnd a ha b hb hab
    simp only [List.map_cons, List.nodup_cons, List.mem_map, not_exists, not_and] at hnd
    simp only [List.mem_cons] at ha hb
    rcases ha with rfl | ha <;> rcases hb with rfl | hb
    · rfl
    · exact absurd hab.symm (hnd.1 b hb)
    · exact absurd hab (hnd.1 a ha)
    · exact ih hnd.2 a ha b hb hab

theorem mutateAbort_refines {p : Params} {c : CacheB} {l : List Nat} (id : Nat) (f : Val → Val × Nat) (o : Oracle)
    (kind : CbKind) (n : Nat) (h : RefW c l) (hlen : n - 2 ≤ l.length) :
    ∃ l', Rep (c.mutateAbort p id f o kind n) l' ∧
      (c.mutateAbort p id f o kind n).abs = (LruMem.mutateAbort p c.abs id f o kind n).cache := by
  have hnd : (ids (l.map c.ent)).Nodup := by rw [← h.rep.abs_entries]; exact h.inv.nodup
  cases hf : c.find id with
  | none =>
    have hl := (find_spec h.rep id).1 hf
    refine ⟨l, by simpa [CacheB.mutateAbort, hf] using h.rep, ?_⟩
    simp [CacheB.mutateAbort, hf, LruMem.mutateAbort, h.rep.abs_entries, hl, abortRes]
  | some x =>
    obtain ⟨hid, l1, l2, rfl⟩ := (find_spec h.rep id).2 x hf
    obtain ⟨hl, hrm⟩ := lookup_map_split (ent := c.ent) hnd
    rw [hid] at hl hrm
    have hndl := h.rep.nodup
    have hlA : lookup c.abs.entries id = some (c.ent x) := by rw [h.rep.abs_entries]; exact hl
    -- the closure has written the value in place
    let cw : CacheB := { c with ent := fun y => if y = x then { c.ent y with val := (f (c.ent x).val).1 } else c.ent y }
    have rw_ : Rep cw (l1 ++ x :: l2) := h.rep.congr rfl rfl rfl rfl rfl rfl rfl
    have hwritten : cw.abs.entries = c.abs.entries.map fun e => if e.key.id = id then { e with val := (f (c.ent x).val).1 } else e := by
      rw [rw_.abs_entries, h.rep.abs_entries, List.map_map]
      apply List.map_congr_left
      intro a ha
      by_cases hax : a = x
      · subst hax; simp [cw, hid]
      · have hne : (c.ent a).key.id ≠ id := by
          intro e
          -- two listed addresses with the same key id are equal
          have h1 : lookup ((l1 ++ x :: l2).map c.ent) (c.ent a).key.id = some (c.ent a) :=
            lookup_of_mem hnd (List.mem_map_of_mem ha)
          rw [e, hl] at h1
          have hnd' : ((l1 ++ x :: l2).map fun b => (c.ent b).key.id).Nodup := by
            have := hnd; simp only [ids, List.map_map] at this; exact this
          exact hax (inj_of_nodup_map _ _ hnd' a ha x (by simp) (by rw [e, hid]))
        simp [cw, hax, hne]
    have hcwabs : cw.abs = { c.abs with entries := c.abs.entries.map fun e => if e.key.id = id then { e with val := (f (c.ent x).val).1 } else e } := by
      have : cw.abs = { entries := cw.abs.entries, cur := c.cur, max := c.max, shape := c.shape } := rfl
      rw [this, hwritten]; rfl
    by_cases hk1 : kind = .szV
    · subst hk1
      by_cases hn : n ≤ 1
      · exact ⟨_, by simpa [CacheB.mutateAbort, hf, hn] using h.rep,
          by simp [CacheB.mutateAbort, hf, hn, LruMem.mutateAbort, hlA, abortRes]⟩
      · refine ⟨_, by simpa [CacheB.mutateAbort, hf, hn, cw] using rw_, ?_⟩
        have : c.mutateAbort p id f o .szV n = cw := by simp [CacheB.mutateAbort, hf, hn, cw]
        rw [this, hcwabs]
        simp [LruMem.mutateAbort, hlA, hn, abortRes]
    by_cases hk : kind = .hash
    rotate_left
    · refine ⟨l1 ++ x :: l2, ?_, ?_⟩
      · cases kind <;> first | exact absurd rfl hk | exact absurd rfl hk1 | simpa [CacheB.mutateAbort, hf] using h.rep
      · cases kind <;> first | exact absurd rfl hk | exact absurd rfl hk1 | simp [CacheB.mutateAbort, hf, LruMem.mutateAbort, hlA, abortRes]
    subst hk
    by_cases hn : n ≤ 1
    · exact ⟨_, by simpa [CacheB.mutateAbort, hf, hn] using h.rep,
        by simp [CacheB.mutateAbort, hf, hn, LruMem.mutateAbort, hlA, abortRes]⟩
    by_cases hgrow : valMemSize p (f (c.ent x).val).1 > valMemSize p (c.ent x).val
    rotate_left
    · exact ⟨_, by simpa [CacheB.mutateAbort, hf, hn, hgrow] using h.rep,
        by simp [CacheB.mutateAbort, hf, hn, hgrow, LruMem.mutateAbort, hlA, abortRes]⟩
    by_cases hbig : (c.ent x).size + (valMemSize p (f (c.ent x).val).1 - valMemSize p (c.ent x).val) > c.max
    · have : c.mutateAbort p id f o .hash n = cw := by simp [CacheB.mutateAbort, hf, hn, hgrow, hbig, cw]
      have hbigA : (c.ent x).size + (valMemSize p (f (c.ent x).val).1 - valMemSize p (c.ent x).val) > c.abs.max := hbig
      refine ⟨_, by rw [this]; exact rw_, ?_⟩
      rw [this, hcwabs]
      simp [LruMem.mutateAbort, hlA, hn, hgrow, hbigA, abortRes]
    · let diff := valMemSize p (f (c.ent x).val).1 - valMemSize p (c.ent x).val
      let e' : Entry := { c.ent x with val := (f (c.ent x).val).1, size := (c.ent x).size + diff }
      let cg : CacheB :=
        { cw with ent := (fun y => if y = x then { cw.ent y with size := (c.ent x).size + diff } else cw.ent y),
                  cur := c.cur + diff }
      have rg : Rep cg (l1 ++ x :: l2) := h.rep.congr rfl rfl rfl rfl rfl rfl rfl
      have hcgx : cg.ent x = e' := by simp [cg, cw, e']
      have hcgne : ∀ a, a ≠ x → cg.ent a = c.ent a := fun a ha => by simp [cg, cw, ha]
      obtain ⟨rt, hentt, hct, hmt, hst, hslt⟩ := touchPtr_rep rg
      have hlen' : n - 2 ≤ (l1 ++ l2 ++ [x]).length := by simp at hlen ⊢; omega
      obtain ⟨r3, _⟩ := evictN_rep (n - 2) _ _ o.tombs rt hlen'
      have hB : c.mutateAbort p id f o .hash n = (cg.touchPtr x).evictN (n - 2) o.tombs := by
        simp only [cg, cw, diff, CacheB.mutateAbort, hf, hn, hgrow, hbig, if_true, if_false]
      have hentmap : (l1 ++ l2 ++ [x]).map cg.ent = removeId ((l1 ++ x :: l2).map c.ent) id ++ [e'] := by
        rw [hrm, List.map_append, map_update_ent hcgne hndl]
        simp [hcgx]
      have hbigA : ¬ (c.ent x).size + (valMemSize p (f (c.ent x).val).1 - valMemSize p (c.ent x).val) > c.abs.max := hbig
      refine ⟨_, by rw [hB]; exact r3, ?_⟩
      rw [hB, evictN_abs _ _ rt hlen', hentt, hct, hmt, hst, hentmap]
      simp only [LruMem.mutateAbort, hlA, hn, hgrow, hbigA, if_true, if_false, abortRes, evictPrefix, touchList, hid]
      rw [h.rep.abs_entries]
      have e1 : n - 1 - 1 = n - 2 := by omega
      simp [cg, cw, e', diff, CacheB.abs, e1]

/-! ### `retain` -/

theorem retainAbortGoB_refines (pr : Nat → Key → Val → Bool) (kind : CbKind) :
    ∀ (cur pre : List Nat) (c : CacheB) (n i tomb fuel : Nat), RefW c (pre ++ cur) → cur.length < fuel →
    ∃ l', RefW (CacheB.retainAbortGoB pr kind fuel c ((cur.head?).getD c.sl) n i tomb) l' ∧
      l'.map (CacheB.retainAbortGoB pr kind fuel c ((cur.head?).getD c.sl) n i tomb).ent =
        pre.map c.ent ++ (retainAbortGo pr kind n i (cur.map c.ent)).1 ∧
      (CacheB.retainAbortGoB pr kind fuel c ((cur.head?).getD c.sl) n i tomb).cur =
        subSizes c.cur (retainAbortGo pr kind n i (cur.map c.ent)).2.1 ∧
      (CacheB.retainAbortGoB pr kind fuel c ((cur.head?).getD c.sl) n i tomb).max = c.max ∧
      (CacheB.retainAbortGoB pr kind fuel c ((cur.head?).getD c.sl) n i tomb).shape =
        c.shape.remove (retainAbortGo pr kind n i (cur.map c.ent)).2.1.length tomb := by
  intro cur
  induction cur with
  | nil =>
    intro pre c n i tomb fuel h hf
    cases fuel with
    | zero => omega
    | succ fuel =>
      have hstep : CacheB.retainAbortGoB pr kind (fuel + 1) c c.sl n i tomb = c := by simp [CacheB.retainAbortGoB]
      simp only [List.head?_nil, Option.getD_none, hstep, List.map_nil, retainAbortGo, subSizes, List.length_nil,
        Shape.remove_zero, List.append_nil]
      exact ⟨pre, by simpa using h, by simp, trivial, trivial, trivial⟩
  | cons x cur ih =>
    intro pre c n i tomb fuel h hf
    cases fuel with
    | zero => omega
    | succ fuel =>
      have hxmem : x ∈ pre ++ x :: cur := by simp
      have hxs : x ≠ c.sl := fun e => h.rep.sl_not_mem (e ▸ hxmem)
      have ho := owns_of_mem h.rep hxmem
      have hprev := h.rep.prev_of (l1 := pre) (l2 := cur) (x := x)
      have hread : c.readable x = true := h.rep.readable_mem (by simp)
      simp only [List.head?_cons, Option.getD_some, List.map_cons, retainAbortGo]
      by_cases hp1 : kind = .pred ∧ n ≤ 1
      · -- the predicate call for this entry panics: nothing more happens
        have hstep : CacheB.retainAbortGoB pr kind (fuel + 1) c x n i tomb = c := by
          simp [CacheB.retainAbortGoB, hxs, hp1]
        rw [hstep]
        simp only [if_pos hp1, subSizes, List.length_nil, Shape.remove_zero]
        exact ⟨pre ++ x :: cur, h, by simp, trivial, trivial, trivial⟩
      by_cases hk : pr i (c.ent x).key (c.ent x).val = true
      · have hstep : CacheB.retainAbortGoB pr kind (fuel + 1) c x n i tomb =
            CacheB.retainAbortGoB pr kind fuel c ((cur.head?).getD c.sl) (if kind = .pred then n - 1 else n) (i + 1) tomb := by
          simp [CacheB.retainAbortGoB, hxs, ho, check_true, hk, hprev, hp1]
        have h' : RefW c ((pre ++ [x]) ++ cur) := by simpa using h
        obtain ⟨l', r', e1, e2, e3, e4⟩ := ih (pre ++ [x]) c (if kind = .pred then n - 1 else n) (i + 1) tomb fuel h' (by simp at hf; omega)
        rw [hstep]
        refine ⟨l', r', ?_, ?_, e3, ?_⟩
        · simp only [if_neg hp1, hk, if_true]; rw [e1]; simp
        · simp only [if_neg hp1, hk, if_true]; exact e2
        · simp only [if_neg hp1, hk, if_true]; exact e4
      have hk' : pr i (c.ent x).key (c.ent x).val = false := by simpa using hk
      by_cases hp2 : kind = .hash ∧ n ≤ 1
      · -- the lookup of `remove_entry` panics: the entry stays
        have hstep : CacheB.retainAbortGoB pr kind (fuel + 1) c x n i tomb = c := by
          simp [CacheB.retainAbortGoB, hxs, ho, check_true, hk', hp1, hp2]
        rw [hstep]
        simp only [if_neg hp1, hk', Bool.false_eq_true, if_false, if_pos hp2, subSizes, List.length_nil,
          Shape.remove_zero]
        exact ⟨pre ++ x :: cur, h, by simp, trivial, trivial, trivial⟩
      · have hfind := find_agreesW h x hxmem
        obtain ⟨r1, hent1, hc1, hm1, hs1, hsl1, hvac, hlk, _⟩ := removeAt_rep tomb h.rep
        have hinv1 : InvW (c.removeAt x tomb).abs := by
          obtain ⟨_, _, habs⟩ := removeEntry_refinesW (c.ent x).key.id ⟨tomb, false, true⟩ h
          have : c.removeEntry (c.ent x).key.id ⟨tomb, false, true⟩ = c.removeAt x tomb := by
            simp [CacheB.removeEntry, hfind]
          rw [this] at habs
          rw [habs]
          exact invW_removeEntry _ _ h.inv
        have hread1 : (c.removeAt x tomb).readable x = true := by simp [CacheB.readable, hvac]
        have hstep : CacheB.retainAbortGoB pr kind (fuel + 1) c x n i tomb =
            CacheB.retainAbortGoB pr kind fuel (c.removeAt x tomb) ((cur.head?).getD (c.removeAt x tomb).sl) (n - 1) (i + 1) (tomb - 1) := by
          simp [CacheB.retainAbortGoB, hxs, ho, check_true, hk', hfind, hread1, hlk, hprev, hsl1, hp1, hp2]
        obtain ⟨l', r', e1, e2, e3, e4⟩ := ih pre (c.removeAt x tomb) (n - 1) (i + 1) (tomb - 1) fuel ⟨r1, hinv1⟩ (by simp at hf; omega)
        rw [hstep]
        refine ⟨l', r', ?_, ?_, ?_, ?_⟩
        · simp only [if_neg hp1, hk', Bool.false_eq_true, if_false, if_neg hp2]; rw [e1, hent1]
        · simp only [if_neg hp1, hk', Bool.false_eq_true, if_false, if_neg hp2, subSizes]; rw [e2, hent1, hc1]
        · rw [e3, hm1]
        · simp only [if_neg hp1, hk', Bool.false_eq_true, if_false, if_neg hp2, List.length_cons]
          rw [e4, hent1, hs1]
          exact Shape.remove_succ _ _ _

theorem retainAbort_refines {c : CacheB} {l : List Nat} (pr : Nat → Key → Val → Bool) (o : Oracle)
    (kind : CbKind) (n : Nat) (h : RefW c l) :
    ∃ l', RefW (c.retainAbort pr o kind n) l' ∧
      (c.retainAbort pr o kind n).abs = (LruMem.retainAbort c.abs pr o kind n).cache := by
  have hhead : (c.links c.sl).prev = (l.head?).getD c.sl := (seal_ends _ _ _ h.rep.chain).1
  obtain ⟨l', r', e1, e2, e3, e4⟩ := retainAbortGoB_refines pr kind l [] c n 0 o.tombs (c.table.length + 1) (by simpa using h)
    (by rw [h.rep.length]; omega)
  refine ⟨l', by simpa [CacheB.retainAbort, hhead] using r', ?_⟩
  simp only [CacheB.retainAbort, hhead]
  rw [r'.rep.abs_eq, e1, e2, e3, e4]
  simp [LruMem.retainAbort, abortRes, CacheB.abs, h.rep.order]

end LruMem
