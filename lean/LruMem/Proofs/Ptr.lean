import LruMem.Proofs.Chain
import LruMem.Proofs.Reach
/-!
# Level B invariant (`Rep`) and the specifications of the pointer primitives
-/
namespace LruMem
open LruMem.Chain

/-- `c` represents the LRU→MRU address list `l`: the links form the closed chain through the seal,
exactly the listed addresses are full buckets of the current table (and still own their entries),
there is one seal, nothing beyond the allocation counter is alive, and no invalid access has
happened. -/
structure Rep (c : CacheB) (l : List Nat) : Prop where
  chain : LInv c.links c.sl l
  full : ∀ a, a ∈ l ↔ c.st a = .full
  sealSt : c.st c.sl = .sealed
  oneSeal : ∀ a, c.st a = .sealed → a = c.sl
  owns : ∀ a ∈ l, c.has a = true
  table : c.table.Perm l
  freshDead : ∀ a, c.fresh ≤ a → c.st a = .dead
  noUb : c.ub = false

theorem Rep.sl_not_mem {c : CacheB} {l : List Nat} (r : Rep c l) : c.sl ∉ l := by
  have := r.chain.2; simp at this; exact this.1

theorem Rep.nodup {c : CacheB} {l : List Nat} (r : Rep c l) : l.Nodup := by
  have := r.chain.2; simp at this; exact this.2

theorem Rep.length {c : CacheB} {l : List Nat} (r : Rep c l) : c.table.length = l.length := r.table.length_eq

theorem Rep.order {c : CacheB} {l : List Nat} (r : Rep c l) : c.order = l := by
  unfold CacheB.order
  rw [r.length]
  exact walkPrev_eq _ _ _ r.chain

/-- Forward and backward traversal are mirror images of exactly `len` nodes. -/
theorem Rep.mirror {c : CacheB} {l : List Nat} (r : Rep c l) :
    CacheB.walkNext c.links c.sl c.table.length (c.links c.sl).next = c.order.reverse ∧
    c.order.length = c.table.length := by
  rw [r.order, r.length]
  exact ⟨walkNext_eq _ _ _ r.chain, rfl⟩

theorem Rep.writable_mem {c : CacheB} {l : List Nat} (r : Rep c l) {a : Nat} (h : a ∈ c.sl :: l) :
    c.writable a = true := by
  simp only [List.mem_cons] at h
  rcases h with rfl | h
  · simp [CacheB.writable, r.sealSt]
  · simp [CacheB.writable, (r.full a).mp h]

theorem Rep.readable_mem {c : CacheB} {l : List Nat} (r : Rep c l) {a : Nat} (h : a ∈ c.sl :: l) :
    c.readable a = true := by
  simp only [List.mem_cons] at h
  rcases h with rfl | h
  · simp [CacheB.readable, r.sealSt]
  · simp [CacheB.readable, (r.full a).mp h]

/-- The neighbours of a listed node are listed nodes or the seal: `next` leads towards the LRU end
(into `seal :: l1`), `prev` towards the MRU end (into `l2 ++ [seal]`). -/
theorem Rep.neighbours {c : CacheB} {l1 l2 : List Nat} {x : Nat} (r : Rep c (l1 ++ x :: l2)) :
    (c.links x).prev ∈ c.sl :: (l1 ++ x :: l2) ∧ (c.links x).next ∈ c.sl :: (l1 ++ x :: l2) ∧
    (c.links x).next ∈ c.sl :: l1 ∧ (c.links x).prev ∈ l2 ++ [c.sl] := by
  obtain ⟨hc, _⟩ := r.chain
  obtain ⟨X, a, hXa⟩ := last_split c.sl l1
  obtain ⟨b, Y, hbY⟩ : ∃ b Y, l2 ++ [c.sl] = b :: Y := by
    cases l2 with
    | nil => exact ⟨c.sl, [], rfl⟩
    | cons d ds => exact ⟨d, ds ++ [c.sl], rfl⟩
  have hpath : c.sl :: (l1 ++ x :: l2) ++ [c.sl] = X ++ a :: x :: b :: Y := by
    have : c.sl :: (l1 ++ x :: l2) ++ [c.sl] = (c.sl :: l1) ++ x :: (l2 ++ [c.sl]) := by simp
    rw [this, hXa, hbY]; simp
  rw [hpath, chain_append] at hc
  obtain ⟨_, _, hxa, hxb, _, _⟩ := hc
  have ha : a ∈ c.sl :: l1 := by rw [hXa]; simp
  have hb : b ∈ l2 ++ [c.sl] := by rw [hbY]; simp
  refine ⟨?_, ?_, hxa ▸ ha, hxb ▸ hb⟩
  · rw [hxb]; simp at hb ⊢; rcases hb with h | h
    · exact Or.inr (Or.inr (Or.inr h))
    · exact Or.inl h
  · rw [hxa]; simp at ha ⊢; rcases ha with h | h
    · exact Or.inl h
    · exact Or.inr (Or.inl h)

/-! ### the link functions of the primitives are the heap-level ones of `Chain` -/

theorem setNext_links (c : CacheB) (a v : Nat) : (c.setNext a v).links = Chain.setNext c.links a v := rfl
theorem setPrev_links (c : CacheB) (a v : Nat) : (c.setPrev a v).links = Chain.setPrev c.links a v := rfl

theorem unhinge_links (c : CacheB) (x : Nat) : (c.unhinge x).links = Chain.unhinge c.links x := rfl

theorem setHead_links (c : CacheB) (x : Nat) :
    (c.setHead x).links = Chain.insertBetween c.links x c.sl (c.links c.sl).next := rfl

/-- frame of the link-only primitives -/
theorem unhinge_frame (c : CacheB) (x : Nat) :
    (c.unhinge x).st = c.st ∧ (c.unhinge x).ent = c.ent ∧ (c.unhinge x).has = c.has ∧ (c.unhinge x).sl = c.sl ∧
    (c.unhinge x).table = c.table ∧ (c.unhinge x).cur = c.cur ∧ (c.unhinge x).max = c.max ∧
    (c.unhinge x).shape = c.shape ∧ (c.unhinge x).fresh = c.fresh :=
  ⟨rfl, rfl, rfl, rfl, rfl, rfl, rfl, rfl, rfl⟩

theorem setHead_frame (c : CacheB) (x : Nat) :
    (c.setHead x).st = c.st ∧ (c.setHead x).ent = c.ent ∧ (c.setHead x).has = c.has ∧ (c.setHead x).sl = c.sl ∧
    (c.setHead x).table = c.table ∧ (c.setHead x).cur = c.cur ∧ (c.setHead x).max = c.max ∧
    (c.setHead x).shape = c.shape ∧ (c.setHead x).fresh = c.fresh :=
  ⟨rfl, rfl, rfl, rfl, rfl, rfl, rfl, rfl, rfl⟩

theorem unhinge_ub (c : CacheB) (x : Nat) :
    (c.unhinge x).ub = (c.ub || !c.readable x || !c.writable (c.links x).prev || !c.writable (c.links x).next) := by
  simp [CacheB.unhinge, CacheB.check, CacheB.setPrev, CacheB.setNext, CacheB.writable, Bool.or_assoc]

theorem setHead_ub (c : CacheB) (x : Nat) :
    (c.setHead x).ub = (c.ub || !(c.readable c.sl && c.st x == .full) || !c.writable c.sl || !c.writable (c.links c.sl).next) := by
  simp [CacheB.setHead, CacheB.check, CacheB.setPrev, CacheB.setNext, CacheB.writable, Bool.or_assoc]

/-- `touch_ptr` on a listed node: it becomes the most-recently-used one, nothing else moves, no
invalid access. -/
theorem touchPtr_rep {c : CacheB} {l1 l2 : List Nat} {x : Nat} (r : Rep c (l1 ++ x :: l2)) :
    Rep (c.touchPtr x) (l1 ++ l2 ++ [x]) ∧ (c.touchPtr x).ent = c.ent ∧ (c.touchPtr x).cur = c.cur ∧
    (c.touchPtr x).max = c.max ∧ (c.touchPtr x).shape = c.shape ∧ (c.touchPtr x).sl = c.sl := by
  have hnd := r.nodup
  have hxs : x ≠ c.sl := fun e => r.sl_not_mem (by rw [← e]; simp)
  have hxnot : x ∉ c.sl :: (l1 ++ l2) := by
    simp only [List.mem_cons, List.mem_append, not_or]
    rw [List.nodup_append] at hnd
    refine ⟨hxs, fun h => hnd.2.2 x h x (by simp) rfl, ?_⟩
    have := hnd.2.1; simp at this; exact this.1
  have hu := unhinge_inv c.links c.sl l1 l2 x r.chain
  have hs := setHead_inv (Chain.unhinge c.links x) c.sl (l1 ++ l2) x hu hxnot
  obtain ⟨hp, hn, _, _⟩ := r.neighbours
  have hxfull : c.st x = .full := (r.full x).mp (by simp)
  -- the unhinged state
  have hub1 : (c.unhinge x).ub = false := by
    rw [unhinge_ub, r.noUb, r.readable_mem (by simp), r.writable_mem hp, r.writable_mem hn]; rfl
  have hmru : ((c.unhinge x).links c.sl).next ∈ c.sl :: (l1 ++ l2) := by
    rw [unhinge_links]
    have := (seal_ends _ _ _ hu).2
    rw [this]
    cases hl : (l1 ++ l2).getLast? with
    | none => simp
    | some z => simp; exact Or.inr (by simpa using List.mem_of_getLast? hl)
  have hw2 : (c.unhinge x).writable ((c.unhinge x).links c.sl).next = true := by
    have hmem : ((c.unhinge x).links c.sl).next ∈ c.sl :: (l1 ++ x :: l2) := by
      simp only [List.mem_cons, List.mem_append] at hmru ⊢
      rcases hmru with h | h | h
      · exact Or.inl h
      · exact Or.inr (Or.inl h)
      · exact Or.inr (Or.inr (Or.inr h))
    exact r.writable_mem hmem
  have hub2 : (c.touchPtr x).ub = false := by
    unfold CacheB.touchPtr
    have e : (c.unhinge x).sl = c.sl := rfl
    have h1 : (c.unhinge x).readable c.sl = true := r.readable_mem (a := c.sl) (by simp)
    have h2 : (c.unhinge x).writable c.sl = true := r.writable_mem (a := c.sl) (by simp)
    have h3 : ((c.unhinge x).st x == SlotSt.full) = true := by
      have : (c.unhinge x).st x = c.st x := rfl
      rw [this, hxfull]; rfl
    rw [setHead_ub, e, hub1, hw2, h1, h2, h3]; rfl
  have hperm : (l1 ++ x :: l2).Perm (l1 ++ l2 ++ [x]) :=
    (List.perm_middle).trans (List.perm_append_singleton x (l1 ++ l2)).symm
  refine ⟨⟨?_, ?_, r.sealSt, r.oneSeal, ?_, ?_, r.freshDead, hub2⟩, rfl, rfl, rfl, rfl, rfl⟩
  · show LInv (c.touchPtr x).links c.sl _
    unfold CacheB.touchPtr
    rw [setHead_links, unhinge_links]
    exact hs
  · intro a
    show a ∈ l1 ++ l2 ++ [x] ↔ c.st a = .full
    rw [← r.full a]; exact hperm.mem_iff.symm
  · intro a ha
    exact r.owns a (hperm.mem_iff.mpr ha)
  · exact r.table.trans hperm

theorem removeAt_links (c : CacheB) (x t : Nat) : (c.removeAt x t).links = Chain.unhinge c.links x := rfl

theorem mem_split_ne {l1 l2 : List Nat} {x a : Nat} (hnd : (l1 ++ x :: l2).Nodup) :
    a ∈ l1 ++ l2 ↔ (a ∈ l1 ++ x :: l2 ∧ a ≠ x) := by
  rw [List.nodup_append] at hnd
  have hx2 : x ∉ l2 := by have := hnd.2.1; simp at this; exact this.1
  have hx1 : x ∉ l1 := fun h => hnd.2.2 x h x (by simp) rfl
  simp only [List.mem_append, List.mem_cons]
  constructor
  · rintro (h | h)
    · exact ⟨Or.inl h, fun e => hx1 (e ▸ h)⟩
    · exact ⟨Or.inr (Or.inr h), fun e => hx2 (e ▸ h)⟩
  · rintro ⟨h | h | h, hne⟩
    · exact Or.inl h
    · exact absurd h hne
    · exact Or.inr h

/-- Removing a listed node: the bucket becomes vacant (its links stay readable), the neighbours are
joined, the total shrinks by the recorded size; no invalid access. -/
theorem removeAt_rep {c : CacheB} {l1 l2 : List Nat} {x : Nat} (t : Nat) (r : Rep c (l1 ++ x :: l2)) :
    Rep (c.removeAt x t) (l1 ++ l2) ∧ (c.removeAt x t).ent = c.ent ∧
    (c.removeAt x t).cur = c.cur - (c.ent x).size ∧ (c.removeAt x t).max = c.max ∧
    (c.removeAt x t).shape = c.shape.remove 1 t ∧ (c.removeAt x t).sl = c.sl ∧
    (c.removeAt x t).st x = .vacant ∧ (c.removeAt x t).links x = c.links x ∧
    (c.removeAt x t).fresh = c.fresh := by
  have hnd := r.nodup
  have hxs : x ≠ c.sl := fun e => r.sl_not_mem (by rw [← e]; simp)
  have hxfull : c.st x = .full := (r.full x).mp (by simp)
  obtain ⟨hp, hn, hn', hp'⟩ := r.neighbours
  have hu := unhinge_inv c.links c.sl l1 l2 x r.chain
  -- neighbours differ from x
  have hnd' := hnd
  rw [List.nodup_append] at hnd'
  have hpx : (c.links x).prev ≠ x := by
    intro e
    rw [e] at hp'
    simp only [List.mem_append, List.mem_singleton] at hp'
    rcases hp' with h | h
    · have := hnd'.2.1; simp at this; exact this.1 h
    · exact hxs h
  have hnx : (c.links x).next ≠ x := by
    intro e
    rw [e] at hn'
    simp only [List.mem_cons] at hn'
    rcases hn' with h | h
    · exact hxs h
    · exact hnd'.2.2 x h x (by simp) rfl
  have hstp : ∀ a, a ≠ x → (c.removeAt x t).st a = c.st a := by
    intro a ha; simp [CacheB.removeAt, CacheB.setPrev, CacheB.setNext, CacheB.check, ha]
  have hub : (c.removeAt x t).ub = false := by
    have ho : c.owns x = true := by simp [CacheB.owns, hxfull, r.owns x (by simp)]
    have w1 := r.writable_mem hp
    have w2 := r.writable_mem hn
    simp only [CacheB.writable] at w1 w2
    simp [CacheB.removeAt, CacheB.setPrev, CacheB.setNext, CacheB.check, CacheB.writable, r.noUb, ho, hxfull,
      hpx, hnx, w1, w2]
  refine ⟨⟨?_, ?_, ?_, ?_, ?_, ?_, ?_, hub⟩, rfl, rfl, rfl, rfl, rfl, ?_, ?_, rfl⟩
  · rw [removeAt_links]; exact hu
  · intro a
    rw [mem_split_ne hnd, r.full a]
    by_cases hax : a = x
    · subst hax
      simp [CacheB.removeAt, CacheB.setPrev, CacheB.setNext, CacheB.check]
    · rw [hstp a hax]; simp [hax]
  · show (c.removeAt x t).st c.sl = .sealed
    rw [hstp _ (Ne.symm hxs)]; exact r.sealSt
  · intro a ha
    by_cases hax : a = x
    · subst hax; simp [CacheB.removeAt, CacheB.setPrev, CacheB.setNext, CacheB.check] at ha
    · rw [hstp a hax] at ha; exact r.oneSeal a ha
  · intro a ha
    have := (mem_split_ne hnd).mp ha
    have hne : ¬ a = x := this.2
    show (if a = x then false else c.has a) = true
    rw [if_neg hne]; exact r.owns a this.1
  · show (c.table.erase x).Perm (l1 ++ l2)
    have h1 := r.table.erase x
    have hx1 : x ∉ l1 := by
      rw [List.nodup_append] at hnd; exact fun h => hnd.2.2 x h x (by simp) rfl
    have h2 : (l1 ++ x :: l2).erase x = l1 ++ l2 := by
      rw [List.erase_append_right _ hx1]; simp
    rw [h2] at h1; exact h1
  · intro a ha
    have hax : a ≠ x := by
      intro e; subst e
      have := r.freshDead a ha; rw [hxfull] at this; cases this
    rw [hstp a hax]; exact r.freshDead a ha
  · simp [CacheB.removeAt, CacheB.setPrev, CacheB.setNext, CacheB.check]
  · have : ∀ v, Chain.setNext c.links (c.links x).prev v x = c.links x := by
      intro v; simp [Chain.setNext, Ne.symm hpx]
    show Chain.setPrev (Chain.setNext c.links (c.links x).prev (c.links x).next) (c.links x).next (c.links x).prev x = c.links x
    simp [Chain.setPrev, Chain.setNext, Ne.symm hpx, Ne.symm hnx]

/-- A heap that differs only at addresses outside the path keeps the chain. -/
theorem linv_congr_off {h h' : Heap} {s : Nat} {l : List Nat} (hinv : LInv h s l)
    (hagree : ∀ a, a ∈ s :: l → h' a = h a) : LInv h' s l := by
  refine ⟨?_, hinv.2⟩
  apply chain_congr h h' _ _ _ hinv.1
  · intro x hx
    have : x ∈ s :: l ++ [s] := List.dropLast_subset _ hx
    rw [hagree x (by simp at this ⊢; rcases this with h | h | h <;> simp [h])]
  · intro x hx
    have : x ∈ s :: l ++ [s] := List.mem_of_mem_tail hx
    rw [hagree x (by simp at this ⊢; rcases this with h | h | h <;> simp [h])]

/-- `try_insert_no_grow` + `set_head` at a fresh bucket: the new node becomes the most-recently-used
one; buckets vacated earlier are dead from now on. -/
theorem insertFresh_rep {c : CacheB} {l : List Nat} (e : Entry) (reuse : Bool) (r : Rep c l) :
    Rep (c.insertFresh e reuse) (l ++ [c.fresh]) ∧
    (∀ a, a ∈ l → (c.insertFresh e reuse).ent a = c.ent a) ∧ (c.insertFresh e reuse).ent c.fresh = e ∧
    (c.insertFresh e reuse).cur = c.cur + e.size ∧ (c.insertFresh e reuse).max = c.max ∧
    (c.insertFresh e reuse).shape = c.shape.inserted reuse ∧ (c.insertFresh e reuse).sl = c.sl ∧
    (c.insertFresh e reuse).fresh = c.fresh + 1 := by
  have hdead : c.st c.fresh = .dead := r.freshDead _ (Nat.le_refl _)
  have hanot : c.fresh ∉ c.sl :: l := by
    simp only [List.mem_cons, not_or]
    constructor
    · intro e'; have := r.sealSt; rw [← e', hdead] at this; cases this
    · intro hm; have := (r.full _).mp hm; rw [hdead] at this; cases this
  have hne : ∀ a, a ∈ c.sl :: l → a ≠ c.fresh := fun a ha e' => hanot (e' ▸ ha)
  -- the heap after writing the new node (before `set_head`)
  let h1 : Heap := fun y => if y = c.fresh then ⟨c.sl, (c.links c.sl).next⟩ else c.links y
  have hinv1 : LInv h1 c.sl l := linv_congr_off r.chain (fun a ha => by simp [h1, hne a ha])
  have hs := setHead_inv h1 c.sl l c.fresh hinv1 hanot
  have hsl1 : h1 c.sl = c.links c.sl := by simp [h1, hne c.sl (by simp)]
  have hlinks : (c.insertFresh e reuse).links = Chain.insertBetween h1 c.fresh c.sl (h1 c.sl).next := rfl
  have hmru : (c.links c.sl).next ∈ c.sl :: l := by
    rw [(seal_ends _ _ _ r.chain).2]
    cases hl : l.getLast? with
    | none => simp
    | some z => simp; exact Or.inr (List.mem_of_getLast? hl)
  have hst : ∀ a, (c.insertFresh e reuse).st a = if a = c.fresh then .full else if c.st a = .vacant then .dead else c.st a := by
    intro a; rfl
  have hstm : ∀ a, a ∈ c.sl :: l → (c.insertFresh e reuse).st a = c.st a := by
    intro a ha
    rw [hst, if_neg (hne a ha)]
    have : c.st a ≠ .vacant := by
      simp only [List.mem_cons] at ha
      rcases ha with rfl | ha
      · rw [r.sealSt]; simp
      · rw [(r.full a).mp ha]; simp
    rw [if_neg this]
  have hub : (c.insertFresh e reuse).ub = false := by
    have w1 := r.writable_mem (a := c.sl) (by simp)
    have w2 := r.writable_mem hmru
    have r1 := r.readable_mem (a := c.sl) (by simp)
    simp only [CacheB.writable, CacheB.readable] at w1 w2 r1
    have e1 : c.st c.sl ≠ .vacant := by rw [r.sealSt]; simp
    have e2 : c.st (c.links c.sl).next ≠ .vacant := by
      have := hstm _ hmru; rw [hst, if_neg (hne _ hmru)] at this
      intro hv; rw [if_pos hv] at this; rw [hv] at this; cases this
    have n1 : ¬ c.sl = c.fresh := hne c.sl (by simp)
    have n2 : ¬ (c.links c.sl).next = c.fresh := hne _ hmru
    simp [CacheB.insertFresh, CacheB.setHead, CacheB.check, CacheB.setNext, CacheB.setPrev, CacheB.writable,
      CacheB.readable, r.noUb, n1, n2, e1, e2, w1, w2, r1]
  refine ⟨⟨?_, ?_, ?_, ?_, ?_, ?_, ?_, hub⟩, ?_, ?_, rfl, rfl, rfl, rfl, rfl⟩
  · rw [hlinks, hsl1]; rw [hsl1] at hs; exact hs
  · intro a
    rw [hst]
    by_cases ha : a = c.fresh
    · simp [ha]
    · simp only [List.mem_append, List.mem_singleton, ha, or_false, if_false]
      rw [r.full a]
      by_cases hv : c.st a = .vacant
      · simp [hv]
      · simp [hv]
  · show (c.insertFresh e reuse).st c.sl = .sealed
    rw [hstm c.sl (by simp)]; exact r.sealSt
  · intro a ha
    rw [hst] at ha
    by_cases h1 : a = c.fresh
    · simp [h1] at ha
    · rw [if_neg h1] at ha
      by_cases hv : c.st a = .vacant
      · simp [hv] at ha
      · rw [if_neg hv] at ha; exact r.oneSeal a ha
  · intro a ha
    show (if a = c.fresh then true else c.has a) = true
    simp only [List.mem_append, List.mem_singleton] at ha
    rcases ha with ha | ha
    · rw [if_neg (hne a (by simp [ha]))]; exact r.owns a ha
    · simp [ha]
  · show (c.table ++ [c.fresh]).Perm (l ++ [c.fresh])
    exact r.table.append_right _
  · intro a ha
    have ha' : c.fresh + 1 ≤ a := ha
    rw [hst, if_neg (by omega)]
    have := r.freshDead a (by omega)
    rw [this]; simp
  · intro a ha
    show (if a = c.fresh then e else c.ent a) = c.ent a
    rw [if_neg (hne a (by simp [ha]))]
  · show (if c.fresh = c.fresh then e else c.ent c.fresh) = e
    simp

/-! ### reallocation: the move loop -/

/-- State inside the move loop: the chain `cur` mixes nodes already moved to the new table and nodes
still in the old one; all of them are readable and own their entries. -/
structure RepM (c : CacheB) (cur : List Nat) : Prop where
  chain : LInv c.links c.sl cur
  live : ∀ a ∈ cur, c.st a = .full ∧ c.has a = true
  sealSt : c.st c.sl = .sealed
  oneSeal : ∀ a, c.st a = .sealed → a = c.sl
  freshDead : ∀ a, c.fresh ≤ a → c.st a = .dead
  noUb : c.ub = false

theorem Rep.toRepM {c : CacheB} {l : List Nat} (r : Rep c l) : RepM c l :=
  ⟨r.chain, fun a ha => ⟨(r.full a).mp ha, r.owns a ha⟩, r.sealSt, r.oneSeal, r.freshDead, r.noUb⟩

theorem moveOne_links (c : CacheB) (x : Nat) : (c.moveOne x).links = Chain.moveLinks c.links x c.fresh := by
  funext y
  simp only [CacheB.moveOne, CacheB.check, Chain.moveLinks, Chain.setPrev, Chain.setNext]
  by_cases h1 : y = (c.links x).next <;> by_cases h2 : y = (c.links x).prev <;> by_cases h3 : y = c.fresh <;> simp [h1, h2, h3]

/-- One iteration of the move loop keeps the mixed invariant: the node at `x` is replaced by the
fresh bucket, the entry travels with it, nothing else is disturbed, no invalid access (the old
table is still allocated, so neighbours that have not moved yet can be written). -/
theorem moveOne_rep {c : CacheB} {l1 l2 : List Nat} {x : Nat} (r : RepM c (l1 ++ x :: l2)) :
    RepM (c.moveOne x) (l1 ++ c.fresh :: l2) ∧
    (l1 ++ c.fresh :: l2).map (c.moveOne x).ent = (l1 ++ x :: l2).map c.ent ∧
    (c.moveOne x).fresh = c.fresh + 1 ∧ (c.moveOne x).sl = c.sl ∧ (c.moveOne x).st c.fresh = .full ∧
    (∀ a, a ≠ c.fresh → (c.moveOne x).st a = c.st a) ∧
    (c.moveOne x).cur = c.cur ∧ (c.moveOne x).max = c.max := by
  have hdead : c.st c.fresh = .dead := r.freshDead _ (Nat.le_refl _)
  have hx'not : c.fresh ∉ c.sl :: (l1 ++ x :: l2) := by
    simp only [List.mem_cons, not_or]
    constructor
    · intro e'; have := r.sealSt; rw [← e', hdead] at this; cases this
    · intro hm
      have := (r.live _ (by simpa using hm)).1; rw [hdead] at this; cases this
  have hmv := move_inv c.links c.sl l1 l2 x c.fresh r.chain hx'not
  have hxlive := r.live x (by simp)
  -- neighbours are on the path, hence readable
  obtain ⟨hc, hnd⟩ := r.chain
  have hnb : (c.links x).prev ∈ c.sl :: (l1 ++ x :: l2) ∧ (c.links x).next ∈ c.sl :: (l1 ++ x :: l2) := by
    obtain ⟨X, a, hXa⟩ := last_split c.sl l1
    obtain ⟨b, Y, hbY⟩ : ∃ b Y, l2 ++ [c.sl] = b :: Y := by
      cases l2 with
      | nil => exact ⟨c.sl, [], rfl⟩
      | cons d ds => exact ⟨d, ds ++ [c.sl], rfl⟩
    have hpath : c.sl :: (l1 ++ x :: l2) ++ [c.sl] = X ++ a :: x :: b :: Y := by
      have : c.sl :: (l1 ++ x :: l2) ++ [c.sl] = (c.sl :: l1) ++ x :: (l2 ++ [c.sl]) := by simp
      rw [this, hXa, hbY]; simp
    rw [hpath, chain_append] at hc
    obtain ⟨_, _, hxa, hxb, _, _⟩ := hc
    have ha : a ∈ c.sl :: l1 := by rw [hXa]; simp
    have hb : b ∈ l2 ++ [c.sl] := by rw [hbY]; simp
    constructor
    · rw [hxb]; simp at hb ⊢; rcases hb with h | h
      · exact Or.inr (Or.inr (Or.inr h))
      · exact Or.inl h
    · rw [hxa]; simp at ha ⊢; rcases ha with h | h
      · exact Or.inl h
      · exact Or.inr (Or.inl h)
  have hread : ∀ a, a ∈ c.sl :: (l1 ++ x :: l2) → c.st a ≠ .dead := by
    intro a ha
    simp only [List.mem_cons] at ha
    rcases ha with rfl | ha
    · rw [r.sealSt]; simp
    · rw [(r.live a ha).1]; simp
  have hne : ∀ a, a ∈ c.sl :: (l1 ++ x :: l2) → a ≠ c.fresh := fun a ha e' => hx'not (e' ▸ ha)
  have hst : ∀ a, (c.moveOne x).st a = if a = c.fresh then .full else c.st a := fun a => rfl
  have hub : (c.moveOne x).ub = false := by
    have ho : c.owns x = true := by simp [CacheB.owns, hxlive.1, hxlive.2]
    have r1 := hread _ hnb.1
    have r2 := hread _ hnb.2
    have n1 := hne _ hnb.1
    have n2 := hne _ hnb.2
    simp [CacheB.moveOne, CacheB.check, CacheB.readable, r.noUb, ho, n1, n2, r1, r2]
  refine ⟨⟨?_, ?_, ?_, ?_, ?_, hub⟩, ?_, rfl, rfl, by simp [hst], fun a ha => by simp [hst, ha], rfl, rfl⟩
  · rw [moveOne_links]; exact hmv
  · intro a ha
    have hhas : ∀ y, (c.moveOne x).has y = if y = c.fresh then true else if y = x then false else c.has y := fun y => rfl
    rw [hst, hhas]
    by_cases hf : a = c.fresh
    · simp [hf]
    · have hm : a ∈ l1 ++ l2 := by
        simp only [List.mem_append, List.mem_cons] at ha ⊢
        rcases ha with h | h | h
        · exact Or.inl h
        · exact absurd h hf
        · exact Or.inr h
      have hm' := (mem_split_ne hnd.of_cons).mp hm
      rw [if_neg hf, if_neg hf, if_neg hm'.2]
      exact r.live a hm'.1
  · show (c.moveOne x).st c.sl = .sealed
    rw [hst, if_neg (hne c.sl (by simp))]; exact r.sealSt
  · intro a ha
    rw [hst] at ha
    by_cases hf : a = c.fresh
    · simp [hf] at ha
    · rw [if_neg hf] at ha; exact r.oneSeal a ha
  · intro a ha
    have : c.fresh + 1 ≤ a := ha
    rw [hst, if_neg (by omega)]; exact r.freshDead a (by omega)
  · -- the entries travel with the nodes
    have hent : ∀ y, (c.moveOne x).ent y = if y = c.fresh then c.ent x else c.ent y := fun y => rfl
    simp only [List.map_append, List.map_cons]
    have h1 : l1.map (c.moveOne x).ent = l1.map c.ent := by
      apply List.map_congr_left; intro a ha
      rw [hent, if_neg (hne a (by simp [ha]))]
    have h2 : l2.map (c.moveOne x).ent = l2.map c.ent := by
      apply List.map_congr_left; intro a ha
      rw [hent, if_neg (hne a (by simp [ha]))]
    rw [h1, h2, hent]; simp

/-- The whole loop over the table `tbl` (any order): afterwards the chain runs through the new
buckets only — `cur ~ newAddrs` —, in the same LRU→MRU order with the same entries. -/
theorem moveAll_rep : ∀ (tbl : List Nat) (c : CacheB) (cur done : List Nat), RepM c cur → tbl.Nodup →
    cur.Perm (done ++ tbl) → (∀ a ∈ done, a ∉ tbl) →
    ∃ cur', RepM (c.moveAll tbl) cur' ∧ cur'.map (c.moveAll tbl).ent = cur.map c.ent ∧
      cur'.Perm (done ++ (List.range tbl.length).map (· + c.fresh)) ∧
      (c.moveAll tbl).fresh = c.fresh + tbl.length ∧ (c.moveAll tbl).sl = c.sl ∧
      (∀ a, a < c.fresh → (c.moveAll tbl).st a = c.st a) ∧
      (∀ a, c.fresh ≤ a → a < c.fresh + tbl.length → (c.moveAll tbl).st a = .full) ∧
      (c.moveAll tbl).cur = c.cur ∧ (c.moveAll tbl).max = c.max := by
  intro tbl
  induction tbl with
  | nil =>
    intro c cur done r _ hp _
    exact ⟨cur, r, rfl, by simpa using hp, rfl, rfl, fun _ _ => rfl, fun a h1 h2 => by simp at h2; omega, rfl, rfl⟩
  | cons x tbl ih =>
    intro c cur done r hnd hp hdone
    have hx : x ∈ cur := hp.mem_iff.mpr (by simp)
    obtain ⟨l1, l2, rfl⟩ := List.append_of_mem hx
    obtain ⟨r1, hent1, hf1, hs1, hfull1, hst1, hc1, hm1⟩ := moveOne_rep r
    simp only [List.nodup_cons] at hnd
    have hfresh_notin : c.fresh ∉ l1 ++ x :: l2 := by
      intro hm
      have := (r.live _ hm).1
      rw [r.freshDead _ (Nat.le_refl _)] at this; cases this
    have hp1 : (l1 ++ c.fresh :: l2).Perm ((done ++ [c.fresh]) ++ tbl) := by
      have h1 : (l1 ++ x :: l2).Perm (x :: (l1 ++ l2)) := List.perm_middle
      have h2 : (x :: (l1 ++ l2)).Perm (done ++ x :: tbl) := h1.symm.trans hp
      have h3 : (done ++ x :: tbl).Perm (x :: (done ++ tbl)) := List.perm_middle
      have h4 : (l1 ++ l2).Perm (done ++ tbl) := (List.perm_cons x).mp (h2.trans h3)
      have h5 : (l1 ++ c.fresh :: l2).Perm (c.fresh :: (l1 ++ l2)) := List.perm_middle
      refine h5.trans ((List.Perm.cons _ h4).trans ?_)
      have : (c.fresh :: (done ++ tbl)).Perm (done ++ c.fresh :: tbl) := List.perm_middle.symm
      simpa using this
    have hdone1 : ∀ a ∈ done ++ [c.fresh], a ∉ tbl := by
      intro a ha
      simp only [List.mem_append, List.mem_singleton] at ha
      rcases ha with ha | rfl
      · intro ht; exact hdone a ha (by simp [ht])
      · intro ht; exact hfresh_notin (hp.mem_iff.mpr (by simp [ht]))
    obtain ⟨cur', r', hent', hp', hf', hs', hst', hfull', hc', hm'⟩ := ih (c.moveOne x) _ (done ++ [c.fresh]) r1 hnd.2 hp1 hdone1
    refine ⟨cur', r', ?_, ?_, ?_, ?_, ?_, ?_, ?_, ?_⟩
    · show cur'.map ((c.moveOne x).moveAll tbl).ent = _
      rw [hent', hent1]
    · show cur'.Perm _
      refine hp'.trans ?_
      rw [hf1]
      simp only [List.length_cons, List.range_succ_eq_map, List.map_cons, List.map_map, List.append_assoc,
        List.singleton_append, Nat.zero_add]
      apply List.Perm.append_left
      apply List.Perm.cons
      apply List.Perm.of_eq
      apply List.map_congr_left
      intro a _; simp; omega
    · show ((c.moveOne x).moveAll tbl).fresh = _
      rw [hf', hf1]; simp; omega
    · show ((c.moveOne x).moveAll tbl).sl = _
      rw [hs', hs1]
    · intro a ha
      show ((c.moveOne x).moveAll tbl).st a = _
      rw [hst' a (by rw [hf1]; omega), hst1 a (by omega)]
    · intro a h1 h2
      show ((c.moveOne x).moveAll tbl).st a = _
      by_cases hfa : a = c.fresh
      · rw [hst' a (by rw [hf1]; omega), hfa, hfull1]
      · exact hfull' a (by rw [hf1]; omega) (by rw [hf1]; simp at h2; omega)
    · show ((c.moveOne x).moveAll tbl).cur = _
      rw [hc', hc1]
    · show ((c.moveOne x).moveAll tbl).max = _
      rw [hm', hm1]

/-- `move_to_table`: after the loop the old allocation is freed. The cache is represented by the new
buckets, in the same recency order with the same entries; every link points into the new table or
to the seal (nothing dangles into the freed one); no invalid access on the way. -/
theorem reallocate_rep {c : CacheB} {l : List Nat} (n : Nat) (r : Rep c l) :
    ∃ l', Rep (c.reallocate n) l' ∧ l'.map (c.reallocate n).ent = l.map c.ent ∧
      (c.reallocate n).cur = c.cur ∧ (c.reallocate n).max = c.max ∧
      (c.reallocate n).shape = c.shape.rebuilt n ∧ (c.reallocate n).sl = c.sl ∧
      (∀ a ∈ l', c.fresh ≤ a) := by
  have hnd : c.table.Nodup := r.table.nodup_iff.mpr r.nodup
  obtain ⟨cur', r', hent, hp, hf, hs, hst, hfull, hc, hm⟩ :=
    moveAll_rep c.table c l [] r.toRepM hnd (by simpa using r.table.symm) (by simp)
  simp only [List.nil_append] at hp
  have hrange : ∀ a, a ∈ (List.range c.table.length).map (· + c.fresh) ↔ (c.fresh ≤ a ∧ a < c.fresh + c.table.length) := by
    intro a
    simp only [List.mem_map, List.mem_range]
    constructor
    · rintro ⟨i, hi, rfl⟩; omega
    · intro ⟨h1, h2⟩; exact ⟨a - c.fresh, by omega, by omega⟩
  have hst' : ∀ a, (c.reallocate n).st a =
      if a < c.fresh ∧ a ≠ (c.moveAll c.table).sl then .dead else (c.moveAll c.table).st a := fun a => rfl
  have hslt : c.sl < c.fresh := by
    rcases Nat.lt_or_ge c.sl c.fresh with h | h
    · exact h
    · have := r.freshDead _ h; rw [r.sealSt] at this; cases this
  refine ⟨cur', ⟨r'.chain, ?_, ?_, ?_, ?_, ?_, ?_, r'.noUb⟩, hent, hc, hm, rfl, hs, ?_⟩
  · intro a
    rw [hp.mem_iff, hrange, hst', hs]
    constructor
    · intro ⟨h1, h2⟩
      rw [if_neg (by omega)]; exact hfull a h1 h2
    · intro h
      by_cases hlt : a < c.fresh ∧ a ≠ c.sl
      · rw [if_pos hlt] at h; cases h
      · rw [if_neg hlt] at h
        have hasl : a ≠ c.sl := by
          intro e; rw [e, ← hs, r'.sealSt] at h; cases h
        have h1 : c.fresh ≤ a := by
          rcases Nat.lt_or_ge a c.fresh with h' | h'
          · exact absurd ⟨h', hasl⟩ hlt
          · exact h'
        refine ⟨h1, ?_⟩
        rcases Nat.lt_or_ge a (c.fresh + c.table.length) with h' | h'
        · exact h'
        · have := r'.freshDead a (by rw [hf]; exact h'); rw [this] at h; cases h
  · show (c.reallocate n).st (c.moveAll c.table).sl = .sealed
    rw [hst', if_neg (by simp)]; exact r'.sealSt
  · intro a ha
    rw [hst'] at ha
    by_cases hlt : a < c.fresh ∧ a ≠ (c.moveAll c.table).sl
    · rw [if_pos hlt] at ha; cases ha
    · rw [if_neg hlt] at ha; exact r'.oneSeal a ha
  · intro a ha; exact (r'.live a ha).2
  · exact hp.symm
  · intro a ha
    have ha' : c.fresh + c.table.length ≤ a := by rw [← hf]; exact ha
    rw [hst', hs, if_neg (by omega)]
    exact r'.freshDead a ha
  · intro a ha
    exact ((hrange a).mp (hp.mem_iff.mp ha)).1

end LruMem
