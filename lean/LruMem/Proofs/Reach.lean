import LruMem.Proofs.Inv
/-!
# Reachable caches, clone, and the status of every step
-/
namespace LruMem

theorem ids_cloneEntries (l : List Entry) (base : Nat) : ids (cloneEntries l base) = ids l := by
  induction l generalizing base with
  | nil => rfl
  | cons e l ih => simp [cloneEntries, ih]

theorem sumSizes_cloneEntries (l : List Entry) (base : Nat) : sumSizes (cloneEntries l base) = sumSizes l := by
  induction l generalizing base with
  | nil => rfl
  | cons e l ih => simp [cloneEntries, ih]

theorem length_cloneEntries (l : List Entry) (base : Nat) : (cloneEntries l base).length = l.length := by
  induction l generalizing base with
  | nil => rfl
  | cons e l ih => simp [cloneEntries, ih]

theorem sizes_cloneEntries {p : Params} (l : List Entry) (base : Nat)
    (h : ∀ e ∈ l, e.size = entrySize p e.key e.val) :
    ∀ e ∈ cloneEntries l base, e.size = entrySize p e.key e.val := by
  induction l generalizing base with
  | nil => simp [cloneEntries]
  | cons a l ih =>
    intro e he
    simp only [cloneEntries, List.mem_cons] at he
    rcases he with rfl | he
    · have := h a (by simp)
      simpa [entrySize] using this
    · exact ih (base + 2) (fun x hx => h x (by simp [hx])) e he

/-- `Clone`: the copy satisfies the invariant and `insert_untracked` never hits its unchecked
`unwrap` (status `ok`, not `ub`). -/
theorem clone_inv {p : Params} {c : Cache} (base : Nat) (h : InvA p c) :
    InvA p (clone c base).1 ∧ (clone c base).2.2 = .ok := by
  have hcap : c.entries.length ≤ freshCap c.shape.capacity := by
    have := le_freshCap c.shape.capacity
    have := h.items
    simp only [Shape.capacity] at *
    omega
  refine ⟨⟨?_, ?_, ?_, ?_, ?_, ?_⟩, ?_⟩
  · simp only [clone, ids_cloneEntries]; exact h.nodup
  · simp only [clone]; exact sizes_cloneEntries _ _ h.sizes
  · simp only [clone, sumSizes_cloneEntries]; exact h.cur
  · exact h.bound
  · simp only [clone, length_cloneEntries]
  · show c.entries.length + (freshCap c.shape.capacity - c.entries.length) ≤ bucketsToCap (bucketsFor c.shape.capacity)
    have : freshCap c.shape.capacity = bucketsToCap (bucketsFor c.shape.capacity) := rfl
    omega
  · have hcap' : c.entries.length ≤ (Shape.fresh c.shape.capacity).growthLeft := hcap
    simp only [clone]
    rw [if_pos hcap']

/-- Caches reachable from a constructor by public operations (any oracle) and by cloning. -/
inductive Reachable (p : Params) : Cache → Prop
  | new (max n : Nat) : Reachable p (Cache.withCapacity max n)
  | step {c : Cache} (op : Op) (o : Oracle) : Reachable p c → Reachable p (step p c op o).cache
  | clone {c : Cache} (base : Nat) : Reachable p c → Reachable p (clone c base).1

theorem Cache.new_eq (max : Nat) : Cache.new max = Cache.withCapacity max 0 := rfl

theorem reachable_inv {p : Params} {c : Cache} (h : Reachable p c) : InvA p c := by
  induction h with
  | new max n => exact new_inv p max n
  | step op o _ ih => exact step_inv op o ih
  | clone base _ ih => exact (clone_inv base ih).1

/-- Running a whole history from a reachable cache stays reachable. -/
def runOps (p : Params) (c : Cache) : List (Op × Oracle) → Cache
  | [] => c
  | (op, o) :: rest => runOps p (step p c op o).cache rest

theorem reachable_runOps {p : Params} {c : Cache} (h : Reachable p c) (l : List (Op × Oracle)) :
    Reachable p (runOps p c l) := by
  induction l generalizing c with
  | nil => exact h
  | cons a l ih => exact ih (Reachable.step a.1 a.2 h)

/-- Is this operation one of those whose implementation `unwrap`s a failed reservation? -/
def Op.mayPanic : Op → Bool
  | .reserve _ | .shrinkTo _ | .shrinkToFit => true
  | _ => false

/-- No step diverges or hits undefined behaviour; a step panics only in `reserve`/`shrink_to`
(`unwrap` of a refused reservation), and then the cache is unchanged. -/
theorem step_status {p : Params} {c : Cache} (op : Op) (o : Oracle) (h : InvA p c) :
    (step p c op o).status = .ok ∨
    ((step p c op o).status = .implPanic ∧ op.mayPanic = true ∧ (step p c op o).cache = c) := by
  cases op with
  | insert k v => exact Or.inl (insert_inv k v o h).2
  | tryInsert k v => exact Or.inl (tryInsert_inv k v o h).2
  | setMaxSize m => exact Or.inl (setMaxSize_inv m o h).2
  | mutate id f => exact Or.inl (mutate_inv id f o h).2
  | tryReserve a => exact Or.inl (tryReserve_inv a o h).2
  | cloneProbe base => exact Or.inl (clone_inv base h).2
  | reserve a =>
    simp only [step, reserve]
    split
    · exact Or.inr ⟨rfl, rfl, rfl⟩
    · split
      · split
        · exact Or.inl rfl
        · exact Or.inr ⟨rfl, rfl, rfl⟩
      · exact Or.inl rfl
  | shrinkTo m =>
    simp only [step, shrinkTo]
    split
    · split
      · split
        · exact Or.inl rfl
        · exact Or.inl rfl
      · exact Or.inr ⟨rfl, rfl, rfl⟩
    · exact Or.inl rfl
  | shrinkToFit =>
    simp only [step, shrinkToFit, shrinkTo]
    split
    · split
      · split
        · exact Or.inl rfl
        · exact Or.inl rfl
      · exact Or.inr ⟨rfl, rfl, rfl⟩
    · exact Or.inl rfl
  | get id => simp only [step, get, getEntry]; split <;> exact Or.inl rfl
  | getEntry id => simp only [step, getEntry]; split <;> exact Or.inl rfl
  | touch id => simp only [step, touch, getEntry]; split <;> exact Or.inl rfl
  | peek id => exact Or.inl rfl
  | peekEntry id => exact Or.inl rfl
  | contains id => exact Or.inl rfl
  | remove id => simp only [step, remove, removeEntry]; split <;> (try split) <;> exact Or.inl rfl
  | removeEntry id => simp only [step, removeEntry]; split <;> exact Or.inl rfl
  | removeLru => simp only [step, removeLru, removeEntry]; split <;> (try split) <;> exact Or.inl rfl
  | removeMru => simp only [step, removeMru, removeEntry]; split <;> (try split) <;> exact Or.inl rfl
  | getLru => simp only [step, getLru]; split <;> exact Or.inl rfl
  | peekLru => exact Or.inl rfl
  | peekMru => exact Or.inl rfl
  | retain pr => exact Or.inl rfl
  | clear => exact Or.inl rfl
  | iterate kind calls forget => exact Or.inl rfl
  | debugFmt => exact Or.inl rfl

end LruMem
