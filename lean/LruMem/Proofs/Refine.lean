import LruMem.Proofs.Ptr
import LruMem.Proofs.Lookup
/-!
# Refinement: every Level B operation preserves `Rep`, never touches dead memory, and its
abstraction is the Level A operation
-/
namespace LruMem
open LruMem.Chain

/-- Level B state `c` represents address list `l` and its abstraction satisfies the Level A invariant. -/
structure RefInv (p : Params) (c : CacheB) (l : List Nat) : Prop where
  rep : Rep c l
  inv : InvA p c.abs

theorem Rep.abs_entries {c : CacheB} {l : List Nat} (r : Rep c l) : c.abs.entries = l.map c.ent := by
  simp [CacheB.abs, r.order]

theorem Rep.abs_eq {c : CacheB} {l : List Nat} (r : Rep c l) :
    c.abs = { entries := l.map c.ent, cur := c.cur, max := c.max, shape := c.shape } := by
  simp [CacheB.abs, r.order]

/-! ### table lookup vs. list lookup -/

theorem lookup_map_split {ent : Nat → Entry} {l1 l2 : List Nat} {x : Nat}
    (hnd : (ids ((l1 ++ x :: l2).map ent)).Nodup) :
    lookup ((l1 ++ x :: l2).map ent) (ent x).key.id = some (ent x) ∧
    removeId ((l1 ++ x :: l2).map ent) (ent x).key.id = (l1 ++ l2).map ent := by
  induction l1 with
  | nil => simp [lookup_cons, removeId_cons]
  | cons a l1 ih =>
    simp only [List.cons_append, List.map_cons, ids_cons, List.nodup_cons] at hnd
    have hne : ¬ (ent a).key.id = (ent x).key.id := by
      intro e
      apply hnd.1
      rw [e]
      simp [ids]
    obtain ⟨h1, h2⟩ := ih hnd.2
    simp only [List.cons_append, List.map_cons, lookup_cons, removeId_cons, hne, if_false, h1, h2]
    exact ⟨trivial, trivial⟩

theorem find_spec {c : CacheB} {l : List Nat} (r : Rep c l) (id : Nat) :
    (c.find id = none → lookup (l.map c.ent) id = none) ∧
    (∀ x, c.find id = some x → (c.ent x).key.id = id ∧ ∃ l1 l2, l = l1 ++ x :: l2) := by
  constructor
  · intro h
    rw [lookup_none_iff]
    intro hm
    obtain ⟨e, he, hid⟩ := mem_ids.mp hm
    obtain ⟨a, ha, rfl⟩ := List.mem_map.mp he
    have := List.find?_eq_none.mp h a (r.table.mem_iff.mpr ha)
    simp [hid] at this
  · intro x h
    have h1 := List.find?_some h
    have h2 := List.mem_of_find?_eq_some h
    refine ⟨by simpa using h1, ?_⟩
    obtain ⟨l1, l2, e⟩ := List.append_of_mem (r.table.mem_iff.mp h2)
    exact ⟨l1, l2, e⟩

theorem find_none_of_lookup {c : CacheB} {l : List Nat} (r : Rep c l) (id : Nat)
    (h : lookup (l.map c.ent) id = none) : c.find id = none := by
  cases hf : c.find id with
  | none => rfl
  | some x =>
    obtain ⟨hid, l1, l2, rfl⟩ := (find_spec r id).2 x hf
    rw [lookup_none_iff] at h
    exfalso; apply h
    rw [← hid]; simp [ids]

/-! ### accesses that promote -/

theorem getEntry_refines {p : Params} {c : CacheB} {l : List Nat} (id : Nat) (h : RefInv p c l) :
    ∃ l', RefInv p (c.getEntry id) l' ∧ (c.getEntry id).abs = (getEntry c.abs id).cache := by
  have hnd : (ids (l.map c.ent)).Nodup := by rw [← h.rep.abs_entries]; exact h.inv.nodup
  cases hf : c.find id with
  | none =>
    have := (find_spec h.rep id).1 hf
    refine ⟨l, ?_, ?_⟩
    · simpa [CacheB.getEntry, hf] using h
    · simp [CacheB.getEntry, hf, getEntry, h.rep.abs_entries, this]
  | some x =>
    obtain ⟨hid, l1, l2, rfl⟩ := (find_spec h.rep id).2 x hf
    obtain ⟨r', he, hc, hm, hs, _⟩ := touchPtr_rep h.rep
    obtain ⟨hl, hrm⟩ := lookup_map_split (ent := c.ent) hnd
    rw [hid] at hl hrm
    have habs : (c.touchPtr x).abs = (getEntry c.abs id).cache := by
      rw [r'.abs_eq, he, hc, hm, hs]
      simp only [getEntry, h.rep.abs_entries, hl, touchList, hid, hrm]
      simp [CacheB.abs]
    refine ⟨_, ⟨by simpa [CacheB.getEntry, hf] using r', ?_⟩, by simpa [CacheB.getEntry, hf] using habs⟩
    simp only [CacheB.getEntry, hf]
    rw [habs]
    exact getEntry_inv id h.inv

/-- The abstraction after removing a listed node. -/
theorem removeAt_abs {c : CacheB} {l1 l2 : List Nat} {x : Nat} (t : Nat) (r : Rep c (l1 ++ x :: l2)) :
    (c.removeAt x t).abs = { entries := (l1 ++ l2).map c.ent, cur := c.cur - (c.ent x).size, max := c.max,
                             shape := c.shape.remove 1 t } := by
  obtain ⟨r', he, hc, hm, hs, _⟩ := removeAt_rep t r
  rw [r'.abs_eq, he, hc, hm, hs]

theorem removeEntry_refines {p : Params} {c : CacheB} {l : List Nat} (id : Nat) (o : Oracle) (h : RefInv p c l) :
    ∃ l', RefInv p (c.removeEntry id o) l' ∧ (c.removeEntry id o).abs = (removeEntry c.abs id o).cache := by
  have hnd : (ids (l.map c.ent)).Nodup := by rw [← h.rep.abs_entries]; exact h.inv.nodup
  cases hf : c.find id with
  | none =>
    have := (find_spec h.rep id).1 hf
    refine ⟨l, ?_, ?_⟩
    · simpa [CacheB.removeEntry, hf] using h
    · simp [CacheB.removeEntry, hf, removeEntry, h.rep.abs_entries, this]
  | some x =>
    obtain ⟨hid, l1, l2, rfl⟩ := (find_spec h.rep id).2 x hf
    obtain ⟨r', _⟩ := removeAt_rep o.tombs h.rep
    obtain ⟨hl, hrm⟩ := lookup_map_split (ent := c.ent) hnd
    rw [hid] at hl hrm
    have habs : (c.removeAt x o.tombs).abs = (removeEntry c.abs id o).cache := by
      rw [removeAt_abs o.tombs h.rep]
      simp only [removeEntry, h.rep.abs_entries, hl, hrm]
      simp [CacheB.abs]
    refine ⟨_, ⟨by simpa [CacheB.removeEntry, hf] using r', ?_⟩, by simpa [CacheB.removeEntry, hf] using habs⟩
    simp only [CacheB.removeEntry, hf]
    rw [habs]
    exact removeEntry_inv id o h.inv

/-- `lru_ptr` / `mru_ptr` are the ends of the represented list. -/
theorem ends_spec {c : CacheB} {l : List Nat} (r : Rep c l) :
    c.lruPtr = l.head? ∧ c.mruPtr = l.getLast? := by
  obtain ⟨h1, h2⟩ := seal_ends _ _ _ r.chain
  have hs := r.sl_not_mem
  constructor
  · simp only [CacheB.lruPtr, h1]
    cases l with
    | nil => simp
    | cons a l =>
      have : ¬ a = c.sl := fun e => hs (by simp [e])
      simp [this]
  · simp only [CacheB.mruPtr, h2]
    cases hl : l.getLast? with
    | none => simp
    | some z =>
      have : ¬ z = c.sl := fun e => hs (e ▸ List.mem_of_getLast? hl)
      simp [this]

theorem getLru_refines {p : Params} {c : CacheB} {l : List Nat} (h : RefInv p c l) :
    ∃ l', RefInv p c.getLru l' ∧ c.getLru.abs = (getLru c.abs).cache := by
  have hnd : (ids (l.map c.ent)).Nodup := by rw [← h.rep.abs_entries]; exact h.inv.nodup
  have he := (ends_spec h.rep).1
  cases l with
  | nil =>
    refine ⟨[], ?_, ?_⟩
    · simpa [CacheB.getLru, he] using h
    · simp [CacheB.getLru, he, getLru, lruOf, h.rep.abs_entries]
  | cons x l2 =>
    have hr : Rep c ([] ++ x :: l2) := h.rep
    obtain ⟨r', hent, hc, hm, hs, _⟩ := touchPtr_rep hr
    obtain ⟨_, hrm⟩ := lookup_map_split (ent := c.ent) (l1 := []) (l2 := l2) (x := x) hnd
    have habs : (c.touchPtr x).abs = (getLru c.abs).cache := by
      rw [r'.abs_eq, hent, hc, hm, hs]
      simp only [getLru, lruOf, h.rep.abs_entries, List.map_cons, List.head?_cons, touchList]
      simp only [List.nil_append, List.map_cons] at hrm
      rw [hrm]
      simp [CacheB.abs]
    refine ⟨_, ⟨by simpa [CacheB.getLru, he] using r', ?_⟩, by simpa [CacheB.getLru, he] using habs⟩
    simp only [CacheB.getLru, he, List.head?_cons]
    rw [habs]
    exact getLru_inv h.inv

/-! ### the eviction loop -/

theorem Shape.remove_zero (s : Shape) (t : Nat) : s.remove 0 t = s := by
  cases s; simp [Shape.remove]

/-- Removing one by one with a dwindling tombstone budget is the bulk accounting of Level A. -/
theorem Shape.remove_succ (s : Shape) (k t : Nat) : (s.remove 1 t).remove k (t - 1) = s.remove (k + 1) t := by
  cases s with
  | mk b i g =>
    simp only [Shape.remove, Shape.mk.injEq, true_and]
    constructor
    · omega
    · simp only [Nat.min_def]
      split <;> split <;> split <;> omega

theorem ejectTo_refines {target : Nat} : ∀ (l : List Nat) (c : CacheB) (tomb fuel : Nat), Rep c l → l.length < fuel →
    ∃ l', Rep (c.ejectTo fuel target tomb) l' ∧
      l'.map (c.ejectTo fuel target tomb).ent = (eject (l.map c.ent) c.cur target).rest ∧
      (c.ejectTo fuel target tomb).cur = (eject (l.map c.ent) c.cur target).cur ∧
      (c.ejectTo fuel target tomb).max = c.max ∧
      (c.ejectTo fuel target tomb).shape = c.shape.remove (eject (l.map c.ent) c.cur target).evicted.length tomb ∧
      (c.ejectTo fuel target tomb).sl = c.sl ∧ l'.Sublist l ∧
      (c.ejectTo fuel target tomb).ent = c.ent ∧ (c.ejectTo fuel target tomb).fresh = c.fresh := by
  intro l
  induction l with
  | nil =>
    intro c tomb fuel r hf
    cases fuel with
    | zero => omega
    | succ fuel =>
      have he := (ends_spec r).1
      have hstep : c.ejectTo (fuel + 1) target tomb = c := by
        simp only [CacheB.ejectTo, he, List.head?_nil]
        split <;> rfl
      rw [hstep]
      refine ⟨[], r, ?_, ?_, rfl, ?_, rfl, List.Sublist.refl _, rfl, rfl⟩ <;>
        simp [eject, Shape.remove_zero]
  | cons a l ih =>
    intro c tomb fuel r hf
    cases fuel with
    | zero => omega
    | succ fuel =>
      have he := (ends_spec r).1
      simp only [List.head?_cons] at he
      by_cases hgt : c.cur > target
      · have hr : Rep c ([] ++ a :: l) := r
        obtain ⟨r', hent, hc, hm, hs, hsl, _, _, hfr⟩ := removeAt_rep tomb hr
        obtain ⟨l', r'', h1, h2, h3, h4, h5, h6, h7, h8⟩ := ih (c.removeAt a tomb) (tomb - 1) fuel r' (by simp at hf; omega)
        refine ⟨l', ?_, ?_, ?_, ?_, ?_, ?_, ?_, ?_, ?_⟩
        · simpa [CacheB.ejectTo, hgt, he] using r''
        · simp only [CacheB.ejectTo, hgt, he, if_true, List.map_cons, eject]
          rw [h1, hent, hc]
        · simp only [CacheB.ejectTo, hgt, he, if_true, List.map_cons, eject]
          rw [h2, hent, hc]
        · simp only [CacheB.ejectTo, hgt, he, if_true]
          rw [h3, hm]
        · simp only [CacheB.ejectTo, hgt, he, if_true, List.map_cons, eject]
          rw [h4, hs, hent, hc]
          simp only [List.length_cons, List.nil_append]
          exact Shape.remove_succ _ _ _
        · simp only [CacheB.ejectTo, hgt, he, if_true]
          rw [h5, hsl]
        · exact (by simpa using h6 : l'.Sublist l).trans (List.sublist_cons_self _ _)
        · simp only [CacheB.ejectTo, hgt, he, if_true]
          rw [h7, hent]
        · simp only [CacheB.ejectTo, hgt, he, if_true]
          rw [h8, hfr]
      · refine ⟨a :: l, ?_, ?_, ?_, ?_, ?_, ?_, List.Sublist.refl _, ?_, ?_⟩ <;>
          simp [CacheB.ejectTo, hgt, eject, Shape.remove_zero, r]

/-! ### insertion -/

theorem rebuilt_canInsert {p : Params} {c : Cache} (h : InvA p c) :
    (c.shape.rebuilt (Nat.max (2 * c.shape.capacity) 1)).canInsert false = true := by
  have := le_freshCap (Nat.max (2 * c.shape.capacity) 1)
  have h1 : 1 ≤ Nat.max (2 * c.shape.capacity) 1 := Nat.le_max_right _ _
  have h2 : 2 * c.shape.capacity ≤ Nat.max (2 * c.shape.capacity) 1 := Nat.le_max_left _ _
  have hroom : 0 < (c.shape.rebuilt (Nat.max (2 * c.shape.capacity) 1)).growthLeft := by
    simp only [Shape.rebuilt, Shape.capacity] at *
    omega
  simp [Shape.canInsert, hroom]

theorem insertUnchecked_refines {p : Params} {c : CacheB} {l : List Nat} (e : Entry) (o : Oracle)
    (h : RefInv p c l) :
    ∃ l', Rep (c.insertUnchecked e o) l' ∧ (c.insertUnchecked e o).abs = (insertUnchecked c.abs e o).cache := by
  have habs := h.rep.abs_eq
  by_cases hcan : c.shape.canInsert o.reuse = true
  · obtain ⟨r', hent, hnew, hc, hm, hs, _, _⟩ := insertFresh_rep e o.reuse h.rep
    refine ⟨_, by simpa [CacheB.insertUnchecked, hcan] using r', ?_⟩
    have hcan' : c.abs.shape.canInsert o.reuse = true := hcan
    simp only [CacheB.insertUnchecked, hcan, if_true, insertUnchecked, hcan']
    rw [r'.abs_eq, hc, hm, hs, List.map_append, List.map_cons, List.map_nil, hnew]
    have : l.map (c.insertFresh e o.reuse).ent = l.map c.ent := List.map_congr_left (fun a ha => hent a ha)
    rw [this, habs]
  · obtain ⟨l1, r1, hent1, hc1, hm1, hs1, hsl1, _⟩ := reallocate_rep (Nat.max (2 * c.shape.capacity) 1) h.rep
    obtain ⟨r', hent, hnew, hc, hm, hs, _, _⟩ := insertFresh_rep e false r1
    refine ⟨_, by simpa [CacheB.insertUnchecked, hcan] using r', ?_⟩
    have hcan' : ¬ c.abs.shape.canInsert o.reuse = true := hcan
    have hcan2 : (c.abs.shape.rebuilt (Nat.max (2 * c.abs.shape.capacity) 1)).canInsert false = true :=
      rebuilt_canInsert h.inv
    simp only [CacheB.insertUnchecked, hcan, if_false, insertUnchecked, hcan', hcan2, if_true, Bool.false_eq_true]
    rw [r'.abs_eq, hc, hm, hs, List.map_append, List.map_cons, List.map_nil, hnew]
    have : l1.map ((c.reallocate (Nat.max (2 * c.shape.capacity) 1)).insertFresh e false).ent =
        l1.map (c.reallocate (Nat.max (2 * c.shape.capacity) 1)).ent := List.map_congr_left (fun a ha => hent a ha)
    rw [this, hent1, hc1, hm1, hs1, habs]

theorem new_rep (max n : Nat) : Rep (CacheB.new max n) [] := by
  refine ⟨⟨?_, by simp⟩, ?_, ?_, ?_, ?_, ?_, ?_, rfl⟩
  · simp [CacheB.new, Chain.Chain]
  · intro a; simp only [CacheB.new]; split <;> simp
  · simp [CacheB.new]
  · intro a ha
    simp only [CacheB.new] at ha ⊢
    by_cases h1 : a = 1
    · exact h1
    · rw [if_neg h1] at ha; cases ha
  · simp
  · simp [CacheB.new]
  · intro a ha
    have : 2 ≤ a := ha
    simp only [CacheB.new]
    rw [if_neg (by omega)]

theorem new_refinv (p : Params) (max n : Nat) : RefInv p (CacheB.new max n) [] := by
  refine ⟨new_rep max n, ?_⟩
  have : (CacheB.new max n).abs = Cache.withCapacity max n := by
    rw [(new_rep max n).abs_eq]; rfl
  rw [this]; exact new_inv p max n

theorem setMaxSize_refines {p : Params} {c : CacheB} {l : List Nat} (m : Nat) (o : Oracle) (h : RefInv p c l) :
    ∃ l', RefInv p (c.setMaxSize m o) l' ∧ (c.setMaxSize m o).abs = (setMaxSize c.abs m o).cache := by
  obtain ⟨l', r', h1, h2, h3, h4, h5, _, h7, _⟩ :=
    ejectTo_refines (target := m) l c o.tombs (c.table.length + 1) h.rep (by rw [h.rep.length]; omega)
  have r'' : Rep (c.setMaxSize m o) l' := by
    unfold CacheB.setMaxSize
    exact ⟨r'.chain, r'.full, r'.sealSt, r'.oneSeal, r'.owns, r'.table, r'.freshDead, r'.noUb⟩
  have habs : (c.setMaxSize m o).abs = (setMaxSize c.abs m o).cache := by
    rw [r''.abs_eq]
    simp only [CacheB.setMaxSize, setMaxSize, h.rep.abs_entries]
    rw [h1, h2, h4]
    simp [CacheB.abs]
  exact ⟨l', ⟨r'', by rw [habs]; exact (setMaxSize_inv m o h.inv).1⟩, habs⟩

/-- Does `reserve`/`try_reserve(a)` rebuild the table? -/
def reserveMoves (p : Params) (s : Shape) (a : Nat) (o : Oracle) : Bool :=
  !decide (s.items + a > p.usizeMax) && decide (s.capacity < s.items + a) && tableOk p (s.items + a) && o.allocOk

theorem reserveB_eq (p : Params) (c : CacheB) (a : Nat) (o : Oracle) :
    c.reserve p a o = if reserveMoves p c.shape a o then c.reallocate (c.shape.items + a) else c := by
  simp only [CacheB.reserve, reserveMoves]
  by_cases h1 : c.shape.items + a > p.usizeMax <;> by_cases h2 : c.shape.capacity < c.shape.items + a <;>
    by_cases h3 : tableOk p (c.shape.items + a) = true <;> by_cases h4 : o.allocOk = true <;> simp [h1, h2, h3, h4]

theorem reserveA_eq (p : Params) (c : Cache) (a : Nat) (o : Oracle) :
    (reserve p c a o).cache = (if reserveMoves p c.shape a o then (rebuild c (c.shape.items + a)).1 else c) ∧
    (tryReserve p c a o).cache = (if reserveMoves p c.shape a o then (rebuild c (c.shape.items + a)).1 else c) := by
  simp only [reserve, tryReserve, reserveMoves]
  by_cases h1 : c.shape.items + a > p.usizeMax <;> by_cases h2 : c.shape.capacity < c.shape.items + a <;>
    by_cases h3 : tableOk p (c.shape.items + a) = true <;> by_cases h4 : o.allocOk = true <;> simp [h1, h2, h3, h4]

theorem reallocate_refines {p : Params} {c : CacheB} {l : List Nat} (n : Nat) (h : RefInv p c l)
    (hn : c.shape.items ≤ freshCap n) :
    ∃ l', RefInv p (c.reallocate n) l' ∧ (c.reallocate n).abs = (rebuild c.abs n).1 := by
  obtain ⟨l1, r1, hent1, hc1, hm1, hs1, _, _⟩ := reallocate_rep n h.rep
  have e1 : (c.reallocate n).abs = (rebuild c.abs n).1 := by
    rw [r1.abs_eq, hent1, hc1, hm1, hs1, h.rep.abs_eq]; rfl
  exact ⟨l1, ⟨r1, by rw [e1]; exact rebuild_inv _ h.inv hn⟩, e1⟩

theorem reserve_refines {p : Params} {c : CacheB} {l : List Nat} (a : Nat) (o : Oracle) (h : RefInv p c l) :
    ∃ l', RefInv p (c.reserve p a o) l' ∧ (c.reserve p a o).abs = (reserve p c.abs a o).cache ∧
      (c.reserve p a o).abs = (tryReserve p c.abs a o).cache := by
  obtain ⟨e1, e2⟩ := reserveA_eq p c.abs a o
  rw [reserveB_eq, e1, e2]
  have hi : c.abs.shape = c.shape := rfl
  rw [hi]
  by_cases hm : reserveMoves p c.shape a o = true
  · simp only [hm, if_true]
    obtain ⟨l', r', e⟩ := reallocate_refines (c.shape.items + a) h (by have := le_freshCap (c.shape.items + a); omega)
    exact ⟨l', r', e, e⟩
  · have hm' : reserveMoves p c.shape a o = false := by simpa using hm
    rw [hm']
    exact ⟨l, h, rfl, rfl⟩

def shrinkMoves (p : Params) (s : Shape) (m : Nat) (o : Oracle) : Bool :=
  decide (s.capacity > Nat.max s.items m) && tableOk p (Nat.max s.items m) && o.allocOk &&
  decide (bucketsFor (Nat.max s.items m) < s.buckets ∧ freshCap (Nat.max s.items m) ≤ s.capacity)

theorem shrinkB_eq (p : Params) (c : CacheB) (m : Nat) (o : Oracle) :
    c.shrinkTo p m o = if shrinkMoves p c.shape m o then c.reallocate (Nat.max c.shape.items m) else c := by
  simp only [CacheB.shrinkTo, shrinkMoves]
  by_cases h1 : c.shape.capacity > Nat.max c.shape.items m <;>
    by_cases h3 : tableOk p (Nat.max c.shape.items m) = true <;> by_cases h4 : o.allocOk = true <;>
    by_cases h5 : (bucketsFor (Nat.max c.shape.items m) < c.shape.buckets ∧ freshCap (Nat.max c.shape.items m) ≤ c.shape.capacity) <;>
    simp [h1, h3, h4, h5]

theorem shrinkA_eq (p : Params) (c : Cache) (m : Nat) (o : Oracle) :
    (shrinkTo p c m o).cache = if shrinkMoves p c.shape m o then (rebuild c (Nat.max c.shape.items m)).1 else c := by
  simp only [shrinkTo, shrinkMoves]
  by_cases h1 : c.shape.capacity > Nat.max c.shape.items m <;>
    by_cases h3 : tableOk p (Nat.max c.shape.items m) = true <;> by_cases h4 : o.allocOk = true <;>
    by_cases h5 : (bucketsFor (Nat.max c.shape.items m) < c.shape.buckets ∧ freshCap (Nat.max c.shape.items m) ≤ c.shape.capacity) <;>
    simp [h1, h3, h4, h5]

theorem shrinkTo_refines {p : Params} {c : CacheB} {l : List Nat} (m : Nat) (o : Oracle) (h : RefInv p c l) :
    ∃ l', RefInv p (c.shrinkTo p m o) l' ∧ (c.shrinkTo p m o).abs = (shrinkTo p c.abs m o).cache := by
  rw [shrinkB_eq, shrinkA_eq]
  have hi : c.abs.shape = c.shape := rfl
  rw [hi]
  by_cases hm : shrinkMoves p c.shape m o = true
  · simp only [hm, if_true]
    exact reallocate_refines _ h (by
      have := le_freshCap (Nat.max c.shape.items m)
      have : c.shape.items ≤ Nat.max c.shape.items m := Nat.le_max_left _ _
      omega)
  · have hm' : shrinkMoves p c.shape m o = false := by simpa using hm
    rw [hm']
    exact ⟨l, h, rfl⟩

theorem Shape.remove_add (s : Shape) (oc k t : Nat) (hoc : oc ≤ 1) :
    (s.remove oc t).remove k (t - oc) = s.remove (oc + k) t := by
  have : oc = 0 ∨ oc = 1 := by omega
  rcases this with rfl | rfl
  · simp [Shape.remove_zero]
  · rw [Shape.remove_succ, Nat.add_comm]

/-- Step 1 of `insert`: the entry with the same key, if any, is removed. -/
theorem dedupe_refines {p : Params} {c : CacheB} {l : List Nat} (id : Nat) (t : Nat) (h : RefInv p c l) :
    ∃ l1, Rep (c.dedupe id t) l1 ∧
      (c.dedupe id t).abs =
        { entries := removeId c.abs.entries id, cur := c.cur - oldSize (lookup c.abs.entries id), max := c.max,
          shape := c.shape.remove (oldCount (lookup c.abs.entries id)) t } ∧
      (c.dedupe id t).ent = c.ent ∧
      (c.find id).isSome = (lookup c.abs.entries id).isSome ∧
      l1.map c.ent = removeId c.abs.entries id := by
  have hnd : (ids (l.map c.ent)).Nodup := by rw [← h.rep.abs_entries]; exact h.inv.nodup
  rw [h.rep.abs_entries]
  unfold CacheB.dedupe
  cases hf : c.find id with
  | none =>
    have hl := (find_spec h.rep id).1 hf
    have hrm : removeId (l.map c.ent) id = l.map c.ent := removeId_of_not_mem (lookup_none_iff.mp hl)
    refine ⟨l, h.rep, ?_, rfl, by rw [hl]; rfl, hrm.symm⟩
    simp only [hl, oldSize, oldCount, hrm, Shape.remove_zero, Nat.sub_zero]
    exact h.rep.abs_eq
  | some x =>
    obtain ⟨hid, l1, l2, rfl⟩ := (find_spec h.rep id).2 x hf
    obtain ⟨hl, hrm⟩ := lookup_map_split (ent := c.ent) hnd
    rw [hid] at hl hrm
    obtain ⟨r', he, _⟩ := removeAt_rep t h.rep
    refine ⟨l1 ++ l2, r', ?_, he, by rw [hl]; rfl, hrm.symm⟩
    simp only [hl, oldSize, oldCount, hrm]
    exact removeAt_abs t h.rep

theorem insert_refines {p : Params} {c : CacheB} {l : List Nat} (k : Key) (v : Val) (o : Oracle) (h : RefInv p c l) :
    ∃ l', RefInv p (c.insert p k v o) l' ∧ (c.insert p k v o).abs = (insert p c.abs k v o).cache := by
  have hmax : c.abs.max = c.max := rfl
  have hcur : c.abs.cur = c.cur := rfl
  have hshape : c.abs.shape = c.shape := rfl
  by_cases hs : entrySize p k v > c.max
  · refine ⟨l, ?_, ?_⟩
    · simpa [CacheB.insert, hs] using h
    · simp [CacheB.insert, insert, hs, hmax]
  · obtain ⟨l1, r1, habs1, hent1, hsome, hmap1⟩ := dedupe_refines k.id o.tombs h
    obtain ⟨hi, hd, hle, hnot⟩ := after_remove_eject h.inv k.id (c.max - entrySize p k v) o.tombs (by rw [hmax]; exact Nat.sub_le _ _)
    -- the tombstone budget left for the eviction loop
    have htomb : (if (c.find k.id).isSome then o.tombs - 1 else o.tombs) = o.tombs - oldCount (lookup c.abs.entries k.id) := by
      rw [hsome]; cases lookup c.abs.entries k.id <;> simp [oldCount]
    have hoc : oldCount (lookup c.abs.entries k.id) ≤ 1 := by cases lookup c.abs.entries k.id <;> simp [oldCount]
    -- step 2
    obtain ⟨l2, r2, h1, h2, h3, h4, h5, _, h7, _⟩ :=
      ejectTo_refines (target := c.max - entrySize p k v) l1 _ (o.tombs - oldCount (lookup c.abs.entries k.id))
        ((c.dedupe k.id o.tombs).table.length + 1) r1
        (by rw [r1.length]; omega)
    have hcur1 : (c.dedupe k.id o.tombs).cur =
        c.cur - oldSize (lookup c.abs.entries k.id) := by have := congrArg Cache.cur habs1; simpa [CacheB.abs] using this
    have hmax1 : (c.dedupe k.id o.tombs).max = c.max := by
      have := congrArg Cache.max habs1; simpa [CacheB.abs] using this
    have hshape1 : (c.dedupe k.id o.tombs).shape =
        c.shape.remove (oldCount (lookup c.abs.entries k.id)) o.tombs := by
      have := congrArg Cache.shape habs1; simpa [CacheB.abs] using this
    rw [hent1, hmap1, hcur1] at h1 h2 h4
    rw [hmax1] at h3
    rw [hshape1, Shape.remove_add _ _ _ _ hoc] at h4
    -- the state from which `insert_unchecked` is called
    have habs2 : ((c.dedupe k.id o.tombs).ejectTo
        ((c.dedupe k.id o.tombs).table.length + 1)
        (c.max - entrySize p k v) (o.tombs - oldCount (lookup c.abs.entries k.id))).abs =
        { c.abs with
          entries := (eject (removeId c.abs.entries k.id) (c.abs.cur - oldSize (lookup c.abs.entries k.id)) (c.abs.max - entrySize p k v)).rest,
          cur := (eject (removeId c.abs.entries k.id) (c.abs.cur - oldSize (lookup c.abs.entries k.id)) (c.abs.max - entrySize p k v)).cur,
          shape := c.abs.shape.remove (oldCount (lookup c.abs.entries k.id) +
            (eject (removeId c.abs.entries k.id) (c.abs.cur - oldSize (lookup c.abs.entries k.id)) (c.abs.max - entrySize p k v)).evicted.length) o.tombs } := by
      rw [r2.abs_eq, h1, h2, h3, h4]
      rfl
    obtain ⟨l3, r3, habs3⟩ := insertUnchecked_refines ⟨k, v, entrySize p k v⟩ o ⟨r2, by rw [habs2]; exact hi⟩
    have hfinal : (c.insert p k v o).abs = (insert p c.abs k v o).cache := by
      have hd' : (eject (removeId c.abs.entries k.id) (c.cur - oldSize (lookup c.abs.entries k.id))
          (c.max - entrySize p k v)).diverged = false := hd
      simp only [CacheB.insert, hs, if_false, htomb, insert, hmax, Bool.false_eq_true]
      rw [habs3, habs2]
      simp only [hmax, hcur, hd', Bool.false_eq_true, if_false]
    refine ⟨l3, ⟨?_, ?_⟩, hfinal⟩
    · simpa [CacheB.insert, hs, htomb] using r3
    · rw [hfinal]; exact (insert_inv k v o h.inv).1

theorem tryInsert_refines {p : Params} {c : CacheB} {l : List Nat} (k : Key) (v : Val) (o : Oracle) (h : RefInv p c l) :
    ∃ l', RefInv p (c.tryInsert p k v o) l' ∧ (c.tryInsert p k v o).abs = (tryInsert p c.abs k v o).cache := by
  have hmax : c.abs.max = c.max := rfl
  have hcur : c.abs.cur = c.cur := rfl
  by_cases h1 : entrySize p k v > c.max
  · refine ⟨l, by simpa [CacheB.tryInsert, h1] using h, by simp [CacheB.tryInsert, tryInsert, h1, hmax]⟩
  · by_cases h2 : entrySize p k v > c.max - c.cur
    · refine ⟨l, by simpa [CacheB.tryInsert, h1, h2] using h, by simp [CacheB.tryInsert, tryInsert, h1, h2, hmax, hcur]⟩
    · cases hf : c.find k.id with
      | some x =>
        obtain ⟨hid, l1, l2, rfl⟩ := (find_spec h.rep k.id).2 x hf
        have hnd : (ids ((l1 ++ x :: l2).map c.ent)).Nodup := by rw [← h.rep.abs_entries]; exact h.inv.nodup
        have hl := (lookup_map_split (ent := c.ent) hnd).1
        rw [hid, ← h.rep.abs_entries] at hl
        refine ⟨_, by simpa [CacheB.tryInsert, h1, h2, hf] using h, ?_⟩
        simp [CacheB.tryInsert, tryInsert, h1, h2, hf, hmax, hcur, hl]
      | none =>
        have hl := (find_spec h.rep k.id).1 hf
        rw [← h.rep.abs_entries] at hl
        obtain ⟨l3, r3, habs3⟩ := insertUnchecked_refines ⟨k, v, entrySize p k v⟩ o h
        have hfinal : (c.tryInsert p k v o).abs = (tryInsert p c.abs k v o).cache := by
          simp only [CacheB.tryInsert, tryInsert, h1, h2, hf, hmax, hcur, hl, if_false, Option.isSome_none,
            Bool.false_eq_true]
          exact habs3
        refine ⟨l3, ⟨by simpa [CacheB.tryInsert, h1, h2, hf] using r3, ?_⟩, hfinal⟩
        rw [hfinal]; exact (tryInsert_inv k v o h.inv).1

end LruMem
