import LruMem.Props.C07
/-!
# Refinement, continued: `remove_lru`/`remove_mru`, `clear`, `retain`, `mutate`
-/
namespace LruMem
open LruMem.Chain

theorem check_true (c : CacheB) : c.check true = c := by
  cases c; simp [CacheB.check]

theorem owns_of_mem {c : CacheB} {l : List Nat} (r : Rep c l) {a : Nat} (ha : a ∈ l) : c.owns a = true := by
  simp [CacheB.owns, (r.full a).mp ha, r.owns a ha]

theorem removeLru_refines {p : Params} {c : CacheB} {l : List Nat} (o : Oracle) (h : RefInv p c l) :
    ∃ l', RefInv p (c.removeLru o) l' ∧ (c.removeLru o).abs = (removeLru c.abs o).cache := by
  have he := (ends_spec h.rep).1
  cases l with
  | nil =>
    refine ⟨[], by simpa [CacheB.removeLru, he] using h, ?_⟩
    simp [CacheB.removeLru, he, removeLru, lruOf, h.rep.abs_entries]
  | cons x l2 =>
    have hfind := C07_find_agrees h x (by simp)
    have ho := owns_of_mem h.rep (a := x) (by simp)
    obtain ⟨l', r', habs⟩ := removeEntry_refines (c.ent x).key.id o h
    have hB : c.removeLru o = c.removeEntry (c.ent x).key.id o := by
      simp [CacheB.removeLru, he, hfind, ho, check_true, CacheB.removeEntry]
    have hA : (removeLru c.abs o).cache = (removeEntry c.abs (c.ent x).key.id o).cache := by
      simp [removeLru, lruOf, h.rep.abs_entries]
    rw [hB, hA]
    exact ⟨l', r', habs⟩

theorem removeMru_refines {p : Params} {c : CacheB} {l : List Nat} (o : Oracle) (h : RefInv p c l) :
    ∃ l', RefInv p (c.removeMru o) l' ∧ (c.removeMru o).abs = (removeMru c.abs o).cache := by
  have he := (ends_spec h.rep).2
  cases hl : l.getLast? with
  | none =>
    have : l = [] := by simpa using hl
    subst this
    refine ⟨[], by simpa [CacheB.removeMru, he] using h, ?_⟩
    simp [CacheB.removeMru, he, removeMru, mruOf, h.rep.abs_entries]
  | some x =>
    have hx : x ∈ l := List.mem_of_getLast? hl
    have hfind := C07_find_agrees h x hx
    have ho := owns_of_mem h.rep hx
    obtain ⟨l', r', habs⟩ := removeEntry_refines (c.ent x).key.id o h
    have hB : c.removeMru o = c.removeEntry (c.ent x).key.id o := by
      simp [CacheB.removeMru, he, hl, hfind, ho, check_true, CacheB.removeEntry]
    have hA : (removeMru c.abs o).cache = (removeEntry c.abs (c.ent x).key.id o).cache := by
      simp [removeMru, mruOf, h.rep.abs_entries, List.getLast?_map, hl]
    rw [hB, hA]
    exact ⟨l', r', habs⟩

/-- `clear`: every listed entry is still owned when it is dropped; afterwards the cache is the empty
one (buckets vacant, seal closed on itself). -/
theorem clear_refines {p : Params} {c : CacheB} {l : List Nat} (h : RefInv p c l) :
    RefInv p c.clear [] ∧ c.clear.abs = (clear c.abs).cache := by
  have hall : (c.table.all fun a => c.owns a) = true := by
    rw [List.all_eq_true]
    intro a ha
    exact owns_of_mem h.rep (h.rep.table.mem_iff.mp ha)
  have hsl : c.st c.sl = .sealed := h.rep.sealSt
  have hne : ¬ c.st c.sl = SlotSt.full := by rw [hsl]; simp
  have rep' : Rep c.clear [] := by
    refine ⟨⟨?_, by simp⟩, ?_, ?_, ?_, ?_, ?_, ?_, ?_⟩
    · simp [CacheB.clear, CacheB.setPrev, CacheB.setNext, CacheB.check, Chain.Chain]
    · intro a
      simp only [List.not_mem_nil, false_iff]
      simp only [CacheB.clear, CacheB.setPrev, CacheB.setNext, CacheB.check]
      by_cases hf : c.st a = SlotSt.full
      · simp [hf]
      · simp [hf]
    · simp [CacheB.clear, CacheB.setPrev, CacheB.setNext, CacheB.check, hne, hsl]
    · intro a ha
      simp only [CacheB.clear, CacheB.setPrev, CacheB.setNext, CacheB.check] at ha ⊢
      by_cases hf : c.st a = SlotSt.full
      · simp [hf] at ha
      · simp only [hf, if_false] at ha; exact h.rep.oneSeal a ha
    · simp
    · simp [CacheB.clear, CacheB.setPrev, CacheB.setNext, CacheB.check]
    · intro a ha
      simp only [CacheB.clear, CacheB.setPrev, CacheB.setNext, CacheB.check] at ha ⊢
      have := h.rep.freshDead a ha
      simp [this]
    · simp [CacheB.clear, CacheB.setPrev, CacheB.setNext, CacheB.check, CacheB.writable, h.rep.noUb, hall, hne, hsl]
  have habs : c.clear.abs = (clear c.abs).cache := by
    rw [rep'.abs_eq]
    simp [CacheB.clear, CacheB.setPrev, CacheB.setNext, CacheB.check, clear, CacheB.abs]
  exact ⟨⟨rep', by rw [habs]; exact clear_inv h.inv⟩, habs⟩

/-- In the chain, `prev` of a listed node is the next node towards the MRU end (or the seal). -/
theorem Rep.prev_of {c : CacheB} {l1 l2 : List Nat} {x : Nat} (r : Rep c (l1 ++ x :: l2)) :
    (c.links x).prev = (l2.head?).getD c.sl := by
  obtain ⟨hc, _⟩ := r.chain
  obtain ⟨X, a, hXa⟩ := last_split c.sl l1
  have hpath : c.sl :: (l1 ++ x :: l2) ++ [c.sl] = X ++ a :: x :: (l2 ++ [c.sl]) := by
    have : c.sl :: (l1 ++ x :: l2) ++ [c.sl] = (c.sl :: l1) ++ x :: (l2 ++ [c.sl]) := by simp
    rw [this, hXa]; simp
  rw [hpath, chain_append] at hc
  cases l2 with
  | nil => simpa using hc.2.2.2.1
  | cons b l2 => simpa using hc.2.2.2.1

/-- The `retain` walk: `pre` has been visited and kept, `cur` is still to be visited, `tail` points at
the head of `cur`. Reading `prev` out of a bucket that has just been vacated is a valid access. -/
theorem retainGoB_refines {p : Params} (pr : Nat → Key → Val → Bool) :
    ∀ (cur pre : List Nat) (c : CacheB) (i tomb fuel : Nat), RefInv p c (pre ++ cur) → cur.length < fuel →
    ∃ l', RefInv p (CacheB.retainGoB pr fuel c ((cur.head?).getD c.sl) i tomb) l' ∧
      l'.map (CacheB.retainGoB pr fuel c ((cur.head?).getD c.sl) i tomb).ent =
        pre.map c.ent ++ (retainGo (indexPred pr) i (cur.map c.ent)).kept ∧
      (CacheB.retainGoB pr fuel c ((cur.head?).getD c.sl) i tomb).cur =
        subSizes c.cur (retainGo (indexPred pr) i (cur.map c.ent)).removed ∧
      (CacheB.retainGoB pr fuel c ((cur.head?).getD c.sl) i tomb).max = c.max ∧
      (CacheB.retainGoB pr fuel c ((cur.head?).getD c.sl) i tomb).shape =
        c.shape.remove (retainGo (indexPred pr) i (cur.map c.ent)).removed.length tomb := by
  intro cur
  induction cur with
  | nil =>
    intro pre c i tomb fuel h hf
    cases fuel with
    | zero => omega
    | succ fuel =>
      have hstep : CacheB.retainGoB pr (fuel + 1) c c.sl i tomb = c := by simp [CacheB.retainGoB]
      simp only [List.head?_nil, Option.getD_none, hstep, List.map_nil, retainGo, subSizes, List.length_nil,
        Shape.remove_zero, List.append_nil]
      exact ⟨pre, by simpa using h, by simp, trivial, trivial, trivial⟩
  | cons x cur ih =>
    intro pre c i tomb fuel h hf
    cases fuel with
    | zero => omega
    | succ fuel =>
      have hxmem : x ∈ pre ++ x :: cur := by simp
      have hxs : x ≠ c.sl := fun e => h.rep.sl_not_mem (e ▸ hxmem)
      have ho := owns_of_mem h.rep hxmem
      have hprev := h.rep.prev_of (l1 := pre) (l2 := cur) (x := x)
      have hread : c.readable x = true := h.rep.readable_mem (by simp)
      simp only [List.head?_cons, Option.getD_some, List.map_cons, retainGo, indexPred]
      by_cases hk : pr i (c.ent x).key (c.ent x).val = true
      · -- kept: nothing changes, the walk moves on
        have hstep : CacheB.retainGoB pr (fuel + 1) c x i tomb =
            CacheB.retainGoB pr fuel c ((cur.head?).getD c.sl) (i + 1) tomb := by
          simp [CacheB.retainGoB, hxs, ho, check_true, hk, hread, hprev]
        have h' : RefInv p c ((pre ++ [x]) ++ cur) := by simpa using h
        obtain ⟨l', r', e1, e2, e3, e4⟩ := ih (pre ++ [x]) c (i + 1) tomb fuel h' (by simp at hf; omega)
        rw [hstep]
        refine ⟨l', r', ?_, ?_, e3, ?_⟩
        · simp only [hk, if_true]; rw [e1]; simp
        · simp only [hk, if_true]; exact e2
        · simp only [hk, if_true]; exact e4
      · -- rejected: `remove_entry(key)` finds this very node, the bucket is vacated, `prev` is read from it
        have hfind := C07_find_agrees h x hxmem
        obtain ⟨r1, hent1, hc1, hm1, hs1, hsl1, hvac, hlk, _⟩ := removeAt_rep tomb h.rep
        have habs1 := removeAt_abs tomb h.rep
        have hinv1 : InvA p (c.removeAt x tomb).abs := by
          obtain ⟨_, r', habs⟩ := removeEntry_refines (c.ent x).key.id ⟨tomb, false, true⟩ h
          have : c.removeEntry (c.ent x).key.id ⟨tomb, false, true⟩ = c.removeAt x tomb := by
            simp [CacheB.removeEntry, hfind]
          rw [this] at r'
          exact r'.inv
        have hread1 : (c.removeAt x tomb).readable x = true := by simp [CacheB.readable, hvac]
        have hstep : CacheB.retainGoB pr (fuel + 1) c x i tomb =
            CacheB.retainGoB pr fuel (c.removeAt x tomb) ((cur.head?).getD (c.removeAt x tomb).sl) (i + 1) (tomb - 1) := by
          simp [CacheB.retainGoB, hxs, ho, check_true, hk, hfind, hread1, hlk, hprev, hsl1]
        obtain ⟨l', r', e1, e2, e3, e4⟩ := ih pre (c.removeAt x tomb) (i + 1) (tomb - 1) fuel ⟨r1, hinv1⟩ (by simp at hf; omega)
        rw [hstep]
        have hk' : pr i (c.ent x).key (c.ent x).val = false := by simpa using hk
        refine ⟨l', r', ?_, ?_, ?_, ?_⟩
        · simp only [hk', Bool.false_eq_true, if_false]; rw [e1, hent1]
        · simp only [hk', Bool.false_eq_true, if_false, subSizes]; rw [e2, hent1, hc1]
        · rw [e3, hm1]
        · simp only [hk', Bool.false_eq_true, if_false, List.length_cons]
          rw [e4, hent1, hs1]
          exact Shape.remove_succ _ _ _

theorem retain_refines {p : Params} {c : CacheB} {l : List Nat} (pr : Nat → Key → Val → Bool) (o : Oracle)
    (h : RefInv p c l) :
    ∃ l', RefInv p (c.retain pr o) l' ∧ (c.retain pr o).abs = (retain c.abs (indexPred pr) 0 o).cache := by
  have hhead : (c.links c.sl).prev = (l.head?).getD c.sl := (seal_ends _ _ _ h.rep.chain).1
  obtain ⟨l', r', e1, e2, e3, e4⟩ := retainGoB_refines pr l [] c 0 o.tombs (c.table.length + 1) (by simpa using h)
    (by rw [h.rep.length]; omega)
  refine ⟨l', by simpa [CacheB.retain, hhead] using r', ?_⟩
  simp only [CacheB.retain, hhead]
  rw [r'.rep.abs_eq, e1, e2, e3, e4]
  simp [retain, CacheB.abs, h.rep.order]

/-- `Rep` only looks at the structural fields. -/
theorem Rep.congr {c c' : CacheB} {l : List Nat} (r : Rep c l) (h1 : c'.links = c.links) (h2 : c'.st = c.st)
    (h3 : c'.has = c.has) (h4 : c'.sl = c.sl) (h5 : c'.table = c.table) (h6 : c'.fresh = c.fresh) (h7 : c'.ub = c.ub) :
    Rep c' l :=
  ⟨by rw [h1, h4]; exact r.chain, by rw [h2]; exact r.full, by rw [h2, h4]; exact r.sealSt,
   by rw [h2, h4]; exact r.oneSeal, by rw [h3]; exact r.owns, by rw [h5]; exact r.table,
   by rw [h2, h6]; exact r.freshDead, by rw [h7]; exact r.noUb⟩

theorem find_congr {c c' : CacheB} (ht : c'.table = c.table) (hk : ∀ a, (c'.ent a).key.id = (c.ent a).key.id) (id : Nat) :
    c'.find id = c.find id := by
  simp only [CacheB.find, ht]
  congr 1
  funext a
  rw [hk a]

/-- writing entry `x` leaves every other listed entry alone -/
theorem map_update_ent {ent ent' : Nat → Entry} {l1 l2 : List Nat} {x : Nat}
    (hne : ∀ a, a ≠ x → ent' a = ent a) (hnd : (l1 ++ x :: l2).Nodup) :
    (l1 ++ l2).map ent' = (l1 ++ l2).map ent := by
  apply List.map_congr_left
  intro a ha
  exact hne a ((mem_split_ne hnd).mp ha).2

theorem mutate_refines {p : Params} {c : CacheB} {l : List Nat} (id : Nat) (f : Val → Val × Nat) (o : Oracle)
    (h : RefInv p c l) :
    ∃ l', RefInv p (c.mutate p id f o) l' ∧ (c.mutate p id f o).abs = (mutate p c.abs id f o).cache := by
  have hnd : (ids (l.map c.ent)).Nodup := by rw [← h.rep.abs_entries]; exact h.inv.nodup
  cases hf : c.find id with
  | none =>
    have hl := (find_spec h.rep id).1 hf
    refine ⟨l, by simpa [CacheB.mutate, hf] using h, ?_⟩
    simp [CacheB.mutate, hf, mutate, h.rep.abs_entries, hl]
  | some x =>
    obtain ⟨hid, l1, l2, rfl⟩ := (find_spec h.rep id).2 x hf
    obtain ⟨hl, hrm⟩ := lookup_map_split (ent := c.ent) hnd
    rw [hid] at hl hrm
    have hxmem : x ∈ l1 ++ x :: l2 := by simp
    have ho := owns_of_mem h.rep hxmem
    have hndl := h.rep.nodup
    -- the closure has written the value in place
    let cw : CacheB := { c with ent := fun y => if y = x then { c.ent y with val := (f (c.ent x).val).1 } else c.ent y }
    have rw_ : Rep cw (l1 ++ x :: l2) := h.rep.congr rfl rfl rfl rfl rfl rfl rfl
    have hfindw : cw.find id = some x := by
      rw [find_congr (c := c) (c' := cw) rfl (fun a => by simp only [cw]; split <;> simp_all) id]; exact hf
    have hAll := mutate_inv id f o h.inv
    have hlA : lookup c.abs.entries id = some (c.ent x) := by rw [h.rep.abs_entries]; exact hl
    by_cases hgrow : valMemSize p (f (c.ent x).val).1 > valMemSize p (c.ent x).val
    · by_cases hbig : (c.ent x).size + (valMemSize p (f (c.ent x).val).1 - valMemSize p (c.ent x).val) > c.max
      · -- overflow: the entry (with the mutated value) is removed
        obtain ⟨r', hent', hc', hm', hs', _⟩ := removeAt_rep o.tombs rw_
        have hB : c.mutate p id f o = cw.removeAt x o.tombs := by
          simp only [cw] at hfindw
          simp only [cw, CacheB.mutate, hf, ho, check_true, hgrow, if_true, hbig, hfindw]
        have habs : (cw.removeAt x o.tombs).abs = (mutate p c.abs id f o).cache := by
          rw [removeAt_abs o.tombs rw_]
          have hbigA : (c.ent x).size + (valMemSize p (f (c.ent x).val).1 - valMemSize p (c.ent x).val) > c.abs.max := hbig
          simp only [mutate, hlA, hgrow, if_true, hbigA]
          rw [h.rep.abs_entries, hrm]
          have : (l1 ++ l2).map cw.ent = (l1 ++ l2).map c.ent :=
            map_update_ent (fun a ha => by simp [cw, ha]) hndl
          rw [this]
          simp [cw, CacheB.abs]
        rw [hB]
        exact ⟨_, ⟨r', by rw [habs]; exact hAll.1⟩, habs⟩
      · -- grows and fits: sizes updated, promoted, then the eviction loop
        let diff := valMemSize p (f (c.ent x).val).1 - valMemSize p (c.ent x).val
        let e' : Entry := { c.ent x with val := (f (c.ent x).val).1, size := (c.ent x).size + diff }
        let cg : CacheB :=
          { cw with ent := (fun y => if y = x then { cw.ent y with size := (c.ent x).size + diff } else cw.ent y),
                    cur := cw.cur + diff }
        have rg : Rep cg (l1 ++ x :: l2) := h.rep.congr rfl rfl rfl rfl rfl rfl rfl
        have hcgx : cg.ent x = e' := by simp [cg, cw, e']
        have hcgne : ∀ a, a ≠ x → cg.ent a = c.ent a := fun a ha => by simp [cg, cw, ha]
        obtain ⟨rt, hentt, hct, hmt, hst, hslt⟩ := touchPtr_rep rg
        obtain ⟨l3, r3, g1, g2, g3, g4, g5, _, _, _⟩ :=
          ejectTo_refines (target := c.max) (l1 ++ l2 ++ [x]) (cg.touchPtr x) o.tombs ((cg.touchPtr x).table.length + 1) rt
            (by rw [rt.length]; omega)
        have hB : c.mutate p id f o = (cg.touchPtr x).ejectTo ((cg.touchPtr x).table.length + 1) c.max o.tombs := by
          have htl : (cg.touchPtr x).table.length = c.table.length := by
            have := h.rep.length
            rw [rt.length]; simp at this ⊢; omega
          rw [htl]
          simp only [cg, cw, diff, CacheB.mutate, hf, ho, check_true, hgrow, if_true, hbig, if_false]
        have hentmap : (l1 ++ l2 ++ [x]).map cg.ent = removeId (( l1 ++ x :: l2).map c.ent) id ++ [e'] := by
          rw [hrm, List.map_append, map_update_ent hcgne hndl]
          simp [hcgx]
        have habs : ((cg.touchPtr x).ejectTo ((cg.touchPtr x).table.length + 1) c.max o.tombs).abs =
            (mutate p c.abs id f o).cache := by
          rw [r3.abs_eq, g1, g2, g3, g4, hentt, hct, hmt, hst, hentmap]
          have hbigA : ¬ (c.ent x).size + (valMemSize p (f (c.ent x).val).1 - valMemSize p (c.ent x).val) > c.abs.max := hbig
          simp only [mutate, hlA, hgrow, if_true, hbigA, if_false, touchList, hid]
          rw [h.rep.abs_entries]
          simp [cg, cw, e', diff, CacheB.abs]
        rw [hB]
        exact ⟨l3, ⟨r3, by rw [habs]; exact hAll.1⟩, habs⟩
    · -- non-expanding: sizes updated, promoted
      let diff := valMemSize p (c.ent x).val - valMemSize p (f (c.ent x).val).1
      let e' : Entry := { c.ent x with val := (f (c.ent x).val).1, size := (c.ent x).size - diff }
      let cs : CacheB :=
        { cw with ent := (fun y => if y = x then { cw.ent y with size := (c.ent x).size - diff } else cw.ent y),
                  cur := cw.cur - diff }
      have rs : Rep cs (l1 ++ x :: l2) := h.rep.congr rfl rfl rfl rfl rfl rfl rfl
      have hcsx : cs.ent x = e' := by simp [cs, cw, e']
      have hcsne : ∀ a, a ≠ x → cs.ent a = c.ent a := fun a ha => by simp [cs, cw, ha]
      obtain ⟨rt, hentt, hct, hmt, hst, hslt⟩ := touchPtr_rep rs
      have hB : c.mutate p id f o = cs.touchPtr x := by
        simp only [cs, cw, diff, CacheB.mutate, hf, ho, check_true, hgrow, if_false]
      have hentmap : (l1 ++ l2 ++ [x]).map cs.ent = removeId ((l1 ++ x :: l2).map c.ent) id ++ [e'] := by
        rw [hrm, List.map_append, map_update_ent hcsne hndl]
        simp [hcsx]
      have habs : (cs.touchPtr x).abs = (mutate p c.abs id f o).cache := by
        rw [rt.abs_eq, hentt, hct, hmt, hst, hentmap]
        simp only [mutate, hlA, hgrow, if_false, touchList, hid]
        rw [h.rep.abs_entries]
        simp [cs, cw, e', diff, CacheB.abs]
      rw [hB]
      exact ⟨_, ⟨rt, by rw [habs]; exact hAll.1⟩, habs⟩

end LruMem
