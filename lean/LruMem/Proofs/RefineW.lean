import LruMem.Proofs.Refine2
import LruMem.Props.C16b
import LruMem.Props.C07b
/-!
# Refinement from *weak* states

`Refine.lean` / `Refine2.lean` prove that every Level B operation preserves `Rep` and abstracts to the
Level A operation, starting from a structure whose abstraction satisfies the full invariant `InvA`.
After an unwind only the weak invariant `InvW` (one entry per key, total = sum of the *recorded* sizes,
table accounting) is left — recorded sizes may be stale and the total may exceed the limit. This file
re-proves the refinement from `Rep` + `InvW`: the pointer operations never needed more.
Together with `C16_usable_step` (Level A: `InvW` is preserved) this gives `stepB_refinesW`, and by
induction pointer-level safety for every history that continues after a panic (`Props/C16d.lean`).
-/
namespace LruMem
open LruMem.Chain

/-- Level B state `c` represents address list `l` and its abstraction satisfies the weak invariant. -/
structure RefW (c : CacheB) (l : List Nat) : Prop where
  rep : Rep c l
  inv : InvW c.abs

theorem RefInv.toW {p : Params} {c : CacheB} {l : List Nat} (h : RefInv p c l) : RefW c l := ⟨h.rep, h.inv.weak⟩

theorem RefW.nodup {c : CacheB} {l : List Nat} (h : RefW c l) : (ids (l.map c.ent)).Nodup := by
  rw [← h.rep.abs_entries]; exact h.inv.nodup

/-- a listed node is the bucket a lookup of its key finds (only needs one entry per key) -/
theorem find_agreesW {c : CacheB} {l : List Nat} (h : RefW c l) (a : Nat) (ha : a ∈ l) :
    c.find (c.ent a).key.id = some a := by
  have hnd := h.nodup
  cases hf : c.find (c.ent a).key.id with
  | none =>
    have := (find_spec h.rep _).1 hf
    rw [lookup_none_iff] at this
    exact absurd (by simp [ids]; exact ⟨a, ha, rfl⟩) this
  | some x =>
    obtain ⟨hid, l1, l2, rfl⟩ := (find_spec h.rep _).2 x hf
    have hnd' : ((l1 ++ x :: l2).map fun b => (c.ent b).key.id).Nodup := by
      have := hnd; simp only [ids, List.map_map] at this; exact this
    have hinj : ∀ (l : List Nat), (l.map fun b => (c.ent b).key.id).Nodup → ∀ u ∈ l, ∀ w ∈ l,
        (c.ent u).key.id = (c.ent w).key.id → u = w := by
      intro l
      induction l with
      | nil => intro _ u hu; cases hu
      | cons b l ih =>
        intro hn u hu w hw huw
        simp only [List.map_cons, List.nodup_cons, List.mem_map, not_exists, not_and] at hn
        simp only [List.mem_cons] at hu hw
        rcases hu with rfl | hu <;> rcases hw with rfl | hw
        · rfl
        · exact absurd huw.symm (hn.1 w hw)
        · exact absurd huw (hn.1 u hu)
        · exact ih hn.2 u hu w hw huw
    rw [hinj _ hnd' x (by simp) a ha hid]

theorem getEntry_refinesW {c : CacheB} {l : List Nat} (id : Nat) (h : RefW c l) :
    ∃ l', Rep (c.getEntry id) l' ∧ (c.getEntry id).abs = (getEntry c.abs id).cache := by
  have hnd := h.nodup
  cases hf : c.find id with
  | none =>
    have := (find_spec h.rep id).1 hf
    refine ⟨l, ?_, ?_⟩
    · simpa [CacheB.getEntry, hf] using h.rep
    · simp [CacheB.getEntry, hf, getEntry, h.rep.abs_entries, this]
  | some x =>
    obtain ⟨hid, l1, l2, rfl⟩ := (find_spec h.rep id).2 x hf
    obtain ⟨r', he, hc, hm, hs, _⟩ := touchPtr_rep h.rep
    obtain ⟨hl, hrm⟩ := lookup_map_split (ent := c.ent) hnd
    rw [hid] at hl hrm
    have habs : (c.touchPtr x).abs = (getEntry c.abs id).cache := by
      rw [r'.abs_eq, he, hc, hm, hs]
      simp only [getEntry, h.rep.abs_entries, hl, touchList, hid, hrm]
      simp [CacheB.abs]
    exact ⟨_, by simpa [CacheB.getEntry, hf] using r', by simpa [CacheB.getEntry, hf] using habs⟩

theorem removeEntry_refinesW {c : CacheB} {l : List Nat} (id : Nat) (o : Oracle) (h : RefW c l) :
    ∃ l', Rep (c.removeEntry id o) l' ∧ (c.removeEntry id o).abs = (removeEntry c.abs id o).cache := by
  have hnd := h.nodup
  cases hf : c.find id with
  | none =>
    have := (find_spec h.rep id).1 hf
    refine ⟨l, ?_, ?_⟩
    · simpa [CacheB.removeEntry, hf] using h.rep
    · simp [CacheB.removeEntry, hf, removeEntry, h.rep.abs_entries, this]
  | some x =>
    obtain ⟨hid, l1, l2, rfl⟩ := (find_spec h.rep id).2 x hf
    obtain ⟨r', _⟩ := removeAt_rep o.tombs h.rep
    obtain ⟨hl, hrm⟩ := lookup_map_split (ent := c.ent) hnd
    rw [hid] at hl hrm
    have habs : (c.removeAt x o.tombs).abs = (removeEntry c.abs id o).cache := by
      rw [removeAt_abs o.tombs h.rep]
      simp only [removeEntry, h.rep.abs_entries, hl, hrm]
      simp [CacheB.abs]
    exact ⟨_, by simpa [CacheB.removeEntry, hf] using r', by simpa [CacheB.removeEntry, hf] using habs⟩

theorem getLru_refinesW {c : CacheB} {l : List Nat} (h : RefW c l) :
    ∃ l', Rep c.getLru l' ∧ c.getLru.abs = (getLru c.abs).cache := by
  have hnd := h.nodup
  have he := (ends_spec h.rep).1
  cases l with
  | nil =>
    refine ⟨[], ?_, ?_⟩
    · simpa [CacheB.getLru, he] using h.rep
    · simp [CacheB.getLru, he, getLru, lruOf, h.rep.abs_entries]
  | cons x l2 =>
    have hr : Rep c ([] ++ x :: l2) := h.rep
    obtain ⟨r', hent, hc, hm, hs, _⟩ := touchPtr_rep hr
    obtain ⟨_, hrm⟩ := lookup_map_split (ent := c.ent) (l1 := []) (l2 := l2) (x := x) hnd
    have habs : (c.touchPtr x).abs = (getLru c.abs).cache := by
      rw [r'.abs_eq, hent, hc, hm, hs]
      simp only [getLru, lruOf, h.rep.abs_entries, List.map_cons, List.head?_cons, touchList]
      simp only [List.nil_append, List.map_cons] at hrm
      rw [hrm]
      simp [CacheB.abs]
    exact ⟨_, by simpa [CacheB.getLru, he] using r', by simpa [CacheB.getLru, he] using habs⟩

theorem removeLru_refinesW {c : CacheB} {l : List Nat} (o : Oracle) (h : RefW c l) :
    ∃ l', Rep (c.removeLru o) l' ∧ (c.removeLru o).abs = (removeLru c.abs o).cache := by
  have he := (ends_spec h.rep).1
  cases l with
  | nil =>
    refine ⟨[], by simpa [CacheB.removeLru, he] using h.rep, ?_⟩
    simp [CacheB.removeLru, he, removeLru, lruOf, h.rep.abs_entries]
  | cons x l2 =>
    have hfind := find_agreesW h x (by simp)
    have ho := owns_of_mem h.rep (a := x) (by simp)
    obtain ⟨l', r', habs⟩ := removeEntry_refinesW (c.ent x).key.id o h
    have hB : c.removeLru o = c.removeEntry (c.ent x).key.id o := by
      simp [CacheB.removeLru, he, hfind, ho, check_true, CacheB.removeEntry]
    have hA : (removeLru c.abs o).cache = (removeEntry c.abs (c.ent x).key.id o).cache := by
      simp [removeLru, lruOf, h.rep.abs_entries]
    rw [hB, hA]
    exact ⟨l', r', habs⟩

theorem removeMru_refinesW {c : CacheB} {l : List Nat} (o : Oracle) (h : RefW c l) :
    ∃ l', Rep (c.removeMru o) l' ∧ (c.removeMru o).abs = (removeMru c.abs o).cache := by
  have he := (ends_spec h.rep).2
  cases hl : l.getLast? with
  | none =>
    have : l = [] := by simpa using hl
    subst this
    refine ⟨[], by simpa [CacheB.removeMru, he] using h.rep, ?_⟩
    simp [CacheB.removeMru, he, removeMru, mruOf, h.rep.abs_entries]
  | some x =>
    have hx : x ∈ l := List.mem_of_getLast? hl
    have hfind := find_agreesW h x hx
    have ho := owns_of_mem h.rep hx
    obtain ⟨l', r', habs⟩ := removeEntry_refinesW (c.ent x).key.id o h
    have hB : c.removeMru o = c.removeEntry (c.ent x).key.id o := by
      simp [CacheB.removeMru, he, hl, hfind, ho, check_true, CacheB.removeEntry]
    have hA : (removeMru c.abs o).cache = (removeEntry c.abs (c.ent x).key.id o).cache := by
      simp [removeMru, mruOf, h.rep.abs_entries, List.getLast?_map, hl]
    rw [hB, hA]
    exact ⟨l', r', habs⟩

theorem setMaxSize_refinesW {c : CacheB} {l : List Nat} (m : Nat) (o : Oracle) (r : Rep c l) :
    ∃ l', Rep (c.setMaxSize m o) l' ∧ (c.setMaxSize m o).abs = (setMaxSize c.abs m o).cache := by
  obtain ⟨l', r', h1, h2, h3, h4, h5, _, h7, _⟩ :=
    ejectTo_refines (target := m) l c o.tombs (c.table.length + 1) r (by rw [r.length]; omega)
  have r'' : Rep (c.setMaxSize m o) l' := by
    unfold CacheB.setMaxSize
    exact ⟨r'.chain, r'.full, r'.sealSt, r'.oneSeal, r'.owns, r'.table, r'.freshDead, r'.noUb⟩
  refine ⟨l', r'', ?_⟩
  rw [r''.abs_eq]
  simp only [CacheB.setMaxSize, setMaxSize, r.abs_entries]
  rw [h1, h2, h4]
  simp [CacheB.abs]

theorem reallocate_refinesW {c : CacheB} {l : List Nat} (n : Nat) (r : Rep c l) :
    ∃ l', Rep (c.reallocate n) l' ∧ (c.reallocate n).abs = (rebuild c.abs n).1 := by
  obtain ⟨l1, r1, hent1, hc1, hm1, hs1, _, _⟩ := reallocate_rep n r
  exact ⟨l1, r1, by rw [r1.abs_eq, hent1, hc1, hm1, hs1, r.abs_eq]; rfl⟩

theorem reserve_refinesW {p : Params} {c : CacheB} {l : List Nat} (a : Nat) (o : Oracle) (r : Rep c l) :
    ∃ l', Rep (c.reserve p a o) l' ∧ (c.reserve p a o).abs = (reserve p c.abs a o).cache ∧
      (c.reserve p a o).abs = (tryReserve p c.abs a o).cache := by
  obtain ⟨e1, e2⟩ := reserveA_eq p c.abs a o
  rw [reserveB_eq, e1, e2]
  have hi : c.abs.shape = c.shape := rfl
  rw [hi]
  by_cases hm : reserveMoves p c.shape a o = true
  · simp only [hm, if_true]
    obtain ⟨l', r', e⟩ := reallocate_refinesW (c.shape.items + a) r
    exact ⟨l', r', e, e⟩
  · have hm' : reserveMoves p c.shape a o = false := by simpa using hm
    rw [hm']
    exact ⟨l, r, rfl, rfl⟩

theorem shrinkTo_refinesW {p : Params} {c : CacheB} {l : List Nat} (m : Nat) (o : Oracle) (r : Rep c l) :
    ∃ l', Rep (c.shrinkTo p m o) l' ∧ (c.shrinkTo p m o).abs = (shrinkTo p c.abs m o).cache := by
  rw [shrinkB_eq, shrinkA_eq]
  have hi : c.abs.shape = c.shape := rfl
  rw [hi]
  by_cases hm : shrinkMoves p c.shape m o = true
  · simp only [hm, if_true]
    exact reallocate_refinesW _ r
  · have hm' : shrinkMoves p c.shape m o = false := by simpa using hm
    rw [hm']
    exact ⟨l, r, rfl⟩

/-- `insert_unchecked` needs nothing but the structure. -/
theorem insertUnchecked_refinesW {c : CacheB} {l : List Nat} (e : Entry) (o : Oracle) (r : Rep c l) :
    ∃ l', Rep (c.insertUnchecked e o) l' ∧ (c.insertUnchecked e o).abs = (insertUnchecked c.abs e o).cache := by
  have habs := r.abs_eq
  by_cases hcan : c.shape.canInsert o.reuse = true
  · obtain ⟨r', hent, hnew, hc, hm, hs, _, _⟩ := insertFresh_rep e o.reuse r
    refine ⟨_, by simpa [CacheB.insertUnchecked, hcan] using r', ?_⟩
    have hcan' : c.abs.shape.canInsert o.reuse = true := hcan
    simp only [CacheB.insertUnchecked, hcan, if_true, insertUnchecked, hcan']
    rw [r'.abs_eq, hc, hm, hs, List.map_append, List.map_cons, List.map_nil, hnew]
    have : l.map (c.insertFresh e o.reuse).ent = l.map c.ent := List.map_congr_left (fun a ha => hent a ha)
    rw [this, habs]
  · obtain ⟨l1, r1, hent1, hc1, hm1, hs1, hsl1, _⟩ := reallocate_rep (Nat.max (2 * c.shape.capacity) 1) r
    obtain ⟨r', hent, hnew, hc, hm, hs, _, _⟩ := insertFresh_rep e false r1
    refine ⟨_, by simpa [CacheB.insertUnchecked, hcan] using r', ?_⟩
    have hcan' : ¬ c.abs.shape.canInsert o.reuse = true := hcan
    have hcan2 : (c.abs.shape.rebuilt (Nat.max (2 * c.abs.shape.capacity) 1)).canInsert false = true := by
      have := le_freshCap (Nat.max (2 * c.abs.shape.capacity) 1)
      have h1 : 1 ≤ Nat.max (2 * c.abs.shape.capacity) 1 := Nat.le_max_right _ _
      have h2 : 2 * c.abs.shape.capacity ≤ Nat.max (2 * c.abs.shape.capacity) 1 := Nat.le_max_left _ _
      have hroom : 0 < (c.abs.shape.rebuilt (Nat.max (2 * c.abs.shape.capacity) 1)).growthLeft := by
        simp only [Shape.rebuilt, Shape.capacity] at *
        omega
      simp [Shape.canInsert, hroom]
    simp only [CacheB.insertUnchecked, hcan, if_false, insertUnchecked, hcan', hcan2, if_true, Bool.false_eq_true]
    rw [r'.abs_eq, hc, hm, hs, List.map_append, List.map_cons, List.map_nil, hnew]
    have : l1.map ((c.reallocate (Nat.max (2 * c.shape.capacity) 1)).insertFresh e false).ent =
        l1.map (c.reallocate (Nat.max (2 * c.shape.capacity) 1)).ent := List.map_congr_left (fun a ha => hent a ha)
    rw [this, hent1, hc1, hm1, hs1, habs]

theorem dedupe_refinesW {c : CacheB} {l : List Nat} (id : Nat) (t : Nat) (h : RefW c l) :
    ∃ l1, Rep (c.dedupe id t) l1 ∧
      (c.dedupe id t).abs =
        { entries := removeId c.abs.entries id, cur := c.cur - oldSize (lookup c.abs.entries id), max := c.max,
          shape := c.shape.remove (oldCount (lookup c.abs.entries id)) t } ∧
      (c.dedupe id t).ent = c.ent ∧
      (c.find id).isSome = (lookup c.abs.entries id).isSome ∧
      l1.map c.ent = removeId c.abs.entries id := by
  have hnd := h.nodup
  rw [h.rep.abs_entries]
  unfold CacheB.dedupe
  cases hf : c.find id with
  | none =>
    have hl := (find_spec h.rep id).1 hf
    have hrm : removeId (l.map c.ent) id = l.map c.ent := removeId_of_not_mem (lookup_none_iff.mp hl)
    refine ⟨l, h.rep, ?_, rfl, by rw [hl]; rfl, hrm.symm⟩
    simp only [hl, oldSize, oldCount, hrm, Shape.remove_zero, Nat.sub_zero]
    exact h.rep.abs_eq
  | some x =>
    obtain ⟨hid, l1, l2, rfl⟩ := (find_spec h.rep id).2 x hf
    obtain ⟨hl, hrm⟩ := lookup_map_split (ent := c.ent) hnd
    rw [hid] at hl hrm
    obtain ⟨r', he, _⟩ := removeAt_rep t h.rep
    refine ⟨l1 ++ l2, r', ?_, he, by rw [hl]; rfl, hrm.symm⟩
    simp only [hl, oldSize, oldCount, hrm]
    exact removeAt_abs t h.rep

theorem insert_refinesW {p : Params} {c : CacheB} {l : List Nat} (k : Key) (v : Val) (o : Oracle) (h : RefW c l) :
    ∃ l', Rep (c.insert p k v o) l' ∧ (c.insert p k v o).abs = (insert p c.abs k v o).cache := by
  have hmax : c.abs.max = c.max := rfl
  have hcur : c.abs.cur = c.cur := rfl
  have hshape : c.abs.shape = c.shape := rfl
  by_cases hs : entrySize p k v > c.max
  · refine ⟨l, ?_, ?_⟩
    · simpa [CacheB.insert, hs] using h.rep
    · simp [CacheB.insert, insert, hs, hmax]
  · obtain ⟨l1, r1, habs1, hent1, hsome, hmap1⟩ := dedupe_refinesW k.id o.tombs h
    obtain ⟨_, hd, _⟩ := invW_afterRemoveEject h.inv k.id (c.max - entrySize p k v) o.tombs
    have htomb : (if (c.find k.id).isSome then o.tombs - 1 else o.tombs) = o.tombs - oldCount (lookup c.abs.entries k.id) := by
      rw [hsome]; cases lookup c.abs.entries k.id <;> simp [oldCount]
    have hoc : oldCount (lookup c.abs.entries k.id) ≤ 1 := by cases lookup c.abs.entries k.id <;> simp [oldCount]
    obtain ⟨l2, r2, h1, h2, h3, h4, h5, _, h7, _⟩ :=
      ejectTo_refines (target := c.max - entrySize p k v) l1 _ (o.tombs - oldCount (lookup c.abs.entries k.id))
        ((c.dedupe k.id o.tombs).table.length + 1) r1
        (by rw [r1.length]; omega)
    have hcur1 : (c.dedupe k.id o.tombs).cur =
        c.cur - oldSize (lookup c.abs.entries k.id) := by have := congrArg Cache.cur habs1; simpa [CacheB.abs] using this
    have hmax1 : (c.dedupe k.id o.tombs).max = c.max := by
      have := congrArg Cache.max habs1; simpa [CacheB.abs] using this
    have hshape1 : (c.dedupe k.id o.tombs).shape =
        c.shape.remove (oldCount (lookup c.abs.entries k.id)) o.tombs := by
      have := congrArg Cache.shape habs1; simpa [CacheB.abs] using this
    rw [hent1, hmap1, hcur1] at h1 h2 h4
    rw [hmax1] at h3
    rw [hshape1, Shape.remove_add _ _ _ _ hoc] at h4
    have habs2 : ((c.dedupe k.id o.tombs).ejectTo
        ((c.dedupe k.id o.tombs).table.length + 1)
        (c.max - entrySize p k v) (o.tombs - oldCount (lookup c.abs.entries k.id))).abs =
        { c.abs with
          entries := (eject (removeId c.abs.entries k.id) (c.abs.cur - oldSize (lookup c.abs.entries k.id)) (c.abs.max - entrySize p k v)).rest,
          cur := (eject (removeId c.abs.entries k.id) (c.abs.cur - oldSize (lookup c.abs.entries k.id)) (c.abs.max - entrySize p k v)).cur,
          shape := c.abs.shape.remove (oldCount (lookup c.abs.entries k.id) +
            (eject (removeId c.abs.entries k.id) (c.abs.cur - oldSize (lookup c.abs.entries k.id)) (c.abs.max - entrySize p k v)).evicted.length) o.tombs } := by
      rw [r2.abs_eq, h1, h2, h3, h4]
      rfl
    obtain ⟨l3, r3, habs3⟩ := insertUnchecked_refinesW ⟨k, v, entrySize p k v⟩ o r2
    have hfinal : (c.insert p k v o).abs = (insert p c.abs k v o).cache := by
      have hd' : (eject (removeId c.abs.entries k.id) (c.cur - oldSize (lookup c.abs.entries k.id))
          (c.max - entrySize p k v)).diverged = false := hd
      simp only [CacheB.insert, hs, if_false, htomb, insert, hmax, Bool.false_eq_true]
      rw [habs3, habs2]
      simp only [hmax, hcur, hd', Bool.false_eq_true, if_false]
    exact ⟨l3, by simpa [CacheB.insert, hs, htomb] using r3, hfinal⟩

theorem tryInsert_refinesW {p : Params} {c : CacheB} {l : List Nat} (k : Key) (v : Val) (o : Oracle) (h : RefW c l) :
    ∃ l', Rep (c.tryInsert p k v o) l' ∧ (c.tryInsert p k v o).abs = (tryInsert p c.abs k v o).cache := by
  have hmax : c.abs.max = c.max := rfl
  have hcur : c.abs.cur = c.cur := rfl
  by_cases h1 : entrySize p k v > c.max
  · refine ⟨l, by simpa [CacheB.tryInsert, h1] using h.rep, by simp [CacheB.tryInsert, tryInsert, h1, hmax]⟩
  · by_cases h2 : entrySize p k v > c.max - c.cur
    · refine ⟨l, by simpa [CacheB.tryInsert, h1, h2] using h.rep, by simp [CacheB.tryInsert, tryInsert, h1, h2, hmax, hcur]⟩
    · cases hf : c.find k.id with
      | some x =>
        obtain ⟨hid, l1, l2, rfl⟩ := (find_spec h.rep k.id).2 x hf
        have hnd := h.nodup
        have hl := (lookup_map_split (ent := c.ent) hnd).1
        rw [hid, ← h.rep.abs_entries] at hl
        refine ⟨_, by simpa [CacheB.tryInsert, h1, h2, hf] using h.rep, ?_⟩
        simp [CacheB.tryInsert, tryInsert, h1, h2, hf, hmax, hcur, hl]
      | none =>
        have hl := (find_spec h.rep k.id).1 hf
        rw [← h.rep.abs_entries] at hl
        obtain ⟨l3, r3, habs3⟩ := insertUnchecked_refinesW ⟨k, v, entrySize p k v⟩ o h.rep
        refine ⟨l3, by simpa [CacheB.tryInsert, h1, h2, hf] using r3, ?_⟩
        simp only [CacheB.tryInsert, tryInsert, h1, h2, hf, hmax, hcur, hl, if_false, Option.isSome_none,
          Bool.false_eq_true]
        exact habs3

theorem clear_refinesW {c : CacheB} {l : List Nat} (r : Rep c l) :
    Rep c.clear [] ∧ c.clear.abs = (clear c.abs).cache := by
  have hall : (c.table.all fun a => c.owns a) = true := by
    rw [List.all_eq_true]
    intro a ha
    exact owns_of_mem r (r.table.mem_iff.mp ha)
  have hsl : c.st c.sl = .sealed := r.sealSt
  have hne : ¬ c.st c.sl = SlotSt.full := by rw [hsl]; simp
  have rep' : Rep c.clear [] := by
    refine ⟨⟨?_, by simp⟩, ?_, ?_, ?_, ?_, ?_, ?_, ?_⟩
    · simp [CacheB.clear, CacheB.setPrev, CacheB.setNext, CacheB.check, Chain.Chain]
    · intro a
      simp only [List.not_mem_nil, false_iff]
      simp only [CacheB.clear, CacheB.setPrev, CacheB.setNext, CacheB.check]
      by_cases hf : c.st a = SlotSt.full
      · simp [hf]
      · simp [hf]
    · simp [CacheB.clear, CacheB.setPrev, CacheB.setNext, CacheB.check, hne, hsl]
    · intro a ha
      simp only [CacheB.clear, CacheB.setPrev, CacheB.setNext, CacheB.check] at ha ⊢
      by_cases hf : c.st a = SlotSt.full
      · simp [hf] at ha
      · simp only [hf, if_false] at ha; exact r.oneSeal a ha
    · simp
    · simp [CacheB.clear, CacheB.setPrev, CacheB.setNext, CacheB.check]
    · intro a ha
      simp only [CacheB.clear, CacheB.setPrev, CacheB.setNext, CacheB.check] at ha ⊢
      have := r.freshDead a ha
      simp [this]
    · simp [CacheB.clear, CacheB.setPrev, CacheB.setNext, CacheB.check, CacheB.writable, r.noUb, hall, hne, hsl]
  refine ⟨rep', ?_⟩
  rw [rep'.abs_eq]
  simp [CacheB.clear, CacheB.setPrev, CacheB.setNext, CacheB.check, clear, CacheB.abs]

/-- the `retain` walk only needs the structure and one entry per key -/
theorem retainGoB_refinesW (pr : Nat → Key → Val → Bool) :
    ∀ (cur pre : List Nat) (c : CacheB) (i tomb fuel : Nat), RefW c (pre ++ cur) → cur.length < fuel →
    ∃ l', Rep (CacheB.retainGoB pr fuel c ((cur.head?).getD c.sl) i tomb) l' ∧
      l'.map (CacheB.retainGoB pr fuel c ((cur.head?).getD c.sl) i tomb).ent =
        pre.map c.ent ++ (retainGo (indexPred pr) i (cur.map c.ent)).kept ∧
      (CacheB.retainGoB pr fuel c ((cur.head?).getD c.sl) i tomb).cur =
        subSizes c.cur (retainGo (indexPred pr) i (cur.map c.ent)).removed ∧
      (CacheB.retainGoB pr fuel c ((cur.head?).getD c.sl) i tomb).max = c.max ∧
      (CacheB.retainGoB pr fuel c ((cur.head?).getD c.sl) i tomb).shape =
        c.shape.remove (retainGo (indexPred pr) i (cur.map c.ent)).removed.length tomb := by
  intro cur
  induction cur with
  | nil =>
    intro pre c i tomb fuel h hf
    cases fuel with
    | zero => omega
    | succ fuel =>
      have hstep : CacheB.retainGoB pr (fuel + 1) c c.sl i tomb = c := by simp [CacheB.retainGoB]
      simp only [List.head?_nil, Option.getD_none, hstep, List.map_nil, retainGo, subSizes, List.length_nil,
        Shape.remove_zero, List.append_nil]
      exact ⟨pre, by simpa using h.rep, by simp, trivial, trivial, trivial⟩
  | cons x cur ih =>
    intro pre c i tomb fuel h hf
    cases fuel with
    | zero => omega
    | succ fuel =>
      have hxmem : x ∈ pre ++ x :: cur := by simp
      have hxs : x ≠ c.sl := fun e => h.rep.sl_not_mem (e ▸ hxmem)
      have ho := owns_of_mem h.rep hxmem
      have hprev := h.rep.prev_of (l1 := pre) (l2 := cur) (x := x)
      have hread : c.readable x = true := h.rep.readable_mem (by simp)
      simp only [List.head?_cons, Option.getD_some, List.map_cons, retainGo, indexPred]
      by_cases hk : pr i (c.ent x).key (c.ent x).val = true
      · have hstep : CacheB.retainGoB pr (fuel + 1) c x i tomb =
            CacheB.retainGoB pr fuel c ((cur.head?).getD c.sl) (i + 1) tomb := by
          simp [CacheB.retainGoB, hxs, ho, check_true, hk, hread, hprev]
        have h' : RefW c ((pre ++ [x]) ++ cur) := by simpa using h
        obtain ⟨l', r', e1, e2, e3, e4⟩ := ih (pre ++ [x]) c (i + 1) tomb fuel h' (by simp at hf; omega)
        rw [hstep]
        refine ⟨l', r', ?_, ?_, e3, ?_⟩
        · simp only [hk, if_true]; rw [e1]; simp
        · simp only [hk, if_true]; exact e2
        · simp only [hk, if_true]; exact e4
      · have hfind := find_agreesW h x hxmem
        obtain ⟨r1, hent1, hc1, hm1, hs1, hsl1, hvac, hlk, _⟩ := removeAt_rep tomb h.rep
        have hinv1 : InvW (c.removeAt x tomb).abs := by
          have hA := removeEntry_refinesW (c.ent x).key.id ⟨tomb, false, true⟩ h
          obtain ⟨_, _, habs⟩ := hA
          have : c.removeEntry (c.ent x).key.id ⟨tomb, false, true⟩ = c.removeAt x tomb := by
            simp [CacheB.removeEntry, hfind]
          rw [this] at habs
          rw [habs]
          exact invW_removeEntry _ _ h.inv
        have hread1 : (c.removeAt x tomb).readable x = true := by simp [CacheB.readable, hvac]
        have hstep : CacheB.retainGoB pr (fuel + 1) c x i tomb =
            CacheB.retainGoB pr fuel (c.removeAt x tomb) ((cur.head?).getD (c.removeAt x tomb).sl) (i + 1) (tomb - 1) := by
          simp [CacheB.retainGoB, hxs, ho, check_true, hk, hfind, hread1, hlk, hprev, hsl1]
        obtain ⟨l', r', e1, e2, e3, e4⟩ := ih pre (c.removeAt x tomb) (i + 1) (tomb - 1) fuel ⟨r1, hinv1⟩ (by simp at hf; omega)
        rw [hstep]
        have hk' : pr i (c.ent x).key (c.ent x).val = false := by simpa using hk
        refine ⟨l', r', ?_, ?_, ?_, ?_⟩
        · simp only [hk', Bool.false_eq_true, if_false]; rw [e1, hent1]
        · simp only [hk', Bool.false_eq_true, if_false, subSizes]; rw [e2, hent1, hc1]
        · rw [e3, hm1]
        · simp only [hk', Bool.false_eq_true, if_false, List.length_cons]
          rw [e4, hent1, hs1]
          exact Shape.remove_succ _ _ _

theorem retain_refinesW {c : CacheB} {l : List Nat} (pr : Nat → Key → Val → Bool) (o : Oracle) (h : RefW c l) :
    ∃ l', Rep (c.retain pr o) l' ∧ (c.retain pr o).abs = (retain c.abs (indexPred pr) 0 o).cache := by
  have hhead : (c.links c.sl).prev = (l.head?).getD c.sl := (seal_ends _ _ _ h.rep.chain).1
  obtain ⟨l', r', e1, e2, e3, e4⟩ := retainGoB_refinesW pr l [] c 0 o.tombs (c.table.length + 1) (by simpa using h)
    (by rw [h.rep.length]; omega)
  refine ⟨l', by simpa [CacheB.retain, hhead] using r', ?_⟩
  simp only [CacheB.retain, hhead]
  rw [r'.abs_eq, e1, e2, e3, e4]
  simp [retain, CacheB.abs, h.rep.order]

theorem mutate_refinesW {p : Params} {c : CacheB} {l : List Nat} (id : Nat) (f : Val → Val × Nat) (o : Oracle)
    (h : RefW c l) :
    ∃ l', Rep (c.mutate p id f o) l' ∧ (c.mutate p id f o).abs = (mutate p c.abs id f o).cache := by
  have hnd := h.nodup
  cases hf : c.find id with
  | none =>
    have hl := (find_spec h.rep id).1 hf
    refine ⟨l, by simpa [CacheB.mutate, hf] using h.rep, ?_⟩
    simp [CacheB.mutate, hf, mutate, h.rep.abs_entries, hl]
  | some x =>
    obtain ⟨hid, l1, l2, rfl⟩ := (find_spec h.rep id).2 x hf
    obtain ⟨hl, hrm⟩ := lookup_map_split (ent := c.ent) hnd
    rw [hid] at hl hrm
    have hxmem : x ∈ l1 ++ x :: l2 := by simp
    have ho := owns_of_mem h.rep hxmem
    have hndl := h.rep.nodup
    let cw : CacheB := { c with ent := fun y => if y = x then { c.ent y with val := (f (c.ent x).val).1 } else c.ent y }
    have rw_ : Rep cw (l1 ++ x :: l2) := h.rep.congr rfl rfl rfl rfl rfl rfl rfl
    have hfindw : cw.find id = some x := by
      rw [find_congr (c := c) (c' := cw) rfl (fun a => by simp only [cw]; split <;> simp_all) id]; exact hf
    have hlA : lookup c.abs.entries id = some (c.ent x) := by rw [h.rep.abs_entries]; exact hl
    by_cases hgrow : valMemSize p (f (c.ent x).val).1 > valMemSize p (c.ent x).val
    · by_cases hbig : (c.ent x).size + (valMemSize p (f (c.ent x).val).1 - valMemSize p (c.ent x).val) > c.max
      · obtain ⟨r', hent', hc', hm', hs', _⟩ := removeAt_rep o.tombs rw_
        have hB : c.mutate p id f o = cw.removeAt x o.tombs := by
          simp only [cw] at hfindw
          simp only [cw, CacheB.mutate, hf, ho, check_true, hgrow, if_true, hbig, hfindw]
        have habs : (cw.removeAt x o.tombs).abs = (mutate p c.abs id f o).cache := by
          rw [removeAt_abs o.tombs rw_]
          have hbigA : (c.ent x).size + (valMemSize p (f (c.ent x).val).1 - valMemSize p (c.ent x).val) > c.abs.max := hbig
          simp only [mutate, hlA, hgrow, if_true, hbigA]
          rw [h.rep.abs_entries, hrm]
          have : (l1 ++ l2).map cw.ent = (l1 ++ l2).map c.ent :=
            map_update_ent (fun a ha => by simp [cw, ha]) hndl
          rw [this]
          simp [cw, CacheB.abs]
        rw [hB]
        exact ⟨_, r', habs⟩
      · let diff := valMemSize p (f (c.ent x).val).1 - valMemSize p (c.ent x).val
        let e' : Entry := { c.ent x with val := (f (c.ent x).val).1, size := (c.ent x).size + diff }
        let cg : CacheB :=
          { cw with ent := (fun y => if y = x then { cw.ent y with size := (c.ent x).size + diff } else cw.ent y),
                    cur := cw.cur + diff }
        have rg : Rep cg (l1 ++ x :: l2) := h.rep.congr rfl rfl rfl rfl rfl rfl rfl
        have hcgx : cg.ent x = e' := by simp [cg, cw, e']
        have hcgne : ∀ a, a ≠ x → cg.ent a = c.ent a := fun a ha => by simp [cg, cw, ha]
        obtain ⟨rt, hentt, hct, hmt, hst, hslt⟩ := touchPtr_rep rg
        obtain ⟨l3, r3, g1, g2, g3, g4, g5, _, _, _⟩ :=
          ejectTo_refines (target := c.max) (l1 ++ l2 ++ [x]) (cg.touchPtr x) o.tombs ((cg.touchPtr x).table.length + 1) rt
            (by rw [rt.length]; omega)
        have hB : c.mutate p id f o = (cg.touchPtr x).ejectTo ((cg.touchPtr x).table.length + 1) c.max o.tombs := by
          have htl : (cg.touchPtr x).table.length = c.table.length := by
            have := h.rep.length
            rw [rt.length]; simp at this ⊢; omega
          rw [htl]
          simp only [cg, cw, diff, CacheB.mutate, hf, ho, check_true, hgrow, if_true, hbig, if_false]
        have hentmap : (l1 ++ l2 ++ [x]).map cg.ent = removeId (( l1 ++ x :: l2).map c.ent) id ++ [e'] := by
          rw [hrm, List.map_append, map_update_ent hcgne hndl]
          simp [hcgx]
        have habs : ((cg.touchPtr x).ejectTo ((cg.touchPtr x).table.length + 1) c.max o.tombs).abs =
            (mutate p c.abs id f o).cache := by
          rw [r3.abs_eq, g1, g2, g3, g4, hentt, hct, hmt, hst, hentmap]
          have hbigA : ¬ (c.ent x).size + (valMemSize p (f (c.ent x).val).1 - valMemSize p (c.ent x).val) > c.abs.max := hbig
          simp only [mutate, hlA, hgrow, if_true, hbigA, if_false, touchList, hid]
          rw [h.rep.abs_entries]
          simp [cg, cw, e', diff, CacheB.abs]
        rw [hB]
        exact ⟨l3, r3, habs⟩
    · let diff := valMemSize p (c.ent x).val - valMemSize p (f (c.ent x).val).1
      let e' : Entry := { c.ent x with val := (f (c.ent x).val).1, size := (c.ent x).size - diff }
      let cs : CacheB :=
        { cw with ent := (fun y => if y = x then { cw.ent y with size := (c.ent x).size - diff } else cw.ent y),
                  cur := cw.cur - diff }
      have rs : Rep cs (l1 ++ x :: l2) := h.rep.congr rfl rfl rfl rfl rfl rfl rfl
      have hcsx : cs.ent x = e' := by simp [cs, cw, e']
      have hcsne : ∀ a, a ≠ x → cs.ent a = c.ent a := fun a ha => by simp [cs, cw, ha]
      obtain ⟨rt, hentt, hct, hmt, hst, hslt⟩ := touchPtr_rep rs
      have hB : c.mutate p id f o = cs.touchPtr x := by
        simp only [cs, cw, diff, CacheB.mutate, hf, ho, check_true, hgrow, if_false]
      have hentmap : (l1 ++ l2 ++ [x]).map cs.ent = removeId ((l1 ++ x :: l2).map c.ent) id ++ [e'] := by
        rw [hrm, List.map_append, map_update_ent hcsne hndl]
        simp [hcsx]
      have habs : (cs.touchPtr x).abs = (mutate p c.abs id f o).cache := by
        rw [rt.abs_eq, hentt, hct, hmt, hst, hentmap]
        simp only [mutate, hlA, hgrow, if_false, touchList, hid]
        rw [h.rep.abs_entries]
        simp [cs, cw, e', diff, CacheB.abs]
      rw [hB]
      exact ⟨_, rt, habs⟩

/-- **One step from a weak state**: every operation executed on the cache itself keeps the pointer
structure well formed and abstracts to the Level A step. -/
theorem stepB_refinesW {p : Params} {c : CacheB} {l : List Nat} (op : Op) (o : Oracle) (h : RefW c l)
    (hd : op.direct = true) :
    ∃ l', Rep (stepB p c op o) l' ∧ (stepB p c op o).abs = (step p c.abs op o).cache := by
  cases op with
  | insert k v => exact insert_refinesW k v o h
  | tryInsert k v => exact tryInsert_refinesW k v o h
  | get id => exact getEntry_refinesW id h
  | getEntry id => exact getEntry_refinesW id h
  | touch id => exact getEntry_refinesW id h
  | peek id => exact ⟨l, h.rep, rfl⟩
  | peekEntry id => exact ⟨l, h.rep, rfl⟩
  | contains id => exact ⟨l, h.rep, rfl⟩
  | remove id =>
    obtain ⟨l', r, e⟩ := removeEntry_refinesW id o h
    refine ⟨l', r, ?_⟩
    show (c.removeEntry id o).abs = (remove c.abs id o).cache
    rw [e]
    simp only [remove, removeEntry]
    cases lookup c.abs.entries id <;> rfl
  | removeEntry id => exact removeEntry_refinesW id o h
  | removeLru => exact removeLru_refinesW o h
  | removeMru => exact removeMru_refinesW o h
  | getLru => exact getLru_refinesW h
  | peekLru => exact ⟨l, h.rep, rfl⟩
  | peekMru => exact ⟨l, h.rep, rfl⟩
  | setMaxSize m => exact setMaxSize_refinesW m o h.rep
  | reserve a => exact (reserve_refinesW a o h.rep).imp fun _ x => ⟨x.1, x.2.1⟩
  | tryReserve a => exact (reserve_refinesW a o h.rep).imp fun _ x => ⟨x.1, x.2.2⟩
  | shrinkTo m => exact shrinkTo_refinesW m o h.rep
  | shrinkToFit => exact shrinkTo_refinesW 0 o h.rep
  | mutate id f => exact mutate_refinesW id f o h
  | retain pr => exact retain_refinesW pr o h
  | clear => exact ⟨[], clear_refinesW h.rep⟩
  | debugFmt => exact ⟨l, h.rep, rfl⟩
  | iterate k n f => simp [Op.direct] at hd
  | cloneProbe b => simp [Op.direct] at hd

end LruMem
