import LruMem.Proofs.Reach
/-!
# Closed forms of the operations under the invariant

What each operation leaves behind and returns, in terms of `need` (the minimal LRU prefix), used
by the property files C03, C04, C05, C10, C11.
-/
namespace LruMem

/-- Outputs that are errors (the operation was rejected or handed the entry back). -/
def Out.isErr : Out → Bool
  | .insTooLarge .. | .tryTooLarge .. | .tryWouldEject .. | .tryOccupied .. | .mutTooLarge ..
  | .reserveOverflow | .reserveAlloc => true
  | _ => false

/-- The entry that a storing operation links at the most-recently-used end when it succeeds. -/
def storedLast (p : Params) (c : Cache) : Op → Option Entry
  | .insert k v => some ⟨k, v, entrySize p k v⟩
  | .tryInsert k v => some ⟨k, v, entrySize p k v⟩
  | .mutate id f => (lookup c.entries id).map fun e => ⟨e.key, (f e.val).1, entrySize p e.key (f e.val).1⟩
  | _ => none

/-- `insert` of a pair that fits the limit: the duplicate key is removed first, then exactly the
minimal LRU prefix of the *others*, then the new entry is linked at the MRU end. -/
theorem insert_spec {p : Params} {c : Cache} (k : Key) (v : Val) (o : Oracle) (h : InvA p c)
    (hs : entrySize p k v ≤ c.max) :
    (insert p c k v o).cache.entries =
      (removeId c.entries k.id).drop (need (removeId c.entries k.id) (c.max - entrySize p k v))
        ++ [⟨k, v, entrySize p k v⟩] ∧
    (insert p c k v o).out = .ownVal ((lookup c.entries k.id).map (·.val)) ∧
    (insert p c k v o).cache.max = c.max ∧
    (insert p c k v o).cache.cur =
      sumSizes ((removeId c.entries k.id).drop (need (removeId c.entries k.id) (c.max - entrySize p k v)))
        + entrySize p k v := by
  have hs' : ¬ entrySize p k v > c.max := by omega
  have hcur1 : c.cur - oldSize (lookup c.entries k.id) = sumSizes (removeId c.entries k.id) := by
    have := sumSizes_removeId c.entries k.id
    rw [h.cur]; omega
  obtain ⟨hi, hd, hle, hnot⟩ := after_remove_eject h k.id (c.max - entrySize p k v) o.tombs (Nat.sub_le _ _)
  obtain ⟨hrest, hev⟩ := eject_eq_drop (removeId c.entries k.id) _ (c.max - entrySize p k v) hcur1
  obtain ⟨_, hc, _, _⟩ := eject_spec (removeId c.entries k.id) _ (c.max - entrySize p k v) hcur1
  have hu := insertUnchecked_inv (p := p) ⟨k, v, entrySize p k v⟩ o hi hnot rfl (by simp only; omega)
  simp only [insert, hs', if_false, hd, Bool.false_eq_true]
  refine ⟨?_, trivial, hu.2.2.2.2, ?_⟩
  · rw [hu.2.2.1]; simp only; rw [hrest]
  · rw [hu.2.2.2.1]; simp only; rw [hc, hrest]

/-- The evictions of an insert, in order: the minimal LRU prefix of the others, oldest first. -/
theorem insert_evicted {p : Params} {c : Cache} (k : Key) (v : Val) (h : InvA p c) :
    (eject (removeId c.entries k.id) (c.cur - oldSize (lookup c.entries k.id)) (c.max - entrySize p k v)).evicted =
      (removeId c.entries k.id).take (need (removeId c.entries k.id) (c.max - entrySize p k v)) := by
  have hcur1 : c.cur - oldSize (lookup c.entries k.id) = sumSizes (removeId c.entries k.id) := by
    have := sumSizes_removeId c.entries k.id
    rw [h.cur]; omega
  exact (eject_eq_drop _ _ _ hcur1).2

/-- A successful `try_insert` appends and evicts nothing. -/
theorem tryInsert_spec {p : Params} {c : Cache} (k : Key) (v : Val) (o : Oracle) (h : InvA p c)
    (hs : entrySize p k v ≤ c.max - c.cur) (hfree : lookup c.entries k.id = none) :
    (tryInsert p c k v o).cache.entries = c.entries ++ [⟨k, v, entrySize p k v⟩] ∧
    (tryInsert p c k v o).out = .unit ∧
    (tryInsert p c k v o).cache.cur = c.cur + entrySize p k v ∧
    (tryInsert p c k v o).cache.max = c.max := by
  have hb := h.bound
  have h1 : ¬ entrySize p k v > c.max := by omega
  have h2 : ¬ entrySize p k v > c.max - c.cur := by omega
  have hu := insertUnchecked_inv (p := p) ⟨k, v, entrySize p k v⟩ o h (lookup_none_iff.mp hfree) rfl
    (by simp only; omega)
  simp only [tryInsert, h1, h2, if_false, hfree, Option.isSome_none, Bool.false_eq_true]
  exact ⟨hu.2.2.1, trivial, hu.2.2.2.1, hu.2.2.2.2⟩

/-- An `insert` of an absent key that fits the free space appends without evicting. -/
theorem C10_like_fit {p : Params} {c : Cache} (k : Key) (v : Val) (o : Oracle) (h : InvA p c)
    (hfit : entrySize p k v ≤ c.max - c.cur) (hfree : lookup c.entries k.id = none) :
    (insert p c k v o).cache.entries = c.entries ++ [⟨k, v, entrySize p k v⟩] := by
  have hb := h.bound
  have hrm : removeId c.entries k.id = c.entries := removeId_of_not_mem (lookup_none_iff.mp hfree)
  have hn : need c.entries (c.max - entrySize p k v) = 0 := need_eq_zero (by rw [← h.cur]; omega)
  have := (insert_spec k v o h (by omega)).1
  rw [hrm, hn] at this
  exact this

/-- `set_max_size`: exactly the minimal LRU prefix goes. -/
theorem setMaxSize_spec {p : Params} {c : Cache} (m : Nat) (o : Oracle) (h : InvA p c) :
    (setMaxSize c m o).cache.entries = c.entries.drop (need c.entries m) ∧
    (eject c.entries c.cur m).evicted = c.entries.take (need c.entries m) ∧
    (setMaxSize c m o).cache.max = m := by
  obtain ⟨a, b⟩ := eject_eq_drop c.entries c.cur m h.cur
  exact ⟨a, b, rfl⟩

/-- `need` over a list with one more element at the MRU end that alone fits the target: the loop
never reaches that element. -/
theorem need_append_fit (l : List Entry) (x : Entry) (t : Nat) (hx : x.size ≤ t) :
    need (l ++ [x]) t = need l (t - x.size) ∧
    (l ++ [x]).drop (need (l ++ [x]) t) = l.drop (need l (t - x.size)) ++ [x] := by
  induction l with
  | nil =>
    have : need [x] t = 0 := need_eq_zero (by simpa using hx)
    simp [this, need]
  | cons a l ih =>
    simp only [List.cons_append, need_cons, sumSizes_append, sumSizes_cons, sumSizes_nil]
    by_cases hc : a.size + (sumSizes l + (x.size + 0)) ≤ t
    · have hc' : a.size + sumSizes l ≤ t - x.size := by omega
      rw [if_pos hc, if_pos hc']
      exact ⟨rfl, rfl⟩
    · have hc' : ¬ a.size + sumSizes l ≤ t - x.size := by omega
      rw [if_neg hc, if_neg hc']
      simp only [List.drop_succ_cons]
      exact ⟨by rw [ih.1], ih.2⟩

/-- The growing, fitting branch of `mutate`: the entry is updated, promoted, and then exactly the
minimal LRU prefix of the others is evicted — never the mutated entry itself. -/
theorem mutate_grow_spec {p : Params} {c : Cache} (id : Nat) (f : Val → Val × Nat) (o : Oracle) (h : InvA p c)
    (e : Entry) (he : lookup c.entries id = some e)
    (hgrow : valMemSize p (f e.val).1 > valMemSize p e.val)
    (hfit : entrySize p e.key (f e.val).1 ≤ c.max) :
    (mutate p c id f o).cache.entries =
      (removeId c.entries id).drop (need (removeId c.entries id) (c.max - entrySize p e.key (f e.val).1))
        ++ [⟨e.key, (f e.val).1, entrySize p e.key (f e.val).1⟩] ∧
    (mutate p c id f o).out = .mutOk (some (f e.val).2) := by
  obtain ⟨hmem, hid⟩ := lookup_some_mem he
  have hsz : e.size = e.key.heap + e.val.heap + p.ovh := h.sizes e hmem
  have hv1 : valMemSize p e.val = p.vsz + e.val.heap := rfl
  have hv2 : valMemSize p (f e.val).1 = p.vsz + (f e.val).1.heap := rfl
  have hes : entrySize p e.key (f e.val).1 = e.key.heap + (f e.val).1.heap + p.ovh := rfl
  have hnew : e.size + (valMemSize p (f e.val).1 - valMemSize p e.val) = entrySize p e.key (f e.val).1 := by omega
  have hbig : ¬ e.size + (valMemSize p (f e.val).1 - valMemSize p e.val) > c.max := by omega
  have hsum := sumSizes_removeId c.entries id
  rw [he] at hsum
  simp only [oldSize] at hsum
  simp only [mutate, he]
  rw [if_pos hgrow, if_neg hbig]
  simp only [hnew, touchList, hid]
  -- the eject over `others ++ [e']`
  have hcur : c.cur + (valMemSize p (f e.val).1 - valMemSize p e.val) =
      sumSizes (removeId c.entries id ++ [⟨e.key, (f e.val).1, entrySize p e.key (f e.val).1⟩]) := by
    simp only [sumSizes_append, sumSizes_cons, sumSizes_nil, h.cur]; omega
  obtain ⟨hrest, _⟩ := eject_eq_drop _ _ c.max hcur
  refine ⟨?_, trivial⟩
  rw [hrest]
  exact (need_append_fit _ _ c.max (by simpa using hfit)).2

/-- The overflowing branch of `mutate`: only the entry itself leaves, handed back in the error. -/
theorem mutate_overflow_spec {p : Params} {c : Cache} (id : Nat) (f : Val → Val × Nat) (o : Oracle) (h : InvA p c)
    (e : Entry) (he : lookup c.entries id = some e)
    (hbig : entrySize p e.key (f e.val).1 > c.max) :
    (mutate p c id f o).cache.entries = removeId c.entries id ∧
    (mutate p c id f o).out = .mutTooLarge e.key (f e.val).1 (entrySize p e.key e.val)
      (entrySize p e.key (f e.val).1) c.max ∧
    (mutate p c id f o).cache.cur = c.cur - entrySize p e.key e.val ∧
    (mutate p c id f o).cache.max = c.max := by
  obtain ⟨hmem, hid⟩ := lookup_some_mem he
  have hsz : e.size = e.key.heap + e.val.heap + p.ovh := h.sizes e hmem
  have hsz' : e.size = entrySize p e.key e.val := h.sizes e hmem
  have hv1 : valMemSize p e.val = p.vsz + e.val.heap := rfl
  have hv2 : valMemSize p (f e.val).1 = p.vsz + (f e.val).1.heap := rfl
  have hes : entrySize p e.key (f e.val).1 = e.key.heap + (f e.val).1.heap + p.ovh := rfl
  have hcm : e.size ≤ c.max := by
    have := h.bound; have := h.cur; have := sumSizes_removeId c.entries id
    rw [he] at this; simp only [oldSize] at this; omega
  have hgrow : valMemSize p (f e.val).1 > valMemSize p e.val := by omega
  have hnew : e.size + (valMemSize p (f e.val).1 - valMemSize p e.val) = entrySize p e.key (f e.val).1 := by omega
  have hbig' : e.size + (valMemSize p (f e.val).1 - valMemSize p e.val) > c.max := by omega
  simp only [mutate, he]
  rw [if_pos hgrow, if_pos hbig']
  rw [hsz'] at hnew
  simp only [hsz', hnew]
  exact ⟨trivial, trivial, trivial, trivial⟩

/-- The non-expanding branch of `mutate`: promote, nothing leaves. -/
theorem mutate_shrink_spec {p : Params} {c : Cache} (id : Nat) (f : Val → Val × Nat) (o : Oracle) (h : InvA p c)
    (e : Entry) (he : lookup c.entries id = some e)
    (hshrink : ¬ valMemSize p (f e.val).1 > valMemSize p e.val) :
    (mutate p c id f o).cache.entries =
      removeId c.entries id ++ [⟨e.key, (f e.val).1, entrySize p e.key (f e.val).1⟩] ∧
    (mutate p c id f o).out = .mutOk (some (f e.val).2) ∧
    (mutate p c id f o).evs = [Ev.hash id, .szV e.val.tok, .closure e.val.tok]
      ++ (if (f e.val).1.tok = e.val.tok then [] else [Ev.dropV e.val.tok]) ++ [.szV (f e.val).1.tok] := by
  obtain ⟨hmem, hid⟩ := lookup_some_mem he
  have hsz : e.size = e.key.heap + e.val.heap + p.ovh := h.sizes e hmem
  have hv1 : valMemSize p e.val = p.vsz + e.val.heap := rfl
  have hv2 : valMemSize p (f e.val).1 = p.vsz + (f e.val).1.heap := rfl
  have hes : entrySize p e.key (f e.val).1 = e.key.heap + (f e.val).1.heap + p.ovh := rfl
  have hnew : e.size - (valMemSize p e.val - valMemSize p (f e.val).1) = entrySize p e.key (f e.val).1 := by omega
  simp only [mutate, he]
  rw [if_neg hshrink]
  simp only [hnew, touchList, hid]
  exact ⟨trivial, trivial, trivial⟩

end LruMem
