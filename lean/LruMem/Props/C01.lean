import LruMem.Proofs.Reach
/-!
# C01 — the memory bound is never exceeded

After every public operation `current_size ≤ max_size`, for every history, every key/value size,
every limit, every initial capacity, every closure/predicate and every resolution of hashbrown's
internal choices (`Oracle`) — hence for every hasher.
-/
namespace LruMem

/-- The bound holds in every reachable cache (clones included). -/
theorem C01_bound {p : Params} {c : Cache} (h : Reachable p c) : c.cur ≤ c.max :=
  (reachable_inv h).bound

/-- …and the bounded quantity is the sum of the recorded size estimates of the entries held. -/
theorem C01_sum {p : Params} {c : Cache} (h : Reachable p c) : c.cur = sumSizes c.entries :=
  (reachable_inv h).cur

/-- One step from any state satisfying the invariant: the bound holds afterwards, whatever the
operation, its arguments (sizes, new limit `m ∈ ℕ`, closure, predicate) and the oracle. -/
theorem C01_step {p : Params} {c : Cache} (op : Op) (o : Oracle) (h : InvA p c) :
    (step p c op o).cache.cur ≤ (step p c op o).cache.max :=
  (step_inv op o h).bound

/-- After a whole history. -/
theorem C01_history {p : Params} (max n : Nat) (l : List (Op × Oracle)) :
    (runOps p (Cache.withCapacity max n) l).cur ≤ (runOps p (Cache.withCapacity max n) l).max :=
  C01_bound (reachable_runOps (Reachable.new max n) l)

/-- The eviction loop `while current_size > target { remove_lru }` always terminates, and no
unchecked `unwrap` is hit: no step diverges or is undefined. -/
theorem C01_total {p : Params} {c : Cache} (op : Op) (o : Oracle) (h : Reachable p c) :
    (step p c op o).status ≠ .diverge ∧ (step p c op o).status ≠ .ub := by
  rcases step_status op o (reachable_inv h) with h1 | ⟨h1, _, _⟩ <;> simp [h1]

/-- A clone obeys the bound as well. -/
theorem C01_clone {p : Params} {c : Cache} (base : Nat) (h : Reachable p c) :
    (clone c base).1.cur ≤ (clone c base).1.max :=
  C01_bound (Reachable.clone base h)

/-- The insertion path ejects down to `max - size` *before* linking: the new entry always fits. -/
theorem C01_insert_fits {p : Params} {c : Cache} (k : Key) (v : Val) (o : Oracle) (h : InvA p c) :
    (insert p c k v o).cache.cur ≤ c.max ∧ (insert p c k v o).cache.max = c.max := by
  have hi := (insert_inv k v o h).1
  have hm : (insert p c k v o).cache.max = c.max := by
    simp only [insert]
    split
    · rfl
    · obtain ⟨hi2, hd, hle, hnot⟩ := after_remove_eject h k.id (c.max - entrySize p k v) o.tombs (Nat.sub_le _ _)
      simp only [hd]
      exact (insertUnchecked_inv (p := p) ⟨k, v, entrySize p k v⟩ o hi2 hnot rfl (by simp only; omega)).2.2.2.2
  exact ⟨hm ▸ hi.bound, hm⟩

/-! ### non-vacuity: a concrete reachable cache that is *exactly* full, then pushed over -/

private def p0 : Params := ⟨64, 16, 18446744073709551615⟩
private def full3 : Cache :=
  runOps p0 (Cache.new 200) [(.insert ⟨1, 0, 1⟩ ⟨4, 2⟩, {}), (.insert ⟨2, 0, 3⟩ ⟨4, 4⟩, {}), (.insert ⟨3, 0, 5⟩ ⟨0, 6⟩, {})]

example : Reachable p0 full3 := reachable_runOps (Reachable.new 200 0) _
example : full3.cur = 200 ∧ full3.max = 200 ∧ full3.entries.length = 3 := by decide
-- growing the LRU entry by one byte while the cache is exactly full evicts and keeps the bound
example : (step p0 full3 (.mutate 1 fun v => ({ v with heap := 5 }, 0)) {}).cache.cur = 133 := by decide
-- lowering the limit to an arbitrary value in between
example : (step p0 full3 (.setMaxSize 131) {}).cache.cur = 64 := by decide

end LruMem
