import LruMem.Proofs.Arith
import LruMem.Proofs.Reach
/-!
# C01 (continued) — "any limit from 0 to `usize::MAX`": the accounting arithmetic stays inside `usize`

`C01_bound` is a statement over `Nat`. The code computes over `usize`, where an overflowing addition
or a subtraction below zero panics (debug) or wraps (release) — after which neither the bound nor
the exact accounting (C02) would mean anything. `arithOf` (in `Proofs/Arith.lean`) lists every
addition and subtraction on sizes that each operation performs, in program order; the theorem says
that in every state satisfying the invariant, under the explicit side conditions `ASizes`
(assumption A-sizes), each of them is exact: no carry, no borrow. In particular the model's
truncated `Nat` subtractions never truncate, and limits up to `usize::MAX` with sizes of the same
magnitude are safe — the insertion path forms `max_size - size` and `max_size - current_size`,
never `current_size + size` before it is known to fit.
-/
namespace LruMem

theorem shape_remove_capacity_le (s : Shape) (k t : Nat) (hk : k ≤ s.items) :
    (s.remove k t).capacity ≤ s.capacity := by
  simp only [Shape.remove, Shape.capacity]
  have : min t k ≤ k := Nat.min_le_right _ _
  omega

theorem lruOf_mem {l : List Entry} {e : Entry} (h : lruOf l = some e) : e ∈ l := by
  cases l with
  | nil => simp [lruOf] at h
  | cons a l => simp [lruOf] at h; simp [h]

theorem mruOf_mem {l : List Entry} {e : Entry} (h : mruOf l = some e) : e ∈ l :=
  List.mem_of_getLast? h

/-- **Every arithmetic step of every operation is exact on `usize`**, from any state satisfying the
invariant, for any resolution of hashbrown's choices. -/
theorem C01_arith_safe {p : Params} {c : Cache} (op : Op) (o : Oracle) (h : InvA p c)
    (hs : ASizes p c op) : ∀ a ∈ arithOf p c op o, a.ok p := by
  obtain ⟨hmax, hvsz, hcap, hop⟩ := hs
  have hcur := h.cur
  have hb := h.bound
  cases op with
  | insert k v =>
    simp only [arithOf]
    have hsz : k.heap + v.heap + p.ovh ≤ p.usizeMax := hop
    intro a ha
    rcases List.mem_append.mp ha with ha | ha
    · simp only [sizeArith, List.mem_cons, List.mem_nil_iff, or_false] at ha
      rcases ha with rfl | rfl <;> simp only [Arith.ok] <;> omega
    · split at ha
      · cases ha
      · rename_i hfit
        have hfit' : entrySize p k v ≤ c.max := by omega
        have hsum := sumSizes_removeId c.entries k.id
        have hlen := length_removeId c.entries k.id
        have hcur1 : c.cur - oldSize (lookup c.entries k.id) = sumSizes (removeId c.entries k.id) := by omega
        have hej := eject_spec (removeId c.entries k.id) _ (c.max - entrySize p k v) hcur1
        have hejlen := eject_length (removeId c.entries k.id) (c.cur - oldSize (lookup c.entries k.id)) (c.max - entrySize p k v)
        simp only [List.mem_append] at ha
        rcases ha with ((ha | ha) | ha) | ha
        · -- the replaced entry
          split at ha
          · rename_i e he
            simp only [List.mem_singleton] at ha
            subst ha
            have := mem_size_le_sum (lookup_some_mem he).1
            simp only [Arith.ok]; omega
          · cases ha
        · simp only [List.mem_singleton] at ha
          subst ha
          simp only [Arith.ok]; omega
        · exact ejectArith_ok p _ _ _ hcur1 a ha
        · simp only [insertUncheckedArith, List.mem_append, List.mem_singleton] at ha
          rcases ha with ha | rfl
          · split at ha
            · cases ha
            · simp only [List.mem_singleton] at ha
              subst ha
              simp only [Arith.ok]
              have hk : oldCount (lookup c.entries k.id) + (eject (removeId c.entries k.id)
                  (c.cur - oldSize (lookup c.entries k.id)) (c.max - entrySize p k v)).evicted.length ≤ c.shape.items := by
                rw [h.items]
                have : (eject (removeId c.entries k.id) (c.cur - oldSize (lookup c.entries k.id))
                    (c.max - entrySize p k v)).evicted.length ≤ (removeId c.entries k.id).length := by
                  have := congrArg List.length hej.2.2.2
                  simp only [List.length_append] at this
                  omega
                omega
              have := shape_remove_capacity_le c.shape _ o.tombs hk
              omega
          · simp only [Arith.ok]
            have := hej.2.2.1
            omega
  | tryInsert k v =>
    simp only [arithOf]
    have hsz : k.heap + v.heap + p.ovh ≤ p.usizeMax := hop
    intro a ha
    rcases List.mem_append.mp ha with ha | ha
    · simp only [sizeArith, List.mem_cons, List.mem_nil_iff, or_false] at ha
      rcases ha with rfl | rfl <;> simp only [Arith.ok] <;> omega
    · split at ha
      · cases ha
      · simp only [List.mem_append, List.mem_singleton] at ha
        rcases ha with rfl | ha
        · simp only [Arith.ok]; omega
        · split at ha
          · cases ha
          · split at ha
            · cases ha
            · simp only [insertUncheckedArith, List.mem_append, List.mem_singleton] at ha
              rcases ha with ha | rfl
              · split at ha
                · cases ha
                · simp only [List.mem_singleton] at ha
                  subst ha
                  simp only [Arith.ok]; omega
              · simp only [Arith.ok]; omega
  | remove id =>
    simp only [arithOf]
    intro a ha
    split at ha
    · rename_i e he
      simp only [List.mem_singleton] at ha
      subst ha
      have := mem_size_le_sum (lookup_some_mem he).1
      simp only [Arith.ok]; omega
    · cases ha
  | removeEntry id =>
    simp only [arithOf]
    intro a ha
    split at ha
    · rename_i e he
      simp only [List.mem_singleton] at ha
      subst ha
      have := mem_size_le_sum (lookup_some_mem he).1
      simp only [Arith.ok]; omega
    · cases ha
  | removeLru =>
    simp only [arithOf]
    intro a ha
    split at ha
    · rename_i e he
      simp only [List.mem_singleton] at ha
      subst ha
      have := mem_size_le_sum (lruOf_mem he)
      simp only [Arith.ok]; omega
    · cases ha
  | removeMru =>
    simp only [arithOf]
    intro a ha
    split at ha
    · rename_i e he
      simp only [List.mem_singleton] at ha
      subst ha
      have := mem_size_le_sum (mruOf_mem he)
      simp only [Arith.ok]; omega
    · cases ha
  | setMaxSize m => exact ejectArith_ok p _ _ _ hcur
  | mutate id f =>
    simp only [arithOf]
    intro a ha
    split at ha
    · cases ha
    · rename_i e he
      simp only [he] at hop
      obtain ⟨hnew, hgrowcur⟩ := hop
      obtain ⟨hmem, hid⟩ := lookup_some_mem he
      have hsz : e.size = e.key.heap + e.val.heap + p.ovh := h.sizes e hmem
      have hle := mem_size_le_sum hmem
      have hnew' : e.key.heap + (f e.val).1.heap + p.ovh ≤ p.usizeMax := hnew
      have hv1 : valMemSize p e.val = p.vsz + e.val.heap := rfl
      have hv2 : valMemSize p (f e.val).1 = p.vsz + (f e.val).1.heap := rfl
      simp only [List.mem_append, List.mem_cons, List.mem_nil_iff, or_false] at ha
      rcases ha with (rfl | rfl) | ha
      · simp only [Arith.ok]; omega
      · simp only [Arith.ok]; omega
      · split at ha
        · rename_i hgrow
          have hgc := hgrowcur hgrow
          simp only [List.mem_append, List.mem_cons, List.mem_nil_iff, or_false] at ha
          rcases ha with (rfl | rfl) | ha
          · simp only [Arith.ok]; omega
          · simp only [Arith.ok]; omega
          · split at ha
            · simp only [List.mem_singleton] at ha
              subst ha
              simp only [Arith.ok]; omega
            · simp only [List.mem_append, List.mem_singleton] at ha
              rcases ha with rfl | ha
              · simp only [Arith.ok]; omega
              · refine ejectArith_ok p _ _ _ ?_ a ha
                have hsum := sumSizes_removeId c.entries id
                rw [he] at hsum
                simp only [oldSize] at hsum
                simp only [touchList, hid, sumSizes_append, sumSizes_cons, sumSizes_nil]
                omega
        · rename_i hgrow
          simp only [List.mem_cons, List.mem_nil_iff, or_false] at ha
          rcases ha with rfl | rfl | rfl <;> simp only [Arith.ok] <;> omega
  | retain pr =>
    simp only [arithOf]
    refine subArith_ok p _ _ ?_
    have := retainGo_sum (indexPred pr) 0 c.entries
    omega
  | _ => intro a ha; simp [arithOf] at ha

/-- Along a whole history: if the side conditions hold at every step, every arithmetic step of every
operation of the history is exact. -/
theorem C01_arith_history {p : Params} (max n : Nat) (l : List (Op × Oracle)) (op : Op) (o : Oracle)
    (hs : ASizes p (runOps p (Cache.withCapacity max n) l) op) :
    ∀ a ∈ arithOf p (runOps p (Cache.withCapacity max n) l) op o, a.ok p :=
  C01_arith_safe op o (reachable_inv (reachable_runOps (Reachable.new max n) l)) hs

/-! ### the side conditions are what the code needs, not more: two witnesses

With a limit above `usize::MAX / 2` the *sum* `current_size + entry_size` that a careless fit test
would form does overflow in a reachable state, while everything the code actually computes is fine;
and the one place where the code itself forms such a sum — `current_size += diff` in a growing
`mutate`, before evicting — is exactly the excluded case. -/

private def p64 : Params := ⟨72, 16, 18446744073709551615⟩
private def big : Cache :=
  runOps p64 (Cache.new 18446744073709551615) [(.insert ⟨2, 0, 1⟩ ⟨4611686018427387904, 2⟩, {})]

example : Reachable p64 big := reachable_runOps (Reachable.new _ 0) _
/-- the pair below exists (`entry_size` fits `usize`) and all of `try_insert`'s arithmetic is exact … -/
example : ∀ a ∈ arithOf p64 big (.tryInsert ⟨0, 7, 3⟩ ⟨18446744073709551472, 4⟩) {}, a.ok p64 := by decide
/-- … although `current_size + entry_size` does not fit `usize` (so the test must be, and is, a subtraction) -/
example : ¬ (Arith.add big.cur (entrySize p64 ⟨0, 7, 3⟩ ⟨18446744073709551472, 4⟩)).ok p64 := by decide
private def big2 : Cache :=
  runOps p64 (Cache.new 18446744073709551615)
    [(.insert ⟨2, 0, 1⟩ ⟨4611686018427387904, 2⟩, {}), (.insert ⟨3, 0, 3⟩ ⟨4611686018427387904, 4⟩, {})]
private def growBig : Op := .mutate 2 fun v => ({ v with heap := 18446744073709551000 }, 0)

/-- the excluded case: two entries of 2⁶² bytes each; growing one of them to almost `usize::MAX` (the
grown entry alone still fits the limit) makes `current_size += diff` pass `usize::MAX` before the other
entry is evicted -/
example : ¬ ∀ a ∈ arithOf p64 big2 growBig {}, a.ok p64 := by decide
/-- … and that is precisely what `ASizes` rules out -/
example : ¬ ASizes p64 big2 growBig := fun hs =>
  (by decide : ¬ ∀ a ∈ arithOf p64 big2 growBig {}, a.ok p64)
    (C01_arith_safe growBig {} (reachable_inv (reachable_runOps (Reachable.new _ 0) _)) hs)

end LruMem
