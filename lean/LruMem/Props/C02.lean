import LruMem.Proofs.Reach
/-!
# C02 — size accounting is exact

`current_size` is the sum of `entry_size(key, value)` over exactly the entries held, `len` is their
number, `current_size = 0` iff empty; the per-operation deltas.
-/
namespace LruMem

/-- the sum of `entry_size` over the contents, recomputed from keys and values -/
def sumEntrySizes (p : Params) : List Entry → Nat
  | [] => 0
  | e :: l => entrySize p e.key e.val + sumEntrySizes p l

theorem sumEntrySizes_eq {p : Params} {l : List Entry} (h : ∀ e ∈ l, e.size = entrySize p e.key e.val) :
    sumEntrySizes p l = sumSizes l := by
  induction l with
  | nil => rfl
  | cons a l ih =>
    simp only [sumEntrySizes, sumSizes_cons]
    rw [ih (fun e he => h e (by simp [he])), h a (by simp)]

/-- At every reachable point: the total equals the sum of `entry_size(k, v)` over the contents, the
recorded per-entry sizes are those `entry_size`s, and `len()` is the number of entries. -/
theorem C02_exact {p : Params} {c : Cache} (h : Reachable p c) :
    c.cur = sumEntrySizes p c.entries ∧ (∀ e ∈ c.entries, e.size = entrySize p e.key e.val) ∧
    c.shape.items = c.entries.length := by
  have i := reachable_inv h
  exact ⟨by rw [sumEntrySizes_eq i.sizes]; exact i.cur, i.sizes, i.items⟩

theorem sumSizes_pos {p : Params} (hovh : 0 < p.ovh) {l : List Entry}
    (h : ∀ e ∈ l, e.size = entrySize p e.key e.val) (hne : l ≠ []) : 0 < sumSizes l := by
  cases l with
  | nil => exact absurd rfl hne
  | cons a l =>
    have := h a (by simp)
    simp only [sumSizes_cons, entrySize] at *
    omega

/-- `current_size() == 0` exactly when the cache is empty (`size_of::<Entry>() > 0`). -/
theorem C02_zero_iff_empty {p : Params} (hovh : 0 < p.ovh) {c : Cache} (h : Reachable p c) :
    c.cur = 0 ↔ c.entries = [] := by
  have i := reachable_inv h
  constructor
  · intro h0
    by_cases hne : c.entries = []
    · exact hne
    · have := sumSizes_pos hovh i.sizes hne
      rw [← i.cur] at this; omega
  · intro he
    rw [i.cur, he]; rfl

/-- `len() == 0` exactly when empty (`is_empty`). -/
theorem C02_len {p : Params} {c : Cache} (h : Reachable p c) : c.shape.items = 0 ↔ c.entries = [] := by
  rw [(reachable_inv h).items]; exact List.length_eq_zero_iff

/-! ### deltas -/

/-- A fresh insertion that fits raises the total by exactly the pair's `entry_size`. -/
theorem C02_insert_fresh {p : Params} {c : Cache} (k : Key) (v : Val) (o : Oracle) (h : InvA p c)
    (hfresh : lookup c.entries k.id = none) (hfit : c.cur + entrySize p k v ≤ c.max) :
    (insert p c k v o).cache.cur = c.cur + entrySize p k v := by
  have hs : ¬ entrySize p k v > c.max := by omega
  have hrm : removeId c.entries k.id = c.entries := removeId_of_not_mem (lookup_none_iff.mp hfresh)
  have hej := eject_nothing (l := c.entries) (cur := c.cur) (target := c.max - entrySize p k v) (by omega)
  simp only [insert, hs, if_false, hfresh, oldSize, oldCount, hrm, Nat.sub_zero, hej]
  have hc2 : InvA p { c with shape := c.shape.remove (0 + ([] : List Entry).length) o.tombs } :=
    ⟨h.nodup, h.sizes, h.cur, h.bound, by simp [Shape.remove, h.items], by
      have := h.room; simp [Shape.remove]; omega⟩
  exact (insertUnchecked_inv (p := p) ⟨k, v, entrySize p k v⟩ o hc2 (lookup_none_iff.mp hfresh) rfl
    (by simp only; omega)).2.2.2.1

/-- Every removal lowers the total by the departing entry's recorded size. -/
theorem C02_remove {c : Cache} (id : Nat) (o : Oracle) (e : Entry)
    (he : lookup c.entries id = some e) :
    (removeEntry c id o).cache.cur = c.cur - e.size ∧ (remove c id o).cache.cur = c.cur - e.size := by
  simp [removeEntry, remove, he]

/-- An eviction loop lowers the total by exactly the recorded sizes of what it evicts. -/
theorem C02_eject (l : List Entry) (cur target : Nat) (h : cur = sumSizes l) :
    (eject l cur target).cur + sumSizes (eject l cur target).evicted = cur := by
  obtain ⟨_, hc, _, happ⟩ := eject_spec l cur target h
  have := congrArg sumSizes happ
  simp only [sumSizes_append] at this
  omega

/-- `mutate` changes the entry's recorded size *and* the total by the same amount: afterwards the
mutated entry records `entry_size(key, new value)` (so a later eviction subtracts the right amount). -/
theorem C02_mutate_both {p : Params} {c : Cache} (id : Nat) (f : Val → Val × Nat) (o : Oracle) (h : InvA p c) :
    (mutate p c id f o).cache.cur = sumSizes (mutate p c id f o).cache.entries ∧
    ∀ e ∈ (mutate p c id f o).cache.entries, e.size = entrySize p e.key e.val :=
  ⟨(mutate_inv id f o h).1.cur, (mutate_inv id f o h).1.sizes⟩

/-- `clear` and a drain reset the total to 0 and the contents to nothing. -/
theorem C02_clear (c : Cache) : (clear c).cache.cur = 0 ∧ (clear c).cache.entries = [] ∧ (clear c).cache.shape.items = 0 :=
  ⟨rfl, rfl, rfl⟩

theorem C02_drain (c : Cache) (calls : List Bool) (forget : Bool) :
    ((iterScenario c .drain calls forget).cache.map (·.cur)) = some 0 := rfl

/-- `clone` copies the total and the per-entry sizes. -/
theorem C02_clone (c : Cache) (base : Nat) :
    (clone c base).1.cur = c.cur ∧ (clone c base).1.entries.map (·.size) = c.entries.map (·.size) := by
  refine ⟨rfl, ?_⟩
  simp only [clone]
  generalize c.entries = l
  induction l generalizing base with
  | nil => rfl
  | cons e l ih => simp [cloneEntries, ih]

/-- No drift: the accounting is exact after any history whatsoever. -/
theorem C02_history {p : Params} (max n : Nat) (l : List (Op × Oracle)) :
    (runOps p (Cache.withCapacity max n) l).cur = sumEntrySizes p (runOps p (Cache.withCapacity max n) l).entries :=
  (C02_exact (reachable_runOps (Reachable.new max n) l)).1

/-! ### non-vacuity: mutate, then evict that very entry — the right amount is subtracted -/
private def p0 : Params := ⟨64, 16, 18446744073709551615⟩
private def c2 : Cache :=
  runOps p0 (Cache.new 300) [(.insert ⟨1, 0, 1⟩ ⟨4, 2⟩, {}), (.insert ⟨2, 3, 3⟩ ⟨10, 4⟩, {}),
    (.mutate 1 (fun v => ({ v with heap := 50 }, 0)), {}), (.get 2, {})]
example : c2.cur = 191 ∧ c2.entries.map (·.size) = [114, 77] := by decide
example : (step p0 c2 (.setMaxSize 100) {}).cache.cur = 77 := by decide

end LruMem
