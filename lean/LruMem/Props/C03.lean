import LruMem.Proofs.Spec
/-!
# C03 — eviction is least-recently-used first, minimal, and spares the new entry

`need l t` is the least `n` such that the entries `l.drop n` fit into `t`
(`need_min`): the shortest run of least-recently-used entries whose removal makes the rest fit.
-/
namespace LruMem

/-- `need` really is the least number of LRU entries to drop. -/
theorem C03_need_minimal (l : List Entry) (t : Nat) :
    sumSizes (l.drop (need l t)) ≤ t ∧ ∀ m, m < need l t → ¬ sumSizes (l.drop m) ≤ t :=
  need_min l t

/-- Insertion of a pair that fits the limit: the replaced entry (if any) is credited first, then
exactly the minimal LRU prefix of the others is evicted, oldest first, and the new entry is the
most-recently-used one — it is never among the evicted. -/
theorem C03_insert {p : Params} {c : Cache} (k : Key) (v : Val) (o : Oracle) (h : InvA p c)
    (hs : entrySize p k v ≤ c.max) :
    (insert p c k v o).cache.entries =
      (removeId c.entries k.id).drop (need (removeId c.entries k.id) (c.max - entrySize p k v))
        ++ [⟨k, v, entrySize p k v⟩] ∧
    (eject (removeId c.entries k.id) (c.cur - oldSize (lookup c.entries k.id)) (c.max - entrySize p k v)).evicted =
      (removeId c.entries k.id).take (need (removeId c.entries k.id) (c.max - entrySize p k v)) :=
  ⟨(insert_spec k v o h hs).1, insert_evicted k v h⟩

/-- The order of the departures is visible in the events: the replaced key first, then the evicted
entries oldest first (hash, drop key, drop value each). -/
theorem C03_insert_events {p : Params} {c : Cache} (k : Key) (v : Val) (o : Oracle) (h : InvA p c)
    (hs : entrySize p k v ≤ c.max) :
    ∃ tail, (insert p c k v o).evs = [Ev.szK k.tok, .szV v.tok, .hash k.id]
      ++ (match lookup c.entries k.id with | some e => [Ev.dropK e.key.tok] | none => [])
      ++ evictAllEvs ((removeId c.entries k.id).take (need (removeId c.entries k.id) (c.max - entrySize p k v)))
      ++ tail := by
  have hs' : ¬ entrySize p k v > c.max := by omega
  obtain ⟨_, hd, _, _⟩ := after_remove_eject h k.id (c.max - entrySize p k v) o.tombs (Nat.sub_le _ _)
  simp only [insert, hs', if_false, hd, Bool.false_eq_true, insert_evicted k v h]
  exact ⟨_, rfl⟩

/-- An entry that fits exactly (or better) evicts nothing. -/
theorem C03_exact_fit {p : Params} {c : Cache} (k : Key) (v : Val) (o : Oracle) (h : InvA p c)
    (hfit : sumSizes (removeId c.entries k.id) + entrySize p k v ≤ c.max) :
    (insert p c k v o).cache.entries = removeId c.entries k.id ++ [⟨k, v, entrySize p k v⟩] := by
  have hs : entrySize p k v ≤ c.max := by omega
  have hn : need (removeId c.entries k.id) (c.max - entrySize p k v) = 0 := need_eq_zero (by omega)
  rw [(insert_spec k v o h hs).1, hn]; rfl

/-- Replacing a key frees the old entry's size before deciding what else must go: the test is on the
sum *without* the old entry. -/
theorem C03_replace_credit {p : Params} {c : Cache} (k : Key) (v : Val) (o : Oracle) (h : InvA p c)
    (e : Entry) (he : lookup c.entries k.id = some e)
    (hfit : c.cur - e.size + entrySize p k v ≤ c.max) :
    (insert p c k v o).cache.entries = removeId c.entries k.id ++ [⟨k, v, entrySize p k v⟩] := by
  apply C03_exact_fit k v o h
  have := sumSizes_removeId c.entries k.id
  rw [he] at this
  simp only [oldSize] at this
  have := h.cur
  omega

/-- A growing `mutate` that still fits: the mutated entry is promoted first and survives, even when
it was the least-recently-used one; exactly the minimal LRU prefix of the *others* goes. -/
theorem C03_mutate {p : Params} {c : Cache} (id : Nat) (f : Val → Val × Nat) (o : Oracle) (h : InvA p c)
    (e : Entry) (he : lookup c.entries id = some e)
    (hgrow : valMemSize p (f e.val).1 > valMemSize p e.val)
    (hfit : entrySize p e.key (f e.val).1 ≤ c.max) :
    (mutate p c id f o).cache.entries =
      (removeId c.entries id).drop (need (removeId c.entries id) (c.max - entrySize p e.key (f e.val).1))
        ++ [⟨e.key, (f e.val).1, entrySize p e.key (f e.val).1⟩] :=
  (mutate_grow_spec id f o h e he hgrow hfit).1

/-- Lowering the limit evicts exactly the minimal LRU prefix. -/
theorem C03_setmax {p : Params} {c : Cache} (m : Nat) (o : Oracle) (h : InvA p c) :
    (setMaxSize c m o).cache.entries = c.entries.drop (need c.entries m) ∧
    (setMaxSize c m o).evs = evictAllEvs (c.entries.take (need c.entries m)) := by
  obtain ⟨a, b, _⟩ := setMaxSize_spec m o h
  exact ⟨a, by simp only [setMaxSize, b]⟩

/-- A limit that the contents already meet evicts nothing. -/
theorem C03_setmax_noop {p : Params} {c : Cache} (m : Nat) (o : Oracle) (h : InvA p c) (hm : c.cur ≤ m) :
    (setMaxSize c m o).cache.entries = c.entries := by
  rw [(C03_setmax m o h).1, need_eq_zero (by rw [← h.cur]; exact hm)]; rfl

/-- Entries leave unasked only in `insert`, growing `mutate` and `set_max_size`: every other
operation keeps every entry it was not asked to remove. -/
theorem C03_only_when_needed {p : Params} {c : Cache} (id : Nat) (o : Oracle) (h : InvA p c) (x : Entry)
    (hx : x ∈ c.entries) (hne : x.key.id ≠ id) :
    x ∈ (removeEntry c id o).cache.entries ∧ x ∈ (remove c id o).cache.entries ∧
    x ∈ (getEntry c id).cache.entries ∧ x ∈ (peek c id).cache.entries ∧
    x ∈ (tryInsert p c ⟨id, 0, 0⟩ ⟨0, 0⟩ o).cache.entries := by
  have hrm : x ∈ removeId c.entries id := (mem_removeId h.nodup).mpr ⟨hx, hne⟩
  refine ⟨?_, ?_, ?_, hx, ?_⟩
  · simp only [removeEntry]; split <;> simp [hrm, hx]
  · simp only [remove, removeEntry]; split <;> simp [hrm, hx]
  · simp only [getEntry]; split
    · rename_i e he
      have := (lookup_some_mem he).2
      simp [touchList, this, hrm]
    · exact hx
  · simp only [tryInsert]
    split
    · exact hx
    · split
      · exact hx
      · split
        · exact hx
        · rename_i h1 h2 h3
          have hnot : id ∉ ids c.entries := by rw [← lookup_isSome_iff]; exact h3
          have hb := h.bound
          have hu := insertUnchecked_inv (p := p) ⟨⟨id, 0, 0⟩, ⟨0, 0⟩, entrySize p ⟨id, 0, 0⟩ ⟨0, 0⟩⟩ o h hnot rfl
            (by simp only; omega)
          rw [hu.2.2.1]; simp [hx]

/-! ### non-vacuity -/
private def p0 : Params := ⟨64, 16, 18446744073709551615⟩
private def c3 : Cache :=
  runOps p0 (Cache.new 400) [(.insert ⟨1, 0, 1⟩ ⟨10, 2⟩, {}), (.insert ⟨2, 0, 3⟩ ⟨20, 4⟩, {}),
    (.insert ⟨3, 0, 5⟩ ⟨30, 6⟩, {})]
-- sizes 74, 84, 94 (total 252 of 400, 148 free): 148 fits exactly, 149 evicts one entry, 223 two
example : (step p0 c3 (.insert ⟨4, 0, 7⟩ ⟨84, 8⟩) {}).cache.entries.map (·.key.id) = [1, 2, 3, 4] := by decide
example : (step p0 c3 (.insert ⟨4, 0, 7⟩ ⟨85, 8⟩) {}).cache.entries.map (·.key.id) = [2, 3, 4] := by decide
example : (step p0 c3 (.insert ⟨4, 0, 7⟩ ⟨159, 8⟩) {}).cache.entries.map (·.key.id) = [3, 4] := by decide
-- growing the LRU entry so that one other entry must go: the LRU entry itself survives
example : (step p0 c3 (.mutate 1 fun v => ({ v with heap := 158 }, 0)) {}).cache.entries.map (·.key.id) = [2, 3, 1] := by decide
example : (step p0 c3 (.mutate 1 fun v => ({ v with heap := 159 }, 0)) {}).cache.entries.map (·.key.id) = [3, 1] := by decide

end LruMem
