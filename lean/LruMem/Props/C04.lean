import LruMem.Proofs.Lookup
/-!
# C04 — the cache is a faithful key→value map

`lookup c.entries id` is the map. Every lookup-like operation returns it; every mutating operation
changes it only for the key it stores or the entries that depart.

Modelled, not verified: hashbrown's probing/rehash (assumption A-hashbrown: the table is an exact
finite map over `Eq`). That part of the truth is validated by the correspondence run under the
constant, 2-bit and identity hashers across reallocations.
-/
namespace LruMem

/-- At most one entry per key, in every reachable cache. -/
theorem C04_nodup {p : Params} {c : Cache} (h : Reachable p c) : (ids c.entries).Nodup :=
  (reachable_inv h).nodup

/-- `get`, `get_entry`, `peek`, `peek_entry`, `contains` return exactly what the map holds. -/
theorem C04_returns (c : Cache) (id : Nat) :
    (get c id).out = .refVal ((lookup c.entries id).map (·.val)) ∧
    (getEntry c id).out = .refPair ((lookup c.entries id).map pairOf) ∧
    (peek c id).out = .refVal ((lookup c.entries id).map (·.val)) ∧
    (peekEntry c id).out = .refPair ((lookup c.entries id).map pairOf) ∧
    (contains c id).out = .bool (lookup c.entries id).isSome := by
  refine ⟨rfl, ?_, rfl, rfl, rfl⟩
  simp only [getEntry]; split <;> simp_all

/-- `remove`/`remove_entry` return the stored pair and afterwards the key is absent; every other
key is unaffected. -/
theorem C04_remove {p : Params} {c : Cache} (id : Nat) (o : Oracle) (h : InvA p c) :
    (removeEntry c id o).out = .ownPair ((lookup c.entries id).map pairOf) ∧
    (remove c id o).out = .ownVal ((lookup c.entries id).map (·.val)) ∧
    lookup (removeEntry c id o).cache.entries id = none ∧
    lookup (remove c id o).cache.entries id = none ∧
    ∀ id', id' ≠ id → lookup (removeEntry c id o).cache.entries id' = lookup c.entries id' ∧
                      lookup (remove c id o).cache.entries id' = lookup c.entries id' := by
  cases he : lookup c.entries id with
  | none =>
    simp [removeEntry, remove, he]
  | some e =>
    simp only [removeEntry, remove, he]
    refine ⟨rfl, rfl, lookup_removeId_self h.nodup id, lookup_removeId_self h.nodup id, ?_⟩
    intro id' hne
    exact ⟨lookup_removeId_ne _ hne, lookup_removeId_ne _ hne⟩

/-- Accesses that promote (`get`, `get_entry`, `touch`, `get_lru`) do not change the map. -/
theorem C04_promote_keeps_map {p : Params} {c : Cache} (id : Nat) (h : InvA p c) (id' : Nat) :
    lookup (getEntry c id).cache.entries id' = lookup c.entries id' ∧
    lookup (get c id).cache.entries id' = lookup c.entries id' ∧
    lookup (touch c id).cache.entries id' = lookup c.entries id' ∧
    lookup (getLru c).cache.entries id' = lookup c.entries id' := by
  have key : lookup (getEntry c id).cache.entries id' = lookup c.entries id' := by
    simp only [getEntry]
    split
    · rename_i e he
      have := (lookup_some_mem he).2
      exact lookup_touchList h.nodup (by rw [this]; exact he) id'
    · rfl
  refine ⟨key, key, key, ?_⟩
  simp only [getLru]
  split
  · rename_i e he
    have hm : e ∈ c.entries := List.mem_of_mem_head? he
    exact lookup_touchList h.nodup (lookup_of_mem h.nodup hm) id'
  · rfl

/-- `insert` of a fitting pair: it returns the previous value; afterwards the key maps to the new
pair; any other key maps to what it mapped to before unless it was among the evicted LRU prefix. -/
theorem C04_insert {p : Params} {c : Cache} (k : Key) (v : Val) (o : Oracle) (h : InvA p c)
    (hs : entrySize p k v ≤ c.max) (id' : Nat) :
    (insert p c k v o).out = .ownVal ((lookup c.entries k.id).map (·.val)) ∧
    lookup (insert p c k v o).cache.entries id' =
      if id' = k.id then some ⟨k, v, entrySize p k v⟩
      else if id' ∈ ids ((removeId c.entries k.id).take (need (removeId c.entries k.id) (c.max - entrySize p k v)))
        then none
      else lookup c.entries id' := by
  obtain ⟨he, ho, _, _⟩ := insert_spec k v o h hs
  refine ⟨ho, ?_⟩
  rw [he]
  have hnd := nodup_removeId h.nodup k.id
  have hnot : k.id ∉ ids ((removeId c.entries k.id).drop (need (removeId c.entries k.id) (c.max - entrySize p k v))) :=
    fun hm => not_mem_ids_removeId h.nodup k.id (((List.drop_sublist _ _).map _).subset hm)
  rw [lookup_append_new (x := ⟨k, v, entrySize p k v⟩) hnot]
  by_cases hid : id' = k.id
  · simp [hid]
  · simp only [hid, if_false]
    rw [lookup_drop hnd, lookup_removeId_ne _ hid]

/-- `try_insert` refuses an occupied key (given that the pair fits) and otherwise stores it without
touching any other mapping. -/
theorem C04_tryInsert {p : Params} {c : Cache} (k : Key) (v : Val) (o : Oracle) (h : InvA p c)
    (hs : entrySize p k v ≤ c.max - c.cur) :
    ((tryInsert p c k v o).out = .tryOccupied k v ↔ (lookup c.entries k.id).isSome) ∧
    (lookup c.entries k.id = none → ∀ id', lookup (tryInsert p c k v o).cache.entries id' =
      if id' = k.id then some ⟨k, v, entrySize p k v⟩ else lookup c.entries id') := by
  have hb := h.bound
  have h1 : ¬ entrySize p k v > c.max := by omega
  have h2 : ¬ entrySize p k v > c.max - c.cur := by omega
  constructor
  · by_cases h3 : (lookup c.entries k.id).isSome = true
    · simp [tryInsert, h1, h2, h3]
    · have hf : lookup c.entries k.id = none := by simpa using h3
      simp [(tryInsert_spec k v o h hs hf).2.1, hf]
  · intro hf id'
    rw [(tryInsert_spec k v o h hs hf).1]
    exact lookup_append_new (x := ⟨k, v, entrySize p k v⟩) (lookup_none_iff.mp hf) id'

/-- Whatever any step leaves in the cache under some key was either there before under that key
with the same key object (values change only through `mutate`), or is the pair this very step stored. -/
theorem C04_present_after {p : Params} {c : Cache} (h : InvA p c) (id' : Nat) (o : Oracle) :
    (∀ id e, lookup (removeEntry c id o).cache.entries id' = some e → lookup c.entries id' = some e) ∧
    (∀ m e, lookup (setMaxSize c m o).cache.entries id' = some e → lookup c.entries id' = some e) ∧
    (∀ (pr : Nat → Key → Val → Bool × Nat) e, lookup (retain c pr 0 o).cache.entries id' = some e →
      lookup c.entries id' = some e) := by
  refine ⟨?_, ?_, ?_⟩
  · intro id e he
    simp only [removeEntry] at he
    split at he
    · exact lookup_sublist (removeId_sublist _ _) h.nodup he
    · exact he
  · intro m e he
    exact lookup_sublist (eject_rest_sublist _ _ _) h.nodup he
  · intro pr e he
    exact lookup_sublist (retainGo_spec pr 0 c.entries).1 h.nodup he

/-- Capacity operations (including the table rebuild they perform) do not change the map. -/
theorem C04_realloc (p : Params) (c : Cache) (o : Oracle) (a : Nat) :
    (reserve p c a o).cache.entries = c.entries ∧ (tryReserve p c a o).cache.entries = c.entries ∧
    (shrinkTo p c a o).cache.entries = c.entries ∧ (shrinkToFit p c o).cache.entries = c.entries := by
  refine ⟨?_, ?_, ?_, ?_⟩
  · simp only [reserve]; split <;> (try split) <;> (try split) <;> rfl
  · simp only [tryReserve]; split <;> (try split) <;> (try split) <;> (try split) <;> rfl
  · simp only [shrinkTo]; split <;> (try split) <;> (try split) <;> rfl
  · simp only [shrinkToFit, shrinkTo]; split <;> (try split) <;> (try split) <;> rfl

/-- The entry an operation stores, if any. -/
abbrev storedBy := storedLast

theorem mem_touchList {l : List Entry} {e x : Entry} (he : e ∈ l) (hx : x ∈ touchList l e) : x ∈ l := by
  simp only [touchList, List.mem_append, List.mem_singleton] at hx
  rcases hx with hx | rfl
  · exact mem_removeId_of hx
  · exact he

/-- History form, one step: every entry held after a step was held before it, unchanged, or is the
entry this very step stored (the inserted pair, or the mutated entry with its new value). Nothing
else ever appears in the map — so a lookup can only return the pair most recently stored for that
key. -/
theorem C04_step_mem {p : Params} {c : Cache} (op : Op) (o : Oracle) (h : InvA p c) (x : Entry)
    (hx : x ∈ (step p c op o).cache.entries) : x ∈ c.entries ∨ storedBy p c op = some x := by
  cases op with
  | insert k v =>
    by_cases hs : entrySize p k v ≤ c.max
    · simp only [step, (insert_spec k v o h hs).1, List.mem_append, List.mem_singleton] at hx
      rcases hx with hx | rfl
      · exact Or.inl (mem_removeId_of (List.mem_of_mem_drop hx))
      · exact Or.inr rfl
    · have : (insert p c k v o).cache = c := by simp [insert, show entrySize p k v > c.max by omega]
      simp only [step, this] at hx; exact Or.inl hx
  | tryInsert k v =>
    simp only [step, tryInsert] at hx
    split at hx
    · exact Or.inl hx
    · split at hx
      · exact Or.inl hx
      · split at hx
        · exact Or.inl hx
        · rename_i h1 h2 h3
          have hnot : k.id ∉ ids c.entries := by rw [← lookup_isSome_iff]; exact h3
          have hbd := h.bound
          have hu := insertUnchecked_inv (p := p) ⟨k, v, entrySize p k v⟩ o h hnot rfl (by simp only; omega)
          rw [hu.2.2.1] at hx
          simp only [List.mem_append, List.mem_singleton] at hx
          rcases hx with hx | rfl
          · exact Or.inl hx
          · exact Or.inr rfl
  | mutate id f =>
    simp only [step] at hx
    cases hl : lookup c.entries id with
    | none => simp [mutate, hl] at hx; exact Or.inl hx
    | some em =>
      by_cases hgrow : valMemSize p (f em.val).1 > valMemSize p em.val
      · by_cases hfit : entrySize p em.key (f em.val).1 ≤ c.max
        · rw [(mutate_grow_spec id f o h em hl hgrow hfit).1] at hx
          simp only [List.mem_append, List.mem_singleton] at hx
          rcases hx with hx | rfl
          · exact Or.inl (mem_removeId_of (List.mem_of_mem_drop hx))
          · exact Or.inr (by simp [storedBy, storedLast, hl])
        · rw [(mutate_overflow_spec id f o h em hl (by omega)).1] at hx
          exact Or.inl (mem_removeId_of hx)
      · rw [(mutate_shrink_spec id f o h em hl hgrow).1] at hx
        simp only [List.mem_append, List.mem_singleton] at hx
        rcases hx with hx | rfl
        · exact Or.inl (mem_removeId_of hx)
        · exact Or.inr (by simp [storedBy, storedLast, hl])
  | get id =>
    left; simp only [step, get, getEntry] at hx
    split at hx
    · rename_i e he; exact mem_touchList (lookup_some_mem he).1 hx
    · exact hx
  | getEntry id =>
    left; simp only [step, getEntry] at hx
    split at hx
    · rename_i e he; exact mem_touchList (lookup_some_mem he).1 hx
    · exact hx
  | touch id =>
    left; simp only [step, touch, getEntry] at hx
    split at hx
    · rename_i e he; exact mem_touchList (lookup_some_mem he).1 hx
    · exact hx
  | getLru =>
    left; simp only [step, getLru] at hx
    split at hx
    · rename_i e he; exact mem_touchList (List.mem_of_mem_head? he) hx
    · exact hx
  | peek id => exact Or.inl hx
  | peekEntry id => exact Or.inl hx
  | contains id => exact Or.inl hx
  | peekLru => exact Or.inl hx
  | peekMru => exact Or.inl hx
  | debugFmt => exact Or.inl hx
  | cloneProbe base => exact Or.inl hx
  | remove id =>
    left; simp only [step, remove, removeEntry] at hx
    split at hx
    · split at hx
      · exact mem_removeId_of hx
      · exact hx
    · exact hx
  | removeEntry id =>
    left; simp only [step, removeEntry] at hx
    split at hx
    · exact mem_removeId_of hx
    · exact hx
  | removeLru =>
    left; simp only [step, removeLru, removeEntry] at hx
    split at hx
    · split at hx
      · exact mem_removeId_of hx
      · exact hx
    · exact hx
  | removeMru =>
    left; simp only [step, removeMru, removeEntry] at hx
    split at hx
    · split at hx
      · exact mem_removeId_of hx
      · exact hx
    · exact hx
  | setMaxSize m => exact Or.inl ((eject_rest_sublist _ _ _).subset hx)
  | reserve a => left; rw [show (step p c (.reserve a) o).cache.entries = c.entries from (C04_realloc p c o a).1] at hx; exact hx
  | tryReserve a => left; rw [show (step p c (.tryReserve a) o).cache.entries = c.entries from (C04_realloc p c o a).2.1] at hx; exact hx
  | shrinkTo a => left; rw [show (step p c (.shrinkTo a) o).cache.entries = c.entries from (C04_realloc p c o a).2.2.1] at hx; exact hx
  | shrinkToFit => left; rw [show (step p c .shrinkToFit o).cache.entries = c.entries from (C04_realloc p c o 0).2.2.2] at hx; exact hx
  | retain pr => exact Or.inl ((retainGo_spec _ 0 c.entries).1.subset hx)
  | clear => simp [step, clear] at hx
  | iterate kind calls forget =>
    left
    simp only [step, iterScenario] at hx
    split at hx
    · exact hx
    · cases kind <;> simp_all

/-- …hence, as a statement about the map: what a key maps to after a step is what it mapped to
before, or what this step stored. -/
theorem C04_step_lookup {p : Params} {c : Cache} (op : Op) (o : Oracle) (h : InvA p c) (id : Nat) (x : Entry)
    (hx : lookup (step p c op o).cache.entries id = some x) :
    lookup c.entries id = some x ∨ storedBy p c op = some x := by
  obtain ⟨hm, hid⟩ := lookup_some_mem hx
  rcases C04_step_mem op o h x hm with h1 | h1
  · left; have := lookup_of_mem h.nodup h1; rw [hid] at this; exact this
  · exact Or.inr h1

/-! ### non-vacuity: same key stored twice, evicted, re-stored — lookups follow the last store -/
private def p0 : Params := ⟨64, 16, 18446744073709551615⟩
private def c4 : Cache :=
  runOps p0 (Cache.new 140) [(.insert ⟨1, 0, 1⟩ ⟨1, 2⟩, {}), (.insert ⟨1, 0, 3⟩ ⟨2, 4⟩, {}),
    (.insert ⟨2, 0, 5⟩ ⟨0, 6⟩, {})]
example : (lookup c4.entries 1).map (·.val) = some ⟨2, 4⟩ := by decide
example : (lookup (step p0 c4 (.insert ⟨3, 0, 7⟩ ⟨0, 8⟩) {}).cache.entries 1) = none := by decide

end LruMem
