import LruMem.Proofs.Lookup
/-!
# C05 — recency order is exact: accesses promote, observations do not

`c.entries` is the order from least- to most-recently-used; iteration, `peek_lru`/`peek_mru` and
`Debug` report exactly it.
-/
namespace LruMem

/-- What the observers report is `entries`: `peek_lru` its head, `peek_mru` its last element,
`Debug` the whole list, forward iteration the list and backward iteration its reverse. -/
theorem C05_peeks (p : Params) (c : Cache) (o : Oracle) :
    (peekLru c).out = .refPair (c.entries.head?.map pairOf) ∧
    (peekMru c).out = .refPair (c.entries.getLast?.map pairOf) ∧
    (step p c .debugFmt o).out = .items .iter (c.entries.map fun e => some (pairOf e)) :=
  ⟨rfl, rfl, rfl⟩

theorem iterCalls_front (l : List Entry) :
    (iterCalls l (List.replicate l.length true)).1 = l.map some := by
  induction l with
  | nil => rfl
  | cons a l ih => simp [iterCalls, iterStep, List.replicate_succ, ih]

theorem iterCalls_back (l : List Entry) :
    ∀ n, n = l.length → (iterCalls l (List.replicate n false)).1 = l.reverse.map some := by
  intro n
  induction n generalizing l with
  | zero => intro h; have : l = [] := List.length_eq_zero_iff.mp h.symm; subst this; rfl
  | succ n ih =>
    intro h
    have hne : l ≠ [] := by intro hl; subst hl; simp at h
    obtain ⟨init, last, rfl⟩ : ∃ init last, l = init ++ [last] :=
      ⟨l.dropLast, l.getLast hne, (List.dropLast_concat_getLast hne).symm⟩
    simp only [List.replicate_succ, iterCalls, iterStep, Bool.false_eq_true, if_false,
      List.getLast?_append, List.dropLast_concat, List.reverse_append, List.reverse_cons,
      List.reverse_nil, List.nil_append, List.cons_append, List.map_cons]
    rw [ih init (by simpa using h)]
    simp

/-- Full forward traversal yields `entries`, full backward traversal its reverse. -/
theorem C05_iteration (c : Cache) :
    (iterCalls c.entries (List.replicate c.entries.length true)).1 = c.entries.map some ∧
    (iterCalls c.entries (List.replicate c.entries.length false)).1 = c.entries.reverse.map some :=
  ⟨iterCalls_front _, iterCalls_back _ _ rfl⟩

/-- `get`, `get_entry`, `touch` on a present key: that entry becomes the most-recently-used one and
all others keep their relative order. On an absent key nothing changes. -/
theorem C05_promote_lookup (c : Cache) (id : Nat) :
    (∀ e, lookup c.entries id = some e →
      (getEntry c id).cache.entries = removeId c.entries id ++ [e] ∧
      (get c id).cache.entries = removeId c.entries id ++ [e] ∧
      (touch c id).cache.entries = removeId c.entries id ++ [e]) ∧
    (lookup c.entries id = none →
      (getEntry c id).cache.entries = c.entries ∧ (get c id).cache.entries = c.entries ∧
      (touch c id).cache.entries = c.entries) := by
  constructor
  · intro e he
    have hid := (lookup_some_mem he).2
    simp [getEntry, get, touch, he, touchList, hid]
  · intro he
    simp [getEntry, get, touch, he]

/-- `get_lru` promotes the least-recently-used entry: the list is rotated by one. -/
theorem C05_getLru {p : Params} {c : Cache} (h : InvA p c) (e : Entry) (l : List Entry)
    (hc : c.entries = e :: l) : (getLru c).cache.entries = l ++ [e] := by
  have hn := h.nodup
  rw [hc] at hn
  simp only [ids_cons, List.nodup_cons] at hn
  simp only [getLru, lruOf, hc, List.head?_cons, touchList, removeId_cons, if_true]

/-- The "others keep their relative order" part: removing one id yields a sublist. -/
theorem C05_others_keep_order (l : List Entry) (id : Nat) : (removeId l id).Sublist l :=
  removeId_sublist l id

/-- `insert` (success), `try_insert` (success) and `mutate` (success, either branch) put the affected
entry at the most-recently-used end; the survivors among the others are a sublist of the old order. -/
theorem C05_promote_store {p : Params} {c : Cache} (op : Op) (o : Oracle) (h : InvA p c) (x : Entry)
    (hst : storedLast p c op = some x) (hok : (step p c op o).out.isErr = false) :
    ∃ init, (step p c op o).cache.entries = init ++ [x] ∧ init.Sublist (removeId c.entries x.key.id) := by
  cases op with
  | insert k v =>
    simp only [storedLast, Option.some.injEq] at hst; subst hst
    by_cases hs : entrySize p k v ≤ c.max
    · exact ⟨_, (insert_spec k v o h hs).1, List.drop_sublist _ _⟩
    · simp [step, insert, show entrySize p k v > c.max by omega, Out.isErr] at hok
  | tryInsert k v =>
    simp only [storedLast, Option.some.injEq] at hst; subst hst
    have hb := h.bound
    by_cases h1 : entrySize p k v > c.max
    · simp [step, tryInsert, h1, Out.isErr] at hok
    · by_cases h2 : entrySize p k v > c.max - c.cur
      · simp [step, tryInsert, h1, h2, Out.isErr] at hok
      · by_cases h3 : (lookup c.entries k.id).isSome = true
        · simp [step, tryInsert, h1, h2, h3, Out.isErr] at hok
        · have hf : lookup c.entries k.id = none := by simpa using h3
          refine ⟨c.entries, (tryInsert_spec k v o h (by omega) hf).1, ?_⟩
          rw [removeId_of_not_mem (lookup_none_iff.mp hf)]
          exact List.Sublist.refl _
  | mutate id f =>
    cases hl : lookup c.entries id with
    | none => simp [storedLast, hl] at hst
    | some em =>
      have hid := (lookup_some_mem hl).2
      simp only [storedLast, hl, Option.map_some, Option.some.injEq] at hst; subst hst
      simp only [hid]
      by_cases hgrow : valMemSize p (f em.val).1 > valMemSize p em.val
      · by_cases hfit : entrySize p em.key (f em.val).1 ≤ c.max
        · exact ⟨_, (mutate_grow_spec id f o h em hl hgrow hfit).1, List.drop_sublist _ _⟩
        · have := (mutate_overflow_spec id f o h em hl (by omega)).2.1
          simp [step, this, Out.isErr] at hok
      · exact ⟨_, (mutate_shrink_spec id f o h em hl hgrow).1, List.Sublist.refl _⟩
  | _ => simp [storedLast] at hst

/-- Observations never change the order: `peek`, `peek_entry`, `peek_lru`, `peek_mru`, `contains`,
every borrowing iteration, `Debug`, cloning, rejected insertions and every capacity operation leave
`entries` exactly as it was. -/
theorem C05_observe {p : Params} {c : Cache} (o : Oracle) (id a : Nat) (k : Key) (v : Val) (kind : IterKind)
    (calls : List Bool) (forget : Bool) (base : Nat) :
    (peek c id).cache = c ∧ (peekEntry c id).cache = c ∧ (peekLru c).cache = c ∧ (peekMru c).cache = c ∧
    (contains c id).cache = c ∧ (step p c .debugFmt o).cache = c ∧ (step p c (.cloneProbe base) o).cache = c ∧
    (kind.borrowing = true → (step p c (.iterate kind calls forget) o).cache = c) ∧
    ((insert p c k v o).out.isErr = true → (insert p c k v o).cache = c) ∧
    ((tryInsert p c k v o).out.isErr = true → (tryInsert p c k v o).cache = c) ∧
    (reserve p c a o).cache.entries = c.entries ∧ (tryReserve p c a o).cache.entries = c.entries ∧
    (shrinkTo p c a o).cache.entries = c.entries ∧ (shrinkToFit p c o).cache.entries = c.entries := by
  refine ⟨rfl, rfl, rfl, rfl, rfl, rfl, rfl, ?_, ?_, ?_, ?_⟩
  · intro hb; simp [step, iterScenario, hb]
  · simp only [insert]
    split
    · intro _; rfl
    · split <;> (intro hh; simp [Out.isErr] at hh)
  · simp only [tryInsert]
    split
    · intro _; rfl
    · split
      · intro _; rfl
      · split
        · intro _; rfl
        · intro hh; simp [Out.isErr] at hh
  · refine ⟨?_, ?_, ?_, ?_⟩
    · simp only [reserve]; split <;> (try split) <;> (try split) <;> rfl
    · simp only [tryReserve]; split <;> (try split) <;> (try split) <;> (try split) <;> rfl
    · simp only [shrinkTo]; split <;> (try split) <;> (try split) <;> rfl
    · simp only [shrinkToFit, shrinkTo]; split <;> (try split) <;> (try split) <;> rfl

/-- `retain`, removals and evictions keep the relative order of what remains (a sublist). -/
theorem C05_sublist (c : Cache) (o : Oracle) (id m : Nat) (pr : Nat → Key → Val → Bool) :
    (removeEntry c id o).cache.entries.Sublist c.entries ∧ (remove c id o).cache.entries.Sublist c.entries ∧
    (removeLru c o).cache.entries.Sublist c.entries ∧ (removeMru c o).cache.entries.Sublist c.entries ∧
    (setMaxSize c m o).cache.entries.Sublist c.entries ∧
    (retain c (indexPred pr) 0 o).cache.entries.Sublist c.entries := by
  have hre : ∀ id, (removeEntry c id o).cache.entries.Sublist c.entries := by
    intro id; simp only [removeEntry]; split
    · exact removeId_sublist _ _
    · exact List.Sublist.refl _
  refine ⟨hre id, ?_, ?_, ?_, eject_rest_sublist _ _ _, (retainGo_spec _ 0 c.entries).1⟩
  · simp only [remove]; split
    · exact hre id
    · exact List.Sublist.refl _
  · simp only [removeLru]; split
    · exact hre _
    · exact List.Sublist.refl _
  · simp only [removeMru]; split
    · exact hre _
    · exact List.Sublist.refl _

theorem removeId_append_last (l : List Entry) (e : Entry) (h : e.key.id ∉ ids l) :
    removeId (l ++ [e]) e.key.id = l := by
  induction l with
  | nil => simp only [List.nil_append, removeId_cons, if_true]
  | cons a l ih =>
    simp only [ids_cons, List.mem_cons, not_or] at h
    have : ¬ a.key.id = e.key.id := fun hh => h.1 hh.symm
    simp [removeId_cons, this, ih h.2]

/-- `remove_lru` takes the head, `remove_mru` the last element, of a cache with distinct keys. -/
theorem C05_remove_ends {p : Params} {c : Cache} (o : Oracle) (h : InvA p c) :
    (removeLru c o).cache.entries = c.entries.tail ∧ (removeMru c o).cache.entries = c.entries.dropLast := by
  constructor
  · cases hc : c.entries with
    | nil => simp [removeLru, lruOf, hc]
    | cons e l =>
      simp [removeLru, lruOf, hc, removeEntry, lookup_cons, removeId_cons]
  · cases hl : mruOf c.entries with
    | none =>
      have : c.entries = [] := by simpa [mruOf] using hl
      simp only [removeMru, hl]
      rw [this]; rfl
    | some e =>
      have hne : c.entries ≠ [] := by intro hh; simp [mruOf, hh] at hl
      have hsplit := (List.dropLast_concat_getLast hne).symm
      have hlast : c.entries.getLast hne = e := by
        have := List.getLast?_eq_some_getLast hne
        simp only [mruOf] at hl
        rw [hl] at this
        exact (Option.some.inj this).symm
      rw [hlast] at hsplit
      have hn := h.nodup
      rw [hsplit, ids_append, List.nodup_append] at hn
      have hnot : e.key.id ∉ ids c.entries.dropLast := fun hm => hn.2.2 _ hm _ (by simp) rfl
      have hlk : lookup c.entries e.key.id = some e := by
        rw [hsplit, lookup_append, lookup_none_iff.mpr hnot]; simp [lookup_cons]
      have hrm : removeId c.entries e.key.id = c.entries.dropLast := by
        conv => lhs; rw [hsplit]
        exact removeId_append_last _ _ hnot
      simp [removeMru, hl, removeEntry, hlk, hrm]

/-! ### non-vacuity -/
private def p0 : Params := ⟨64, 16, 18446744073709551615⟩
private def c5 : Cache :=
  runOps p0 (Cache.new 1000) [(.insert ⟨1, 0, 1⟩ ⟨1, 2⟩, {}), (.insert ⟨2, 0, 3⟩ ⟨2, 4⟩, {}),
    (.insert ⟨3, 0, 5⟩ ⟨0, 6⟩, {}), (.insert ⟨4, 0, 7⟩ ⟨0, 8⟩, {})]
example : ids (step p0 c5 (.get 2) {}).cache.entries = [1, 3, 4, 2] := by decide
example : ids (step p0 c5 (.mutate 1 fun v => ({ v with heap := 0 }, 0)) {}).cache.entries = [2, 3, 4, 1] := by decide
example : ids (step p0 c5 .getLru {}).cache.entries = [2, 3, 4, 1] := by decide
example : ids (step p0 c5 (.peek 2) {}).cache.entries = [1, 2, 3, 4] := by decide

end LruMem
