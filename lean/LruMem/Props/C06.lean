import LruMem.Proofs.Own
set_option linter.unusedSimpArgs false
/-!
# C06 — every key and value is dropped or handed back exactly once

Objects are identified by tokens. `toks c.entries` are the objects the cache owns. For one step:

  owned before + moved in  =  owned after + dropped by the cache + handed back (+ leaked)

as multisets (`List.count` for every token). `leaked` is non-empty only when an owning iterator is
forgotten (C17). Summed over a program that ends by dropping the cache this gives: everything moved
in is dropped or handed back exactly once — never both, never twice, never neither.

Partial in one respect (DESIGN §6): destructors that themselves panic are outside the model.
-/
namespace LruMem

/-- Objects the caller moves into the cache with this operation (including objects created inside
the `mutate` closure and the copies made by `clone`). -/
def movedIn (_p : Params) (c : Cache) : Op → List Nat
  | .insert k v => [k.tok, v.tok]
  | .tryInsert k v => [k.tok, v.tok]
  | .mutate id f =>
    match lookup c.entries id with
    | some e => if (f e.val).1.tok = e.val.tok then [] else [(f e.val).1.tok]
    | none => []
  | .cloneProbe base => toks (clone c base).1.entries
  | _ => []

theorem count_touchList (t : Nat) (l : List Entry) (e : Entry) :
    List.count t (toks (touchList l e)) = List.count t (toks (removeId l e.key.id)) + List.count t [e.key.tok, e.val.tok] := by
  simp [touchList, List.count_cons]

theorem C06_insert {p : Params} {c : Cache} (k : Key) (v : Val) (o : Oracle) (h : InvA p c) (t : Nat) :
    List.count t (toks c.entries) + List.count t [k.tok, v.tok] =
      List.count t (toks (insert p c k v o).cache.entries) + List.count t (droppedToks (insert p c k v o).evs)
        + List.count t (insert p c k v o).out.owned := by
  simp only [insert]
  split
  · simp [droppedToks, Out.owned]
  · obtain ⟨hi, hd, hle, hnot⟩ := after_remove_eject h k.id (c.max - entrySize p k v) o.tombs (Nat.sub_le _ _)
    simp only [hd, Bool.false_eq_true, if_false]
    have hu := insertUnchecked_inv (p := p) ⟨k, v, entrySize p k v⟩ o hi hnot rfl (by simp only; omega)
    obtain ⟨he, hdr⟩ := insertUnchecked_toks _ ⟨k, v, entrySize p k v⟩ o hu.2.1
    rw [he]
    simp only [dropped_append, hdr, dropped_evict, toks_append, List.count_append]
    have h1 := cnt_removeId t c.entries k.id
    have h2 := cnt_eject t (removeId c.entries k.id) (c.cur - oldSize (lookup c.entries k.id)) (c.max - entrySize p k v)
    cases hl : lookup c.entries k.id with
    | none => simp [hl, optToks, droppedToks, Out.owned, List.count_cons] at * <;> omega
    | some e => simp [hl, optToks, droppedToks, Out.owned, List.count_cons] at * <;> omega

theorem C06_tryInsert {p : Params} {c : Cache} (k : Key) (v : Val) (o : Oracle) (h : InvA p c) (t : Nat) :
    List.count t (toks c.entries) + List.count t [k.tok, v.tok] =
      List.count t (toks (tryInsert p c k v o).cache.entries) + List.count t (droppedToks (tryInsert p c k v o).evs)
        + List.count t (tryInsert p c k v o).out.owned := by
  simp only [tryInsert]
  split
  · simp [droppedToks, Out.owned]
  · split
    · simp [droppedToks, Out.owned]
    · split
      · simp [droppedToks, Out.owned]
      · rename_i h1 h2 h3
        have hnot : k.id ∉ ids c.entries := by rw [← lookup_isSome_iff]; exact h3
        have hb := h.bound
        have hu := insertUnchecked_inv (p := p) ⟨k, v, entrySize p k v⟩ o h hnot rfl (by simp only; omega)
        obtain ⟨he, hdr⟩ := insertUnchecked_toks _ ⟨k, v, entrySize p k v⟩ o hu.2.1
        rw [he]
        simp [hdr, droppedToks, Out.owned, List.count_cons]

theorem C06_mutate {p : Params} {c : Cache} (id : Nat) (f : Val → Val × Nat) (o : Oracle) (t : Nat) :
    List.count t (toks c.entries) + List.count t (movedIn p c (.mutate id f)) =
      List.count t (toks (mutate p c id f o).cache.entries) + List.count t (droppedToks (mutate p c id f o).evs)
        + List.count t (mutate p c id f o).out.owned := by
  simp only [mutate, movedIn]
  cases hl : lookup c.entries id with
  | none => simp [droppedToks, Out.owned]
  | some e =>
    have hid := (lookup_some_mem hl).2
    have h1 := cnt_removeId t c.entries id
    rw [hl] at h1
    simp only [optToks] at h1
    simp only
    by_cases hgrow : valMemSize p (f e.val).1 > valMemSize p e.val
    · rw [if_pos hgrow]
      by_cases hbig : e.size + (valMemSize p (f e.val).1 - valMemSize p e.val) > c.max
      · rw [if_pos hbig]
        by_cases hrep : (f e.val).1.tok = e.val.tok
        · simp [hrep, droppedToks, Out.owned, List.count_cons] at * <;> omega
        · simp [hrep, droppedToks, Out.owned, List.count_cons] at * <;> omega
      · rw [if_neg hbig]
        have h2 := cnt_eject t (touchList c.entries ⟨e.key, (f e.val).1, e.size + (valMemSize p (f e.val).1 - valMemSize p e.val)⟩)
          (c.cur + (valMemSize p (f e.val).1 - valMemSize p e.val)) c.max
        have h3 := count_touchList t c.entries ⟨e.key, (f e.val).1, e.size + (valMemSize p (f e.val).1 - valMemSize p e.val)⟩
        simp only [hid] at h3
        by_cases hrep : (f e.val).1.tok = e.val.tok
        · simp [hrep, droppedToks, Out.owned, List.count_cons] at * <;> omega
        · simp [hrep, droppedToks, Out.owned, List.count_cons] at * <;> omega
    · rw [if_neg hgrow]
      have h3 := count_touchList t c.entries ⟨e.key, (f e.val).1, e.size - (valMemSize p e.val - valMemSize p (f e.val).1)⟩
      simp only [hid] at h3
      by_cases hrep : (f e.val).1.tok = e.val.tok
      · simp [hrep, droppedToks, Out.owned, List.count_cons] at * <;> omega
      · simp [hrep, droppedToks, Out.owned, List.count_cons] at * <;> omega

theorem C06_removeEntry (c : Cache) (id : Nat) (o : Oracle) (t : Nat) :
    List.count t (toks c.entries) =
      List.count t (toks (removeEntry c id o).cache.entries) + List.count t (droppedToks (removeEntry c id o).evs)
        + List.count t (removeEntry c id o).out.owned := by
  have h1 := cnt_removeId t c.entries id
  simp only [removeEntry]
  split
  · rename_i e he
    rw [he] at h1
    simp [optToks, droppedToks, Out.owned, pairOf, List.count_cons] at *; omega
  · simp [droppedToks, Out.owned]

theorem C06_remove (c : Cache) (id : Nat) (o : Oracle) (t : Nat) :
    List.count t (toks c.entries) =
      List.count t (toks (remove c id o).cache.entries) + List.count t (droppedToks (remove c id o).evs)
        + List.count t (remove c id o).out.owned := by
  have h1 := cnt_removeId t c.entries id
  simp only [remove, removeEntry]
  split
  · rename_i e he
    rw [he] at h1
    simp [he, optToks, droppedToks, Out.owned, List.count_cons] at *; omega
  · simp [droppedToks, Out.owned]

theorem C06_removeEnd {p : Params} (c : Cache) (o : Oracle) (h : InvA p c) (t : Nat) :
    (List.count t (toks c.entries) =
      List.count t (toks (removeLru c o).cache.entries) + List.count t (droppedToks (removeLru c o).evs)
        + List.count t (removeLru c o).out.owned) ∧
    (List.count t (toks c.entries) =
      List.count t (toks (removeMru c o).cache.entries) + List.count t (droppedToks (removeMru c o).evs)
        + List.count t (removeMru c o).out.owned) := by
  constructor
  · simp only [removeLru]
    split
    · rename_i e he
      have hm : e ∈ c.entries := List.mem_of_mem_head? he
      have hl := lookup_of_mem h.nodup hm
      have h1 := cnt_removeId t c.entries e.key.id
      rw [hl] at h1
      simp [removeEntry, hl, optToks, droppedToks, Out.owned, pairOf, List.count_cons] at *; omega
    · simp [droppedToks, Out.owned]
  · simp only [removeMru]
    split
    · rename_i e he
      have hm : e ∈ c.entries := List.mem_of_getLast? he
      have hl := lookup_of_mem h.nodup hm
      have h1 := cnt_removeId t c.entries e.key.id
      rw [hl] at h1
      simp [removeEntry, hl, optToks, droppedToks, Out.owned, pairOf, List.count_cons] at *; omega
    · simp [droppedToks, Out.owned]

theorem count_touch_present {p : Params} {c : Cache} (_h : InvA p c) {e : Entry} (he : lookup c.entries e.key.id = some e)
    (t : Nat) : List.count t (toks (touchList c.entries e)) = List.count t (toks c.entries) := by
  have h1 := cnt_removeId t c.entries e.key.id
  rw [he] at h1
  rw [count_touchList]
  simp only [optToks] at h1
  omega

/-- The yields of an iterator scenario and what is left. -/
theorem cnt_iterCalls (t : Nat) (l : List Entry) (calls : List Bool) :
    List.count t (toks ((iterCalls l calls).1.filterMap id)) + List.count t (toks (iterCalls l calls).2) =
      List.count t (toks l) := by
  induction calls generalizing l with
  | nil => simp [iterCalls]
  | cons f fs ih =>
    simp only [iterCalls, iterStep]
    split
    · cases l with
      | nil => simpa using ih []
      | cons a l => have := ih l; simp [List.count_cons] at *; omega
    · by_cases hne : l = []
      · subst hne; simpa using ih []
      · have hsplit := (List.dropLast_concat_getLast hne).symm
        have hlast : l.getLast? = some (l.getLast hne) := List.getLast?_eq_some_getLast hne
        have := ih l.dropLast
        have hc : List.count t (toks l) = List.count t (toks l.dropLast) + List.count t (toks [l.getLast hne]) := by
          conv => lhs; rw [hsplit]
          simp
        simp [hlast, List.count_cons] at *; omega

theorem owned_pairs (ys : List (Option Entry)) :
    ((ys.map (·.map pairOf)).filterMap id).flatMap (fun kv => [kv.1.tok, kv.2.tok]) = toks (ys.filterMap id) := by
  induction ys with
  | nil => rfl
  | cons y ys ih =>
    cases y with
    | none => simpa using ih
    | some e =>
      simp only [List.map_cons, Option.map_some, List.filterMap_cons, id, List.flatMap_cons, toks_cons]
      rw [ih]; rfl

theorem owned_drain (ys : List (Option Entry)) :
    (Out.items .drain (ys.map (·.map pairOf))).owned = toks (ys.filterMap id) := owned_pairs ys

/-- One step that neither consumes the cache nor leaks an iterator: exact conservation. -/
theorem C06_step_conserve {p : Params} {c : Cache} (op : Op) (o : Oracle) (h : InvA p c)
    (hk : op.consumes = false) (hl : ∀ k calls, op ≠ .iterate k calls true) (t : Nat) :
    List.count t (toks c.entries) + List.count t (movedIn p c op) =
      List.count t (toks (step p c op o).cache.entries) + List.count t (droppedToks (step p c op o).evs)
        + List.count t (step p c op o).out.owned := by
  cases op with
  | insert k v => exact C06_insert k v o h t
  | tryInsert k v => exact C06_tryInsert k v o h t
  | mutate id f => exact C06_mutate id f o t
  | removeEntry id => simpa [movedIn, step] using C06_removeEntry c id o t
  | remove id => simpa [movedIn, step] using C06_remove c id o t
  | removeLru => simpa [movedIn, step] using (C06_removeEnd c o h t).1
  | removeMru => simpa [movedIn, step] using (C06_removeEnd c o h t).2
  | get id =>
    simp only [step, get, getEntry, movedIn]
    split
    · rename_i e he
      have := (lookup_some_mem he).2
      rw [count_touch_present h (by rw [this]; exact he)]; simp [droppedToks, Out.owned]
    · simp [droppedToks, Out.owned]
  | getEntry id =>
    simp only [step, getEntry, movedIn]
    split
    · rename_i e he
      have := (lookup_some_mem he).2
      rw [count_touch_present h (by rw [this]; exact he)]; simp [droppedToks, Out.owned]
    · simp [droppedToks, Out.owned]
  | touch id =>
    simp only [step, touch, getEntry, movedIn]
    split
    · rename_i e he
      have := (lookup_some_mem he).2
      rw [count_touch_present h (by rw [this]; exact he)]; simp [droppedToks, Out.owned]
    · simp [droppedToks, Out.owned]
  | getLru =>
    simp only [step, getLru, movedIn]
    split
    · rename_i e he
      have hm : e ∈ c.entries := List.mem_of_mem_head? he
      rw [count_touch_present h (lookup_of_mem h.nodup hm)]; simp [droppedToks, Out.owned]
    · simp [droppedToks, Out.owned]
  | peek id => simp [step, peek, movedIn, droppedToks, Out.owned]
  | peekEntry id => simp [step, peekEntry, movedIn, droppedToks, Out.owned]
  | contains id => simp [step, contains, movedIn, droppedToks, Out.owned]
  | peekLru => simp [step, peekLru, movedIn, droppedToks, Out.owned]
  | peekMru => simp [step, peekMru, movedIn, droppedToks, Out.owned]
  | debugFmt => simp [step, movedIn, droppedToks, Out.owned]
  | setMaxSize m =>
    have := cnt_eject t c.entries c.cur m
    simp [step, setMaxSize, movedIn, Out.owned] at *; omega
  | retain pr =>
    have := cnt_retain t (indexPred pr) 0 c.entries
    simp [step, retain, movedIn, Out.owned] at *; omega
  | clear => simp [step, clear, movedIn, Out.owned]
  | reserve a =>
    simp only [step, reserve, movedIn]
    split <;> (try split) <;> (try split) <;> simp [rebuild, droppedToks, Out.owned]
  | tryReserve a =>
    simp only [step, tryReserve, movedIn]
    split <;> (try split) <;> (try split) <;> (try split) <;> simp [rebuild, droppedToks, Out.owned]
  | shrinkTo a =>
    simp only [step, shrinkTo, movedIn]
    split <;> (try split) <;> (try split) <;> simp [rebuild, droppedToks, Out.owned]
  | shrinkToFit =>
    simp only [step, shrinkToFit, shrinkTo, movedIn]
    split <;> (try split) <;> (try split) <;> simp [rebuild, droppedToks, Out.owned]
  | cloneProbe base =>
    -- the copies are moved in and all dropped when the probe's clone is dropped
    have hc : ∀ (l : List Entry) (b : Nat), droppedToks (cloneEvs l b) = [] := by
      intro l; induction l with
      | nil => intro b; rfl
      | cons e l ih => intro b; simp [cloneEvs, droppedToks, ih]
    simp [step, movedIn, dropCache, clone, hc, Out.owned]
  | iterate kind calls forget =>
    have hf : forget = false := by
      cases forget with
      | false => rfl
      | true => exact absurd rfl (hl kind calls)
    subst hf
    cases kind with
    | iter => simp [step, iterScenario, IterKind.borrowing, movedIn, droppedToks, Out.owned]
    | keys => simp [step, iterScenario, IterKind.borrowing, movedIn, droppedToks, Out.owned]
    | values => simp [step, iterScenario, IterKind.borrowing, movedIn, droppedToks, Out.owned]
    | drain =>
      have := cnt_iterCalls t c.entries calls
      simp only [step, iterScenario, IterKind.borrowing, movedIn, Bool.false_eq_true, if_false, yieldEvs,
        List.nil_append, dropped_dropAll, Option.getD_some, toks_nil, List.count_nil, owned_drain]
      omega
    | intoIter => simp [Op.consumes, IterKind.borrowing] at hk
    | intoKeys => simp [Op.consumes, IterKind.borrowing] at hk
    | intoValues => simp [Op.consumes, IterKind.borrowing] at hk

/-- Dropping the cache drops exactly what it owns. -/
theorem C06_drop (c : Cache) : droppedToks (dropCache c) = toks c.entries := dropped_dropAll _

theorem cnt_yield_keys (t : Nat) (ys : List (Option Entry)) :
    List.count t (droppedToks (yieldEvs .intoKeys ys)) + List.count t (Out.items .intoKeys (ys.map (·.map pairOf))).owned =
      List.count t (toks (ys.filterMap id)) := by
  induction ys with
  | nil => simp [yieldEvs, droppedToks, Out.owned]
  | cons y ys ih =>
    cases y with
    | none => simpa [yieldEvs, Out.owned] using ih
    | some e =>
      simp only [yieldEvs, Out.owned, List.map_cons, Option.map_some, List.filterMap_cons, id, toks_cons,
        List.map_cons, droppedToks, pairOf, List.count_cons] at *
      omega

theorem cnt_yield_vals (t : Nat) (ys : List (Option Entry)) :
    List.count t (droppedToks (yieldEvs .intoValues ys)) + List.count t (Out.items .intoValues (ys.map (·.map pairOf))).owned =
      List.count t (toks (ys.filterMap id)) := by
  induction ys with
  | nil => simp [yieldEvs, droppedToks, Out.owned]
  | cons y ys ih =>
    cases y with
    | none => simpa [yieldEvs, Out.owned] using ih
    | some e =>
      simp only [yieldEvs, Out.owned, List.map_cons, Option.map_some, List.filterMap_cons, id, toks_cons,
        List.map_cons, droppedToks, pairOf, List.count_cons] at *
      omega

/-- Owning iterators (`drain`, `into_iter`, `into_keys`, `into_values`), consumed from either end
for any number of steps: every object the cache owned is yielded to the caller, dropped by the
iterator (the other half of a yielded pair, or the unconsumed rest when the iterator is dropped), or
— only if the iterator is forgotten — leaked with the unconsumed rest; each exactly once. -/
theorem C06_owning_iter (c : Cache) (kind : IterKind) (calls : List Bool) (forget : Bool)
    (hk : kind.borrowing = false) (t : Nat) :
    List.count t (toks c.entries) =
      List.count t (droppedToks (iterScenario c kind calls forget).evs) +
      List.count t (iterScenario c kind calls forget).out.owned +
      (if forget then List.count t (toks (iterCalls c.entries calls).2) else 0) ∧
    ((iterScenario c kind calls forget).cache.map (·.entries)).getD [] = [] := by
  have h0 := cnt_iterCalls t c.entries calls
  have hk1 := cnt_yield_keys t (iterCalls c.entries calls).1
  have hv1 := cnt_yield_vals t (iterCalls c.entries calls).1
  have hp := owned_pairs (iterCalls c.entries calls).1
  cases kind with
  | iter => simp [IterKind.borrowing] at hk
  | keys => simp [IterKind.borrowing] at hk
  | values => simp [IterKind.borrowing] at hk
  | drain =>
    cases forget <;>
      simp only [iterScenario, IterKind.borrowing, Bool.false_eq_true, if_false, if_true, yieldEvs, List.nil_append,
        dropped_dropAll, droppedToks, owned_drain, List.count_nil, Option.map_some, Option.getD_some, and_true] <;> omega
  | intoIter =>
    have ho : (Out.items .intoIter ((iterCalls c.entries calls).1.map (·.map pairOf))).owned =
        toks ((iterCalls c.entries calls).1.filterMap id) := hp
    cases forget <;>
      simp only [iterScenario, IterKind.borrowing, Bool.false_eq_true, if_false, if_true, yieldEvs, List.nil_append,
        dropped_dropAll, droppedToks, ho, List.count_nil, Option.map_none, Option.getD_none, and_true] <;> omega
  | intoKeys =>
    cases forget <;>
      simp only [iterScenario, IterKind.borrowing, Bool.false_eq_true, if_false, if_true, dropped_append,
        dropped_dropAll, droppedToks, List.count_append, List.count_nil, List.append_nil, Option.map_none,
        Option.getD_none, and_true] <;> omega
  | intoValues =>
    cases forget <;>
      simp only [iterScenario, IterKind.borrowing, Bool.false_eq_true, if_false, if_true, dropped_append,
        dropped_dropAll, droppedToks, List.count_append, List.count_nil, List.append_nil, Option.map_none,
        Option.getD_none, and_true] <;> omega

/-! ### whole programs -/

/-- An operation admissible inside a C06 program: it does not consume the cache and does not leak an
iterator (`mem::forget` is the subject of C17). -/
def Op.plain (op : Op) : Bool :=
  !op.consumes && (match op with | .iterate _ _ true => false | _ => true)

theorem Op.plain_spec {op : Op} (h : op.plain = true) :
    op.consumes = false ∧ ∀ k calls, op ≠ .iterate k calls true := by
  simp only [Op.plain, Bool.and_eq_true, Bool.not_eq_true'] at h
  refine ⟨h.1, ?_⟩
  intro k calls heq
  subst heq
  simp at h

/-- The ledger of a program on one cache: what was moved in, what was dropped or handed back. -/
structure Ledger where
  moved : List Nat
  gone : List Nat

def runLedger (p : Params) : Cache → List (Op × Oracle) → Cache × Ledger
  | c, [] => (c, ⟨[], []⟩)
  | c, (op, o) :: rest =>
    let r := step p c op o
    let x := runLedger p r.cache rest
    (x.1, ⟨movedIn p c op ++ x.2.moved, droppedToks r.evs ++ r.out.owned ++ x.2.gone⟩)

/-- A whole program of plain operations followed by dropping the cache: for every object, the number
of times it was moved in (plus initially owned) equals the number of times it was dropped or handed
back. -/
theorem C06_program {p : Params} (ops : List (Op × Oracle)) :
    ∀ (c : Cache), InvA p c → (∀ x ∈ ops, x.1.plain = true) → ∀ t,
    List.count t (toks c.entries) + List.count t (runLedger p c ops).2.moved =
      List.count t (runLedger p c ops).2.gone + List.count t (droppedToks (dropCache (runLedger p c ops).1)) := by
  induction ops with
  | nil => intro c _ _ t; simp [runLedger, C06_drop]
  | cons x ops ih =>
    intro c h hp t
    obtain ⟨op, o⟩ := x
    obtain ⟨hk, hl⟩ := Op.plain_spec (hp (op, o) (by simp))
    have h1 := C06_step_conserve op o h hk hl t
    have h2 := ih (step p c op o).cache (step_inv op o h) (fun y hy => hp y (by simp [hy])) t
    simp only [runLedger, List.count_append] at *
    omega

/-- Exactly once: if the objects moved in over the whole program are pairwise distinct (and distinct
from what the cache held at the start), then the objects dropped or handed back — during the program
and by the final drop of the cache — are pairwise distinct and are exactly those objects:
never both, never twice, never neither. -/
theorem C06_exactly_once {p : Params} (ops : List (Op × Oracle)) (c : Cache) (h : InvA p c)
    (hp : ∀ x ∈ ops, x.1.plain = true) (hnd : (toks c.entries ++ (runLedger p c ops).2.moved).Nodup) :
    ((runLedger p c ops).2.gone ++ droppedToks (dropCache (runLedger p c ops).1)).Nodup ∧
    ((runLedger p c ops).2.gone ++ droppedToks (dropCache (runLedger p c ops).1)).Perm
      (toks c.entries ++ (runLedger p c ops).2.moved) := by
  have hc : ∀ t, List.count t ((runLedger p c ops).2.gone ++ droppedToks (dropCache (runLedger p c ops).1)) =
      List.count t (toks c.entries ++ (runLedger p c ops).2.moved) := by
    intro t
    have := C06_program ops c h hp t
    simp only [List.count_append]; omega
  have hperm := List.perm_iff_count.mpr hc
  exact ⟨hperm.symm.nodup_iff.mp hnd, hperm⟩

/-! ### non-vacuity: replace, evict, overflow-mutate, partial drain, then drop — all 12 objects accounted -/
private def p0 : Params := ⟨64, 16, 18446744073709551615⟩
private def prog : List (Op × Oracle) :=
  [(.insert ⟨1, 0, 1⟩ ⟨1, 2⟩, {}), (.insert ⟨1, 0, 3⟩ ⟨2, 4⟩, {}), (.insert ⟨2, 0, 5⟩ ⟨0, 6⟩, {}),
   (.insert ⟨3, 0, 7⟩ ⟨0, 8⟩, {}), (.mutate 2 (fun _ => (⟨900, 9⟩, 0)), {}), (.insert ⟨4, 0, 10⟩ ⟨0, 11⟩, {}),
   (.iterate .drain [true] false, {}), (.insert ⟨5, 0, 12⟩ ⟨0, 13⟩, {})]
example : ∀ x ∈ prog, x.1.plain = true := by decide
example : (runLedger p0 (Cache.new 140) prog).2.moved = [1, 2, 3, 4, 5, 6, 7, 8, 9, 10, 11, 12, 13] := by decide
example : ((runLedger p0 (Cache.new 140) prog).2.gone ++ droppedToks (dropCache (runLedger p0 (Cache.new 140) prog).1)).Perm
    [1, 2, 3, 4, 5, 6, 7, 8, 9, 10, 11, 12, 13] := by decide

end LruMem
