import LruMem.Props.C14c
/-!
# C06 / C14 / C01 — programs over several caches

The harness's operation language works on a pool of caches: `new`, an operation on one of them,
`clone` of one into a new one, `clone_from` of one into another, `drop`. This file is that language
as a model — a pool is the list of the live caches (positions are the handles a program uses; `drop`
removes a position) — and lifts the single-cache theorems to it: every cache of the pool satisfies
the invariant after any program (so C01/C02/C04/C05 hold of each), an operation on one cache leaves
every other cache the same value (C14), every object is in at most one cache, and over a whole
program followed by dropping every cache still alive each object moved or cloned into the pool is
dropped or handed back exactly once (C06).

A request naming a position that does not exist is a no-op, and `clone_from` of a cache into itself
is not a program (Rust's borrow rules reject `a.clone_from(&a)`). The composition itself (which
request reads and writes which cache) is what the driver and the harness do with their arrays of
caches; the per-cache functions used here (`step`, `clone`, `cloneFrom`, `dropCache`) are the ones
the driver runs.
-/
namespace LruMem

inductive POp
  | new (max n : Nat)
  | op (i : Nat) (op : Op) (o : Oracle)
  | clone (i : Nat) (base : Nat)
  | cloneFrom (src dst : Nat) (base : Nat)
  | drop (i : Nat)

/-- What one request does: the new pool, the objects it moves or creates into the pool, and the
objects that are dropped or handed back to the caller. -/
structure PRes where
  pool : List Cache
  moved : List Nat := []
  gone : List Nat := []

def poolStep (p : Params) (P : List Cache) : POp → PRes
  | .new max n => { pool := P ++ [Cache.withCapacity max n] }
  | .op i op o =>
    match P[i]? with
    | some c =>
      let r := step p c op o
      { pool := P.set i r.cache, moved := movedIn p c op, gone := droppedToks r.evs ++ r.out.owned }
    | none => { pool := P }
  | .clone i base =>
    match P[i]? with
    | some c => { pool := P ++ [(clone c base).1], moved := toks (clone c base).1.entries }
    | none => { pool := P }
  | .cloneFrom src dst base =>
    match P[src]?, P[dst]? with
    | some c, some d =>
      if src = dst then { pool := P }
      else { pool := P.set dst (cloneFrom d c base).1, moved := toks (cloneFrom d c base).1.entries,
             gone := droppedToks (cloneFrom d c base).2.1 }
    | _, _ => { pool := P }
  | .drop i =>
    match P[i]? with
    | some c => { pool := P.eraseIdx i, gone := droppedToks (dropCache c) }
    | none => { pool := P }

/-- The requests of a C06 program: operations neither consume the cache nor leak an iterator. -/
def POp.plain : POp → Bool
  | .op _ q _ => Op.plain q
  | _ => true

/-- Every object held by some cache of the pool. -/
def poolToks (P : List Cache) : List Nat := P.flatMap fun c => toks c.entries

structure PLedger where
  moved : List Nat
  gone : List Nat

def runPool (p : Params) : List Cache → List POp → List Cache × PLedger
  | P, [] => (P, ⟨[], []⟩)
  | P, x :: rest =>
    let r := poolStep p P x
    let y := runPool p r.pool rest
    (y.1, ⟨r.moved ++ y.2.moved, r.gone ++ y.2.gone⟩)

/-- Dropping every cache that is still alive at the end of the program. -/
def dropPool (P : List Cache) : List Nat := P.flatMap fun c => droppedToks (dropCache c)

/-! ### list bookkeeping -/

theorem poolToks_append (P Q : List Cache) : poolToks (P ++ Q) = poolToks P ++ poolToks Q := by
  simp [poolToks]

theorem count_poolToks_set (t : Nat) (P : List Cache) (i : Nat) (c c' : Cache) (h : P[i]? = some c) :
    List.count t (poolToks (P.set i c')) + List.count t (toks c.entries) =
      List.count t (poolToks P) + List.count t (toks c'.entries) := by
  induction P generalizing i with
  | nil => simp at h
  | cons a P ih =>
    cases i with
    | zero =>
      simp only [List.getElem?_cons_zero, Option.some.injEq] at h
      subst h
      simp only [List.set_cons_zero, poolToks, List.flatMap_cons, List.count_append]
      omega
    | succ i =>
      simp only [List.getElem?_cons_succ] at h
      have := ih i h
      simp only [List.set_cons_succ, poolToks, List.flatMap_cons, List.count_append] at *
      omega

theorem count_poolToks_erase (t : Nat) (P : List Cache) (i : Nat) (c : Cache) (h : P[i]? = some c) :
    List.count t (poolToks (P.eraseIdx i)) + List.count t (toks c.entries) = List.count t (poolToks P) := by
  induction P generalizing i with
  | nil => simp at h
  | cons a P ih =>
    cases i with
    | zero =>
      simp only [List.getElem?_cons_zero, Option.some.injEq] at h
      subst h
      simp only [List.eraseIdx_cons_zero, poolToks, List.flatMap_cons, List.count_append]
      omega
    | succ i =>
      simp only [List.getElem?_cons_succ] at h
      have := ih i h
      simp only [List.eraseIdx_cons_succ, poolToks, List.flatMap_cons, List.count_append] at *
      omega

theorem dropPool_eq (P : List Cache) : dropPool P = poolToks P := by
  simp [dropPool, poolToks, C06_drop]

theorem mem_set_cases {α} (l : List α) (i : Nat) (a x : α) (h : x ∈ l.set i a) : x = a ∨ x ∈ l := by
  rcases List.mem_or_eq_of_mem_set h with h | h
  · exact Or.inr h
  · exact Or.inl h

/-! ### every cache of the pool satisfies the invariant -/

/-- One request keeps every cache of the pool inside the invariant: the memory bound, exact
accounting, one entry per key, the table's bookkeeping — for the cache operated on, for a new clone,
for the destination of `clone_from`, and (unchanged) for all others. -/
theorem pool_step_inv {p : Params} {P : List Cache} (x : POp) (h : ∀ c ∈ P, InvA p c) :
    ∀ c ∈ (poolStep p P x).pool, InvA p c := by
  cases x with
  | new max n =>
    intro c hc
    simp only [poolStep, List.mem_append, List.mem_singleton] at hc
    rcases hc with hc | rfl
    · exact h c hc
    · exact new_inv p max n
  | op i op o =>
    simp only [poolStep]
    split
    · rename_i c0 hc0
      intro c hc
      rcases mem_set_cases _ _ _ _ hc with rfl | hc
      · exact step_inv op o (h c0 (List.mem_of_getElem? hc0))
      · exact h c hc
    · exact h
  | clone i base =>
    simp only [poolStep]
    split
    · rename_i c0 hc0
      intro c hc
      simp only [List.mem_append, List.mem_singleton] at hc
      rcases hc with hc | rfl
      · exact h c hc
      · exact (clone_inv base (h c0 (List.mem_of_getElem? hc0))).1
    · exact h
  | cloneFrom src dst base =>
    simp only [poolStep]
    split
    · rename_i c0 d0 hc0 hd0
      split
      · exact h
      · intro c hc
        rcases mem_set_cases _ _ _ _ hc with rfl | hc
        · exact (clone_inv base (h c0 (List.mem_of_getElem? hc0))).1
        · exact h c hc
    · exact h
  | drop i =>
    simp only [poolStep]
    split
    · intro c hc
      exact h c (List.mem_of_mem_eraseIdx hc)
    · exact h

/-- **Every cache of every pool a program can build satisfies the invariant** (programs start from
the empty pool; every request, any oracle choices). -/
theorem C01_pool_inv {p : Params} (prog : List POp) :
    ∀ (P : List Cache), (∀ c ∈ P, InvA p c) → ∀ c ∈ (runPool p P prog).1, InvA p c := by
  induction prog with
  | nil => intro P h; exact h
  | cons x prog ih => intro P h; exact ih _ (pool_step_inv x h)

theorem C01_pool_bound {p : Params} (prog : List POp) :
    ∀ c ∈ (runPool p [] prog).1, c.cur ≤ c.max ∧ c.cur = sumSizes c.entries := by
  intro c hc
  have := C01_pool_inv (p := p) prog [] (by simp) c hc
  exact ⟨this.bound, this.cur⟩

/-! ### independence -/

/-- **An operation on one cache leaves every other cache of the pool the same value** — whatever the
operation, and in particular when one of the two is a clone of the other. -/
theorem C14_pool_independent (p : Params) (P : List Cache) (i j : Nat) (op : Op) (o : Oracle) (hij : i ≠ j) :
    (poolStep p P (.op i op o)).pool[j]? = P[j]? := by
  simp only [poolStep]
  split
  · simp [List.getElem?_set_ne hij]
  · rfl

/-- `clone` and `clone_from` read their source: it is the same value afterwards, and so is every
cache other than the destination. -/
theorem C14_pool_clone_reads (p : Params) (P : List Cache) (i j : Nat) (base : Nat) (hj : j < P.length) :
    (poolStep p P (.clone i base)).pool[j]? = P[j]? := by
  simp only [poolStep]
  split
  · simp [List.getElem?_append_left hj]
  · rfl

theorem C14_pool_cloneFrom_reads (p : Params) (P : List Cache) (src dst j : Nat) (base : Nat) (hj : j ≠ dst) :
    (poolStep p P (.cloneFrom src dst base)).pool[j]? = P[j]? := by
  simp only [poolStep]
  split
  · split
    · rfl
    · simp [List.getElem?_set_ne (Ne.symm hj)]
  · rfl

/-! ### conservation of objects -/

/-- One request: for every object, (held by the pool before) + (moved or cloned in) =
(held by the pool after) + (dropped or handed back). -/
theorem pool_step_conserve {p : Params} {P : List Cache} (x : POp) (h : ∀ c ∈ P, InvA p c)
    (hp : x.plain = true) (t : Nat) :
    List.count t (poolToks P) + List.count t (poolStep p P x).moved =
      List.count t (poolToks (poolStep p P x).pool) + List.count t (poolStep p P x).gone := by
  cases x with
  | new max n =>
    simp [poolStep, poolToks, Cache.withCapacity, toks]
  | op i op o =>
    simp only [poolStep]
    split
    · rename_i c0 hc0
      have hp' : Op.plain op = true := hp
      obtain ⟨hk, hl⟩ := Op.plain_spec hp'
      have h1 := C06_step_conserve op o (h c0 (List.mem_of_getElem? hc0)) hk hl t
      have h2 := count_poolToks_set t P i c0 (step p c0 op o).cache hc0
      simp only [List.count_append]
      omega
    · simp
  | clone i base =>
    simp only [poolStep]
    split
    · simp [poolToks]
    · simp
  | cloneFrom src dst base =>
    simp only [poolStep]
    split
    · rename_i c0 d0 hc0 hd0
      split
      · simp
      · have h2 := count_poolToks_set t P dst d0 (cloneFrom d0 c0 base).1 hd0
        have h3 := C14_clone_from_drops_old d0 c0 base
        simp only [h3]
        omega
    · simp
  | drop i =>
    simp only [poolStep]
    split
    · rename_i c0 hc0
      have := count_poolToks_erase t P i c0 hc0
      simp only [C06_drop, List.count_nil]
      omega
    · simp

/-- A whole program over several caches, then every cache still alive is dropped: for every object,
the number of times it was moved or cloned into the pool equals the number of times it was dropped or
handed back. -/
theorem C06_pool_program {p : Params} (prog : List POp) :
    ∀ (P : List Cache), (∀ c ∈ P, InvA p c) → (∀ x ∈ prog, x.plain = true) → ∀ t,
    List.count t (poolToks P) + List.count t (runPool p P prog).2.moved =
      List.count t (runPool p P prog).2.gone + List.count t (dropPool (runPool p P prog).1) := by
  induction prog with
  | nil => intro P _ _ t; simp [runPool, dropPool_eq]
  | cons x prog ih =>
    intro P h hp t
    have h1 := pool_step_conserve x h (hp x (by simp)) t
    have h2 := ih (poolStep p P x).pool (pool_step_inv x h) (fun y hy => hp y (by simp [hy])) t
    simp only [runPool, List.count_append] at *
    omega

/-- **Exactly once, across caches.** If the objects moved or cloned into the pool over the whole
program are pairwise distinct (the caller never hands the same object over twice, `Clone` makes new
objects), then what is dropped or handed back — during the program, by `clone_from` replacing a
destination, by `drop`, and by the final drop of every cache — is pairwise distinct and is exactly
those objects: nothing twice (not even through two caches), nothing forgotten. -/
theorem C06_pool_exactly_once {p : Params} (prog : List POp) (hp : ∀ x ∈ prog, x.plain = true)
    (hnd : (runPool p [] prog).2.moved.Nodup) :
    ((runPool p [] prog).2.gone ++ dropPool (runPool p [] prog).1).Nodup ∧
    ((runPool p [] prog).2.gone ++ dropPool (runPool p [] prog).1).Perm (runPool p [] prog).2.moved := by
  have hc : ∀ t, List.count t ((runPool p [] prog).2.gone ++ dropPool (runPool p [] prog).1) =
      List.count t (runPool p [] prog).2.moved := by
    intro t
    have := C06_pool_program (p := p) prog [] (by simp) hp t
    simp only [List.count_append, poolToks, List.flatMap_nil, List.count_nil] at *
    omega
  have hperm := List.perm_iff_count.mpr hc
  exact ⟨hperm.symm.nodup_iff.mp hnd, hperm⟩

/-- Under the same hypothesis no object is ever in two caches of the pool, or twice in one: what the
pool holds at the end is duplicate-free. -/
theorem C14_pool_disjoint {p : Params} (prog : List POp) (hp : ∀ x ∈ prog, x.plain = true)
    (hnd : (runPool p [] prog).2.moved.Nodup) : (poolToks (runPool p [] prog).1).Nodup := by
  have h := (C06_pool_exactly_once prog hp hnd).1
  rw [dropPool_eq] at h
  exact (List.nodup_append.mp h).2.1

/-! ### non-vacuity: two caches, a clone, a `clone_from` over a non-empty destination, drops -/
private def p0 : Params := ⟨64, 16, 18446744073709551615⟩
private def prog : List POp :=
  [.new 1000 0, .op 0 (.insert ⟨1, 0, 1⟩ ⟨1, 2⟩) {}, .op 0 (.insert ⟨2, 0, 3⟩ ⟨2, 4⟩) {},
   .clone 0 100, .op 1 (.remove 1) {}, .new 300 4, .op 2 (.insert ⟨9, 0, 5⟩ ⟨0, 6⟩) {},
   .cloneFrom 0 2 200, .op 0 (.insert ⟨1, 0, 7⟩ ⟨5, 8⟩) {}, .drop 1]
example : ∀ x ∈ prog, x.plain = true := by decide
example : (runPool p0 [] prog).2.moved = [1, 2, 3, 4, 100, 101, 102, 103, 5, 6, 200, 201, 202, 203, 7, 8] := by decide
example : ((runPool p0 [] prog).1.map fun c => ids c.entries) = [[2, 1], [1, 2]] := by decide
example : ((runPool p0 [] prog).2.gone ++ dropPool (runPool p0 [] prog).1).Perm
    [1, 2, 3, 4, 100, 101, 102, 103, 5, 6, 200, 201, 202, 203, 7, 8] := by decide

end LruMem
