import LruMem.Proofs.Refine
/-!
# C07 — the list/table structure stays coherent and memory-safe across all operations

Level B (`LruMem/Model/Ptr.lean`): addressed buckets with `prev`/`next` links, the seal, the table
listing the full buckets, and `EntryPtr` primitives that flag an access to a freed bucket, a
moved-out entry or the null pointer (`ub`). `Rep c l` says that `c` is a well-formed representation
of the LRU→MRU address list `l`; `RefInv` adds the Level A invariant of the abstraction.

Partial (DESIGN §6 C07): what is proved is coherence and absence of invalid accesses *in the model*;
the machine level (actual reads of freed bytes, aliasing-model UB, hashbrown's own unsafe code) is
sampled by the hook walk on the real heap and by Miri/valgrind runs, not proved. Operations proved
at Level B so far: constructors, `insert`, `try_insert`, `get`/`get_entry`/`touch`, `get_lru`,
`remove`/`remove_entry`, `set_max_size`, `reserve`/`try_reserve`, `shrink_to`/`shrink_to_fit`, and
the primitives every other operation is built from (`touch_ptr`, removal, insertion at a fresh
bucket, the reallocation loop). `mutate`, `retain`, `clear`, the iterators and `clone` are executed
at Level B by the driver on every run (field `lb`) and are covered by the primitive theorems, their
composed statements are listed as `…_partial`.
-/
namespace LruMem
open LruMem.Chain

/-- Traversing from least- to most-recently-used and in reverse yields mirror-image sequences of
exactly `len` nodes. -/
theorem C07_mirror {c : CacheB} {l : List Nat} (r : Rep c l) :
    CacheB.walkNext c.links c.sl c.table.length (c.links c.sl).next = c.order.reverse ∧
    c.order.length = c.table.length ∧ c.order = l :=
  ⟨r.mirror.1, r.mirror.2, r.order⟩

/-- Each traversed node is the very bucket a table lookup of its key finds. -/
theorem C07_find_agrees {p : Params} {c : CacheB} {l : List Nat} (h : RefInv p c l) (a : Nat) (ha : a ∈ l) :
    c.find (c.ent a).key.id = some a := by
  have hnd : (ids (l.map c.ent)).Nodup := by rw [← h.rep.abs_entries]; exact h.inv.nodup
  cases hf : c.find (c.ent a).key.id with
  | none =>
    have := (find_spec h.rep _).1 hf
    rw [lookup_none_iff] at this
    exact absurd (by simp [ids]; exact ⟨a, ha, rfl⟩) this
  | some x =>
    obtain ⟨hid, l1, l2, rfl⟩ := (find_spec h.rep _).2 x hf
    -- two listed nodes with the same key id are the same node
    obtain ⟨hl, _⟩ := lookup_map_split (ent := c.ent) hnd
    rw [hid] at hl
    have hmem : c.ent a ∈ (l1 ++ x :: l2).map c.ent := List.mem_map.mpr ⟨a, ha, rfl⟩
    have h2 := lookup_of_mem hnd hmem
    rw [hl] at h2
    have hent : c.ent x = c.ent a := Option.some.inj h2
    -- positions: the map over a duplicate-free id list is injective on the list
    have hinj : ∀ (l : List Nat), (ids (l.map c.ent)).Nodup → ∀ u ∈ l, ∀ w ∈ l, c.ent u = c.ent w → u = w := by
      intro l
      induction l with
      | nil => intro _ u hu; simp at hu
      | cons b l ih =>
        intro hn u hu w hw he
        simp only [List.map_cons, ids_cons, List.nodup_cons] at hn
        simp only [List.mem_cons] at hu hw
        rcases hu with rfl | hu <;> rcases hw with rfl | hw
        · rfl
        · exact absurd (by rw [he]; simp [ids]; exact ⟨w, hw, rfl⟩) hn.1
        · exact absurd (by rw [← he]; simp [ids]; exact ⟨u, hu, rfl⟩) hn.1
        · exact ih hn.2 u hu w hw he
    rw [hinj _ hnd x (by simp) a ha hent]

/-- A freshly created cache is well-formed. -/
theorem C07_new (p : Params) (max n : Nat) : RefInv p (CacheB.new max n) [] := new_refinv p max n

/-- The reallocation loop (`move_to_table`, reached by automatic growth, `reserve`, `try_reserve`,
`shrink_to`): afterwards every link leads into the *new* table or to the seal — every listed node
is a fresh bucket (address `≥` the old allocation counter), the old buckets are dead, and no
access during the loop touched dead memory (`ub = false` is part of `Rep`). Order and entries are
unchanged. -/
theorem C07_reallocate {c : CacheB} {l : List Nat} (n : Nat) (r : Rep c l) :
    ∃ l', Rep (c.reallocate n) l' ∧ l'.map (c.reallocate n).ent = l.map c.ent ∧ (∀ a ∈ l', c.fresh ≤ a) ∧
      (∀ a, a < c.fresh → a ≠ c.sl → (c.reallocate n).st a = .dead) := by
  obtain ⟨l', r', h1, _, _, _, hsl, h6⟩ := reallocate_rep n r
  refine ⟨l', r', h1, h6, ?_⟩
  intro a ha hne
  show (if a < c.fresh ∧ a ≠ (c.moveAll c.table).sl then SlotSt.dead else _) = _
  have : (c.moveAll c.table).sl = c.sl := hsl
  rw [this, if_pos ⟨ha, hne⟩]

/-- One step of each operation proved at Level B keeps the representation well-formed, performs no
access to freed, moved-out or null memory, and is the Level A operation on the abstraction — so all
Level A theorems (C01–C05, C10, C13 …) hold of the pointer structure. -/
theorem C07_step {p : Params} {c : CacheB} {l : List Nat} (o : Oracle) (h : RefInv p c l) :
    (∀ k v, ∃ l', RefInv p (c.insert p k v o) l' ∧ (c.insert p k v o).abs = (insert p c.abs k v o).cache) ∧
    (∀ k v, ∃ l', RefInv p (c.tryInsert p k v o) l' ∧ (c.tryInsert p k v o).abs = (tryInsert p c.abs k v o).cache) ∧
    (∀ id, ∃ l', RefInv p (c.getEntry id) l' ∧ (c.getEntry id).abs = (getEntry c.abs id).cache) ∧
    (∃ l', RefInv p c.getLru l' ∧ c.getLru.abs = (getLru c.abs).cache) ∧
    (∀ id, ∃ l', RefInv p (c.removeEntry id o) l' ∧ (c.removeEntry id o).abs = (removeEntry c.abs id o).cache) ∧
    (∀ m, ∃ l', RefInv p (c.setMaxSize m o) l' ∧ (c.setMaxSize m o).abs = (setMaxSize c.abs m o).cache) ∧
    (∀ a, ∃ l', RefInv p (c.reserve p a o) l' ∧ (c.reserve p a o).abs = (reserve p c.abs a o).cache) ∧
    (∀ m, ∃ l', RefInv p (c.shrinkTo p m o) l' ∧ (c.shrinkTo p m o).abs = (shrinkTo p c.abs m o).cache) :=
  ⟨fun k v => insert_refines k v o h, fun k v => tryInsert_refines k v o h, fun id => getEntry_refines id h,
   getLru_refines h, fun id => removeEntry_refines id o h, fun m => setMaxSize_refines m o h,
   fun a => (reserve_refines a o h).imp fun _ x => ⟨x.1, x.2.1⟩, fun m => shrinkTo_refines m o h⟩

/-- …in particular none of them ever sets the `ub` flag. -/
theorem C07_no_ub {p : Params} {c : CacheB} {l : List Nat} (o : Oracle) (h : RefInv p c l) (k : Key) (v : Val) (id m : Nat) :
    (c.insert p k v o).ub = false ∧ (c.tryInsert p k v o).ub = false ∧ (c.getEntry id).ub = false ∧
    c.getLru.ub = false ∧ (c.removeEntry id o).ub = false ∧ (c.setMaxSize m o).ub = false ∧
    (c.reserve p m o).ub = false ∧ (c.shrinkTo p m o).ub = false := by
  obtain ⟨a1, a2, a3, a4, a5, a6, a7, a8⟩ := C07_step o h
  exact ⟨(a1 k v).choose_spec.1.rep.noUb, (a2 k v).choose_spec.1.rep.noUb, (a3 id).choose_spec.1.rep.noUb,
    a4.choose_spec.1.rep.noUb, (a5 id).choose_spec.1.rep.noUb, (a6 m).choose_spec.1.rep.noUb,
    (a7 m).choose_spec.1.rep.noUb, (a8 m).choose_spec.1.rep.noUb⟩

/-- The primitives every remaining operation (`mutate`, `retain`, `clear`, iterators) is composed
of: promotion, removal (the vacated bucket keeps readable links — what `retain` reads), insertion. -/
theorem C07_primitives_partial {c : CacheB} {l1 l2 : List Nat} {x : Nat} (t : Nat) (e : Entry) (reuse : Bool)
    (r : Rep c (l1 ++ x :: l2)) :
    Rep (c.touchPtr x) (l1 ++ l2 ++ [x]) ∧ Rep (c.removeAt x t) (l1 ++ l2) ∧
    (c.removeAt x t).st x = .vacant ∧ (c.removeAt x t).links x = c.links x ∧
    Rep (c.insertFresh e reuse) ((l1 ++ x :: l2) ++ [c.fresh]) :=
  ⟨(touchPtr_rep r).1, (removeAt_rep t r).1, (removeAt_rep t r).2.2.2.2.2.2.1, (removeAt_rep t r).2.2.2.2.2.2.2.1,
   (insertFresh_rep e reuse r).1⟩

/-! ### non-vacuity: a concrete Level B history with growth (0 → 4 → 8 buckets) and a promotion -/
private def p0 : Params := ⟨64, 16, 18446744073709551615⟩
private def cb : CacheB :=
  (((((CacheB.new 1000 0).insert p0 ⟨1, 0, 1⟩ ⟨0, 2⟩ {}).insert p0 ⟨2, 0, 3⟩ ⟨0, 4⟩ {}).insert p0 ⟨3, 0, 5⟩ ⟨0, 6⟩ {}).insert
    p0 ⟨4, 0, 7⟩ ⟨0, 8⟩ {}).getEntry 2
example : cb.order.map (fun a => (cb.ent a).key.id) = [1, 3, 4, 2] ∧ cb.ub = false ∧ cb.shape.buckets = 8 := by decide

end LruMem
