import LruMem.Proofs.Refine2
/-!
# C07, continued: every non-iterator operation, and whole histories

`C07_stepB`: for every operation of the public API that does not hand out a cursor (everything in
`Op` except `iterate` and the clone probe), one Level B step from a well-formed structure gives a
well-formed structure whose abstraction is the Level A result — so in particular it never touches a
dead, vacant or null node (`ub = false` is part of `Rep`).

`C07_history`: by induction over the history, the same for every sequence of such operations
starting from `new` / `with_capacity`, with any oracle choices.
-/
namespace LruMem

/-- operations executed on the cache itself (no cursor object outlives the call) -/
def Op.direct : Op → Bool
  | .iterate .. | .cloneProbe .. => false
  | _ => true

theorem C07_stepB {p : Params} {c : CacheB} {l : List Nat} (op : Op) (o : Oracle) (h : RefInv p c l)
    (hd : op.direct = true) :
    ∃ l', RefInv p (stepB p c op o) l' ∧ (stepB p c op o).abs = (step p c.abs op o).cache := by
  cases op with
  | insert k v => exact insert_refines k v o h
  | tryInsert k v => exact tryInsert_refines k v o h
  | get id => exact getEntry_refines id h
  | getEntry id => exact getEntry_refines id h
  | touch id => exact getEntry_refines id h
  | peek id => exact ⟨l, h, rfl⟩
  | peekEntry id => exact ⟨l, h, rfl⟩
  | contains id => exact ⟨l, h, rfl⟩
  | remove id =>
    obtain ⟨l', r, e⟩ := removeEntry_refines id o h
    refine ⟨l', r, ?_⟩
    show (c.removeEntry id o).abs = (remove c.abs id o).cache
    rw [e]
    simp only [remove, removeEntry]
    cases lookup c.abs.entries id <;> rfl
  | removeEntry id => exact removeEntry_refines id o h
  | removeLru => exact removeLru_refines o h
  | removeMru => exact removeMru_refines o h
  | getLru => exact getLru_refines h
  | peekLru => exact ⟨l, h, rfl⟩
  | peekMru => exact ⟨l, h, rfl⟩
  | setMaxSize m => exact setMaxSize_refines m o h
  | reserve a => exact (reserve_refines a o h).imp fun _ x => ⟨x.1, x.2.1⟩
  | tryReserve a => exact (reserve_refines a o h).imp fun _ x => ⟨x.1, x.2.2⟩
  | shrinkTo m => exact shrinkTo_refines m o h
  | shrinkToFit => exact shrinkTo_refines 0 o h
  | mutate id f => exact mutate_refines id f o h
  | retain pr => exact retain_refines pr o h
  | clear => exact ⟨[], clear_refines h⟩
  | debugFmt => exact ⟨l, h, rfl⟩
  | iterate k n f => simp [Op.direct] at hd
  | cloneProbe b => simp [Op.direct] at hd

def runOpsB (p : Params) (c : CacheB) : List (Op × Oracle) → CacheB
  | [] => c
  | (op, o) :: rest => runOpsB p (stepB p c op o) rest

/-- Every history of direct operations, from any well-formed structure. -/
theorem C07_run {p : Params} (ops : List (Op × Oracle)) (hd : ∀ x ∈ ops, x.1.direct = true) :
    ∀ {c : CacheB} {l : List Nat}, RefInv p c l →
      ∃ l', RefInv p (runOpsB p c ops) l' ∧ (runOpsB p c ops).abs = runOps p c.abs ops := by
  induction ops with
  | nil => intro c l h; exact ⟨l, h, rfl⟩
  | cons a ops ih =>
    intro c l h
    obtain ⟨l1, h1, e1⟩ := C07_stepB a.1 a.2 h (hd a (by simp))
    obtain ⟨l2, h2, e2⟩ := ih (fun x hx => hd x (by simp [hx])) h1
    refine ⟨l2, h2, ?_⟩
    show (runOpsB p (stepB p c a.1 a.2) ops).abs = runOps p (step p c.abs a.1 a.2).cache ops
    rw [e2, e1]

/-- **C07 for whole histories.** Starting from `with_capacity(max, n)` (`new` is `n = 0`), after any
sequence of direct operations with any table-oracle choices: the links form the closed cycle
`seal → LRU … MRU → seal` mirrored by the `prev` links (`Rep.chain`), every listed node is a live
bucket of the current table (`Rep.full`, `Rep.owns`, `Rep.table`), no access so far touched a dead,
vacant or null node (`ub = false`), and the structure abstracts to the Level A state. -/
theorem C07_history (p : Params) (max n : Nat) (ops : List (Op × Oracle)) (hd : ∀ x ∈ ops, x.1.direct = true) :
    ∃ l', RefInv p (runOpsB p (CacheB.new max n) ops) l' ∧
      (runOpsB p (CacheB.new max n) ops).ub = false ∧
      (runOpsB p (CacheB.new max n) ops).abs = runOps p (CacheB.new max n).abs ops := by
  obtain ⟨l', h, e⟩ := C07_run ops hd (new_refinv p max n)
  exact ⟨l', h, h.rep.noUb, e⟩

/-- the abstraction of the fresh pointer structure is the Level A constructor -/
theorem new_abs (max n : Nat) : (CacheB.new max n).abs = Cache.withCapacity max n := by
  simp [CacheB.new, CacheB.abs, Cache.withCapacity, CacheB.order, CacheB.walkPrev]

/-- …so the Level A state reached is `Reachable`, and all Level A theorems apply to it. -/
theorem C07_history_reachable (p : Params) (max n : Nat) (ops : List (Op × Oracle)) (hd : ∀ x ∈ ops, x.1.direct = true) :
    Reachable p (runOpsB p (CacheB.new max n) ops).abs := by
  obtain ⟨_, _, _, e⟩ := C07_history p max n ops hd
  rw [e, new_abs]
  exact reachable_runOps (Reachable.new max n) ops

/-! non-vacuity: a concrete history through growth, promotion, mutate, retain, remove_lru, clear -/
private def p1 : Params := ⟨64, 16, 18446744073709551615⟩
private def hist : List (Op × Oracle) :=
  [(.insert ⟨1, 0, 1⟩ ⟨0, 2⟩, {}), (.insert ⟨2, 0, 3⟩ ⟨0, 4⟩, {}), (.insert ⟨3, 0, 5⟩ ⟨0, 6⟩, {}),
   (.insert ⟨4, 0, 7⟩ ⟨0, 8⟩, {}), (.get 2, {}), (.mutate 1 (fun v => ({ v with heap := 40 }, 0)), {}),
   (.retain (fun i _ _ => i != 1), {}), (.removeLru, {})]
example : (∀ x ∈ hist, x.1.direct = true) := by decide
example : ((runOpsB p1 (CacheB.new 1000 0) hist).order.map fun a => ((runOpsB p1 (CacheB.new 1000 0) hist).ent a).key.id) = [2, 1]
    ∧ (runOpsB p1 (CacheB.new 1000 0) hist).ub = false := by decide

end LruMem
