import LruMem.Props.C07b
import LruMem.Props.C17b
import LruMem.Props.C14b
/-!
# C07 for histories with iterators and clones in them

`C07_stepB` covered the operations executed on the cache itself. Here the remaining ones that leave
a cache behind are added — borrowing iterators (any call sequence, dropped or leaked), `drain` (any
call sequence, dropped or leaked) and `clone` followed by the drop of the clone — so that
`C07_history_all` speaks about every history a caller can build until the cache is consumed by
`into_iter` / `into_keys` / `into_values` (after which there is no cache to speak about; what those
do to the nodes is `C12_ptr_into` / `C17_ptr_into`).
-/
namespace LruMem

/-- operations after which the cache still exists -/
def Op.keepsCache : Op → Bool
  | .iterate kind _ _ => kind.borrowing || kind == .drain
  | _ => true

theorem dropCache_noUb {c : CacheB} {l : List Nat} (r : Rep c l) : c.dropCache.ub = false := by
  have hall : (c.table.all fun a => c.owns a) = true := by
    rw [List.all_eq_true]
    intro a ha
    exact owns_of_mem r (r.table.mem_iff.mp ha)
  simp [CacheB.dropCache, CacheB.check, hall, r.noUb]

theorem ub_eta (c : CacheB) (b : Bool) (h1 : c.ub = false) (h2 : b = false) :
    ({ c with ub := c.ub || b } : CacheB) = c := by
  cases c; simp_all

theorem C07_stepB_all {p : Params} {c : CacheB} {l : List Nat} (op : Op) (o : Oracle) (h : RefInv p c l)
    (hk : op.keepsCache = true) :
    ∃ l', RefInv p (stepB p c op o) l' ∧ (stepB p c op o).abs = (step p c.abs op o).cache := by
  cases op with
  | iterate kind calls forget =>
    by_cases hb : kind.borrowing = true
    · have := (iter_borrowing h kind hb calls forget).1
      refine ⟨l, ?_, ?_⟩
      · show RefInv p (c.iterScenario kind calls forget).1 l
        rw [this]; exact h
      · show (c.iterScenario kind calls forget).1.abs = _
        rw [this]; simp [step, iterScenario, hb]
    · have hd : kind = .drain := by
        cases kind <;> simp_all [Op.keepsCache, IterKind.borrowing]
      subst hd
      obtain ⟨r, habs, _, _⟩ := iter_drain h calls forget
      have hinv := (step_inv (.iterate .drain calls forget) o h.inv)
      have hA : (step p c.abs (.iterate .drain calls forget) o).cache =
          { c.abs with entries := [], cur := 0, shape := c.shape.cleared } := by
        simp [step, iterScenario, IterKind.borrowing, CacheB.abs]
      refine ⟨[], ⟨r, ?_⟩, ?_⟩
      · show InvA p (c.iterScenario .drain calls forget).1.abs
        rw [habs, ← hA]; exact hinv
      · show (c.iterScenario .drain calls forget).1.abs = _
        rw [habs, hA]
  | cloneProbe base =>
    obtain ⟨l', r, _, _, _⟩ := C14_clone_closed base h
    have hub : ((c.clone base).dropCache).ub = false := dropCache_noUb r
    have heq : stepB p c (.cloneProbe base) o = c := by
      show ({ c with ub := c.ub || ((c.clone base).dropCache).ub } : CacheB) = c
      exact ub_eta c _ h.rep.noUb hub
    rw [heq]
    exact ⟨l, h, rfl⟩
  | insert k v => exact C07_stepB _ o h rfl
  | tryInsert k v => exact C07_stepB _ o h rfl
  | get id => exact C07_stepB _ o h rfl
  | getEntry id => exact C07_stepB _ o h rfl
  | touch id => exact C07_stepB _ o h rfl
  | peek id => exact C07_stepB _ o h rfl
  | peekEntry id => exact C07_stepB _ o h rfl
  | contains id => exact C07_stepB _ o h rfl
  | remove id => exact C07_stepB _ o h rfl
  | removeEntry id => exact C07_stepB _ o h rfl
  | removeLru => exact C07_stepB _ o h rfl
  | removeMru => exact C07_stepB _ o h rfl
  | getLru => exact C07_stepB _ o h rfl
  | peekLru => exact C07_stepB _ o h rfl
  | peekMru => exact C07_stepB _ o h rfl
  | setMaxSize m => exact C07_stepB _ o h rfl
  | reserve a => exact C07_stepB _ o h rfl
  | tryReserve a => exact C07_stepB _ o h rfl
  | shrinkTo m => exact C07_stepB _ o h rfl
  | shrinkToFit => exact C07_stepB _ o h rfl
  | mutate id f => exact C07_stepB _ o h rfl
  | retain pr => exact C07_stepB _ o h rfl
  | clear => exact C07_stepB _ o h rfl
  | debugFmt => exact C07_stepB _ o h rfl

theorem C07_run_all {p : Params} (ops : List (Op × Oracle)) (hd : ∀ x ∈ ops, x.1.keepsCache = true) :
    ∀ {c : CacheB} {l : List Nat}, RefInv p c l →
      ∃ l', RefInv p (runOpsB p c ops) l' ∧ (runOpsB p c ops).abs = runOps p c.abs ops := by
  induction ops with
  | nil => intro c l h; exact ⟨l, h, rfl⟩
  | cons a ops ih =>
    intro c l h
    obtain ⟨l1, h1, e1⟩ := C07_stepB_all a.1 a.2 h (hd a (by simp))
    obtain ⟨l2, h2, e2⟩ := ih (fun x hx => hd x (by simp [hx])) h1
    refine ⟨l2, h2, ?_⟩
    show (runOpsB p (stepB p c a.1 a.2) ops).abs = runOps p (step p c.abs a.1 a.2).cache ops
    rw [e2, e1]

/-- **C07 for every history that keeps its cache**: operations, borrowing iterators and drains with
any call sequence — dropped or leaked — and clone/drop pairs, in any order, with any oracle. -/
theorem C07_history_all (p : Params) (max n : Nat) (ops : List (Op × Oracle)) (hd : ∀ x ∈ ops, x.1.keepsCache = true) :
    ∃ l', RefInv p (runOpsB p (CacheB.new max n) ops) l' ∧
      (runOpsB p (CacheB.new max n) ops).ub = false ∧
      (runOpsB p (CacheB.new max n) ops).abs = runOps p (Cache.withCapacity max n) ops := by
  obtain ⟨l', h, e⟩ := C07_run_all ops hd (new_refinv p max n)
  exact ⟨l', h, h.rep.noUb, by rw [e, new_abs]⟩

end LruMem
