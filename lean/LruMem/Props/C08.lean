import LruMem.Proofs.MemSize
/-!
# C08 — size estimation is compositional, the bulk helpers agree with it, and it is total

Partial (DESIGN §6 C08): the real stack is *sampled* by the tie (each helper on 5·10⁶ elements in a
debug build on a 256 KiB thread); `size_of` values are parameters of the model.
-/
namespace LruMem
open LruMem.MemSize

/-- `mem_size = value_size + heap_size` for every supported type. -/
theorem C08_mem (t : Ty) (v : TVal) : memSize t v = valueSize t v + heapSize t v := rfl

/-- All four bulk helpers — as specialised per type constructor in the source — return exactly the
element-wise sum for any sequence of items an iterator hands them (any filtered, mapped or chained
iterator yields *some* finite list), for every nesting of the supported constructors, including
arrays of length 0 and tuples of every arity. -/
theorem C08_bulk (t : Ty) (vs : List TVal) :
    hsSumIter t vs = hsDefault t vs ∧ hsSumExact t vs = hsDefault t vs ∧
    vsSumIter t vs = vsDefault t vs ∧ vsSumExact t vs = vsDefault t vs :=
  ⟨(hs_eq t vs).1, (hs_eq t vs).2, (vs_eq t vs).1, (vs_eq t vs).2⟩

/-- …where the element-wise sums are literally `Σ heap_size(item)` and `Σ value_size(item)`. -/
theorem C08_sums (t : Ty) (v : TVal) (vs : List TVal) :
    hsDefault t [] = 0 ∧ hsDefault t (v :: vs) = heapSize t v + hsDefault t vs ∧
    vsDefault t [] = 0 ∧ vsDefault t (v :: vs) = valueSize t v + vsDefault t vs :=
  ⟨hsDefault_nil t, hsDefault_cons t v vs, vsDefault_nil t, vsDefault_cons t v vs⟩

/-- A container's heap size is its own buffer (capacity × element size) plus the heap size of each
element: `Vec`, `BinaryHeap`, `HashSet`, `HashMap`, slices and arrays (no buffer of their own). -/
theorem C08_container (sz esz cap n : Nat) (t k v s : Ty) (vs ks : List TVal) (h : TVal) :
    heapSize (.vec sz t) (.coll cap vs) = hsDefault t vs + cap * t.size ∧
    heapSize (.binaryHeap sz t) (.coll cap vs) = hsDefault t vs + cap * t.size ∧
    heapSize (.hashSet sz t s) (.set cap vs h) = heapSize s h + hsDefault t vs + cap * t.size ∧
    heapSize (.hashMap sz esz k v s) (.map cap ks vs h) = heapSize s h + (hsDefault k ks + hsDefault v vs) + cap * esz ∧
    heapSize (.slice t) (.seq vs) = hsDefault t vs ∧
    heapSize (.array sz n t) (.seq vs) = hsDefault t vs := by
  simp [heapSize, (hs_eq _ _).2]

/-- Wrappers add up their parts: `Box` (pointee's value size + heap size), `Option`, `Result`,
`Wrapping`, ranges, `Mutex`/`RwLock`, references (0), tuples (sum of the components). -/
theorem C08_wrappers (sz : Nat) (t e : Ty) (x y : TVal) (ts : List Ty) (cs : List TVal) :
    heapSize (.box sz t) (.box x) = valueSize t x + heapSize t x ∧
    heapSize (.option sz t) .none = 0 ∧ heapSize (.option sz t) (.some x) = heapSize t x ∧
    heapSize (.result sz t e) (.ok x) = heapSize t x ∧ heapSize (.result sz t e) (.err x) = heapSize e x ∧
    heapSize (.wrapping sz t) (.wrap x) = heapSize t x ∧
    heapSize (.range2 sz t) (.two x y) = heapSize t x + heapSize t y ∧
    heapSize (.range1 sz t) (.one x) = heapSize t x ∧
    heapSize (.lock sz t) (.wrap x) = heapSize t x ∧
    heapSize (.ref sz t) x = 0 ∧
    heapSize (.tuple sz ts) (.tup cs) = heapSizeTup ts cs := by
  simp [heapSize]

/-- Arrays of length 0 contribute nothing, whatever the element type. -/
theorem C08_empty_array (sz : Nat) (t : Ty) : heapSize (.array sz 0 t) (.seq []) = 0 := by
  simp [heapSize, (hs_eq _ _).2, hsDefault_nil]

/-! ### totality -/

/-- The flat iterator behind `[T; N]::heap_size_sum_exact_size_iter` yields the concatenation of the
sections, and `next` does so in a single stack frame (a loop) however many empty sections it has to
skip. -/
theorem C08_flat_next (f : Flat) :
    (Flat.next f).1 = (f.cur ++ f.rest.flatten).head? ∧
    (Flat.next f).2.1.cur ++ (Flat.next f).2.1.rest.flatten = (f.cur ++ f.rest.flatten).tail ∧
    (Flat.next f).2.2 = 1 := by
  obtain ⟨cur, rest⟩ := f
  induction rest generalizing cur with
  | nil =>
    cases cur with
    | nil => simp [Flat.next]
    | cons x xs => simp [Flat.next]
  | cons s rest ih =>
    cases cur with
    | nil =>
      have := ih s
      rw [Flat.next]
      simpa using this
    | cons x xs => simp [Flat.next]

/-- The pre-fix `next` used one stack frame per consecutive empty section (finding F4): its depth is
unbounded in the element count. -/
theorem C08_legacy_depth (n : Nat) : Flat.legacyDepth ⟨[], List.replicate n []⟩ = n + 1 := by
  induction n with
  | zero => simp [Flat.legacyDepth]
  | succ n ih => rw [List.replicate_succ, Flat.legacyDepth, ih]

/-! ### non-vacuity -/
example : heapSize (.vec 24 (.tuple 32 [.stringLike 24, .prim 8])) (.coll 4 [.tup [.buf 10, .unit], .tup [.buf 3, .unit]]) = 13 + 4 * 32 := by
  simp [heapSize, hsSumExact, hsSumExactTup, hsDefault, proj, heapSize, Ty.size]
example : hsSumExact (.array 48 2 (.stringLike 24)) [.seq [.buf 1, .buf 2], .seq [.buf 3, .buf 4]] = 10 := by
  simp [hsSumExact, elemsOf, hsDefault, heapSize]

end LruMem
