import LruMem.Generated.MemDecls
import LruMem.Model.MemSize
/-!
# C08 / C09 (continued) — the size-estimation model is the source's, re-checked on every run

`LruMem.GeneratedMem` is regenerated from `/repo/src/mem_size.rs` by `/verif/tools/memdecls.py` on every run: every
`HeapSize` impl with its method bodies as sums of products of atoms, the two macros, the trait defaults, the
`ValueSize`/`MemSize` blanket impls and the flat iterator's `next`. Two layers of theorems:

1. **the regenerated table is the table the model was transcribed from** (`C08_source_*`, by `decide` over the
   whole table) — a change of any body, an added or removed override, a new impl, a recursion re-introduced into
   `SizedArrayFlatIterator::next` breaks one of them;
2. **that table, read with the meaning of the atoms** (`atomHeap` / `atomBulk` below: what each Rust phrase
   computes on a model value) **is the model**: for every row and every value of that shape the interpreted body
   equals `heapSize` / `hsSumIter` / `hsSumExact` of `Model/MemSize.lean` (`C08_row_*`), and a type without an
   override uses the trait default (`C08_default_*`).

So the theorems of `Props/C08.lean` and `Props/C09.lean` are about what the source says now. Trusted: the
translator's phrase recognition (an unknown phrase is `.unknown`, never a guess) and the reading of each atom.
-/
namespace LruMem
open LruMem.MemDecl LruMem.MemSize

/-! ## 1. the table -/

def expectedImpls : List Impl := [
  { target := .array, heap := [[.asSlice]], sumIter := some [[.sliceOfArrays]], sumExact := some [[.flat]] },
  { target := .binaryHeap, heap := [[.exactOver 0], [.cap, .sizeOfElem]], sumIter := none, sumExact := none },
  { target := .box, heap := [[.derefMem]], sumIter := some [[.delegDeref false], [.valueDeref false]],
    sumExact := some [[.delegDeref true], [.valueDeref true]] },
  { target := .cString, heap := [[.lenNul]], sumIter := none, sumExact := none },
  { target := .hashMap, heap := [[.exactOver 1], [.exactOver 2], [.cap, .sizeOfPair], [.hasher]], sumIter := none, sumExact := none },
  { target := .hashSet, heap := [[.exactOver 0], [.cap, .sizeOfElem], [.hasher]], sumIter := none, sumExact := none },
  { target := .mutex, heap := [[.locked]], sumIter := none, sumExact := none },
  { target := .option, heap := [[.matchOpt]], sumIter := none, sumExact := none },
  { target := .osString, heap := [[.cap]], sumIter := none, sumExact := none },
  { target := .path, heap := [[.zero]], sumIter := none, sumExact := none },
  { target := .pathBuf, heap := [[.cap]], sumIter := none, sumExact := none },
  { target := .phantom, heap := [[.zero]], sumIter := none, sumExact := none },
  { target := .range, heap := [[.field 1], [.field 2]], sumIter := none, sumExact := none },
  { target := .rangeFrom, heap := [[.field 1]], sumIter := none, sumExact := none },
  { target := .rangeInclusive, heap := [[.field 1], [.field 2]], sumIter := none, sumExact := none },
  { target := .rangeTo, heap := [[.field 2]], sumIter := none, sumExact := none },
  { target := .rangeToInclusive, heap := [[.field 2]], sumIter := none, sumExact := none },
  { target := .ref, heap := [[.zero]], sumIter := none, sumExact := none },
  { target := .refMut, heap := [[.zero]], sumIter := none, sumExact := none },
  { target := .result, heap := [[.matchRes]], sumIter := none, sumExact := none },
  { target := .rwLock, heap := [[.locked]], sumIter := none, sumExact := none },
  { target := .slice, heap := [[.exactOver 0]], sumIter := none, sumExact := none },
  { target := .string, heap := [[.cap]], sumIter := none, sumExact := none },
  { target := .vec, heap := [[.asSlice], [.cap, .sizeOfElem]], sumIter := none, sumExact := none },
  { target := .wrapping, heap := [[.field 0]], sumIter := some [[.delegField false]], sumExact := some [[.delegField true]] }
]

/-- Every `impl … HeapSize for …` of the source, with every method body, is the one the model was written from. -/
theorem C08_source_impls : GeneratedMem.impls = expectedImpls := by decide

/-- `basic_mem_size!` makes all three methods the constant 0, and is used for `str`, `CStr`, `OsStr` among its types. -/
theorem C08_source_basic :
    GeneratedMem.basicBodies = [[[.zero]], [[.zero]], [[.zero]]] ∧ GeneratedMem.basicHasStrLikes = true ∧
    16 ≤ GeneratedMem.basicCount := by decide

/-- The tuple macro sums component-wise, each bulk helper through the component type's helper of the same kind on
the projected iterator, for arities 1 to 10. -/
theorem C08_source_tuples :
    GeneratedMem.tupleMacroOk = true ∧ GeneratedMem.tupleArities = [1, 2, 3, 4, 5, 6, 7, 8, 9, 10] := by decide

/-- The trait defaults: `heap_size_sum_iter` maps and sums, the exact-size variant delegates to it; likewise for
`ValueSize`; sized types multiply `size_of` by `count()` / `len()`; unsized ones use `size_of_val`;
`mem_size = value_size + heap_size`. -/
theorem C08_source_defaults :
    GeneratedMem.heapDefaults = [[[.mapHeapSum]], [[.viaSumIter]]] ∧
    GeneratedMem.valueDefaults = [[[.mapValueSum]], [[.viaValueSumIter]]] ∧
    GeneratedMem.sizedValue = [[[.sizeOfSelf]], [[.iterCount, .sizeOfSelf]], [[.iterLen, .sizeOfSelf]]] ∧
    GeneratedMem.memSizeBody = [[.heapSize], [.valueSize]] ∧
    GeneratedMem.unsizedValue = List.replicate GeneratedMem.unsizedValueCount [[.sizeOfVal]] ∧
    GeneratedMem.unsizedValueCount = 5 := by decide

/-- `SizedArrayFlatIterator::next` is a loop and never calls itself (C08's "without exhausting the stack"; the
model's `Flat.next` has call depth 1). -/
theorem C08_source_flat_loops : GeneratedMem.flatNextLoops = true := by decide

/-! ## 2. what the atoms mean, and that the table so read is the model -/

def capOf : TVal → Nat
  | .buf c | .coll c _ | .set c _ _ | .map c _ _ _ => c
  | _ => 0

/-- The value of an atom inside `heap_size(&self)` for `self = v : t`. -/
def atomHeap (t : Ty) (v : TVal) : Atom → Nat
  | .zero => 0
  | .cap => capOf v
  | .lenNul => capOf v
  | .sizeOfElem => match t with
    | .vec _ e | .binaryHeap _ e | .hashSet _ e _ => e.size
    | _ => 0
  | .sizeOfPair => match t with
    | .hashMap _ esz _ _ _ => esz
    | _ => 0
  | .field i => match t, v with
    | .wrapping _ e, .wrap x => heapSize e x
    | .range2 _ e, .two a b => if i = 1 then heapSize e a else heapSize e b
    | .range1 _ e, .one a => heapSize e a
    | _, _ => 0
  | .asSlice => match t, v with
    | .vec _ e, .coll _ vs => heapSize (.slice e) (.seq vs)
    | .array _ _ e, .seq vs => heapSize (.slice e) (.seq vs)
    | _, _ => 0
  | .exactOver i => match t, v with
    | .slice e, .seq vs => hsSumExact e vs
    | .binaryHeap _ e, .coll _ vs => hsSumExact e vs
    | .hashSet _ e _, .set _ vs _ => hsSumExact e vs
    | .hashMap _ _ k w _, .map _ ks vs _ => if i = 1 then hsSumExact k ks else hsSumExact w vs
    | _, _ => 0
  | .hasher => match t, v with
    | .hashSet _ _ s, .set _ _ h => heapSize s h
    | .hashMap _ _ _ _ s, .map _ _ _ h => heapSize s h
    | _, _ => 0
  | .derefMem => match t, v with
    | .box _ e, .box x => memSize e x
    | _, _ => 0
  | .locked => match t, v with
    | .lock _ e, .wrap x => heapSize e x
    | _, _ => 0
  | .matchOpt => match t, v with
    | .option _ e, .some x => heapSize e x
    | _, _ => 0
  | .matchRes => match t, v with
    | .result _ e _, .ok x => heapSize e x
    | .result _ _ e, .err x => heapSize e x
    | _, _ => 0
  | _ => 0

def prodOf (f : Atom → Nat) : List Atom → Nat
  | [] => 1
  | a :: as => f a * prodOf f as

def evalBody (f : Atom → Nat) : Body → Nat
  | [] => 0
  | p :: ps => prodOf f p + evalBody f ps

/-- The value of an atom inside a bulk helper of `t` called on an iterator yielding `vs`. -/
def atomBulk (t : Ty) (vs : List TVal) : Atom → Nat
  | .zero => 0
  | .delegField ex => match t with
    | .wrapping _ e => if ex then hsSumExact e (unwrapW vs) else hsSumIter e (unwrapW vs)
    | _ => 0
  | .sliceOfArrays => match t with
    | .array _ _ e => hsSumIter (.slice e) vs
    | _ => 0
  | .delegDeref ex => match t with
    | .box _ e => if ex then hsSumExact e (unwrapB vs) else hsSumIter e (unwrapB vs)
    | _ => 0
  | .valueDeref ex => match t with
    | .box _ e => if ex then vsSumExact e (unwrapB vs) else vsSumIter e (unwrapB vs)
    | _ => 0
  | .flat => match t with
    | .array _ _ e => hsSumExact e (vs.flatMap elemsOf)
    | _ => 0
  | _ => 0

def rowOf (tg : Target) : Impl := (expectedImpls.find? (·.target == tg)).getD default

/-! ### `heap_size`, row by row (every value of the row's shape) -/

theorem C08_row_string (sz c : Nat) :
    evalBody (atomHeap (.stringLike sz) (.buf c)) (rowOf .string).heap = heapSize (.stringLike sz) (.buf c) ∧
    evalBody (atomHeap (.stringLike sz) (.buf c)) (rowOf .osString).heap = heapSize (.stringLike sz) (.buf c) ∧
    evalBody (atomHeap (.stringLike sz) (.buf c)) (rowOf .pathBuf).heap = heapSize (.stringLike sz) (.buf c) := by
  simp [rowOf, expectedImpls, evalBody, prodOf, atomHeap, capOf, heapSize]

theorem C08_row_cstring (sz n : Nat) :
    evalBody (atomHeap (.cString sz) (.buf n)) (rowOf .cString).heap = heapSize (.cString sz) (.buf n) := by
  simp [rowOf, expectedImpls, evalBody, prodOf, atomHeap, capOf, heapSize]

theorem C08_row_zero (t : Ty) (v : TVal) :
    evalBody (atomHeap t v) (rowOf .path).heap = 0 ∧ evalBody (atomHeap t v) (rowOf .phantom).heap = 0 ∧
    evalBody (atomHeap t v) (rowOf .ref).heap = 0 ∧ evalBody (atomHeap t v) (rowOf .refMut).heap = 0 := by
  simp [rowOf, expectedImpls, evalBody, prodOf, atomHeap]

theorem C08_row_wrapping (sz : Nat) (e : Ty) (x : TVal) :
    evalBody (atomHeap (.wrapping sz e) (.wrap x)) (rowOf .wrapping).heap = heapSize (.wrapping sz e) (.wrap x) := by
  simp [rowOf, expectedImpls, evalBody, prodOf, atomHeap, heapSize]

theorem C08_row_slice (e : Ty) (vs : List TVal) :
    evalBody (atomHeap (.slice e) (.seq vs)) (rowOf .slice).heap = heapSize (.slice e) (.seq vs) := by
  simp [rowOf, expectedImpls, evalBody, prodOf, atomHeap, heapSize]

theorem C08_row_array (sz n : Nat) (e : Ty) (vs : List TVal) :
    evalBody (atomHeap (.array sz n e) (.seq vs)) (rowOf .array).heap = heapSize (.array sz n e) (.seq vs) := by
  simp [rowOf, expectedImpls, evalBody, prodOf, atomHeap, heapSize]

theorem C08_row_vec (sz cap : Nat) (e : Ty) (vs : List TVal) :
    evalBody (atomHeap (.vec sz e) (.coll cap vs)) (rowOf .vec).heap = heapSize (.vec sz e) (.coll cap vs) := by
  simp [rowOf, expectedImpls, evalBody, prodOf, atomHeap, capOf, heapSize]

theorem C08_row_binaryHeap (sz cap : Nat) (e : Ty) (vs : List TVal) :
    evalBody (atomHeap (.binaryHeap sz e) (.coll cap vs)) (rowOf .binaryHeap).heap =
      heapSize (.binaryHeap sz e) (.coll cap vs) := by
  simp [rowOf, expectedImpls, evalBody, prodOf, atomHeap, capOf, heapSize]

theorem C08_row_hashSet (sz cap : Nat) (e s : Ty) (vs : List TVal) (h : TVal) :
    evalBody (atomHeap (.hashSet sz e s) (.set cap vs h)) (rowOf .hashSet).heap =
      heapSize (.hashSet sz e s) (.set cap vs h) := by
  simp [rowOf, expectedImpls, evalBody, prodOf, atomHeap, capOf, heapSize]
  omega

theorem C08_row_hashMap (sz esz cap : Nat) (k w s : Ty) (ks vs : List TVal) (h : TVal) :
    evalBody (atomHeap (.hashMap sz esz k w s) (.map cap ks vs h)) (rowOf .hashMap).heap =
      heapSize (.hashMap sz esz k w s) (.map cap ks vs h) := by
  simp [rowOf, expectedImpls, evalBody, prodOf, atomHeap, capOf, heapSize]
  omega

theorem C08_row_box (sz : Nat) (e : Ty) (x : TVal) :
    evalBody (atomHeap (.box sz e) (.box x)) (rowOf .box).heap = heapSize (.box sz e) (.box x) := by
  simp [rowOf, expectedImpls, evalBody, prodOf, atomHeap, heapSize, memSize]

theorem C08_row_lock (sz : Nat) (e : Ty) (x : TVal) :
    evalBody (atomHeap (.lock sz e) (.wrap x)) (rowOf .mutex).heap = heapSize (.lock sz e) (.wrap x) ∧
    evalBody (atomHeap (.lock sz e) (.wrap x)) (rowOf .rwLock).heap = heapSize (.lock sz e) (.wrap x) := by
  simp [rowOf, expectedImpls, evalBody, prodOf, atomHeap, heapSize]

theorem C08_row_option (sz : Nat) (e : Ty) (x : TVal) :
    evalBody (atomHeap (.option sz e) (.some x)) (rowOf .option).heap = heapSize (.option sz e) (.some x) ∧
    evalBody (atomHeap (.option sz e) .none) (rowOf .option).heap = heapSize (.option sz e) .none := by
  simp [rowOf, expectedImpls, evalBody, prodOf, atomHeap, heapSize]

theorem C08_row_result (sz : Nat) (e f : Ty) (x : TVal) :
    evalBody (atomHeap (.result sz e f) (.ok x)) (rowOf .result).heap = heapSize (.result sz e f) (.ok x) ∧
    evalBody (atomHeap (.result sz e f) (.err x)) (rowOf .result).heap = heapSize (.result sz e f) (.err x) := by
  simp [rowOf, expectedImpls, evalBody, prodOf, atomHeap, heapSize]

theorem C08_row_range (sz : Nat) (e : Ty) (a b : TVal) :
    evalBody (atomHeap (.range2 sz e) (.two a b)) (rowOf .range).heap = heapSize (.range2 sz e) (.two a b) ∧
    evalBody (atomHeap (.range2 sz e) (.two a b)) (rowOf .rangeInclusive).heap = heapSize (.range2 sz e) (.two a b) ∧
    evalBody (atomHeap (.range1 sz e) (.one a)) (rowOf .rangeFrom).heap = heapSize (.range1 sz e) (.one a) ∧
    evalBody (atomHeap (.range1 sz e) (.one a)) (rowOf .rangeTo).heap = heapSize (.range1 sz e) (.one a) ∧
    evalBody (atomHeap (.range1 sz e) (.one a)) (rowOf .rangeToInclusive).heap = heapSize (.range1 sz e) (.one a) := by
  simp [rowOf, expectedImpls, evalBody, prodOf, atomHeap, heapSize]

/-! ### the overridden bulk helpers, row by row (every list of values) -/

theorem C08_row_wrapping_bulk (sz : Nat) (e : Ty) (vs : List TVal) :
    ((rowOf .wrapping).sumIter.map (evalBody (atomBulk (.wrapping sz e) vs))) = some (hsSumIter (.wrapping sz e) vs) ∧
    ((rowOf .wrapping).sumExact.map (evalBody (atomBulk (.wrapping sz e) vs))) = some (hsSumExact (.wrapping sz e) vs) := by
  simp [rowOf, expectedImpls, evalBody, prodOf, atomBulk, hsSumIter, hsSumExact]

theorem C08_row_box_bulk (sz : Nat) (e : Ty) (vs : List TVal) :
    ((rowOf .box).sumIter.map (evalBody (atomBulk (.box sz e) vs))) = some (hsSumIter (.box sz e) vs) ∧
    ((rowOf .box).sumExact.map (evalBody (atomBulk (.box sz e) vs))) = some (hsSumExact (.box sz e) vs) := by
  simp [rowOf, expectedImpls, evalBody, prodOf, atomBulk, hsSumIter, hsSumExact]

theorem C08_row_array_bulk (sz n : Nat) (e : Ty) (vs : List TVal) :
    ((rowOf .array).sumIter.map (evalBody (atomBulk (.array sz n e) vs))) = some (hsSumIter (.array sz n e) vs) ∧
    ((rowOf .array).sumExact.map (evalBody (atomBulk (.array sz n e) vs))) = some (hsSumExact (.array sz n e) vs) := by
  simp [rowOf, expectedImpls, evalBody, prodOf, atomBulk, hsSumIter, hsSumExact]

/-- Exactly three impls override the bulk helpers; for every other constructor the model uses the trait default
(`make_iter().map(HeapSize::heap_size).sum()`, the exact-size variant delegating to it). -/
theorem C08_default_helpers :
    (expectedImpls.filter (fun r => r.sumIter.isSome || r.sumExact.isSome)).map (·.target) = [.array, .box, .wrapping] := by
  decide

theorem C08_default_model (vs : List TVal) (sz cap : Nat) (e s k w : Ty) :
    hsSumIter (.stringLike sz) vs = hsDefault (.stringLike sz) vs ∧ hsSumExact (.stringLike sz) vs = hsDefault (.stringLike sz) vs ∧
    hsSumIter (.vec sz e) vs = hsDefault (.vec sz e) vs ∧ hsSumExact (.vec sz e) vs = hsDefault (.vec sz e) vs ∧
    hsSumIter (.option sz e) vs = hsDefault (.option sz e) vs ∧ hsSumExact (.option sz e) vs = hsDefault (.option sz e) vs ∧
    hsSumIter (.result sz e s) vs = hsDefault (.result sz e s) vs ∧ hsSumExact (.result sz e s) vs = hsDefault (.result sz e s) vs ∧
    hsSumIter (.hashMap sz cap k w s) vs = hsDefault (.hashMap sz cap k w s) vs ∧
    hsSumIter (.slice e) vs = hsDefault (.slice e) vs ∧ hsSumIter (.lock sz e) vs = hsDefault (.lock sz e) vs ∧
    hsSumIter (.range2 sz e) vs = hsDefault (.range2 sz e) vs ∧ hsSumIter (.binaryHeap sz e) vs = hsDefault (.binaryHeap sz e) vs ∧
    hsSumIter (.user sz) vs = hsDefault (.user sz) vs ∧ hsSumExact (.user sz) vs = hsDefault (.user sz) vs := by
  simp [hsSumIter, hsSumExact]

/-! ### the trait defaults and the `ValueSize` / `MemSize` blanket impls, read the same way -/

/-- The value of an atom inside a *default* bulk helper of `t` (or the `Sized` blanket impl) called on an iterator
yielding `vs`: `make_iter().map(HeapSize::heap_size).sum()`, `Self::heap_size_sum_iter(make_iter)`, the same two
for `ValueSize`, `mem::size_of::<Self>()`, `iterator.count()`, `iterator.len()`. -/
def atomDefault (t : Ty) (vs : List TVal) : Atom → Nat
  | .mapHeapSum => hsDefault t vs
  | .viaSumIter => hsSumIter t vs
  | .mapValueSum => vsDefault t vs
  | .viaValueSumIter => vsSumIter t vs
  | .sizeOfSelf => t.size
  | .iterCount => vs.length
  | .iterLen => vs.length
  | _ => 0

/-- For a type without overrides (here: the owned string types, `Vec`, `Option`, a user-defined type) the trait's
default bodies, as regenerated from the source, are the model's helpers. -/
theorem C08_defaults_are_the_model (vs : List TVal) (sz : Nat) (e : Ty) :
    (GeneratedMem.heapDefaults.map (evalBody (atomDefault (.stringLike sz) vs))) =
      [hsSumIter (.stringLike sz) vs, hsSumExact (.stringLike sz) vs] ∧
    (GeneratedMem.heapDefaults.map (evalBody (atomDefault (.vec sz e) vs))) = [hsSumIter (.vec sz e) vs, hsSumExact (.vec sz e) vs] ∧
    (GeneratedMem.heapDefaults.map (evalBody (atomDefault (.option sz e) vs))) =
      [hsSumIter (.option sz e) vs, hsSumExact (.option sz e) vs] ∧
    (GeneratedMem.heapDefaults.map (evalBody (atomDefault (.user sz) vs))) = [hsSumIter (.user sz) vs, hsSumExact (.user sz) vs] := by
  have h := C08_source_defaults.1
  rw [h]
  simp [evalBody, prodOf, atomDefault, hsSumIter, hsSumExact]

/-- The `Sized` blanket impl multiplies `size_of` by the number of items (`count()` / `len()`), the unsized types and
a user-defined unsized type sum `value_size` element-wise — as the model's `vsSumIter` / `vsSumExact` do. -/
theorem C08_value_defaults_are_the_model (vs : List TVal) (sz : Nat) (e : Ty) :
    ((GeneratedMem.sizedValue.drop 1).map (evalBody (atomDefault (.vec sz e) vs))) = [vsSumIter (.vec sz e) vs, vsSumExact (.vec sz e) vs] ∧
    (GeneratedMem.valueDefaults.map (evalBody (atomDefault .strLike vs))) = [vsSumIter .strLike vs, vsSumExact .strLike vs] ∧
    (GeneratedMem.valueDefaults.map (evalBody (atomDefault (.slice e) vs))) = [vsSumIter (.slice e) vs, vsSumExact (.slice e) vs] ∧
    (GeneratedMem.valueDefaults.map (evalBody (atomDefault .userDyn vs))) = [vsSumIter .userDyn vs, vsSumExact .userDyn vs] := by
  have h := C08_source_defaults
  rw [h.2.2.1, h.2.1]
  simp [evalBody, prodOf, atomDefault, vsSumIter, vsSumExact, Ty.size, Nat.mul_comm]

/-- `mem_size = value_size + heap_size` is what the regenerated blanket impl says. -/
theorem C08_mem_size_body (t : Ty) (v : TVal) :
    evalBody (fun a => match a with | .valueSize => valueSize t v | .heapSize => heapSize t v | _ => 0) GeneratedMem.memSizeBody =
      memSize t v := by
  rw [C08_source_defaults.2.2.2.1]
  simp [evalBody, prodOf, memSize]
  omega

/-! ### non-vacuity: the table has 25 rows, no unknown phrase -/
example : expectedImpls.length = 25 := by decide
example : GeneratedMem.impls.all (fun r =>
    (r.heap ++ (r.sumIter.getD []) ++ (r.sumExact.getD [])).all (fun p => p.all (fun a => match a with | .unknown _ => false | _ => true))) = true := by
  decide

end LruMem
