import LruMem.Proofs.MemSize
import LruMem.Proofs.Hashbrown
/-!
# C09 — `heap_size` matches what the allocator actually holds for owned buffers

`allocBytes` is a model of *external* behaviour (what std requests from the allocator for each
value) and is validated against a counting global allocator on every run; the theorem relates it to
the model of `heap_size` for every nesting. Partial (DESIGN §6 C09): the allocator side is sampled.
-/
namespace LruMem
open LruMem.MemSize

/-- No `HashMap`/`HashSet` anywhere in the type. -/
def noHash : Ty → Bool
  | .hashSet .. | .hashMap .. => false
  -- a user type's report is whatever its author wrote: outside the statement about std's owned buffers
  | .user _ | .userDyn => false
  | .ref _ t | .box _ t | .slice t | .array _ _ t | .option _ t | .wrapping _ t | .range2 _ t
  | .range1 _ t | .lock _ t | .vec _ t | .binaryHeap _ t => noHash t
  | .result _ t e => noHash t && noHash e
  | .tuple _ ts => noHashList ts
  | _ => true
where
  noHashList : List Ty → Bool
    | [] => true
    | t :: ts => noHash t && noHashList ts

theorem hsDefault_allocList (t : Ty) (vs : List TVal) (h : ∀ v, heapSize t v = allocBytes t v) :
    hsDefault t vs = allocList t vs := by
  induction vs with
  | nil => simp [hsDefault_nil, allocList]
  | cons v vs ih => simp [hsDefault_cons, allocList, h v, ih]

mutual
/-- For `String`, `Vec`, `Box` (sized, slice, str-likes), `BinaryHeap`, `CString`, `OsString`,
`PathBuf` and any nesting of them through tuples, arrays, `Option`, `Result`, `Wrapping`, ranges,
`Mutex` and `RwLock`: `heap_size` equals the bytes held from the allocator, including reserved but
unused capacity — for every relation between length and capacity at every nesting level. Borrowed
references contribute 0 on both sides. -/
theorem C09_exact : ∀ (t : Ty), noHash t = true → ∀ v, heapSize t v = allocBytes t v
  | .prim _, _, v => by cases v <;> simp [heapSize, allocBytes]
  | .strLike, _, v => by cases v <;> simp [heapSize, allocBytes]
  | .path, _, v => by cases v <;> simp [heapSize, allocBytes]
  | .phantom, _, v => by cases v <;> simp [heapSize, allocBytes]
  | .stringLike _, _, v => by cases v <;> simp [heapSize, allocBytes]
  | .cString _, _, v => by cases v <;> simp [heapSize, allocBytes]
  | .ref _ _, _, v => by cases v <;> simp [heapSize, allocBytes]
  | .box sz t, h, v => by
    have ih := C09_exact t (by simpa [noHash] using h)
    cases v <;> simp [heapSize, allocBytes, ih]
  | .slice t, h, v => by
    have ih := C09_exact t (by simpa [noHash] using h)
    cases v <;> simp [heapSize, allocBytes, (hs_eq _ _).2, hsDefault_allocList t _ ih]
  | .array sz n t, h, v => by
    have ih := C09_exact t (by simpa [noHash] using h)
    cases v <;> simp [heapSize, allocBytes, (hs_eq _ _).2, hsDefault_allocList t _ ih]
  | .tuple sz ts, h, v => by
    have ih := C09_tup ts (by simpa [noHash] using h)
    cases v <;> simp [heapSize, allocBytes, ih]
  | .option sz t, h, v => by
    have ih := C09_exact t (by simpa [noHash] using h)
    cases v <;> simp [heapSize, allocBytes, ih]
  | .result sz t e, h, v => by
    have h' : noHash t = true ∧ noHash e = true := by simpa [noHash] using h
    have ih1 := C09_exact t h'.1
    have ih2 := C09_exact e h'.2
    cases v <;> simp [heapSize, allocBytes, ih1, ih2]
  | .wrapping sz t, h, v => by
    have ih := C09_exact t (by simpa [noHash] using h)
    cases v <;> simp [heapSize, allocBytes, ih]
  | .range2 sz t, h, v => by
    have ih := C09_exact t (by simpa [noHash] using h)
    cases v <;> simp [heapSize, allocBytes, ih]
  | .range1 sz t, h, v => by
    have ih := C09_exact t (by simpa [noHash] using h)
    cases v <;> simp [heapSize, allocBytes, ih]
  | .lock sz t, h, v => by
    have ih := C09_exact t (by simpa [noHash] using h)
    cases v <;> simp [heapSize, allocBytes, ih]
  | .vec sz t, h, v => by
    have ih := C09_exact t (by simpa [noHash] using h)
    cases v <;> simp [heapSize, allocBytes, (hs_eq _ _).2, hsDefault_allocList t _ ih]
  | .binaryHeap sz t, h, v => by
    have ih := C09_exact t (by simpa [noHash] using h)
    cases v <;> simp [heapSize, allocBytes, (hs_eq _ _).2, hsDefault_allocList t _ ih]
  | .hashSet .., h, _ => by simp [noHash] at h
  | .hashMap .., h, _ => by simp [noHash] at h

theorem C09_tup : ∀ (ts : List Ty), noHash.noHashList ts = true → ∀ vs, heapSizeTup ts vs = allocTup ts vs
  | [], _, vs => by simp [heapSizeTup, allocTup]
  | t :: ts, h, vs => by
    have h' : noHash t = true ∧ noHash.noHashList ts = true := by simpa [noHash.noHashList] using h
    have ih1 := C09_exact t h'.1
    have ih2 := C09_tup ts h'.2
    cases vs with
    | nil => simp [heapSizeTup, allocTup]
    | cons v vs => simp [heapSizeTup, allocTup, ih1, ih2]
end

theorem cap_le_buckets (cap : Nat) : cap ≤ hbBuckets cap := by
  have h := le_freshCap cap
  unfold freshCap bucketsToCap at h
  unfold hbBuckets
  split at h
  · omega
  · split at h
    · omega
    · have : bucketsFor cap / 8 * 7 ≤ bucketsFor cap := by omega
      omega

/-- For `HashMap`/`HashSet` (element types without further hash tables): the estimate never exceeds
what the allocator holds and is at least `capacity × entry size` plus the elements' own heap size. -/
theorem C09_hash_bounds (sz esz cap : Nat) (k v s t : Ty) (ks vs : List TVal) (h : TVal)
    (hk : noHash k = true) (hv : noHash v = true) (hs : noHash s = true) (ht : noHash t = true) :
    cap * esz + (hsDefault k ks + hsDefault v vs) ≤ heapSize (.hashMap sz esz k v s) (.map cap ks vs h) ∧
    heapSize (.hashMap sz esz k v s) (.map cap ks vs h) ≤ allocBytes (.hashMap sz esz k v s) (.map cap ks vs h) ∧
    cap * t.size + hsDefault t vs ≤ heapSize (.hashSet sz t s) (.set cap vs h) ∧
    heapSize (.hashSet sz t s) (.set cap vs h) ≤ allocBytes (.hashSet sz t s) (.set cap vs h) := by
  have e1 := hsDefault_allocList k ks (C09_exact k hk)
  have e2 := hsDefault_allocList v vs (C09_exact v hv)
  have e3 := hsDefault_allocList t vs (C09_exact t ht)
  have e4 := C09_exact s hs h
  have hb : ∀ e : Nat, cap * e ≤ hbBytes cap e := by
    intro e
    unfold hbBytes
    split
    · simp_all
    · have h1 := cap_le_buckets cap
      have h2 : cap * e ≤ e * hbBuckets cap := by rw [Nat.mul_comm]; exact Nat.mul_le_mul_left e h1
      omega
  have := hb esz
  have := hb t.size
  simp only [heapSize, allocBytes, (hs_eq _ _).2, e4]
  rw [← e1, ← e2, ← e3]
  refine ⟨by omega, by omega, by omega, by omega⟩

/-- Borrowed references contribute 0. -/
theorem C09_ref_zero (sz : Nat) (t : Ty) (v : TVal) : heapSize (.ref sz t) v = 0 ∧ allocBytes (.ref sz t) v = 0 := by
  cases v <;> simp [heapSize, allocBytes]

/-! ### non-vacuity: spare capacity at two nesting levels; the PathBuf of finding F3 -/
example : heapSize (.vec 24 (.stringLike 24)) (.coll 8 [.buf 100, .buf 0]) = 100 + 8 * 24 := by
  simp [heapSize, hsSumExact, hsDefault, Ty.size]
example : heapSize (.stringLike 24) (.buf 100) = 100 ∧ allocBytes (.stringLike 24) (.buf 100) = 100 := by
  simp [heapSize, allocBytes]

end LruMem
