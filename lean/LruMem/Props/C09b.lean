import LruMem.Props.C08b
import LruMem.Props.C09
/-!
# C09 (continued) — the owned-buffer impls of the regenerated source table

`C09_exact` is a theorem about the model's `heapSize`; `Props/C08b.lean` shows that `heapSize` is the source's
`heap_size`, impl by impl, for the table regenerated from `/repo/src/mem_size.rs` on every run. Restated here for
the types C09 names: the buffer-owning impls report `capacity()` (`String`, `OsString`, `PathBuf`), the length
with the terminator (`CString`), `capacity() * size_of::<T>()` plus the elements through the exact-size helper
(`Vec`, `BinaryHeap`; `HashSet`/`HashMap` with the hasher), the pointee's `mem_size` (`Box`), and references 0.
-/
namespace LruMem
open LruMem.MemDecl

theorem C09_source_owned :
    (GeneratedMem.impls.filter fun r => r.target ∈ [Target.string, .osString, .pathBuf, .cString, .vec, .binaryHeap, .box, .ref, .refMut]).map
      (fun r => (r.target, r.heap)) =
    [(.binaryHeap, [[.exactOver 0], [.cap, .sizeOfElem]]), (.box, [[.derefMem]]), (.cString, [[.lenNul]]),
     (.osString, [[.cap]]), (.pathBuf, [[.cap]]), (.ref, [[.zero]]), (.refMut, [[.zero]]), (.string, [[.cap]]),
     (.vec, [[.asSlice], [.cap, .sizeOfElem]])] := by decide

theorem C09_source_hash :
    (GeneratedMem.impls.filter fun r => r.target ∈ [Target.hashMap, .hashSet]).map (fun r => (r.target, r.heap)) =
    [(.hashMap, [[.exactOver 1], [.exactOver 2], [.cap, .sizeOfPair], [.hasher]]),
     (.hashSet, [[.exactOver 0], [.cap, .sizeOfElem], [.hasher]])] := by decide

end LruMem
