import LruMem.Proofs.Spec
/-!
# C10 — rejected insertions are atomic, precisely classified, and return the pair
-/
namespace LruMem

def Out.isInsErr : Out → Bool
  | .insTooLarge .. | .tryTooLarge .. | .tryWouldEject .. | .tryOccupied .. => true
  | _ => false

/-- `insert` fails with `EntryTooLarge` exactly when `entry_size(key, value) > max_size`, and then
reports that very pair with the exact figures. -/
theorem C10_insert_iff {p : Params} {c : Cache} (k : Key) (v : Val) (o : Oracle) (h : InvA p c) :
    ((insert p c k v o).out = .insTooLarge k v (entrySize p k v) c.max ↔ entrySize p k v > c.max) ∧
    ((insert p c k v o).out.isInsErr = true ↔ entrySize p k v > c.max) := by
  by_cases hs : entrySize p k v > c.max
  · simp [insert, hs, Out.isInsErr]
  · have := (insert_spec k v o h (by omega)).2.1
    simp [this, hs, Out.isInsErr]

/-- `try_insert` is a total decision list: too large; else would eject; else occupied; else success.
Simultaneous conditions resolve in exactly this precedence, and the figures are exact
(`free_memory = max_size - current_size`). -/
theorem C10_try_classify {p : Params} {c : Cache} (k : Key) (v : Val) (o : Oracle) (h : InvA p c) :
    (tryInsert p c k v o).out =
      if entrySize p k v > c.max then .tryTooLarge k v (entrySize p k v) c.max
      else if entrySize p k v > c.max - c.cur then .tryWouldEject k v (entrySize p k v) (c.max - c.cur)
      else if (lookup c.entries k.id).isSome then .tryOccupied k v
      else .unit := by
  by_cases h1 : entrySize p k v > c.max
  · simp [tryInsert, h1]
  · by_cases h2 : entrySize p k v > c.max - c.cur
    · simp [tryInsert, h1, h2]
    · by_cases h3 : (lookup c.entries k.id).isSome = true
      · simp [tryInsert, h1, h2, h3]
      · have hf : lookup c.entries k.id = none := by simpa using h3
        have := (tryInsert_spec k v o h (by omega) hf).2.1
        simp [this, h1, h2, hf]

/-- Every failure leaves the cache exactly as it was (contents, order, sizes, table shape), drops
nothing, and hands back the very key and value objects that were passed in. -/
theorem C10_atomic {p : Params} {c : Cache} (k : Key) (v : Val) (o : Oracle) :
    ((insert p c k v o).out.isInsErr = true →
      (insert p c k v o).cache = c ∧ droppedToks (insert p c k v o).evs = [] ∧
      (insert p c k v o).out.owned = [k.tok, v.tok]) ∧
    ((tryInsert p c k v o).out.isInsErr = true →
      (tryInsert p c k v o).cache = c ∧ droppedToks (tryInsert p c k v o).evs = [] ∧
      (tryInsert p c k v o).out.owned = [k.tok, v.tok]) := by
  constructor
  · simp only [insert]
    split
    · intro _; exact ⟨rfl, rfl, rfl⟩
    · split
      · intro hh; simp [Out.isInsErr] at hh
      · intro hh; simp [Out.isInsErr] at hh
  · simp only [tryInsert]
    split
    · intro _; exact ⟨rfl, rfl, rfl⟩
    · split
      · intro _; exact ⟨rfl, rfl, rfl⟩
      · split
        · intro _; exact ⟨rfl, by simp [droppedToks], rfl⟩
        · intro hh; simp [Out.isInsErr] at hh

/-- An entry whose size fits the free space is inserted without evicting anything
(`insert` of an absent key and `try_insert` alike). -/
theorem C10_fit_no_evict {p : Params} {c : Cache} (k : Key) (v : Val) (o : Oracle) (h : InvA p c)
    (hfit : entrySize p k v ≤ c.max - c.cur) (hfree : lookup c.entries k.id = none) :
    (insert p c k v o).cache.entries = c.entries ++ [⟨k, v, entrySize p k v⟩] ∧
    (tryInsert p c k v o).cache.entries = c.entries ++ [⟨k, v, entrySize p k v⟩] := by
  have hb := h.bound
  have hrm : removeId c.entries k.id = c.entries := removeId_of_not_mem (lookup_none_iff.mp hfree)
  refine ⟨?_, (tryInsert_spec k v o h hfit hfree).1⟩
  have hn : need c.entries (c.max - entrySize p k v) = 0 := need_eq_zero (by rw [← h.cur]; omega)
  have := (insert_spec k v o h (by omega)).1
  rw [hrm, hn] at this
  exact this

/-! ### non-vacuity: a pair meeting all three failure conditions at once is classified `EntryTooLarge` -/
private def p0 : Params := ⟨64, 16, 18446744073709551615⟩
private def c1 : Cache := runOps p0 (Cache.new 200) [(.insert ⟨1, 0, 1⟩ ⟨4, 2⟩, {}), (.insert ⟨2, 0, 3⟩ ⟨4, 4⟩, {})]
example : (step p0 c1 (.tryInsert ⟨1, 0, 5⟩ ⟨137, 6⟩) {}).out = .tryTooLarge ⟨1, 0, 5⟩ ⟨137, 6⟩ 201 200 := by decide
example : (step p0 c1 (.tryInsert ⟨1, 0, 5⟩ ⟨1, 6⟩) {}).out = .tryWouldEject ⟨1, 0, 5⟩ ⟨1, 6⟩ 65 64 := by decide
example : (step p0 c1 (.tryInsert ⟨1, 0, 5⟩ ⟨0, 6⟩) {}).out = .tryOccupied ⟨1, 0, 5⟩ ⟨0, 6⟩ := by decide
example : (step p0 c1 (.tryInsert ⟨3, 0, 5⟩ ⟨0, 6⟩) {}).out = .unit := by decide

end LruMem
