import LruMem.Proofs.Spec
/-!
# C11 — `mutate` re-accounts the changed value or hands it back
-/
namespace LruMem

def closureCalls : List Ev → Nat
  | [] => 0
  | .closure _ :: l => closureCalls l + 1
  | _ :: l => closureCalls l

theorem closureCalls_append (a b : List Ev) : closureCalls (a ++ b) = closureCalls a + closureCalls b := by
  induction a with
  | nil => simp [closureCalls]
  | cons e a ih => cases e <;> simp [closureCalls, ih] <;> omega

theorem closureCalls_evict (l : List Entry) : closureCalls (evictAllEvs l) = 0 := by
  induction l with
  | nil => rfl
  | cons e l ih => simp [evictAllEvs, evictEvs, closureCalls] at *; exact ih

/-- Absent key: the closure is never called, `Ok(None)`, nothing changes. -/
theorem C11_absent {p : Params} {c : Cache} (id : Nat) (f : Val → Val × Nat) (o : Oracle)
    (h : lookup c.entries id = none) :
    (mutate p c id f o).out = .mutOk none ∧ closureCalls (mutate p c id f o).evs = 0 ∧
    (mutate p c id f o).cache = c := by
  simp [mutate, h, closureCalls]

/-- Present key: the closure runs exactly once, on that entry's value. -/
theorem C11_closure_once {p : Params} {c : Cache} (id : Nat) (f : Val → Val × Nat) (o : Oracle)
    (e : Entry) (he : lookup c.entries id = some e) :
    closureCalls (mutate p c id f o).evs = 1 := by
  simp only [mutate, he]
  split
  · split
    · split <;> simp [closureCalls]
    · split <;> simp [closureCalls, closureCalls_evict]
  · split <;> simp [closureCalls]

/-- Present key, new value fits: the closure's result is forwarded, the entry becomes
most-recently-used and records `entry_size(key, new value)`; older entries are evicted only as far as
needed (minimal LRU prefix of the others, C03). Covers shrink, no change, and growth that fits. -/
theorem C11_present_fits {p : Params} {c : Cache} (id : Nat) (f : Val → Val × Nat) (o : Oracle) (h : InvA p c)
    (e : Entry) (he : lookup c.entries id = some e) (hfit : entrySize p e.key (f e.val).1 ≤ c.max) :
    (mutate p c id f o).out = .mutOk (some (f e.val).2) ∧
    ∃ n, n ≤ (removeId c.entries id).length ∧
      (mutate p c id f o).cache.entries =
        (removeId c.entries id).drop n ++ [⟨e.key, (f e.val).1, entrySize p e.key (f e.val).1⟩] ∧
      (valMemSize p (f e.val).1 ≤ valMemSize p e.val → n = 0) ∧
      n = need (removeId c.entries id) (c.max - entrySize p e.key (f e.val).1) := by
  have hsum := sumSizes_removeId c.entries id
  rw [he] at hsum
  simp only [oldSize] at hsum
  obtain ⟨hmem, hid⟩ := lookup_some_mem he
  have hsz : e.size = e.key.heap + e.val.heap + p.ovh := h.sizes e hmem
  have hes : entrySize p e.key (f e.val).1 = e.key.heap + (f e.val).1.heap + p.ovh := rfl
  have hv1 : valMemSize p e.val = p.vsz + e.val.heap := rfl
  have hv2 : valMemSize p (f e.val).1 = p.vsz + (f e.val).1.heap := rfl
  by_cases hgrow : valMemSize p (f e.val).1 > valMemSize p e.val
  · obtain ⟨a, b⟩ := mutate_grow_spec id f o h e he hgrow hfit
    exact ⟨b, _, need_le_length _ _, a, by omega, rfl⟩
  · obtain ⟨a, b, _⟩ := mutate_shrink_spec id f o h e he hgrow
    have hn : need (removeId c.entries id) (c.max - entrySize p e.key (f e.val).1) = 0 := by
      apply need_eq_zero
      have := h.cur; have := h.bound
      omega
    exact ⟨b, 0, Nat.zero_le _, by simpa using a, fun _ => rfl, hn.symm⟩

/-- Grown entry alone exceeds the limit: it is removed and handed back in `EntryTooLarge` with the
mutated value and the exact old and new entry sizes; its objects are not dropped; every other entry,
their order and sizes are untouched and the total shrinks by the old size. -/
theorem C11_overflow {p : Params} {c : Cache} (id : Nat) (f : Val → Val × Nat) (o : Oracle) (h : InvA p c)
    (e : Entry) (he : lookup c.entries id = some e) (hbig : entrySize p e.key (f e.val).1 > c.max) :
    (mutate p c id f o).out = .mutTooLarge e.key (f e.val).1 (entrySize p e.key e.val)
      (entrySize p e.key (f e.val).1) c.max ∧
    (mutate p c id f o).cache.entries = removeId c.entries id ∧
    (mutate p c id f o).cache.cur = c.cur - entrySize p e.key e.val ∧
    (mutate p c id f o).cache.max = c.max ∧
    (mutate p c id f o).out.owned = [e.key.tok, (f e.val).1.tok] := by
  obtain ⟨a, b, c', d⟩ := mutate_overflow_spec id f o h e he hbig
  exact ⟨b, a, c', d, by rw [b]; rfl⟩

/-- In the overflow case nothing but (possibly) the *replaced* old value object is dropped. -/
theorem C11_overflow_drops {p : Params} {c : Cache} (id : Nat) (f : Val → Val × Nat) (o : Oracle) (h : InvA p c)
    (e : Entry) (he : lookup c.entries id = some e) (hbig : entrySize p e.key (f e.val).1 > c.max) :
    droppedToks (mutate p c id f o).evs = if (f e.val).1.tok = e.val.tok then [] else [e.val.tok] := by
  obtain ⟨hmem, hid⟩ := lookup_some_mem he
  have hsz : e.size = e.key.heap + e.val.heap + p.ovh := h.sizes e hmem
  have hv1 : valMemSize p e.val = p.vsz + e.val.heap := rfl
  have hv2 : valMemSize p (f e.val).1 = p.vsz + (f e.val).1.heap := rfl
  have hes : entrySize p e.key (f e.val).1 = e.key.heap + (f e.val).1.heap + p.ovh := rfl
  have hcm : e.size ≤ c.max := by
    have := h.bound; have := h.cur; have := sumSizes_removeId c.entries id
    rw [he] at this; simp only [oldSize] at this; omega
  have hgrow : valMemSize p (f e.val).1 > valMemSize p e.val := by omega
  have hbig' : e.size + (valMemSize p (f e.val).1 - valMemSize p e.val) > c.max := by omega
  simp only [mutate, he]
  rw [if_pos hgrow, if_pos hbig']
  split <;> simp [droppedToks]

/-! ### non-vacuity -/
private def p0 : Params := ⟨64, 16, 18446744073709551615⟩
private def c1 : Cache := runOps p0 (Cache.new 200) [(.insert ⟨1, 0, 1⟩ ⟨4, 2⟩, {}), (.insert ⟨2, 0, 3⟩ ⟨4, 4⟩, {})]
example : (step p0 c1 (.mutate 1 fun v => ({ v with heap := 137 }, 9)) {}).out =
    .mutTooLarge ⟨1, 0, 1⟩ ⟨137, 2⟩ 68 201 200 := by decide
example : (step p0 c1 (.mutate 1 fun v => ({ v with heap := 136 }, 9)) {}).cache.entries.map (·.key.id) = [1] := by decide
example : (step p0 c1 (.mutate 1 fun v => ({ v with heap := 0 }, 9)) {}).cache.entries.map (·.size) = [68, 64] := by decide

end LruMem
