import LruMem.Props.C06
/-!
# C12 — iterators yield every entry exactly once, in order, from both ends

Level A: the two-cursor iterators of `iter.rs` seen as "what is left": `next` takes the head,
`next_back` the last element. The pointer-level cursors (null = exhausted, meeting test
`next == next_back`) are the subject of `LruMem/Model/Ptr.lean` (Level B).
-/
namespace LruMem

/-- Items yielded by front calls and by back calls, each in call order. -/
def splitYields : List Bool → List (Option Entry) → List Entry × List Entry
  | f :: fs, y :: ys =>
    let r := splitYields fs ys
    match y with
    | some e => if f then (e :: r.1, r.2) else (r.1, e :: r.2)
    | none => r
  | _, _ => ([], [])

def noneCount : List (Option Entry) → Nat
  | [] => 0
  | none :: l => noneCount l + 1
  | some _ :: l => noneCount l

theorem iterCalls_nil (calls : List Bool) :
    (iterCalls [] calls).1 = List.replicate calls.length none ∧ (iterCalls [] calls).2 = [] := by
  induction calls with
  | nil => exact ⟨rfl, rfl⟩
  | cons f fs ih =>
    cases f <;> simp [iterCalls, iterStep, ih.1, ih.2, List.replicate_succ]

theorem splitYields_none (calls : List Bool) : splitYields calls (List.replicate calls.length none) = ([], []) := by
  induction calls with
  | nil => rfl
  | cons f fs ih => simp [splitYields, List.replicate_succ, ih]

theorem noneCount_replicate (n : Nat) : noneCount (List.replicate n none) = n := by
  induction n with
  | zero => rfl
  | succ n ih => simp [List.replicate_succ, noneCount, ih]

theorem iterCalls_length (l : List Entry) (calls : List Bool) : (iterCalls l calls).1.length = calls.length := by
  induction calls generalizing l with
  | nil => rfl
  | cons f fs ih => simp [iterCalls, ih]

theorem iterCalls_front_cons (a : Entry) (l : List Entry) (fs : List Bool) :
    iterCalls (a :: l) (true :: fs) = (some a :: (iterCalls l fs).1, (iterCalls l fs).2) := by
  simp [iterCalls, iterStep]

theorem iterCalls_back_snoc (l : List Entry) (z : Entry) (fs : List Bool) :
    iterCalls (l ++ [z]) (false :: fs) = (some z :: (iterCalls l fs).1, (iterCalls l fs).2) := by
  simp [iterCalls, iterStep]

/-- Any interleaving of `next` and `next_back`, of any length: the front calls yield a prefix of the
LRU→MRU sequence, the back calls a prefix of its reverse, the two prefixes never overlap, what is
left is exactly the middle, and precisely the calls beyond `len` return `None`. -/
theorem iterCalls_spec (l : List Entry) (calls : List Bool) :
    ∃ i j, i + j = min calls.length l.length ∧
      splitYields calls (iterCalls l calls).1 = (l.take i, l.reverse.take j) ∧
      (iterCalls l calls).2 = (l.drop i).take (l.length - i - j) ∧
      noneCount (iterCalls l calls).1 = calls.length - (i + j) := by
  induction calls generalizing l with
  | nil => exact ⟨0, 0, by simp, by simp [splitYields], by simp [iterCalls], by simp [iterCalls, noneCount]⟩
  | cons f fs ih =>
    by_cases hl : l = []
    · subst hl
      obtain ⟨a, b⟩ := iterCalls_nil (f :: fs)
      refine ⟨0, 0, by simp, ?_, by simp [b], ?_⟩
      · rw [a]; simpa using splitYields_none (f :: fs)
      · rw [a, noneCount_replicate]; simp
    · cases f with
      | true =>
        obtain ⟨a, l', rfl⟩ : ∃ a l', l = a :: l' := List.exists_cons_of_ne_nil hl
        obtain ⟨i, j, h1, h2, h3, h4⟩ := ih l'
        have hj : j ≤ l'.reverse.length := by simp; omega
        rw [iterCalls_front_cons]
        refine ⟨i + 1, j, ?_, ?_, ?_, ?_⟩
        · simp only [List.length_cons]; omega
        · simp only [splitYields, h2, if_true, List.take_succ_cons, List.reverse_cons]
          rw [List.take_append_of_le_length hj]
        · simp only [h3, List.drop_succ_cons, List.length_cons]
          congr 1; omega
        · simp only [noneCount, h4, List.length_cons]; omega
      | false =>
        have hsplit := (List.dropLast_concat_getLast hl).symm
        generalize l.dropLast = init at hsplit
        generalize l.getLast hl = z at hsplit
        subst hsplit
        obtain ⟨i, j, h1, h2, h3, h4⟩ := ih init
        have hi : i ≤ init.length := by omega
        rw [iterCalls_back_snoc]
        refine ⟨i, j + 1, ?_, ?_, ?_, ?_⟩
        · simp only [List.length_cons, List.length_append, List.length_nil]; omega
        · simp only [splitYields, h2, Bool.false_eq_true, if_false, List.reverse_append, List.reverse_cons,
            List.reverse_nil, List.nil_append, List.cons_append, List.take_succ_cons]
          rw [List.take_append_of_le_length hi]
        · rw [h3]
          simp only [List.length_append, List.length_singleton]
          rw [List.drop_append_of_le_length hi]
          have e1 : init.length + 1 - i - (j + 1) = init.length - i - j := by omega
          rw [e1]
          rw [List.take_append_of_le_length (by simp)]
        · simp only [noneCount, h4, List.length_cons]; omega

/-- Every entry exactly once in total: front yields, what is left, and the reversed back yields
concatenate to the whole LRU→MRU sequence. -/
theorem C12_exactly_once (l : List Entry) (calls : List Bool) :
    (splitYields calls (iterCalls l calls).1).1 ++ (iterCalls l calls).2 ++
      (splitYields calls (iterCalls l calls).1).2.reverse = l := by
  obtain ⟨i, j, h1, h2, h3, _⟩ := iterCalls_spec l calls
  rw [h2, h3]
  simp only
  have hij : i + j ≤ l.length := by omega
  have : (l.reverse.take j).reverse = l.drop (l.length - j) := by
    rw [List.reverse_take]
    simp
  rw [this]
  have h4 : (l.drop i).take (l.length - i - j) ++ l.drop (l.length - j) = l.drop i := by
    have : l.drop (l.length - j) = (l.drop i).drop (l.length - i - j) := by
      rw [List.drop_drop]; congr 1; omega
    rw [this, List.take_append_drop]
  rw [List.append_assoc, h4, List.take_append_drop]

/-- Once everything has been yielded every further call returns `None` (all seven iterators behave
fused), and with at least `len` calls everything has been yielded. -/
theorem C12_fused (l : List Entry) (calls more : List Bool) (h : l.length ≤ calls.length) :
    (iterCalls l calls).2 = [] ∧ (iterCalls (iterCalls l calls).2 more).1 = List.replicate more.length none := by
  obtain ⟨i, j, h1, _, h3, _⟩ := iterCalls_spec l calls
  have : (iterCalls l calls).2 = [] := by
    rw [h3]
    have : l.length - i - j = 0 := by omega
    rw [this]; simp
  exact ⟨this, by rw [this]; exact (iterCalls_nil more).1⟩

/-- Borrowing iterators (`iter`, `keys`, `values`) change nothing, whatever is called and whether
the iterator is dropped or forgotten. -/
theorem C12_borrowing (c : Cache) (kind : IterKind) (calls : List Bool) (forget : Bool) (h : kind.borrowing = true) :
    (iterScenario c kind calls forget).cache = some c ∧ (iterScenario c kind calls forget).evs = [] := by
  simp [iterScenario, h]

/-- Once a drain is over the cache is empty with size 0 and satisfies the invariant — so it is fully
usable: every other theorem applies to it — however much was consumed. -/
theorem C12_drain_drop {p : Params} {c : Cache} (calls : List Bool) (forget : Bool) (h : InvA p c) :
    ∃ c', (iterScenario c .drain calls forget).cache = some c' ∧ c'.entries = [] ∧ c'.cur = 0 ∧
      c'.max = c.max ∧ c'.shape.buckets = c.shape.buckets ∧ InvA p c' :=
  ⟨_, rfl, rfl, rfl, rfl, rfl, cleared_inv h⟩

/-- Owning iterators drop whatever was not consumed (and nothing else, and nothing twice): see
`C06_owning_iter` with `forget = false`. -/
theorem C12_into_drop (c : Cache) (kind : IterKind) (calls : List Bool) (hk : kind.borrowing = false) (t : Nat) :
    List.count t (toks c.entries) =
      List.count t (droppedToks (iterScenario c kind calls false).evs) +
      List.count t (iterScenario c kind calls false).out.owned := by
  have := (C06_owning_iter c kind calls false hk t).1
  simpa using this

/-! ### non-vacuity -/
private def e (i : Nat) : Entry := ⟨⟨i, 0, 2 * i⟩, ⟨0, 2 * i + 1⟩, 64⟩
example : ((iterCalls [e 1, e 2, e 3] [true, false, false, true, true]).1.map (·.map (·.key.id))) =
    [some 1, some 3, some 2, none, none] := by decide
example : ((iterCalls [e 1] [false, true]).1.map (·.map (·.key.id))) = [some 1, none] := by decide

end LruMem
