import LruMem.Proofs.Cursor
import LruMem.Props.C12
/-!
# C12 at the pointer level: the two-cursor iterators walk the real chain

The Level A theorems of `C12.lean` are about `iterCalls` on the list of entries. These theorems say
that the Level B iterators — two raw cursors following `prev`/`next` links, a null test, an equality
test between the cursors — yield exactly that sequence for *any* interleaving of `next` and
`next_back`, on any well-formed structure, without ever dereferencing a node that is dead or was
already moved out (`ub = false`), so "each entry exactly once, in order, then `None` forever"
(`C12_exactly_once`, `C12_fused`) holds of what the pointer code yields.
-/
namespace LruMem

/-- `iter` / `keys` / `values`: the cache (every field, including every link) is unchanged and the
yielded nodes carry the Level A sequence. -/
theorem C12_ptr_borrowing {p : Params} {c : CacheB} {l : List Nat} (h : RefInv p c l) (kind : IterKind)
    (hk : kind.borrowing = true) (calls : List Bool) (forget : Bool) :
    (c.iterScenario kind calls forget).1 = c ∧
    (c.iterScenario kind calls forget).2.map (Option.map c.ent) = (iterCalls c.abs.entries calls).1 :=
  iter_borrowing h kind hk calls forget

/-- `drain`: yields the Level A sequence; afterwards — dropped *or leaked* — the cache is the
well-formed empty cache with `current_size = 0`. -/
theorem C12_ptr_drain {p : Params} {c : CacheB} {l : List Nat} (h : RefInv p c l) (calls : List Bool) (forget : Bool) :
    (c.iterScenario .drain calls forget).2.map (Option.map c.ent) = (iterCalls c.abs.entries calls).1 ∧
    Rep (c.iterScenario .drain calls forget).1 [] ∧
    (c.iterScenario .drain calls forget).1.abs.entries = [] ∧ (c.iterScenario .drain calls forget).1.abs.cur = 0 := by
  obtain ⟨r, habs, hy, _⟩ := iter_drain h calls forget
  exact ⟨hy, r, by rw [habs], by rw [habs]⟩

/-- `into_iter` / `into_keys` / `into_values`: yields the Level A sequence, and with the iterator
dropped every node has been moved out exactly once (none is left holding its entry, and the
`ub` flag that a second move-out would set is clear). -/
theorem C12_ptr_into {p : Params} {c : CacheB} {l : List Nat} (h : RefInv p c l) (kind : IterKind)
    (hk : kind.borrowing = false) (hd : kind ≠ .drain) (calls : List Bool) :
    (c.iterScenario kind calls false).2.map (Option.map c.ent) = (iterCalls c.abs.entries calls).1 ∧
    (c.iterScenario kind calls false).1.ub = false ∧
    (∀ a, (c.iterScenario kind calls false).1.has a = false) := by
  obtain ⟨hub, hy, _, hall⟩ := iter_into h kind hk hd calls false
  exact ⟨hy, hub, hall rfl⟩

/-! non-vacuity: a concrete structure, `next, next_back, next_back, next` on three entries -/
private def p0 : Params := ⟨64, 16, 18446744073709551615⟩
private def cb : CacheB :=
  (((CacheB.new 1000 0).insert p0 ⟨1, 0, 1⟩ ⟨0, 2⟩ {}).insert p0 ⟨2, 0, 3⟩ ⟨0, 4⟩ {}).insert p0 ⟨3, 0, 5⟩ ⟨0, 6⟩ {}
example : (cb.iterScenario .iter [true, false, false, true] false).2.map (Option.map fun a => (cb.ent a).key.id) =
    [some 1, some 3, some 2, none] := by decide
example : (cb.iterScenario .intoIter [true, false] false).1.ub = false := by decide

end LruMem
