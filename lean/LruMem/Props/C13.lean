import LruMem.Proofs.Spec
/-!
# C13 — capacity management is transparent, meets its bounds, and growth is bounded

`capacity() = items + growth_left`; `fullCap = bucketsToCap buckets` is what the allocated table
can hold (the two differ by the number of tombstones).
-/
namespace LruMem

def fullCap (c : Cache) : Nat := bucketsToCap c.shape.buckets

theorem capacity_le_fullCap {p : Params} {c : Cache} (h : InvA p c) : c.shape.capacity ≤ fullCap c := h.room

/-- `reserve(a)` that returns, and `try_reserve(a) = Ok`, leave `capacity ≥ len + a`. -/
theorem C13_reserve {p : Params} {c : Cache} (a : Nat) (o : Oracle) (h : InvA p c) :
    ((reserve p c a o).status = .ok → (reserve p c a o).cache.shape.capacity ≥ c.entries.length + a) ∧
    ((tryReserve p c a o).out = .reserveOk → (tryReserve p c a o).cache.shape.capacity ≥ c.entries.length + a) := by
  have hfc := le_freshCap (c.shape.items + a)
  have hcap : (c.shape.rebuilt (c.shape.items + a)).capacity = freshCap (c.shape.items + a) :=
    Shape.rebuilt_capacity _ (by omega)
  have hi := h.items
  constructor
  · simp only [reserve]
    split
    · intro hh; cases hh
    · split
      · split
        · intro _; show (c.shape.rebuilt (c.shape.items + a)).capacity ≥ _; omega
        · intro hh; cases hh
      · intro _; show c.shape.capacity ≥ _; omega
  · simp only [tryReserve]
    split
    · intro hh; cases hh
    · split
      · split
        · intro hh; cases hh
        · split
          · intro hh; cases hh
          · intro _; show (c.shape.rebuilt (c.shape.items + a)).capacity ≥ _; omega
      · intro _; show c.shape.capacity ≥ _; omega

/-- `shrink_to(m)` / `shrink_to_fit` never raise the capacity and leave it `≥ max(len, m)` unless
they leave it unchanged. (After the `fix:` commit; the pre-fix code violated the first conjunct
when tombstones were present — finding F5.) -/
theorem C13_shrink {p : Params} {c : Cache} (m : Nat) (o : Oracle) (h : InvA p c) :
    (shrinkTo p c m o).cache.shape.capacity ≤ c.shape.capacity ∧
    ((shrinkTo p c m o).cache.shape.capacity ≥ Nat.max c.entries.length m ∨
     (shrinkTo p c m o).cache.shape.capacity = c.shape.capacity) := by
  have hi := h.items
  have hfc := le_freshCap (Nat.max c.shape.items m)
  have hle : c.shape.items ≤ Nat.max c.shape.items m := Nat.le_max_left _ _
  have hcap : (c.shape.rebuilt (Nat.max c.shape.items m)).capacity = freshCap (Nat.max c.shape.items m) :=
    Shape.rebuilt_capacity _ (by omega)
  simp only [shrinkTo]
  split
  · split
    · split
      · rename_i hmove
        refine ⟨?_, Or.inl ?_⟩
        · show (c.shape.rebuilt _).capacity ≤ _; rw [hcap]; exact hmove.2
        · show (c.shape.rebuilt _).capacity ≥ _; rw [hcap, ← hi]; exact hfc
      · exact ⟨Nat.le_refl _, Or.inr rfl⟩
    · exact ⟨Nat.le_refl _, Or.inr rfl⟩
  · exact ⟨Nat.le_refl _, Or.inr rfl⟩

/-- A failing `try_reserve` (overflow or allocator refusal) leaves the cache exactly as it was; a
`reserve` that panics (its `unwrap`) does so before anything is touched. -/
theorem C13_fail_atomic (p : Params) (c : Cache) (a : Nat) (o : Oracle) :
    ((tryReserve p c a o).out ≠ .reserveOk → (tryReserve p c a o).cache = c) ∧
    ((reserve p c a o).status = .implPanic → (reserve p c a o).cache = c) := by
  constructor
  · simp only [tryReserve]
    split
    · intro _; rfl
    · split
      · split
        · intro _; rfl
        · split
          · intro _; rfl
          · intro hh; exact absurd rfl hh
      · intro hh; exact absurd rfl hh
  · simp only [reserve]
    split
    · intro _; rfl
    · split
      · split
        · intro hh; cases hh
        · intro _; rfl
      · intro _; rfl

/-- `try_reserve` fails exactly on arithmetic/layout overflow or allocator refusal of a needed
reallocation. -/
theorem C13_tryReserve_classify (p : Params) (c : Cache) (a : Nat) (o : Oracle) :
    (tryReserve p c a o).out =
      if c.shape.items + a > p.usizeMax then .reserveOverflow
      else if c.shape.capacity < c.shape.items + a then
        (if !tableOk p (c.shape.items + a) then .reserveOverflow
         else if !o.allocOk then .reserveAlloc else .reserveOk)
      else .reserveOk := by
  simp only [tryReserve]
  split
  · rfl
  · split
    · split
      · rfl
      · split <;> rfl
    · rfl

/-- None of the capacity operations changes contents, order, sizes or the limit. -/
theorem C13_transparent (p : Params) (c : Cache) (a : Nat) (o : Oracle) :
    ((reserve p c a o).cache.entries = c.entries ∧ (reserve p c a o).cache.cur = c.cur ∧ (reserve p c a o).cache.max = c.max) ∧
    ((tryReserve p c a o).cache.entries = c.entries ∧ (tryReserve p c a o).cache.cur = c.cur ∧ (tryReserve p c a o).cache.max = c.max) ∧
    ((shrinkTo p c a o).cache.entries = c.entries ∧ (shrinkTo p c a o).cache.cur = c.cur ∧ (shrinkTo p c a o).cache.max = c.max) ∧
    ((shrinkToFit p c o).cache.entries = c.entries ∧ (shrinkToFit p c o).cache.cur = c.cur ∧ (shrinkToFit p c o).cache.max = c.max) := by
  refine ⟨?_, ?_, ?_, ?_⟩
  · simp only [reserve]; split <;> (try split) <;> (try split) <;> exact ⟨rfl, rfl, rfl⟩
  · simp only [tryReserve]; split <;> (try split) <;> (try split) <;> (try split) <;> exact ⟨rfl, rfl, rfl⟩
  · simp only [shrinkTo]; split <;> (try split) <;> (try split) <;> exact ⟨rfl, rfl, rfl⟩
  · simp only [shrinkToFit, shrinkTo]; split <;> (try split) <;> (try split) <;> exact ⟨rfl, rfl, rfl⟩

/-- They drop nothing either. -/
theorem C13_no_drops (p : Params) (c : Cache) (a : Nat) (o : Oracle) :
    droppedToks (reserve p c a o).evs = [] ∧ droppedToks (tryReserve p c a o).evs = [] ∧
    droppedToks (shrinkTo p c a o).evs = [] := by
  have hr : ∀ l : List Entry, droppedToks (rehashEvs l) = [] := by
    intro l; induction l with
    | nil => rfl
    | cons e l ih => simpa [rehashEvs, droppedToks] using ih
  refine ⟨?_, ?_, ?_⟩
  · simp only [reserve]; split <;> (try split) <;> (try split) <;> simp [rebuild, hr, droppedToks]
  · simp only [tryReserve]; split <;> (try split) <;> (try split) <;> (try split) <;> simp [rebuild, hr, droppedToks]
  · simp only [shrinkTo]; split <;> (try split) <;> (try split) <;> simp [rebuild, hr, droppedToks]

/-- `insert_unchecked` rebuilds the table only when no growth is left (and no tombstone is reused),
and then to the smallest table for twice the current entries; otherwise the buckets are untouched. -/
theorem C13_growth_step (c : Cache) (e : Entry) (o : Oracle) :
    ((insertUnchecked c e o).cache.shape.buckets = c.shape.buckets ∧ (insertUnchecked c e o).rebuilt = none) ∨
    (c.shape.growthLeft = 0 ∧ (insertUnchecked c e o).rebuilt = some c.entries.length ∧
     (insertUnchecked c e o).cache.shape.buckets = bucketsFor (Nat.max (2 * c.shape.items) 1)) := by
  simp only [insertUnchecked]
  split
  · exact Or.inl ⟨rfl, rfl⟩
  · rename_i hc
    have hgl : c.shape.growthLeft = 0 := by
      simp only [Shape.canInsert, Bool.or_eq_true, decide_eq_true_eq, not_or] at hc
      omega
    have hcap : c.shape.capacity = c.shape.items := by simp [Shape.capacity, hgl]
    split
    · exact Or.inr ⟨hgl, rfl, by simp [Shape.inserted, Shape.rebuilt, hcap]⟩
    · exact Or.inr ⟨hgl, rfl, by simp [Shape.rebuilt, hcap]⟩

/-- A cache created `with_capacity(n)` (or any table without tombstones) takes fresh insertions up
to its capacity without rebuilding: buckets and capacity stay the same. -/
theorem C13_with_capacity {p : Params} {c : Cache} (k : Key) (v : Val) (o : Oracle) (h : InvA p c)
    (hnt : c.shape.items + c.shape.growthLeft = bucketsToCap c.shape.buckets)
    (hroom : c.entries.length < c.shape.capacity)
    (hfit : entrySize p k v ≤ c.max - c.cur) (hfree : lookup c.entries k.id = none) :
    (insert p c k v o).cache.shape.buckets = c.shape.buckets ∧
    (insert p c k v o).cache.shape.capacity = c.shape.capacity ∧
    (insert p c k v o).cache.shape.items + (insert p c k v o).cache.shape.growthLeft =
      bucketsToCap (insert p c k v o).cache.shape.buckets ∧
    (insert p c k v o).cache.entries.length = c.entries.length + 1 ∧
    (insert p c k v o).rebuilt = none := by
  have hb := h.bound
  have hi := h.items
  have hs : ¬ entrySize p k v > c.max := by omega
  have hrm : removeId c.entries k.id = c.entries := removeId_of_not_mem (lookup_none_iff.mp hfree)
  have hej := eject_nothing (l := c.entries) (cur := c.cur) (target := c.max - entrySize p k v) (by omega)
  have hgl : 0 < c.shape.growthLeft := by simp only [Shape.capacity] at hroom; omega
  have hsh : c.shape.remove (0 + 0) o.tombs = c.shape := by
    simp [Shape.remove]
  have hcan : c.shape.canInsert o.reuse = true := by simp [Shape.canInsert, hgl]
  have hnoreuse : c.shape.reuses o.reuse = false := by
    have : c.shape.tombstones = 0 := by simp only [Shape.tombstones]; omega
    simp [Shape.reuses, this]
  simp only [insert, hs, if_false, hfree, oldSize, oldCount, hrm, Nat.sub_zero, hej, List.length_nil,
    Bool.false_eq_true, hsh, insertUnchecked, hcan, if_true]
  refine ⟨?_, ?_, ?_, ?_, ?_⟩
  · trivial
  · simp only [Shape.capacity, Shape.inserted, hnoreuse]; simp; omega
  · simp only [Shape.inserted, hnoreuse]; simp; omega
  · simp
  · trivial

/-- Iterating the previous theorem: `j` fresh, fitting insertions into a tombstone-free table with
`len + j ≤ capacity` leave buckets and capacity unchanged — in particular `with_capacity(n)` followed
by `n` insertions (`n ≤ freshCap n`). -/
theorem C13_with_capacity_n {p : Params} (kvs : List (Key × Val)) (os : List Oracle) :
    ∀ (c : Cache), InvA p c → c.shape.items + c.shape.growthLeft = bucketsToCap c.shape.buckets →
    c.entries.length + kvs.length ≤ c.shape.capacity → os.length = kvs.length →
    (∀ (c' : Cache) (kv : Key × Val), kv ∈ kvs → c'.max = c.max → entrySize p kv.1 kv.2 ≤ c'.max - c'.cur) →
    ((kvs.map (·.1.id)) ++ ids c.entries).Nodup →
    let c' := (kvs.zip os).foldl (fun c x => (insert p c x.1.1 x.1.2 x.2).cache) c
    c'.shape.buckets = c.shape.buckets ∧ c'.shape.capacity = c.shape.capacity := by
  induction kvs generalizing os with
  | nil => intro c _ _ _ _ _ _; exact ⟨rfl, rfl⟩
  | cons kv kvs ih =>
    intro c h hnt hroom hlen hfit hnd
    cases os with
    | nil => simp at hlen
    | cons o os =>
      have hfree : lookup c.entries kv.1.id = none := by
        rw [lookup_none_iff]
        simp only [List.map_cons, List.cons_append, List.nodup_cons, List.mem_append, not_or] at hnd
        exact hnd.1.2
      have hstep := C13_with_capacity kv.1 kv.2 o h hnt (by simp at hroom; omega)
        (hfit c kv (by simp) rfl) hfree
      have hinv := (insert_inv kv.1 kv.2 o h).1
      have hmax : (insert p c kv.1 kv.2 o).cache.max = c.max :=
        (insert_spec kv.1 kv.2 o h (by have := hfit c kv (by simp) rfl; have := h.bound; omega)).2.2.1
      have hent : (insert p c kv.1 kv.2 o).cache.entries = c.entries ++ [⟨kv.1, kv.2, entrySize p kv.1 kv.2⟩] :=
        (C10_like_fit kv.1 kv.2 o h (hfit c kv (by simp) rfl) hfree)
      simp only [List.zip_cons_cons, List.foldl_cons]
      have := ih os (insert p c kv.1 kv.2 o).cache hinv hstep.2.2.1
        (by rw [hstep.2.2.2.1, hstep.2.1]; simp at hroom; omega) (by simpa using hlen)
        (fun c' kv' hkv hm => hfit c' kv' (by simp [hkv]) (by rw [hm, hmax]))
        (by
          rw [hent]
          simp only [List.map_cons, List.cons_append, List.nodup_cons, List.mem_append, not_or] at hnd
          simp only [ids_append, ids_cons, ids_nil]
          have h2 := hnd.2
          rw [List.nodup_append] at h2 ⊢
          refine ⟨h2.1, ?_, ?_⟩
          · rw [List.nodup_append]
            refine ⟨h2.2.1, by simp, ?_⟩
            intro a ha b hb; simp at hb; rintro rfl; exact hnd.1.2 (hb ▸ ha)
          · intro a ha b hb
            simp only [List.mem_append, List.mem_singleton] at hb
            rcases hb with hb | hb
            · exact h2.2.2 a ha b hb
            · rintro rfl; exact hnd.1.1 (hb ▸ ha))
      rw [this.1, this.2, hstep.1, hstep.2.1]
      exact ⟨rfl, rfl⟩

/-! ### bounded growth along any history -/

/-- Capacity requests an operation makes explicitly. -/
def explicitReq (c : Cache) : Op → List Nat
  | .reserve a => [c.shape.items + a]
  | .tryReserve a => [c.shape.items + a]
  | .shrinkTo m => [Nat.max c.shape.items m]
  | .shrinkToFit => [Nat.max c.shape.items 0]
  | _ => []

theorem max_mono_left {a b : Nat} (h : a ≤ b) (k : Nat) : Nat.max (4 * a) k ≤ Nat.max (4 * b) k := by
  simp only [Nat.max_def]; split <;> split <;> omega

/-- One step: the allocated table either stays, or becomes the table of an explicit request, or is
the result of an automatic growth — which is below `max(4·len, 16)` for the new length. -/
theorem C13_step_fullCap {p : Params} {c : Cache} (op : Op) (o : Oracle) (h : InvA p c) :
    fullCap (step p c op o).cache = fullCap c ∨
    (∃ r ∈ explicitReq c op, fullCap (step p c op o).cache = freshCap r) ∨
    fullCap (step p c op o).cache < Nat.max (4 * (step p c op o).cache.entries.length) 16 := by
  have grow : ∀ (c2 : Cache) (e : Entry), InvA p c2 → c2.shape.buckets = c.shape.buckets →
      fullCap (insertUnchecked c2 e o).cache = fullCap c ∨
      fullCap (insertUnchecked c2 e o).cache < Nat.max (4 * (c2.entries.length + 1)) 16 := by
    intro c2 e h2 hb
    rcases C13_growth_step c2 e o with ⟨g1, _⟩ | ⟨_, _, g3⟩
    · left; simp only [fullCap, g1, hb]
    · right
      simp only [fullCap, g3]
      have := freshCap_double_lt c2.shape.items
      have hm := max_mono_left (Nat.le_succ c2.shape.items) 16
      rw [← h2.items]
      exact Nat.lt_of_lt_of_le this hm
  cases op with
  | insert k v =>
    simp only [step, insert]
    split
    · exact Or.inl rfl
    · rename_i hs
      obtain ⟨hi, hd, hle, hnot⟩ := after_remove_eject h k.id (c.max - entrySize p k v) o.tombs (Nat.sub_le _ _)
      simp only [hd, Bool.false_eq_true, if_false]
      have hu := insertUnchecked_inv (p := p) ⟨k, v, entrySize p k v⟩ o hi hnot rfl (by simp only; omega)
      rcases grow _ ⟨k, v, entrySize p k v⟩ hi rfl with g | g
      · exact Or.inl g
      · right; right
        rw [hu.2.2.1]
        simpa using g
  | tryInsert k v =>
    simp only [step, tryInsert]
    split
    · exact Or.inl rfl
    · split
      · exact Or.inl rfl
      · split
        · exact Or.inl rfl
        · rename_i h1 h2 h3
          have hnot : k.id ∉ ids c.entries := by rw [← lookup_isSome_iff]; exact h3
          have hb := h.bound
          have hu := insertUnchecked_inv (p := p) ⟨k, v, entrySize p k v⟩ o h hnot rfl (by simp only; omega)
          rcases grow c ⟨k, v, entrySize p k v⟩ h rfl with g | g
          · exact Or.inl g
          · right; right
            rw [hu.2.2.1]
            simpa using g
  | reserve a =>
    simp only [step, reserve]
    split
    · exact Or.inl rfl
    · split
      · split
        · exact Or.inr (Or.inl ⟨_, by simp [explicitReq], rfl⟩)
        · exact Or.inl rfl
      · exact Or.inl rfl
  | tryReserve a =>
    simp only [step, tryReserve]
    split
    · exact Or.inl rfl
    · split
      · split
        · exact Or.inl rfl
        · split
          · exact Or.inl rfl
          · exact Or.inr (Or.inl ⟨_, by simp [explicitReq], rfl⟩)
      · exact Or.inl rfl
  | shrinkTo m =>
    simp only [step, shrinkTo]
    split
    · split
      · split
        · exact Or.inr (Or.inl ⟨_, by simp [explicitReq], rfl⟩)
        · exact Or.inl rfl
      · exact Or.inl rfl
    · exact Or.inl rfl
  | shrinkToFit =>
    simp only [step, shrinkToFit, shrinkTo]
    split
    · split
      · split
        · exact Or.inr (Or.inl ⟨_, by simp [explicitReq], rfl⟩)
        · exact Or.inl rfl
      · exact Or.inl rfl
    · exact Or.inl rfl
  | mutate id f =>
    left
    simp only [step, mutate]
    split
    · rfl
    · split
      · split <;> rfl
      · rfl
  | get id => left; simp only [step, get, getEntry]; split <;> rfl
  | getEntry id => left; simp only [step, getEntry]; split <;> rfl
  | touch id => left; simp only [step, touch, getEntry]; split <;> rfl
  | peek id => exact Or.inl rfl
  | peekEntry id => exact Or.inl rfl
  | contains id => exact Or.inl rfl
  | remove id => left; simp only [step, remove, removeEntry]; split <;> (try split) <;> rfl
  | removeEntry id => left; simp only [step, removeEntry]; split <;> rfl
  | removeLru => left; simp only [step, removeLru, removeEntry]; split <;> (try split) <;> rfl
  | removeMru => left; simp only [step, removeMru, removeEntry]; split <;> (try split) <;> rfl
  | getLru => left; simp only [step, getLru]; split <;> rfl
  | peekLru => exact Or.inl rfl
  | peekMru => exact Or.inl rfl
  | setMaxSize m => exact Or.inl rfl
  | retain pr => exact Or.inl rfl
  | clear => exact Or.inl rfl
  | iterate kind calls forget =>
    left
    simp only [step, iterScenario]
    split
    · rfl
    · cases kind <;> rfl
  | debugFmt => exact Or.inl rfl
  | cloneProbe base => exact Or.inl rfl

/-- Histories annotated with the peak length so far and the explicit capacity requests so far
(`with_capacity`, `reserve`/`try_reserve` targets, `shrink_to` targets, a clone's source capacity). -/
inductive ReachCap (p : Params) : Cache → Nat → List Nat → Prop
  | new (max n : Nat) : ReachCap p (Cache.withCapacity max n) 0 [n]
  | step {c : Cache} {peak : Nat} {reqs : List Nat} (op : Op) (o : Oracle) : ReachCap p c peak reqs →
      ReachCap p (step p c op o).cache (Nat.max peak (step p c op o).cache.entries.length) (explicitReq c op ++ reqs)
  | clone {c : Cache} {peak : Nat} {reqs : List Nat} (base : Nat) : ReachCap p c peak reqs →
      ReachCap p (clone c base).1 c.entries.length [c.shape.capacity]

theorem ReachCap.reachable {p : Params} {c : Cache} {peak : Nat} {reqs : List Nat} (h : ReachCap p c peak reqs) :
    Reachable p c := by
  induction h with
  | new max n => exact .new max n
  | step op o _ ih => exact .step op o ih
  | clone base _ ih => exact .clone base ih

/-- However long the cache churns — whatever the tombstone oracle does — the table it holds is below
`max(4 × peak len, 16)` or is exactly the table of some explicit request; `capacity()` is at most
that. -/
theorem C13_growth {p : Params} {c : Cache} {peak : Nat} {reqs : List Nat} (h : ReachCap p c peak reqs) :
    c.entries.length ≤ peak ∧
    (fullCap c < Nat.max (4 * peak) 16 ∨ ∃ r ∈ reqs, fullCap c = freshCap r) ∧
    c.shape.capacity ≤ fullCap c := by
  induction h with
  | new max n =>
    refine ⟨Nat.le_refl _, Or.inr ⟨n, by simp, rfl⟩, ?_⟩
    exact capacity_le_fullCap (new_inv p max n)
  | @step c peak reqs op o hr ih =>
    have hinv := reachable_inv hr.reachable
    refine ⟨Nat.le_max_right _ _, ?_, capacity_le_fullCap (step_inv op o hinv)⟩
    have hpk : peak ≤ Nat.max peak (step p c op o).cache.entries.length := Nat.le_max_left _ _
    have hln : (step p c op o).cache.entries.length ≤ Nat.max peak (step p c op o).cache.entries.length := Nat.le_max_right _ _
    rcases C13_step_fullCap op o hinv with g | ⟨r, hr1, hr2⟩ | g
    · rw [g]
      rcases ih.2.1 with i | ⟨r, hr1, hr2⟩
      · exact Or.inl (Nat.lt_of_lt_of_le i (max_mono_left hpk 16))
      · exact Or.inr ⟨r, by simp [hr1], hr2⟩
    · exact Or.inr ⟨r, by simp [hr1], hr2⟩
    · exact Or.inl (Nat.lt_of_lt_of_le g (max_mono_left hln 16))
  | @clone c peak reqs base hr ih =>
    have hinv := reachable_inv hr.reachable
    refine ⟨by simp [LruMem.clone, length_cloneEntries], Or.inr ⟨c.shape.capacity, by simp, rfl⟩, ?_⟩
    exact capacity_le_fullCap (clone_inv base hinv).1

/-! ### non-vacuity: a 32-bucket table with a tombstone, where the pre-fix `shrink_to` raised the capacity -/
private def p0 : Params := ⟨64, 16, 18446744073709551615⟩
private def tomb : Cache :=
  { entries := (List.range 26).map fun i => ⟨⟨i, 0, 2 * i + 1⟩, ⟨0, 2 * i + 2⟩, 64⟩, cur := 26 * 64, max := 100000,
    shape := { buckets := 32, items := 26, growthLeft := 1 } }
example : tomb.shape.capacity = 27 ∧ tomb.shape.tombstones = 1 := by decide
example : (shrinkTo p0 tomb 3 {}).cache.shape.capacity = 27 := by decide
-- the legacy code moved into a fresh table for max(len, 3) = 26 elements, whose capacity is 28
example : freshCap 26 = 28 := by decide

end LruMem
