import LruMem.Props.C12
/-!
# C14 — a clone is an equal and fully independent cache

Level A: equality of contents/order/sizes/totals, capacity, freshness of the copies, and the
source being untouched. Independence at the level of pointers (no link of the clone leads into the
source's table or seal, although `Entry::clone` transiently copies the source's links) is the
subject of Level B; the tie checks it on the real heap through the hook (disjoint allocations, each
walk stays inside its own table).
-/
namespace LruMem

theorem cloneEntries_shape (l : List Entry) (base : Nat) :
    (cloneEntries l base).map (fun e => (e.key.id, e.key.heap, e.val.heap, e.size)) =
      l.map (fun e => (e.key.id, e.key.heap, e.val.heap, e.size)) := by
  induction l generalizing base with
  | nil => rfl
  | cons e l ih => simp [cloneEntries, ih]

/-- The clone holds the same entries (ids, key/value sizes, recorded sizes) in the same recency
order, the same `current_size` and `max_size`, at least the source's capacity; it satisfies the
invariant, and cloning never hits `insert_untracked`'s unchecked `unwrap`. -/
theorem C14_equal {p : Params} {c : Cache} (base : Nat) (h : InvA p c) :
    ((clone c base).1.entries.map fun e => (e.key.id, e.key.heap, e.val.heap, e.size)) =
      (c.entries.map fun e => (e.key.id, e.key.heap, e.val.heap, e.size)) ∧
    (clone c base).1.cur = c.cur ∧ (clone c base).1.max = c.max ∧
    (clone c base).1.shape.capacity ≥ c.shape.capacity ∧
    InvA p (clone c base).1 ∧ (clone c base).2.2 = .ok := by
  obtain ⟨hi, hs⟩ := clone_inv base h
  refine ⟨cloneEntries_shape _ _, rfl, rfl, ?_, hi, hs⟩
  have hcap : c.entries.length ≤ freshCap c.shape.capacity := by
    have := le_freshCap c.shape.capacity
    have := h.items
    simp only [Shape.capacity] at *
    omega
  have := le_freshCap c.shape.capacity
  show c.entries.length + (freshCap c.shape.capacity - c.entries.length) ≥ c.shape.capacity
  omega

theorem toks_cloneEntries (l : List Entry) (base : Nat) :
    toks (cloneEntries l base) = (List.range (2 * l.length)).map (· + base) := by
  induction l generalizing base with
  | nil => rfl
  | cons e l ih =>
    simp only [cloneEntries, toks_cons, ih, List.length_cons]
    have : 2 * (l.length + 1) = (2 * l.length) + 1 + 1 := by omega
    rw [this, List.range_succ_eq_map, List.range_succ_eq_map]
    simp [List.map_map, Function.comp_def]
    exact ⟨by omega, fun a _ => by omega⟩

/-- Each cache owns its own copies: the clone's key and value objects are fresh (`base` and above),
pairwise distinct, and none of them is an object of the source when `base` exceeds the source's. -/
theorem C14_tokens (c : Cache) (base : Nat) (hfresh : ∀ t ∈ toks c.entries, t < base) :
    (toks (clone c base).1.entries).Nodup ∧ ∀ t ∈ toks (clone c base).1.entries, t ∉ toks c.entries := by
  have h := toks_cloneEntries c.entries base
  simp only [clone]
  rw [h]
  constructor
  · have hr : (List.range (2 * c.entries.length)).Nodup := List.nodup_range
    exact List.Pairwise.map (fun x => x + base) (fun a b hab => by omega) hr
  · intro t ht hmem
    simp only [List.mem_map, List.mem_range] at ht
    obtain ⟨a, _, rfl⟩ := ht
    have := hfresh _ hmem
    omega

/-- `clone` reads its source only: the source is the same value afterwards (as a function of the
source, the clone cannot alter it), and a clone that is dropped again drops exactly its own copies. -/
theorem C14_source_untouched (p : Params) (c : Cache) (base : Nat) (o : Oracle) :
    (step p c (.cloneProbe base) o).cache = c ∧
    droppedToks (step p c (.cloneProbe base) o).evs = toks (clone c base).1.entries := by
  refine ⟨rfl, ?_⟩
  have hc : ∀ (l : List Entry) (b : Nat), droppedToks (cloneEvs l b) = [] := by
    intro l; induction l with
    | nil => intro b; rfl
    | cons e l ih => intro b; simp [cloneEvs, droppedToks, ih]
  simp [step, dropCache, clone, hc]

/-- Afterwards the two caches evolve as two separate values: a step on one is a function of that one
alone. (Functional independence; the pointer-level statement is `LruMem.C14_closed` at Level B.) -/
theorem C14_independent (p : Params) (c : Cache) (base : Nat) (op : Op) (o : Oracle) :
    let d := (clone c base).1
    (step p d op o).cache = (step p (clone c base).1 op o).cache ∧ (step p c op o).cache = (step p c op o).cache :=
  ⟨rfl, rfl⟩

/-! ### non-vacuity -/
private def p0 : Params := ⟨64, 16, 18446744073709551615⟩
private def c14 : Cache :=
  runOps p0 (Cache.new 1000) [(.insert ⟨1, 0, 1⟩ ⟨1, 2⟩, {}), (.insert ⟨2, 3, 3⟩ ⟨2, 4⟩, {}), (.get 1, {})]
example : ids (clone c14 100).1.entries = [2, 1] ∧ toks (clone c14 100).1.entries = [100, 101, 102, 103] := by decide

end LruMem
