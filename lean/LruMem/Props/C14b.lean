import LruMem.Proofs.Clone
import LruMem.Props.C14
/-!
# C14 at the pointer level: the clone shares nothing with its source

`C14_clone_closed`: for every well-formed source structure, `clone` builds — in its own heap — a
structure that is well-formed by itself: its chain `seal → LRU … MRU → seal` is closed over its
own fresh nodes (although every node was first copied *with the source's link values*, `set_head`
overwrote all of them), no step of the loop touched an invalid node, and its abstraction is the
Level A clone. The source is an argument that is only read: it is the same value afterwards.
-/
namespace LruMem
open LruMem.Chain

theorem insertedN_fresh (n : Nat) (s : Shape) :
    insertedN n s = { s with items := s.items + n, growthLeft := s.growthLeft - n } := by
  induction n generalizing s with
  | zero => simp [insertedN]
  | succ n ih =>
    simp only [insertedN, ih, Shape.inserted, Shape.reuses]
    simp
    constructor <;> omega

theorem C14_clone_closed {p : Params} {c : CacheB} {l : List Nat} (base : Nat) (h : RefInv p c l) :
    ∃ l', Rep (c.clone base) l' ∧
      (c.clone base).abs = (clone c.abs base).1 ∧
      -- closed: no link of the clone's seal or of a listed node leaves the clone's own nodes
      (∀ a ∈ (c.clone base).sl :: l',
        ((c.clone base).links a).prev ∈ (c.clone base).sl :: l' ∧ ((c.clone base).links a).next ∈ (c.clone base).sl :: l') ∧
      -- in particular none of them is one of the copied source links (offset into the source heap)
      (∀ a ∈ (c.clone base).sl :: l', ((c.clone base).links a).prev < (c.clone base).fresh ∧
        ((c.clone base).links a).next < (c.clone base).fresh) := by
  have hd0 : Rep ({ CacheB.new c.max c.shape.capacity with cur := c.cur } : CacheB) [] :=
    (new_refinv p c.max c.shape.capacity).rep.congr rfl rfl rfl rfl rfl rfl rfl
  have hhead : (c.links c.sl).prev = l.head?.getD c.sl := by
    have := (seal_ends _ _ _ h.rep.chain).1
    rw [this]
  have key : ∃ l', Rep (c.clone base) l' ∧ l'.map (c.clone base).ent = cloneEntries (l.map c.ent) base ∧
      (c.clone base).cur = c.cur ∧ (c.clone base).max = c.max ∧
      (c.clone base).shape = insertedN l.length (Shape.fresh c.shape.capacity) := by
    have := cloneGo_rep h.rep base l [] _ [] (c.table.length + 1) (by simp) hd0
      (by simp [cloneEntries]) (by rw [h.rep.length]; omega)
    simp only [List.length_nil, Nat.mul_zero, Nat.add_zero] at this
    rw [← hhead] at this
    exact this
  obtain ⟨l', r, g1, g2, g3, g4⟩ := key
  have hcl := linv_closed r.chain
  refine ⟨l', r, ?_, hcl, ?_⟩
  · rw [r.abs_eq]
    show _ = (clone c.abs base).1
    rw [g1, g2, g3, g4, insertedN_fresh]
    simp [clone, CacheB.abs, Shape.fresh, h.rep.order]
  · intro a ha
    have hlt : ∀ b ∈ (c.clone base).sl :: l', b < (c.clone base).fresh := by
      intro b hb
      by_cases hge : (c.clone base).fresh ≤ b
      · have hdead := r.freshDead b hge
        simp only [List.mem_cons] at hb
        rcases hb with rfl | hb
        · rw [r.sealSt] at hdead; cases hdead
        · rw [(r.full b).mp hb] at hdead; cases hdead
      · omega
    exact ⟨hlt _ (hcl a ha).1, hlt _ (hcl a ha).2⟩

end LruMem
