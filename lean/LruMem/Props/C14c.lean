import LruMem.Model.CloneFrom
import LruMem.Props.C14
/-!
# C14 / C16 — `clone_from`

`d.clone_from(&c)` (std's default, `*d = c.clone()`; `Model/CloneFrom.lean`): the destination becomes
the clone — whatever it held before —, every object of the old destination is dropped exactly once
and none of the source's; and a panic of `Clone` / `Hash` while the clone is being built leaves the
destination the very value it was (only objects created by this call are dropped).
-/
namespace LruMem

theorem dropped_cloneEvs (l : List Entry) (b : Nat) : droppedToks (cloneEvs l b) = [] := by
  induction l generalizing b with
  | nil => rfl
  | cons e l ih => simp [cloneEvs, droppedToks, ih]

/-- The destination after `clone_from` is the clone of the source, independently of what the
destination was: equal contents, order, sizes, totals, limit; capacity at least the source's; the
invariant holds; the unchecked `unwrap` is never hit. -/
theorem C14_clone_from_equal {p : Params} {c : Cache} (d : Cache) (base : Nat) (h : InvA p c) :
    (cloneFrom d c base).1 = (clone c base).1 ∧
    ((cloneFrom d c base).1.entries.map fun e => (e.key.id, e.key.heap, e.val.heap, e.size)) =
      (c.entries.map fun e => (e.key.id, e.key.heap, e.val.heap, e.size)) ∧
    (cloneFrom d c base).1.cur = c.cur ∧ (cloneFrom d c base).1.max = c.max ∧
    (cloneFrom d c base).1.shape.capacity ≥ c.shape.capacity ∧
    InvA p (cloneFrom d c base).1 ∧ (cloneFrom d c base).2.2 = .ok := by
  have := C14_equal base h
  exact ⟨rfl, this⟩

/-- Exactly the objects of the old destination are dropped, each once (in the destination's drop
order); no object of the source and none of the new copies. -/
theorem C14_clone_from_drops_old (d c : Cache) (base : Nat) :
    droppedToks (cloneFrom d c base).2.1 = toks d.entries := by
  simp [cloneFrom, clone, dropped_cloneEvs, C06_drop]

/-- The new contents are fresh objects: pairwise distinct, none of the source's, none of the old
destination's. -/
theorem C14_clone_from_fresh (d c : Cache) (base : Nat)
    (hc : ∀ t ∈ toks c.entries, t < base) (hd : ∀ t ∈ toks d.entries, t < base) :
    (toks (cloneFrom d c base).1.entries).Nodup ∧
    ∀ t ∈ toks (cloneFrom d c base).1.entries, t ∉ toks c.entries ∧ t ∉ toks d.entries := by
  obtain ⟨h1, h2⟩ := C14_tokens c base hc
  refine ⟨h1, fun t ht => ⟨h2 t ht, ?_⟩⟩
  intro hmem
  have hlt := hd t hmem
  have hr := toks_cloneEntries c.entries base
  have ht' : t ∈ toks (cloneEntries c.entries base) := ht
  rw [hr] at ht'
  simp only [List.mem_map, List.mem_range] at ht'
  obtain ⟨a, _, rfl⟩ := ht'
  omega

/-- Whatever an aborted clone drops is an object this call created (`base` and above). -/
theorem cloneAbort_dropped_fresh (kind : CbKind) (n : Nat) (l : List Entry) (base : Nat) :
    ∀ t ∈ droppedToks ((cloneAbortEvs kind n l base).1 ++ (cloneAbortEvs kind n l base).2), base ≤ t := by
  induction l generalizing n base with
  | nil => intro t ht; simp [cloneAbortEvs, droppedToks] at ht
  | cons e l ih =>
    intro t ht
    unfold cloneAbortEvs at ht
    by_cases h1 : n ≤ 1
    · simp only [h1, if_true] at ht
      cases kind <;> simp [droppedToks] at ht
    · simp only [h1, if_false, dropped_append] at ht
      have ih' := ih (n - 1) (base + 2)
      simp only [dropped_append] at ih'
      simp only [droppedToks, List.nil_append, List.cons_append, List.mem_append, List.mem_cons] at ht
      rcases ht with ht | ht
      · have := ih' t (List.mem_append.mpr (Or.inl ht)); omega
      · rcases ht with rfl | rfl | ht
        · omega
        · omega
        · have := ih' t (List.mem_append.mpr (Or.inr ht)); omega

theorem cbCount_append_drops (kind : CbKind) (a : List Ev) (l : List Entry) :
    cbCount kind (a ++ dropAllEvs l) = cbCount kind a := by
  have hz : ∀ l : List Entry, (List.filter (Ev.isCb kind) (dropAllEvs l)) = [] := by
    intro l
    induction l with
    | nil => rfl
    | cons e l ih =>
      simp only [dropAllEvs, List.flatMap_cons] at *
      simp [ih, Ev.isCb]
  simp [cbCount, List.filter_append, hz]

/-- **A panic while `clone_from` builds the clone leaves the destination untouched.** If the `n`-th
`Clone` (of a key or of a value) or `Hash` callback exists, the call unwinds with the destination the
same value as before — so every invariant it satisfied still holds —, the source the same value, and
only objects created by this very call dropped. -/
theorem C16_clone_from_abort (p : Params) (d c : Cache) (base : Nat) (kind : CbKind) (n : Nat)
    (hf : cloneFires c base kind n = true) :
    (cloneFromP p d c base kind n).cache = d ∧
    (cloneFromP p d c base kind n).status = .userPanic ∧
    ∀ t ∈ droppedToks (cloneFromP p d c base kind n).evs, base ≤ t := by
  have hf' := hf
  simp only [cloneFires, decide_eq_true_eq] at hf'
  obtain ⟨hn0, hn⟩ := hf'
  have hfire : ¬ (n = 0 ∨ cbCount kind (step p c (.cloneProbe base) {}).evs < n) := by
    intro h
    rcases h with h | h
    · omega
    · simp only [step, dropCache] at h
      rw [cbCount_append_drops] at h
      omega
  have hs : stepP p c (.cloneProbe base) {} kind n =
      abortRes c ((cloneAbortEvs kind n c.entries base).1 ++ (cloneAbortEvs kind n c.entries base).2) := by
    simp only [stepP, if_neg hfire]
  simp only [cloneFromP, hf, if_true, hs, abortRes]
  exact ⟨trivial, trivial, cloneAbort_dropped_fresh kind n c.entries base⟩

/-- If the callback does not exist, the injected panic changes nothing: `clone_from` completes. -/
theorem C16_clone_from_completes (p : Params) (d c : Cache) (base : Nat) (kind : CbKind) (n : Nat)
    (hf : cloneFires c base kind n = false) :
    (cloneFromP p d c base kind n).cache = (clone c base).1 ∧
    (cloneFromP p d c base kind n).evs = (clone c base).2.1 ++ dropCache d := by
  simp [cloneFromP, hf, cloneFrom]

/-! ### non-vacuity -/
private def p0 : Params := ⟨64, 16, 18446744073709551615⟩
private def src : Cache :=
  runOps p0 (Cache.new 1000) [(.insert ⟨1, 0, 1⟩ ⟨1, 2⟩, {}), (.insert ⟨2, 3, 3⟩ ⟨2, 4⟩, {}), (.get 1, {})]
private def dst : Cache :=
  runOps p0 (Cache.new 500) [(.insert ⟨7, 0, 11⟩ ⟨1, 12⟩, {})]
example : ids (cloneFrom dst src 100).1.entries = [2, 1] ∧ (cloneFrom dst src 100).1.max = 1000 ∧
    droppedToks (cloneFrom dst src 100).2.1 = [11, 12] := by decide
example : cloneFires src 100 .cloneV 2 = true ∧ (cloneFromP p0 dst src 100 .cloneV 2).cache = dst ∧
    droppedToks (cloneFromP p0 dst src 100 .cloneV 2).evs = [100, 101] := by decide
example : cloneFires src 100 .cloneV 3 = false ∧ ids (cloneFromP p0 dst src 100 .cloneV 3).cache.entries = [2, 1] := by decide

end LruMem
