import LruMem.Proofs.Reach
/-!
# C15 — `retain` removes exactly the rejected entries, visiting each once in LRU order
-/
namespace LruMem

/-- The predicate invocations recorded in an event list. -/
def predCalls : List Ev → List (Nat × Nat)
  | [] => []
  | .pred k v :: l => (k, v) :: predCalls l
  | _ :: l => predCalls l

/-- The decisions an `FnMut` predicate takes when it is shown the entries in list order with its
state threaded from one call to the next. -/
def decisions {σ : Type} (pr : σ → Key → Val → Bool × σ) : σ → List Entry → List Bool
  | _, [] => []
  | st, e :: l => (pr st e.key e.val).1 :: decisions pr (pr st e.key e.val).2 l

def keepBy : List Entry → List Bool → List Entry
  | e :: l, b :: bs => if b then e :: keepBy l bs else keepBy l bs
  | _, _ => []

def rejectBy : List Entry → List Bool → List Entry
  | e :: l, b :: bs => if b then rejectBy l bs else e :: rejectBy l bs
  | _, _ => []

theorem retainGo_closed {σ : Type} (pr : σ → Key → Val → Bool × σ) (st : σ) (l : List Entry) :
    (retainGo pr st l).kept = keepBy l (decisions pr st l) ∧
    (retainGo pr st l).removed = rejectBy l (decisions pr st l) ∧
    predCalls (retainGo pr st l).evs = l.map (fun e => (e.key.tok, e.val.tok)) ∧
    droppedToks (retainGo pr st l).evs = (rejectBy l (decisions pr st l)).flatMap (fun e => [e.key.tok, e.val.tok]) := by
  induction l generalizing st with
  | nil => simp [retainGo, keepBy, rejectBy, predCalls, droppedToks]
  | cons e l ih =>
    obtain ⟨a, b, c, d⟩ := ih (pr st e.key e.val).2
    simp only [retainGo, decisions, keepBy, rejectBy]
    split
    · simp [a, b, c, d, predCalls, droppedToks]
    · simp [a, b, c, d, predCalls, droppedToks]

/-- `retain` calls the predicate exactly once per entry, from least- to most-recently-used, with
that entry's actual key and value objects, threading its state in that order. -/
theorem C15_visits {σ : Type} (c : Cache) (pr : σ → Key → Val → Bool × σ) (st : σ) (o : Oracle) :
    predCalls (retain c pr st o).evs = c.entries.map (fun e => (e.key.tok, e.val.tok)) :=
  (retainGo_closed pr st c.entries).2.2.1

/-- Afterwards precisely the rejected entries are gone and dropped (key and value, once each), the
others keep their relative order, and `len` and `current_size` reflect the removals. -/
theorem C15_result {p : Params} {σ : Type} {c : Cache} (pr : σ → Key → Val → Bool × σ) (st : σ) (o : Oracle)
    (h : InvA p c) :
    (retain c pr st o).cache.entries = keepBy c.entries (decisions pr st c.entries) ∧
    droppedToks (retain c pr st o).evs =
      (rejectBy c.entries (decisions pr st c.entries)).flatMap (fun e => [e.key.tok, e.val.tok]) ∧
    (retain c pr st o).cache.cur + sumSizes (rejectBy c.entries (decisions pr st c.entries)) = c.cur ∧
    (retain c pr st o).cache.shape.items = (keepBy c.entries (decisions pr st c.entries)).length ∧
    (retain c pr st o).cache.max = c.max := by
  obtain ⟨a, b, _, d⟩ := retainGo_closed pr st c.entries
  obtain ⟨_, hlen, hsum⟩ := retainGo_spec pr st c.entries
  have hi := retain_inv pr st o h
  refine ⟨a, d, ?_, ?_, rfl⟩
  · have := hi.cur
    simp only [retain] at this ⊢
    rw [← b]
    rw [this]
    have := h.cur
    omega
  · rw [← a]; exact hi.items

/-- For a predicate without state the result is the ordinary filter. -/
theorem C15_filter {p : Params} {c : Cache} (q : Key → Val → Bool) (o : Oracle) (_h : InvA p c) :
    (retain c (fun (_ : Unit) k v => (q k v, ())) () o).cache.entries = c.entries.filter (fun e => q e.key e.val) := by
  show (retainGo (fun (_ : Unit) k v => (q k v, ())) () c.entries).kept = _
  rw [(retainGo_closed _ () c.entries).1]
  generalize c.entries = l
  induction l with
  | nil => rfl
  | cons e l ih =>
    simp only [decisions, keepBy, List.filter_cons]
    split <;> simp [ih]

/-- The rejected and the kept entries partition the old contents in order. -/
theorem C15_partition (l : List Entry) (bs : List Bool) (h : bs.length = l.length) :
    (keepBy l bs).Sublist l ∧ (rejectBy l bs).Sublist l ∧
    (keepBy l bs).length + (rejectBy l bs).length = l.length := by
  induction l generalizing bs with
  | nil => cases bs <;> simp [keepBy, rejectBy]
  | cons e l ih =>
    cases bs with
    | nil => simp at h
    | cons b bs =>
      obtain ⟨x, y, z⟩ := ih bs (by simpa using h)
      simp only [keepBy, rejectBy]
      split
      · exact ⟨x.cons_cons _, y.cons _, by simp; omega⟩
      · exact ⟨x.cons _, y.cons_cons _, by simp; omega⟩

/-! ### non-vacuity: a stateful predicate (alternating) on four entries -/
private def p0 : Params := ⟨64, 16, 18446744073709551615⟩
private def c15 : Cache :=
  runOps p0 (Cache.new 1000) [(.insert ⟨1, 0, 1⟩ ⟨1, 2⟩, {}), (.insert ⟨2, 0, 3⟩ ⟨2, 4⟩, {}),
    (.insert ⟨3, 0, 5⟩ ⟨0, 6⟩, {}), (.insert ⟨4, 0, 7⟩ ⟨0, 8⟩, {}), (.get 1, {})]
example : ids (step p0 c15 (.retain fun i _ _ => i % 2 == 0) {}).cache.entries = [2, 4] := by decide
example : predCalls (step p0 c15 (.retain fun i _ _ => i % 2 == 0) {}).evs = [(3, 4), (5, 6), (7, 8), (1, 2)] := by decide
example : (step p0 c15 (.retain fun i _ _ => i % 2 == 0) {}).cache.cur = 130 := by decide

end LruMem
