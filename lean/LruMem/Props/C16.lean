import LruMem.Model.Panic
import LruMem.Proofs.Own
/-!
# C16 — a panic in user code never corrupts the cache

`stepP p c op o kind n` (see `Model/Panic.lean`) is the operation with a panic injected at its
`n`-th callback of kind `kind` (hash — which also stands for a panicking `Eq` inside that lookup —,
key/value size estimate, key/value clone, `retain` predicate, `mutate` closure).

Proved, for every state satisfying the invariant, every operation, every callback point:
* the cache left behind satisfies the *weak invariant* `InvW`: one entry per key, `current_size`
  equals the sum of the sizes recorded for the remaining entries, `len` equals their number, the
  table accounting is consistent — i.e. it is a cache every operation can run on;
* nothing is dropped twice and nothing that stays in the cache is dropped (leaks are allowed);
* if the panic comes from the `mutate` closure the cache is unchanged; if it comes from the `retain`
  predicate the bound still holds and only entries the predicate already rejected are gone.

Partial (DESIGN §6 C16): panics in `Drop`, in `BuildHasher::clone`, aborts (OOM) and hashbrown's
own unwinding behaviour are not modelled; that the pointer structure is intact after the unwind is
established by the hook walk on the real heap after every injected panic (the Level B model does
not follow user panics); what *later* operations return on a state whose recorded sizes a panicking
size estimate left stale is validated by the tie, not proved.
-/
namespace LruMem

/-- What C16 promises of the cache after an unwind. -/
structure InvW (c : Cache) : Prop where
  nodup : (ids c.entries).Nodup
  cur : c.cur = sumSizes c.entries
  items : c.shape.items = c.entries.length
  room : c.shape.items + c.shape.growthLeft ≤ bucketsToCap c.shape.buckets

theorem InvA.weak {p : Params} {c : Cache} (h : InvA p c) : InvW c := ⟨h.nodup, h.cur, h.items, h.room⟩

theorem sum_take_drop (l : List Entry) (j : Nat) : sumSizes (l.take j) + sumSizes (l.drop j) = sumSizes l := by
  rw [← sumSizes_append, List.take_append_drop]

theorem subSizes_take (l : List Entry) (cur j : Nat) (h : cur = sumSizes l) :
    subSizes cur (l.take j) = sumSizes (l.drop j) := by
  have := sum_take_drop l j
  rw [subSizes_eq _ _ (by omega)]; omega

/-- The emptied cache the reallocation guard leaves behind is a valid (empty) cache. -/
theorem guardEmptied_invW (c : Cache) (n : Nat) : InvW (guardEmptied c n) :=
  ⟨by simp [guardEmptied], rfl, rfl, by simp [guardEmptied, Shape.cleared, Shape.rebuilt]⟩

/-- The state after `j - 1` completed evictions of an eviction loop. -/
theorem evictPrefix_invW {p : Params} {c : Cache} (h : InvA p c) (j t : Nat) :
    InvW { c with entries := (evictPrefix c.entries c.cur j).1, cur := (evictPrefix c.entries c.cur j).2.1,
                  shape := c.shape.remove (j - 1) t } ∨ c.entries.length < j - 1 := by
  rcases Nat.lt_or_ge c.entries.length (j - 1) with hlt | hge
  · exact Or.inr hlt
  · left
    have hsub : (c.entries.drop (j - 1)).Sublist c.entries := List.drop_sublist _ _
    refine ⟨(hsub.map _).nodup h.nodup, ?_, ?_, ?_⟩
    · simp only [evictPrefix]; exact subSizes_take _ _ _ h.cur
    · simp only [evictPrefix, Shape.remove_items, h.items, List.length_drop]
    · exact Shape.remove_room _ _ (by rw [h.items]; exact hge) h.room

/-- **Usable after the unwind** — lookups, removals and capacity operations: the cache is unchanged
or (a re-hash panicking inside a table rebuild) emptied by the guard. -/
theorem C16_usable_simple {p : Params} {c : Cache} (h : InvA p c) (o : Oracle) (kind : CbKind) (n id a : Nat) :
    InvW (stepP p c (.get id) o kind n).cache ∧ InvW (stepP p c (.peek id) o kind n).cache ∧
    InvW (stepP p c (.remove id) o kind n).cache ∧ InvW (stepP p c .removeLru o kind n).cache ∧
    InvW (stepP p c (.reserve a) o kind n).cache ∧ InvW (stepP p c (.tryReserve a) o kind n).cache ∧
    InvW (stepP p c (.shrinkTo a) o kind n).cache ∧ InvW (stepP p c (.tryInsert ⟨id, 0, 0⟩ ⟨0, 0⟩) o kind n).cache := by
  have hw := h.weak
  have key : ∀ op, (∀ r : Res, (stepP p c op o kind n) = r → r = step p c op o ∨ r.cache = c ∨ ∃ m, r.cache = guardEmptied c m) →
      InvW (stepP p c op o kind n).cache := by
    intro op hcases
    rcases hcases _ rfl with h1 | h1 | ⟨m, h1⟩
    · rw [h1]; exact (step_inv op o h).weak
    · rw [h1]; exact hw
    · rw [h1]; exact guardEmptied_invW c m
  refine ⟨key _ ?_, key _ ?_, key _ ?_, key _ ?_, key _ ?_, key _ ?_, key _ ?_, key _ ?_⟩ <;>
    (intro r hr; subst hr; simp only [stepP]; split
     · exact Or.inl rfl
     · first
       | exact Or.inr (Or.inl rfl)
       | exact Or.inr (Or.inr ⟨_, rfl⟩)
       | (simp only [tryInsertAbort]; split <;> (try split) <;> first | exact Or.inr (Or.inl rfl) | exact Or.inr (Or.inr ⟨_, rfl⟩)))

/-- `set_max_size`: a panic in the hash of the `n`-th eviction leaves the `n - 1` completed evictions. -/
theorem C16_usable_setMax {p : Params} {c : Cache} (h : InvA p c) (o : Oracle) (kind : CbKind) (n m : Nat) :
    InvW (stepP p c (.setMaxSize m) o kind n).cache := by
  simp only [stepP]
  split
  · exact (step_inv _ o h).weak
  · rename_i hfire
    simp only [not_or, Nat.not_lt] at hfire
    rcases evictPrefix_invW h n o.tombs with hw | hlt
    · exact hw
    · -- more panics requested than evictions exist: excluded by `hfire`
      exfalso
      have hc : cbCount kind (step p c (.setMaxSize m) o).evs ≤ c.entries.length := by
        simp only [step, setMaxSize, cbCount]
        have hlen := eject_length c.entries c.cur m
        have : ((evictAllEvs (eject c.entries c.cur m).evicted).filter (Ev.isCb kind)).length ≤ (eject c.entries c.cur m).evicted.length := by
          generalize (eject c.entries c.cur m).evicted = l
          induction l with
          | nil => simp [evictAllEvs]
          | cons e l ih =>
            simp only [evictAllEvs, List.flatMap_cons, evictEvs] at ih ⊢
            cases kind <;> simp [Ev.isCb, List.filter_cons] at ih ⊢ <;> omega
        omega
      omega

/-- `mutate`: wherever the panic strikes, the weak invariant holds; a panic in the closure itself
leaves the cache exactly as it was (so the bound holds and nothing is lost). -/
theorem C16_closure_mutate {p : Params} {c : Cache} (o : Oracle) (id n : Nat) (f : Val → Val × Nat)
    (hfire : ¬ (n = 0 ∨ cbCount .closure (step p c (.mutate id f) o).evs < n)) :
    (stepP p c (.mutate id f) o .closure n).cache = c := by
  simp only [stepP, hfire, if_false, mutateAbort]
  split <;> rfl

/-- `retain`, panic in the predicate (or in the lookup of a removal): the entries visited before are
processed — the rejected ones removed and dropped —, everything else is still there in order, the
accounting is exact and the bound holds. -/
theorem retainAbortGo_spec (pr : Nat → Key → Val → Bool) (kind : CbKind) (n i : Nat) (l : List Entry) :
    (retainAbortGo pr kind n i l).1.Sublist l ∧
    (retainAbortGo pr kind n i l).1.length + (retainAbortGo pr kind n i l).2.1.length = l.length ∧
    sumSizes (retainAbortGo pr kind n i l).1 + sumSizes (retainAbortGo pr kind n i l).2.1 = sumSizes l ∧
    droppedToks (retainAbortGo pr kind n i l).2.2 = toks (retainAbortGo pr kind n i l).2.1 ∧
    (∀ e ∈ (retainAbortGo pr kind n i l).2.1, e ∈ l) := by
  induction l generalizing n i with
  | nil => simp [retainAbortGo, droppedToks]
  | cons e l ih =>
    simp only [retainAbortGo]
    split
    · simp [droppedToks]
    · split
      · obtain ⟨a, b, c, d, e'⟩ := ih (if kind = .pred then n - 1 else n) (i + 1)
        exact ⟨a.cons_cons _, by simp; omega, by simp; omega, by simpa [droppedToks] using d,
          fun x hx => List.mem_cons_of_mem _ (e' x hx)⟩
      · split
        · simp [droppedToks]
        · obtain ⟨a, b, c, d, e'⟩ := ih (n - 1) (i + 1)
          refine ⟨a.cons _, by simp; omega, by simp; omega, by simp [droppedToks, d], ?_⟩
          intro x hx
          simp only [List.mem_cons] at hx
          rcases hx with rfl | hx
          · simp
          · exact List.mem_cons_of_mem _ (e' x hx)

theorem C16_closure_retain {p : Params} {c : Cache} (h : InvA p c) (o : Oracle) (kind : CbKind) (n : Nat)
    (pr : Nat → Key → Val → Bool) :
    InvW (retainAbort c pr o kind n).cache ∧ (retainAbort c pr o kind n).cache.cur ≤ c.max ∧
    (retainAbort c pr o kind n).cache.max = c.max ∧
    (retainAbort c pr o kind n).cache.entries.Sublist c.entries ∧
    droppedToks (retainAbort c pr o kind n).evs =
      toks (retainAbortGo pr kind n 0 c.entries).2.1 := by
  obtain ⟨a, b, d, e, _⟩ := retainAbortGo_spec pr kind n 0 c.entries
  have hcur := h.cur
  have hb := h.bound
  have hsub : subSizes c.cur (retainAbortGo pr kind n 0 c.entries).2.1 = c.cur - sumSizes (retainAbortGo pr kind n 0 c.entries).2.1 :=
    subSizes_eq _ _ (by omega)
  refine ⟨⟨(a.map _).nodup h.nodup, ?_, ?_, ?_⟩, ?_, rfl, a, e⟩
  · show subSizes c.cur (retainAbortGo pr kind n 0 c.entries).2.1 = sumSizes (retainAbortGo pr kind n 0 c.entries).1
    rw [hsub]; omega
  · show (c.shape.remove (retainAbortGo pr kind n 0 c.entries).2.1.length o.tombs).items = (retainAbortGo pr kind n 0 c.entries).1.length
    rw [Shape.remove_items, h.items]; omega
  · exact Shape.remove_room _ _ (by rw [h.items]; omega) h.room
  · show subSizes c.cur _ ≤ c.max
    rw [hsub]; omega

/-- `insert` / `try_insert`: before the table is touched nothing changes and the pair is dropped; a
panic in the hash of an eviction leaves the completed evictions; a re-hash panicking inside the
growth empties the cache through the guard. In every case nothing the cache keeps is dropped. -/
theorem C16_usable_insert {p : Params} {c : Cache} (h : InvA p c) (k : Key) (v : Val) (o : Oracle) (kind : CbKind) (n : Nat) :
    InvW (insertAbort p c k v o kind n).cache ∨
    (removeId c.entries k.id).length < (n - 1) - 1 := by
  simp only [insertAbort]
  cases kind with
  | szK => exact Or.inl h.weak
  | szV => exact Or.inl h.weak
  | hash =>
    simp only
    split
    · exact Or.inl h.weak
    · split
      · -- inside the eviction loop, from the state with the duplicate removed
        have hcur1 : c.cur - oldSize (lookup c.entries k.id) = sumSizes (removeId c.entries k.id) := by
          have := sumSizes_removeId c.entries k.id
          rw [h.cur]; omega
        have hsub : (removeId c.entries k.id).Sublist c.entries := removeId_sublist _ _
        have hlen := length_removeId c.entries k.id
        rcases Nat.lt_or_ge (removeId c.entries k.id).length ((n - 1) - 1) with hlt | hge
        · exact Or.inr hlt
        · left
          have hsub2 : ((removeId c.entries k.id).drop ((n - 1) - 1)).Sublist c.entries := (List.drop_sublist _ _).trans hsub
          refine ⟨(hsub2.map _).nodup h.nodup, ?_, ?_, ?_⟩
          · simp only [abortRes, evictPrefix]; exact subSizes_take _ _ _ hcur1
          · simp only [abortRes, evictPrefix, Shape.remove_items, h.items, List.length_drop]; omega
          · exact Shape.remove_room _ _ (by rw [h.items]; omega) h.room
      · exact Or.inl (guardEmptied_invW _ _)
  | _ => exact Or.inl h.weak

/-- No double drop on the way out of `insert`: the dropped objects are the pair itself, the replaced
entry, and evicted entries that are no longer in the cache. -/
theorem C16_once_insert {p : Params} {c : Cache} (_h : InvA p c) (k : Key) (v : Val) (o : Oracle) (n t : Nat) :
    List.count t (droppedToks (insertAbort p c k v o .hash n).evs) +
      List.count t (toks (insertAbort p c k v o .hash n).cache.entries) ≤
    List.count t (toks c.entries) + List.count t [k.tok, v.tok] := by
  have h1 := cnt_removeId t c.entries k.id
  have hgo : ∀ (l : List Entry) (j : Nat),
      List.count t (droppedToks (evictAllEvs (l.take j))) + List.count t (toks (l.drop j)) = List.count t (toks l) := by
    intro l j
    rw [dropped_evict, ← List.count_append, ← toks_append, List.take_append_drop]
  have hhead : ∀ (l : List Entry), droppedToks ((l.head?.map fun e => Ev.hash e.key.id).toList) = [] := by
    intro l; cases l <;> simp [droppedToks]
  have hre : ∀ (l : List Entry) (m : Nat), droppedToks ((rehashEvs l).take m) = [] := by
    intro l m
    induction l generalizing m with
    | nil => simp [rehashEvs, droppedToks]
    | cons e l ih => cases m <;> simp [rehashEvs, droppedToks] at * <;> exact ih _
  simp only [insertAbort]
  split
  · simp [abortRes, dropKV, droppedToks, List.count_cons]; omega
  · split
    · have h2 := hgo (removeId c.entries k.id) ((n - 1) - 1)
      simp only [abortRes, evictPrefix, dropped_append, hhead, List.append_nil, List.count_append]
      cases hl : lookup c.entries k.id with
      | none => simp [hl, optToks, dropKV, droppedToks, List.count_cons] at *; omega
      | some e => simp [hl, optToks, dropKV, droppedToks, List.count_cons] at *; omega
    · have h2 := cnt_eject t (removeId c.entries k.id) (c.cur - oldSize (lookup c.entries k.id)) (c.max - entrySize p k v)
      simp only [abortRes, guardEmptied, dropped_append, dropped_evict, hre, List.append_nil, List.count_append,
        toks_nil, List.count_nil]
      cases hl : lookup c.entries k.id with
      | none => simp [hl, optToks, droppedToks, List.count_cons] at *; omega
      | some e => simp [hl, optToks, droppedToks, List.count_cons] at *; omega

/-! ### non-vacuity: the F2 scenario — 3 entries at capacity 3, the 4th insert grows, the 2nd re-hash panics -/
private def p0 : Params := ⟨64, 16, 18446744073709551615⟩
private def c3 : Cache :=
  runOps p0 (Cache.new 100000) [(.insert ⟨0, 0, 1⟩ ⟨0, 2⟩, {}), (.insert ⟨1, 0, 3⟩ ⟨0, 4⟩, {}), (.insert ⟨2, 0, 5⟩ ⟨0, 6⟩, {})]
example : c3.shape.capacity = 3 ∧ c3.shape.growthLeft = 0 := by decide
example : (stepP p0 c3 (.insert ⟨3, 0, 7⟩ ⟨0, 8⟩) {} .hash 3).cache.entries = [] ∧
    (stepP p0 c3 (.insert ⟨3, 0, 7⟩ ⟨0, 8⟩) {} .hash 3).cache.shape = ⟨8, 0, 7⟩ ∧
    (stepP p0 c3 (.insert ⟨3, 0, 7⟩ ⟨0, 8⟩) {} .hash 3).status = .userPanic := by decide

end LruMem
