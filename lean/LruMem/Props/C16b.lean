import LruMem.Props.C16
/-!
# C16, continued: the cache left behind by an unwind can be *used*

`C16.lean` shows that every abort state satisfies the weak invariant `InvW` (one entry per key,
`current_size` = sum of the *recorded* sizes, `len` = number of entries, consistent table
accounting). Here: `InvW` is all that the operations need. Every operation maps a cache satisfying
`InvW` to one satisfying `InvW`, its eviction loops terminate and `insert_untracked`'s unchecked
unwrap is never reached (`status` is `ok`, or `implPanic` for the documented `unwrap`s of
`reserve`/`shrink_to`) — with two exceptions stated as hypotheses, both arithmetic on sizes that a
panicking size estimate can leave stale (DESIGN §13.6):

* `try_insert` computes `max_size - current_size`, so it needs `current_size ≤ max_size`
  (which a panic inside the eviction loop of a growing `mutate` can leave violated);
* a non-expanding `mutate` subtracts the shrinkage from the entry's recorded size, so it needs the
  recorded size to be at least the value's current estimate.

By induction the same holds for every history of such operations (`C16_usable_history`).
-/
namespace LruMem

theorem invW_insertUnchecked {c : Cache} (e : Entry) (o : Oracle) (h : InvW c) (hid : e.key.id ∉ ids c.entries) :
    InvW (insertUnchecked c e o).cache ∧ (insertUnchecked c e o).status = .ok := by
  have common : ∀ sh : Shape, sh.items = c.entries.length + 1 →
      sh.items + sh.growthLeft ≤ bucketsToCap sh.buckets →
      InvW { c with entries := c.entries ++ [e], cur := c.cur + e.size, shape := sh } := by
    intro sh h1 h2
    refine ⟨?_, ?_, ?_, h2⟩
    · simp only [ids_append, ids_cons, ids_nil]
      rw [List.nodup_append]
      refine ⟨h.nodup, by simp, ?_⟩
      intro a ha b hb
      simp at hb
      rintro rfl
      exact hid (hb ▸ ha)
    · simp [h.cur]
    · simp [h1]
  unfold LruMem.insertUnchecked
  split
  · rename_i hc
    obtain ⟨a, b⟩ := Shape.inserted_ok hc h.room
    exact ⟨common _ (by rw [a, h.items]) b, rfl⟩
  · have hcap : c.shape.items ≤ freshCap (Nat.max (2 * c.shape.capacity) 1) := by
      have := le_freshCap (Nat.max (2 * c.shape.capacity) 1)
      have h2 : 2 * c.shape.capacity ≤ Nat.max (2 * c.shape.capacity) 1 := Nat.le_max_left _ _
      simp only [Shape.capacity] at *
      omega
    have hroom : 0 < (c.shape.rebuilt (Nat.max (2 * c.shape.capacity) 1)).growthLeft := by
      have := le_freshCap (Nat.max (2 * c.shape.capacity) 1)
      have h1 : 1 ≤ Nat.max (2 * c.shape.capacity) 1 := Nat.le_max_right _ _
      have h2 : 2 * c.shape.capacity ≤ Nat.max (2 * c.shape.capacity) 1 := Nat.le_max_left _ _
      simp only [Shape.rebuilt, Shape.capacity] at *
      omega
    have hcan : (c.shape.rebuilt (Nat.max (2 * c.shape.capacity) 1)).canInsert false = true := by
      simp [Shape.canInsert, hroom]
    simp only [hcan, if_true]
    obtain ⟨r1, r2⟩ := Shape.rebuilt_ok c.shape hcap
    obtain ⟨a, b⟩ := Shape.inserted_ok hcan (Nat.le_of_eq r2)
    exact ⟨common _ (by rw [a, r1, h.items]) b, by first | rfl | trivial⟩

theorem invW_afterRemoveEject {c : Cache} (h : InvW c) (id : Nat) (target : Nat) (t : Nat) :
    InvW { c with
      entries := (eject (removeId c.entries id) (c.cur - oldSize (lookup c.entries id)) target).rest,
      cur := (eject (removeId c.entries id) (c.cur - oldSize (lookup c.entries id)) target).cur,
      shape := c.shape.remove (oldCount (lookup c.entries id) +
        (eject (removeId c.entries id) (c.cur - oldSize (lookup c.entries id)) target).evicted.length) t } ∧
    (eject (removeId c.entries id) (c.cur - oldSize (lookup c.entries id)) target).diverged = false ∧
    id ∉ ids (eject (removeId c.entries id) (c.cur - oldSize (lookup c.entries id)) target).rest := by
  have hcur1 : c.cur - oldSize (lookup c.entries id) = sumSizes (removeId c.entries id) := by
    have := sumSizes_removeId c.entries id
    rw [h.cur]; omega
  obtain ⟨hd, hc, hle, happ⟩ := eject_spec (removeId c.entries id) _ target hcur1
  have hsub := eject_rest_sublist (removeId c.entries id) (c.cur - oldSize (lookup c.entries id)) target
  have hsub2 := hsub.trans (removeId_sublist _ _)
  have hlen := eject_length (removeId c.entries id) (c.cur - oldSize (lookup c.entries id)) target
  have hlen1 := length_removeId c.entries id
  refine ⟨⟨?_, hc, ?_, ?_⟩, hd, ?_⟩
  · exact (hsub2.map _).nodup h.nodup
  · simp only [Shape.remove_items, h.items]
    omega
  · apply Shape.remove_room _ _ _ h.room
    rw [h.items]
    omega
  · intro hmem
    have : id ∈ ids (removeId c.entries id) := (hsub.map _).subset hmem
    exact not_mem_ids_removeId h.nodup id this

theorem invW_insert {p : Params} {c : Cache} (k : Key) (v : Val) (o : Oracle) (h : InvW c) :
    InvW (insert p c k v o).cache ∧ (insert p c k v o).status = .ok := by
  simp only [LruMem.insert]
  split
  · exact ⟨h, rfl⟩
  · obtain ⟨hi, hd, hnot⟩ := invW_afterRemoveEject h k.id (c.max - entrySize p k v) o.tombs
    simp only [hd]
    exact invW_insertUnchecked ⟨k, v, entrySize p k v⟩ o hi hnot

theorem invW_tryInsert {p : Params} {c : Cache} (k : Key) (v : Val) (o : Oracle) (h : InvW c) :
    InvW (tryInsert p c k v o).cache ∧ (tryInsert p c k v o).status = .ok := by
  simp only [LruMem.tryInsert]
  split
  · exact ⟨h, rfl⟩
  · split
    · exact ⟨h, rfl⟩
    · split
      · exact ⟨h, rfl⟩
      · rename_i h1 h2 h3
        have hnot : k.id ∉ ids c.entries := by
          rw [← lookup_isSome_iff]; exact h3
        exact invW_insertUnchecked ⟨k, v, entrySize p k v⟩ o h hnot

theorem invW_touchList {c : Cache} (h : InvW c) {e : Entry} (he : lookup c.entries e.key.id = some e) :
    InvW { c with entries := touchList c.entries e } := by
  have hsum := sumSizes_removeId c.entries e.key.id
  have hlen := length_removeId c.entries e.key.id
  rw [he] at hsum hlen
  simp only [oldSize, oldCount] at hsum hlen
  refine ⟨?_, ?_, ?_, h.room⟩
  · simp only [touchList, ids_append, ids_cons, ids_nil]
    rw [List.nodup_append]
    refine ⟨nodup_removeId h.nodup _, by simp, ?_⟩
    intro a ha b hb
    simp at hb
    rintro rfl
    exact not_mem_ids_removeId h.nodup e.key.id (hb ▸ ha)
  · simp only [touchList, sumSizes_append, sumSizes_cons, sumSizes_nil, h.cur]; omega
  · simp only [touchList, List.length_append, List.length_singleton, h.items]; omega

theorem invW_getEntry {c : Cache} (id : Nat) (h : InvW c) : InvW (getEntry c id).cache := by
  unfold LruMem.getEntry
  split
  · rename_i e he
    have := (lookup_some_mem he).2
    exact invW_touchList h (by rw [this]; exact he)
  · exact h

theorem invW_getLru {c : Cache} (h : InvW c) : InvW (getLru c).cache := by
  unfold LruMem.getLru
  split
  · rename_i e he
    have hm : e ∈ c.entries := by
      unfold lruOf at he
      exact List.mem_of_mem_head? he
    exact invW_touchList h (lookup_of_mem h.nodup hm)
  · exact h

theorem invW_removeEntry {c : Cache} (id : Nat) (o : Oracle) (h : InvW c) : InvW (removeEntry c id o).cache := by
  unfold LruMem.removeEntry
  split
  · rename_i e he
    have hsum := sumSizes_removeId c.entries id
    have hlen := length_removeId c.entries id
    rw [he] at hsum hlen
    simp only [oldSize, oldCount] at hsum hlen
    refine ⟨nodup_removeId h.nodup _, ?_, ?_, ?_⟩
    · simp only [h.cur]; omega
    · simp only [Shape.remove_items, h.items]; omega
    · exact Shape.remove_room _ _ (by rw [h.items]; omega) h.room
  · exact h

theorem invW_eject {c : Cache} (h : InvW c) (target newMax t : Nat) :
    InvW { c with entries := (eject c.entries c.cur target).rest, cur := (eject c.entries c.cur target).cur,
                  max := newMax,
                  shape := c.shape.remove (eject c.entries c.cur target).evicted.length t } ∧
    (eject c.entries c.cur target).diverged = false := by
  obtain ⟨hd, hc, hle, happ⟩ := eject_spec c.entries c.cur target h.cur
  have hsub := eject_rest_sublist c.entries c.cur target
  have hlen := eject_length c.entries c.cur target
  refine ⟨⟨(hsub.map _).nodup h.nodup, hc, ?_, ?_⟩, hd⟩
  · simp only [Shape.remove_items, h.items]
    omega
  · apply Shape.remove_room _ _ _ h.room
    rw [h.items]
    omega

theorem invW_rebuild {c : Cache} (n : Nat) (h : InvW c) (hn : c.shape.items ≤ freshCap n) : InvW (rebuild c n).1 := by
  obtain ⟨a, b⟩ := Shape.rebuilt_ok c.shape hn
  exact ⟨h.nodup, h.cur, a.trans h.items, Nat.le_of_eq b⟩

theorem invW_reserve {p : Params} {c : Cache} (a : Nat) (o : Oracle) (h : InvW c) : InvW (reserve p c a o).cache := by
  simp only [LruMem.reserve]
  split
  · exact h
  · split
    · split
      · apply invW_rebuild _ h
        have := le_freshCap (c.shape.items + a); omega
      · exact h
    · exact h

theorem invW_tryReserve {p : Params} {c : Cache} (a : Nat) (o : Oracle) (h : InvW c) :
    InvW (tryReserve p c a o).cache := by
  simp only [LruMem.tryReserve]
  split
  · exact h
  · split
    · split
      · exact h
      · split
        · exact h
        · apply invW_rebuild _ h
          have := le_freshCap (c.shape.items + a); omega
    · exact h

theorem invW_shrinkTo {p : Params} {c : Cache} (m : Nat) (o : Oracle) (h : InvW c) : InvW (shrinkTo p c m o).cache := by
  simp only [LruMem.shrinkTo]
  split
  · split
    · split
      · apply invW_rebuild _ h
        have := le_freshCap (Nat.max c.shape.items m)
        have : c.shape.items ≤ Nat.max c.shape.items m := Nat.le_max_left _ _
        omega
      · exact h
    · exact h
  · exact h

/-- `mutate` on a weak state. `hrec`: the recorded size of the entry is at least the current
estimate of its value (true unless a size estimate panicked in an earlier `mutate` of this entry). -/
theorem invW_mutate {p : Params} {c : Cache} (id : Nat) (f : Val → Val × Nat) (o : Oracle) (h : InvW c)
    (hrec : ∀ e, lookup c.entries id = some e → valMemSize p e.val ≤ e.size) :
    InvW (mutate p c id f o).cache ∧ (mutate p c id f o).status = .ok := by
  simp only [LruMem.mutate]
  split
  · exact ⟨h, rfl⟩
  · rename_i e he
    obtain ⟨hmem, hid⟩ := lookup_some_mem he
    have hr := hrec e he
    have hsum := sumSizes_removeId c.entries id
    have hlen := length_removeId c.entries id
    rw [he] at hsum hlen
    simp only [oldSize, oldCount] at hsum hlen
    have hcur := h.cur
    have touched : ∀ (e' : Entry) (cur' : Nat), e'.key = e.key →
        cur' = c.cur - e.size + e'.size → (ids (touchList c.entries e')).Nodup ∧
        cur' = sumSizes (touchList c.entries e') ∧ (touchList c.entries e').length = c.entries.length := by
      intro e' cur' hk hc
      have hid' : e'.key.id = id := by rw [hk]; exact hid
      refine ⟨?_, ?_, ?_⟩
      · simp only [touchList, ids_append, ids_cons, ids_nil, hid']
        rw [List.nodup_append]
        refine ⟨nodup_removeId h.nodup _, by simp, ?_⟩
        intro a ha b hb
        simp at hb
        rintro rfl
        exact not_mem_ids_removeId h.nodup id (hb ▸ ha)
      · simp only [touchList, hid', sumSizes_append, sumSizes_cons, sumSizes_nil]; omega
      · simp only [touchList, hid', List.length_append, List.length_singleton]; omega
    by_cases hgrow : valMemSize p (f e.val).1 > valMemSize p e.val
    · rw [if_pos hgrow]
      by_cases hbig : e.size + (valMemSize p (f e.val).1 - valMemSize p e.val) > c.max
      · rw [if_pos hbig]
        refine ⟨⟨nodup_removeId h.nodup _, ?_, ?_, ?_⟩, rfl⟩
        · simp only; omega
        · simp only [Shape.remove_items, h.items]; omega
        · exact Shape.remove_room _ _ (by rw [h.items]; omega) h.room
      · rw [if_neg hbig]
        obtain ⟨t1, t3, t4⟩ := touched
          { e with val := (f e.val).1, size := e.size + (valMemSize p (f e.val).1 - valMemSize p e.val) }
          (c.cur + (valMemSize p (f e.val).1 - valMemSize p e.val)) rfl (by simp only; omega)
        have hc1 : InvW { c with
            entries := touchList c.entries
              { e with val := (f e.val).1, size := e.size + (valMemSize p (f e.val).1 - valMemSize p e.val) },
            cur := c.cur + (valMemSize p (f e.val).1 - valMemSize p e.val) } :=
          ⟨t1, t3, by simp only [t4, h.items], h.room⟩
        obtain ⟨a, b⟩ := invW_eject hc1 c.max c.max o.tombs
        exact ⟨a, by simp only at b; simp only [b]; rfl⟩
    · rw [if_neg hgrow]
      obtain ⟨t1, t3, t4⟩ := touched
        { e with val := (f e.val).1, size := e.size - (valMemSize p e.val - valMemSize p (f e.val).1) }
        (c.cur - (valMemSize p e.val - valMemSize p (f e.val).1)) rfl (by simp only; omega)
      exact ⟨⟨t1, t3, by simp only [t4, h.items], h.room⟩, rfl⟩

theorem invW_retain {σ : Type} {c : Cache} (pr : σ → Key → Val → Bool × σ) (st : σ) (o : Oracle) (h : InvW c) :
    InvW (retain c pr st o).cache := by
  obtain ⟨a, b, d⟩ := retainGo_spec pr st c.entries
  have hcur := h.cur
  unfold LruMem.retain
  refine ⟨(a.map _).nodup h.nodup, ?_, ?_, ?_⟩
  · simp only; rw [subSizes_eq _ _ (by omega)]; omega
  · simp only [Shape.remove_items, h.items]; omega
  · exact Shape.remove_room _ _ (by rw [h.items]; omega) h.room

theorem invW_cleared (c : Cache) : InvW { c with entries := [], cur := 0, shape := c.shape.cleared } :=
  ⟨by simp, rfl, rfl, by simp [Shape.cleared]⟩

/-- the two size-arithmetic side conditions, per operation -/
def usableOn (p : Params) (c : Cache) : Op → Prop
  | .tryInsert _ _ => c.cur ≤ c.max
  | .mutate id _ => ∀ e, lookup c.entries id = some e → valMemSize p e.val ≤ e.size
  | _ => True

/-- **Usable after the unwind**: every operation runs on a cache that only satisfies the weak
invariant, keeps the weak invariant, terminates and never reaches undefined behaviour. -/
theorem C16_usable_step {p : Params} {c : Cache} (op : Op) (o : Oracle) (h : InvW c) (hu : usableOn p c op) :
    InvW (step p c op o).cache ∧
    ((step p c op o).status = .ok ∨ (step p c op o).status = .implPanic) := by
  cases op with
  | insert k v => exact ⟨(invW_insert k v o h).1, Or.inl (invW_insert k v o h).2⟩
  | tryInsert k v => exact ⟨(invW_tryInsert k v o h).1, Or.inl (invW_tryInsert k v o h).2⟩
  | get id => exact ⟨invW_getEntry id h, Or.inl (by simp [step, get, getEntry]; split <;> rfl)⟩
  | getEntry id => exact ⟨invW_getEntry id h, Or.inl (by simp [step, getEntry]; split <;> rfl)⟩
  | touch id => exact ⟨invW_getEntry id h, Or.inl (by simp [step, touch, getEntry]; split <;> rfl)⟩
  | peek id => exact ⟨h, Or.inl rfl⟩
  | peekEntry id => exact ⟨h, Or.inl rfl⟩
  | contains id => exact ⟨h, Or.inl rfl⟩
  | remove id =>
    refine ⟨?_, Or.inl ?_⟩
    · show InvW (remove c id o).cache
      unfold LruMem.remove
      split
      · exact invW_removeEntry id o h
      · exact h
    · show (remove c id o).status = .ok
      unfold LruMem.remove LruMem.removeEntry
      split <;> (try split) <;> rfl
  | removeEntry id =>
    exact ⟨invW_removeEntry id o h, Or.inl (by show (removeEntry c id o).status = .ok; unfold LruMem.removeEntry; split <;> rfl)⟩
  | removeLru =>
    refine ⟨?_, Or.inl ?_⟩
    · show InvW (removeLru c o).cache
      unfold LruMem.removeLru
      split
      · exact invW_removeEntry _ o h
      · exact h
    · show (removeLru c o).status = .ok
      unfold LruMem.removeLru LruMem.removeEntry
      split <;> (try split) <;> rfl
  | removeMru =>
    refine ⟨?_, Or.inl ?_⟩
    · show InvW (removeMru c o).cache
      unfold LruMem.removeMru
      split
      · exact invW_removeEntry _ o h
      · exact h
    · show (removeMru c o).status = .ok
      unfold LruMem.removeMru LruMem.removeEntry
      split <;> (try split) <;> rfl
  | getLru => exact ⟨invW_getLru h, Or.inl (by show (getLru c).status = .ok; unfold LruMem.getLru; split <;> rfl)⟩
  | peekLru => exact ⟨h, Or.inl rfl⟩
  | peekMru => exact ⟨h, Or.inl rfl⟩
  | setMaxSize m =>
    obtain ⟨a, b⟩ := invW_eject h m m o.tombs
    exact ⟨a, Or.inl (by show (setMaxSize c m o).status = .ok; simp only [setMaxSize, b]; rfl)⟩
  | reserve a =>
    refine ⟨invW_reserve a o h, ?_⟩
    show (reserve p c a o).status = .ok ∨ (reserve p c a o).status = .implPanic
    simp only [LruMem.reserve]
    split
    · exact Or.inr rfl
    · split
      · split
        · exact Or.inl rfl
        · exact Or.inr rfl
      · exact Or.inl rfl
  | tryReserve a =>
    refine ⟨invW_tryReserve a o h, Or.inl ?_⟩
    show (tryReserve p c a o).status = .ok
    simp only [LruMem.tryReserve]
    split
    · rfl
    · split
      · split
        · rfl
        · split <;> rfl
      · rfl
  | shrinkTo m =>
    refine ⟨invW_shrinkTo m o h, ?_⟩
    show (shrinkTo p c m o).status = .ok ∨ (shrinkTo p c m o).status = .implPanic
    simp only [LruMem.shrinkTo]
    split
    · split
      · split <;> exact Or.inl rfl
      · exact Or.inr rfl
    · exact Or.inl rfl
  | shrinkToFit =>
    refine ⟨invW_shrinkTo 0 o h, ?_⟩
    show (shrinkTo p c 0 o).status = .ok ∨ (shrinkTo p c 0 o).status = .implPanic
    simp only [LruMem.shrinkTo]
    split
    · split
      · split <;> exact Or.inl rfl
      · exact Or.inr rfl
    · exact Or.inl rfl
  | mutate id f => exact ⟨(invW_mutate id f o h hu).1, Or.inl (invW_mutate id f o h hu).2⟩
  | retain pr => exact ⟨invW_retain _ _ o h, Or.inl rfl⟩
  | clear => exact ⟨invW_cleared c, Or.inl rfl⟩
  | iterate kind calls forget =>
    refine ⟨?_, Or.inl rfl⟩
    simp only [step, iterScenario]
    split
    · exact h
    · cases kind <;> first | exact invW_cleared c | exact h
  | debugFmt => exact ⟨h, Or.inl rfl⟩
  | cloneProbe base =>
    refine ⟨h, ?_⟩
    show (if c.entries.length ≤ (Shape.fresh c.shape.capacity).growthLeft then Status.ok else Status.ub) = _ ∨ _
    have : c.entries.length ≤ (Shape.fresh c.shape.capacity).growthLeft := by
      have := le_freshCap c.shape.capacity
      have hi := h.items
      simp only [Shape.fresh, Shape.capacity] at *
      omega
    simp [this]

/-- Every history of operations from a weak state stays weak (the side conditions are asked of the
state each operation starts from). -/
theorem C16_usable_history {p : Params} : ∀ (ops : List (Op × Oracle)) {c : Cache}, InvW c →
    (∀ (pre : List (Op × Oracle)) (x : Op × Oracle) (post : List (Op × Oracle)), ops = pre ++ x :: post →
      usableOn p (runOps p c pre) x.1) →
    InvW (runOps p c ops)
  | [], _, h, _ => h
  | x :: rest, c, h, hu => by
    have h1 := (C16_usable_step x.1 x.2 h (hu [] x rest rfl)).1
    apply C16_usable_history rest h1
    intro pre y post he
    have := hu (x :: pre) y post (by rw [he]; rfl)
    exact this

/-! ### the abort state of *every* operation at *every* callback point -/

theorem cbCount_append (k : CbKind) (a b : List Ev) : cbCount k (a ++ b) = cbCount k a + cbCount k b := by
  simp [cbCount, List.filter_append]

theorem cbCount_evictAll_le (k : CbKind) (l : List Entry) : cbCount k (evictAllEvs l) ≤ l.length := by
  induction l with
  | nil => simp [evictAllEvs, cbCount]
  | cons e l ih =>
    simp only [evictAllEvs, List.flatMap_cons, evictEvs, cbCount] at ih ⊢
    cases k <;> simp [Ev.isCb, List.filter_cons] at ih ⊢ <;> omega

theorem written_invW {c : Cache} (h : InvW c) (id : Nat) (v' : Val) :
    InvW { c with entries := c.entries.map fun x => if x.key.id = id then { x with val := v' } else x } := by
  have hids : ids (c.entries.map fun x => if x.key.id = id then { x with val := v' } else x) = ids c.entries := by
    simp only [ids, List.map_map]
    apply List.map_congr_left
    intro x _
    simp only [Function.comp]
    split <;> rfl
  have hsum : sumSizes (c.entries.map fun x => if x.key.id = id then { x with val := v' } else x) = sumSizes c.entries := by
    induction c.entries with
    | nil => rfl
    | cons x l ih =>
      simp only [List.map_cons, sumSizes_cons, ih]
      split <;> rfl
  exact ⟨by rw [hids]; exact h.nodup, by simp only [hsum]; exact h.cur, by simp [h.items], h.room⟩

/-- **C16, all in one**: for every cache satisfying the invariant, every operation, every kind of
callback and every index `n`, the cache left behind by the unwind satisfies the weak invariant. -/
theorem C16_abort_invW {p : Params} {c : Cache} (h : InvA p c) (op : Op) (o : Oracle) (kind : CbKind) (n : Nat) :
    InvW (stepP p c op o kind n).cache := by
  have hw := h.weak
  by_cases hfire : n = 0 ∨ cbCount kind (step p c op o).evs < n
  · simp only [stepP, hfire, if_true]; exact (step_inv op o h).weak
  · have hfire0 := hfire
    simp only [not_or, Nat.not_lt] at hfire
    cases op with
    | insert k v =>
      simp only [stepP, if_neg hfire0]
      simp only [insertAbort]
      cases kind with
      | szK => exact hw
      | szV => exact hw
      | hash =>
        simp only
        split
        · exact hw
        · split
          · rename_i hj
            have hcur1 : c.cur - oldSize (lookup c.entries k.id) = sumSizes (removeId c.entries k.id) := by
              have := sumSizes_removeId c.entries k.id
              rw [h.cur]; omega
            have hsub : (removeId c.entries k.id).Sublist c.entries := removeId_sublist _ _
            have hlen := length_removeId c.entries k.id
            have hel := eject_length (removeId c.entries k.id) (c.cur - oldSize (lookup c.entries k.id)) (c.max - entrySize p k v)
            have hsub2 : ((removeId c.entries k.id).drop ((n - 1) - 1)).Sublist c.entries := (List.drop_sublist _ _).trans hsub
            refine ⟨(hsub2.map _).nodup h.nodup, ?_, ?_, ?_⟩
            · simp only [abortRes, evictPrefix]; exact subSizes_take _ _ _ hcur1
            · simp only [abortRes, evictPrefix, Shape.remove_items, h.items, List.length_drop]; omega
            · exact Shape.remove_room _ _ (by rw [h.items]; omega) h.room
          · exact guardEmptied_invW _ _
      | _ => exact hw
    | tryInsert k v =>
      simp only [stepP, if_neg hfire0]
      simp only [tryInsertAbort]
      cases kind <;> first | exact hw | (simp only; split <;> first | exact hw | exact guardEmptied_invW _ _)
    | get id => simp only [stepP, if_neg hfire0]; exact hw
    | getEntry id => simp only [stepP, if_neg hfire0]; exact hw
    | touch id => simp only [stepP, if_neg hfire0]; exact hw
    | peek id => simp only [stepP, if_neg hfire0]; exact hw
    | peekEntry id => simp only [stepP, if_neg hfire0]; exact hw
    | contains id => simp only [stepP, if_neg hfire0]; exact hw
    | remove id => simp only [stepP, if_neg hfire0]; exact hw
    | removeEntry id => simp only [stepP, if_neg hfire0]; exact hw
    | removeLru => simp only [stepP, if_neg hfire0]; exact hw
    | removeMru => simp only [stepP, if_neg hfire0]; exact hw
    | setMaxSize m => exact C16_usable_setMax h o kind n m
    | reserve a => simp only [stepP, if_neg hfire0]; exact guardEmptied_invW _ _
    | tryReserve a => simp only [stepP, if_neg hfire0]; exact guardEmptied_invW _ _
    | shrinkTo m => simp only [stepP, if_neg hfire0]; exact guardEmptied_invW _ _
    | shrinkToFit => simp only [stepP, if_neg hfire0]; exact guardEmptied_invW _ _
    | retain pr => simp only [stepP, if_neg hfire0]; exact (C16_closure_retain h o kind n pr).1
    | cloneProbe base => simp only [stepP, if_neg hfire0]; exact hw
    | getLru => simp only [stepP, if_neg hfire0]; exact (step_inv _ o h).weak
    | peekLru => simp only [stepP, if_neg hfire0]; exact (step_inv _ o h).weak
    | peekMru => simp only [stepP, if_neg hfire0]; exact (step_inv _ o h).weak
    | clear => simp only [stepP, if_neg hfire0]; exact (step_inv _ o h).weak
    | iterate k cs f => simp only [stepP, if_neg hfire0]; exact (step_inv _ o h).weak
    | debugFmt => simp only [stepP, if_neg hfire0]; exact (step_inv _ o h).weak
    | mutate id f =>
      simp only [stepP, if_neg hfire0]
      simp only [mutateAbort]
      cases hl : lookup c.entries id with
      | none => exact hw
      | some e =>
        simp only
        cases kind with
        | closure => exact hw
        | szV =>
          simp only
          split
          · exact hw
          · exact written_invW hw id _
        | hash =>
          simp only
          split
          · exact hw
          · rename_i hn1
            split
            · rename_i hgrow
              split
              · exact written_invW hw id _
              · rename_i hbig
                -- inside the eviction loop of a growing mutate: `n - 1 ≤` number of evictions
                obtain ⟨hmem, hid⟩ := lookup_some_mem hl
                have hsum := sumSizes_removeId c.entries id
                have hlen := length_removeId c.entries id
                rw [hl] at hsum hlen
                simp only [oldSize, oldCount] at hsum hlen
                obtain ⟨e', he'⟩ : ∃ e' : Entry, e' = { e with val := (f e.val).1, size := e.size + (valMemSize p (f e.val).1 - valMemSize p e.val) } := ⟨_, rfl⟩
                have hid' : e'.key.id = id := by rw [he']; exact hid
                have hsz' : e'.size = e.size + (valMemSize p (f e.val).1 - valMemSize p e.val) := by rw [he']
                rw [← he']
                have hTl : (touchList c.entries e').length = c.entries.length := by
                  simp only [touchList, hid', List.length_append, List.length_singleton]; omega
                have hTs : c.cur + (valMemSize p (f e.val).1 - valMemSize p e.val) = sumSizes (touchList c.entries e') := by
                  have := h.cur
                  simp only [touchList, hid', sumSizes_append, sumSizes_cons, sumSizes_nil]
                  omega
                have hTn : (ids (touchList c.entries e')).Nodup := by
                  simp only [touchList, ids_append, ids_cons, ids_nil, hid']
                  rw [List.nodup_append]
                  refine ⟨nodup_removeId h.nodup _, by simp, ?_⟩
                  intro a ha b hb
                  simp at hb
                  rintro rfl
                  exact not_mem_ids_removeId h.nodup id (hb ▸ ha)
                have hcount : n - 1 ≤ (touchList c.entries e').length := by
                  have hc := hfire.2
                  simp only [step, LruMem.mutate, hl, hgrow, if_true, hbig, if_false] at hc
                  rw [← he', cbCount_append] at hc
                  have h1 := cbCount_evictAll_le .hash (eject (touchList c.entries e') (c.cur + (valMemSize p (f e.val).1 - valMemSize p e.val)) c.max).evicted
                  have h2 := eject_length (touchList c.entries e') (c.cur + (valMemSize p (f e.val).1 - valMemSize p e.val)) c.max
                  have h3 : cbCount .hash ([Ev.hash id, .szV e.val.tok, .closure e.val.tok]
                      ++ (if (f e.val).1.tok = e.val.tok then [] else [Ev.dropV e.val.tok]) ++ [.szV (f e.val).1.tok]) = 1 := by
                    split <;> simp [cbCount, Ev.isCb, List.filter_cons]
                  omega
                have hsubT : ((touchList c.entries e').drop (n - 1 - 1)).Sublist (touchList c.entries e') := List.drop_sublist _ _
                have hitems := h.items
                refine ⟨(hsubT.map _).nodup hTn, ?_, ?_, ?_⟩
                · simp only [abortRes, evictPrefix]; exact subSizes_take _ _ _ hTs
                · simp only [abortRes, evictPrefix, Shape.remove_items, List.length_drop]; omega
                · exact Shape.remove_room _ _ (by omega) h.room
            · exact hw
        | _ => exact hw

/-! non-vacuity: a growing `mutate` of the LRU entry whose second eviction's hash panics — one
eviction is complete, `current_size` is above the limit (the bound is *not* promised here), the
weak invariant holds and a following `insert` brings the cache back under its limit -/
private def q0 : Params := ⟨64, 16, 18446744073709551615⟩
private def c4 : Cache :=
  runOps q0 (Cache.new 300) [(.insert ⟨0, 0, 1⟩ ⟨0, 2⟩, {}), (.insert ⟨1, 0, 3⟩ ⟨0, 4⟩, {}), (.insert ⟨2, 0, 5⟩ ⟨0, 6⟩, {}),
    (.insert ⟨3, 0, 7⟩ ⟨0, 8⟩, {})]
private def grow : Val → Val × Nat := fun v => ({ v with heap := 150 }, 0)
example : c4.cur = 256 ∧ ids c4.entries = [0, 1, 2, 3] := by decide
example : ids (stepP q0 c4 (.mutate 0 grow) {} .hash 3).cache.entries = [2, 3, 0] ∧
    (stepP q0 c4 (.mutate 0 grow) {} .hash 3).cache.cur = 342 ∧
    (stepP q0 c4 (.mutate 0 grow) {} .hash 3).status = .userPanic := by decide
example : (step q0 (stepP q0 c4 (.mutate 0 grow) {} .hash 3).cache (.insert ⟨9, 0, 11⟩ ⟨0, 12⟩) {}).cache.cur ≤ 300 := by decide

end LruMem
