import LruMem.Props.C16b
import LruMem.Props.C07b
import LruMem.Proofs.PanicB
/-!
# C16 at the pointer level

`Props/C16.lean`, `C16b.lean` state the property for the functional model (Level A): the cache value
left behind by an unwind satisfies the weak invariant. That level cannot express the failure the
property is about — a link into freed memory — because it has no links. This file lifts the statement
to the pointer model (Level B, `Model/Ptr.lean`, `Model/PanicB.lean`):

* `C16_ptr_guard` — when a re-hash panics inside `move_to_table`, for *any* table order and *any*
  number of entries already moved, the `ReallocationGuard` leaves the well-formed empty structure: the
  seal closed on itself, no full bucket, nothing pointing into the freed allocation, `ub = false`.
* `C16_ptr_abort` — for every operation executed on the cache itself, every callback kind and every
  index `n`: the pointer structure at the abort point is `Rep` (closed doubly linked cycle through
  exactly the live buckets of the current table, no access to dead memory so far) and its abstraction
  is exactly Level A's abort state — so `C16_abort_invW` (weak invariant) and everything proved from
  it hold of the real structure, and every later operation starts from a structure for which
  `C07_stepB` applies whenever the full invariant holds.
* `C16_ptr_legacy_dangles` — the negative witness: the same abort *without* the guard (the code before
  the `fix:` commit for finding F2) leaves a structure on which a plain `iter()` walk touches dead
  memory.
-/
namespace LruMem

/-- **The reallocation guard, pointer level** (restated from `Proofs/PanicB.lean`). -/
theorem C16_ptr_guard {c : CacheB} {l : List Nat} (n k : Nat) (r : Rep c l) :
    Rep (c.reallocateAbort n k) [] ∧ (c.reallocateAbort n k).ub = false ∧
    (c.reallocateAbort n k).abs = guardEmptied c.abs n :=
  ⟨(reallocateAbort_rep n k r).1, (reallocateAbort_rep n k r).1.noUb, reallocateAbort_abs n k r⟩

theorem cbCount_evs0_le (kind : CbKind) (id : Nat) (e : Entry) (v' : Val) :
    cbCount kind ([Ev.hash id, .szV e.val.tok, .closure e.val.tok]
      ++ (if v'.tok = e.val.tok then [] else [Ev.dropV e.val.tok]) ++ [.szV v'.tok]) ≤ 2 ∧
    (kind = .hash → cbCount kind ([Ev.hash id, .szV e.val.tok, .closure e.val.tok]
      ++ (if v'.tok = e.val.tok then [] else [Ev.dropV e.val.tok]) ++ [.szV v'.tok]) = 1) := by
  constructor
  · split <;> cases kind <;> simp [cbCount, Ev.isCb, List.filter_cons]
  · rintro rfl; split <;> simp [cbCount, Ev.isCb, List.filter_cons]

/-- `mutate` makes at most `2 + len` callbacks of any one kind. -/
theorem mutate_cb_le (p : Params) (c : Cache) (id : Nat) (f : Val → Val × Nat) (o : Oracle) (kind : CbKind) :
    cbCount kind (mutate p c id f o).evs ≤ 2 + c.entries.length := by
  unfold mutate
  cases hl : lookup c.entries id with
  | none => cases kind <;> simp [cbCount, Ev.isCb, List.filter_cons] <;> omega
  | some e =>
    have h0 := cbCount_evs0_le kind id e (f e.val).1
    simp only
    split
    · split
      · rw [cbCount_append]
        by_cases hk : kind = .hash
        · have := h0.2 hk; subst hk
          have : cbCount .hash [Ev.hash id] = 1 := by simp [cbCount, Ev.isCb]
          omega
        · have : cbCount kind [Ev.hash id] = 0 := by cases kind <;> simp_all [cbCount, Ev.isCb]
          omega
      · rw [cbCount_append]
        have h1 := cbCount_evictAll_le kind
          (eject (touchList c.entries { e with val := (f e.val).1, size := e.size + (valMemSize p (f e.val).1 - valMemSize p e.val) })
            (c.cur + (valMemSize p (f e.val).1 - valMemSize p e.val)) c.max).evicted
        have h2 := eject_length (touchList c.entries { e with val := (f e.val).1, size := e.size + (valMemSize p (f e.val).1 - valMemSize p e.val) })
            (c.cur + (valMemSize p (f e.val).1 - valMemSize p e.val)) c.max
        have hid := (lookup_some_mem hl).2
        have hlen := length_removeId c.entries id
        rw [hl] at hlen
        simp only [oldCount] at hlen
        have hTl : (touchList c.entries { e with val := (f e.val).1, size := e.size + (valMemSize p (f e.val).1 - valMemSize p e.val) }).length
            = c.entries.length := by
          simp only [touchList, hid, List.length_append, List.length_singleton]; omega
        have := h0.1
        omega
    · exact Nat.le_trans h0.1 (Nat.le_add_right 2 _)

/-- **C16, pointer level** (from any structure whose abstraction satisfies the *weak* invariant — in
particular one left behind by an earlier panic). Whatever operation is running on the cache, whichever callback panics
(`kind`, `n`): the structure left behind by the unwind is a closed, mirrored doubly linked cycle
through exactly the live buckets of the *current* table, no step so far has touched freed, vacated or
null memory, and its abstraction is the Level A abort state. -/
theorem C16_ptr_abortW {p : Params} {c : CacheB} {l : List Nat} (op : Op) (o : Oracle) (kind : CbKind) (n : Nat)
    (h : RefW c l) (hd : op.direct = true) :
    ∃ l', Rep (stepPB p c op o kind n) l' ∧ (stepPB p c op o kind n).ub = false ∧
      (stepPB p c op o kind n).abs = (stepP p c.abs op o kind n).cache := by
  suffices hs : ∃ l', Rep (stepPB p c op o kind n) l' ∧
      (stepPB p c op o kind n).abs = (stepP p c.abs op o kind n).cache by
    obtain ⟨l', r, e⟩ := hs; exact ⟨l', r, r.noUb, e⟩
  by_cases hfire : n = 0 ∨ cbCount kind (step p c.abs op o).evs < n
  · obtain ⟨l', r, e⟩ := stepB_refinesW op o h hd
    exact ⟨l', by simpa [stepPB, hfire] using r, by simpa [stepPB, stepP, hfire] using e⟩
  · have hfire0 := hfire
    simp only [not_or, Nat.not_lt] at hfire
    have hlenA : c.abs.entries.length = l.length := by rw [h.rep.abs_entries, List.length_map]
    have same : Rep c l ∧ c.abs = c.abs := ⟨h.rep, rfl⟩
    cases op with
    | insert k v =>
      simpa [stepPB, stepP, hfire0] using insertAbort_refines k v o kind n h
    | tryInsert k v =>
      simpa [stepPB, stepP, hfire0] using tryInsertAbort_refines p k v o kind n h
    | get id => exact ⟨l, by simpa [stepPB, hfire0] using h.rep, by simp [stepPB, stepP, hfire0, abortRes]⟩
    | getEntry id => exact ⟨l, by simpa [stepPB, hfire0] using h.rep, by simp [stepPB, stepP, hfire0, abortRes]⟩
    | touch id => exact ⟨l, by simpa [stepPB, hfire0] using h.rep, by simp [stepPB, stepP, hfire0, abortRes]⟩
    | peek id => exact ⟨l, by simpa [stepPB, hfire0] using h.rep, by simp [stepPB, stepP, hfire0, abortRes]⟩
    | peekEntry id => exact ⟨l, by simpa [stepPB, hfire0] using h.rep, by simp [stepPB, stepP, hfire0, abortRes]⟩
    | contains id => exact ⟨l, by simpa [stepPB, hfire0] using h.rep, by simp [stepPB, stepP, hfire0, abortRes]⟩
    | remove id => exact ⟨l, by simpa [stepPB, hfire0] using h.rep, by simp [stepPB, stepP, hfire0, abortRes]⟩
    | removeEntry id => exact ⟨l, by simpa [stepPB, hfire0] using h.rep, by simp [stepPB, stepP, hfire0, abortRes]⟩
    | removeLru => exact ⟨l, by simpa [stepPB, hfire0] using h.rep, by simp [stepPB, stepP, hfire0, abortRes]⟩
    | removeMru => exact ⟨l, by simpa [stepPB, hfire0] using h.rep, by simp [stepPB, stepP, hfire0, abortRes]⟩
    | setMaxSize m =>
      have hc : cbCount kind (step p c.abs (.setMaxSize m) o).evs ≤ c.abs.entries.length := by
        simp only [step, setMaxSize]
        have h1 := cbCount_evictAll_le kind (eject c.abs.entries c.abs.cur m).evicted
        have h2 := eject_length c.abs.entries c.abs.cur m
        omega
      obtain ⟨r, e⟩ := setMaxAbort_refines m o n h.rep (by omega)
      exact ⟨_, by simpa [stepPB, hfire0] using r, by simpa [stepPB, stepP, hfire0] using e⟩
    | reserve a =>
      obtain ⟨r, e⟩ := rebuildAbort_refines (c.shape.items + a) n h.rep
      refine ⟨[], ?_, ?_⟩
      · simp only [stepPB, if_neg hfire0]; exact r
      · simp only [stepPB, stepP, if_neg hfire0]; exact e
    | tryReserve a =>
      obtain ⟨r, e⟩ := rebuildAbort_refines (c.shape.items + a) n h.rep
      refine ⟨[], ?_, ?_⟩
      · simp only [stepPB, if_neg hfire0]; exact r
      · simp only [stepPB, stepP, if_neg hfire0]; exact e
    | shrinkTo m =>
      obtain ⟨r, e⟩ := rebuildAbort_refines (Nat.max c.shape.items m) n h.rep
      refine ⟨[], ?_, ?_⟩
      · simp only [stepPB, if_neg hfire0]; exact r
      · simp only [stepPB, stepP, if_neg hfire0]; exact e
    | shrinkToFit =>
      obtain ⟨r, e⟩ := rebuildAbort_refines (Nat.max c.shape.items 0) n h.rep
      refine ⟨[], ?_, ?_⟩
      · simp only [stepPB, if_neg hfire0]; exact r
      · simp only [stepPB, stepP, if_neg hfire0]; exact e
    | mutate id f =>
      have hc := mutate_cb_le p c.abs id f o kind
      have hn : n ≤ cbCount kind (mutate p c.abs id f o).evs := hfire.2
      simpa [stepPB, stepP, hfire0] using mutateAbort_refines id f o kind n h (by omega)
    | retain pr =>
      obtain ⟨l', r, e⟩ := retainAbort_refines pr o kind n h
      exact ⟨l', by simpa [stepPB, hfire0] using r.rep, by simpa [stepPB, stepP, hfire0] using e⟩
    | getLru =>
      obtain ⟨l', r, e⟩ := stepB_refinesW .getLru o h rfl
      exact ⟨l', by simpa [stepPB, hfire0] using r, by simpa [stepPB, stepP, hfire0] using e⟩
    | peekLru => exfalso; have := hfire.2; simp [step, peekLru, cbCount] at this; exact hfire.1 this
    | peekMru => exfalso; have := hfire.2; simp [step, peekMru, cbCount] at this; exact hfire.1 this
    | clear =>
      obtain ⟨l', r, e⟩ := stepB_refinesW .clear o h rfl
      exact ⟨l', by simpa [stepPB, hfire0] using r, by simpa [stepPB, stepP, hfire0] using e⟩
    | debugFmt => exfalso; have := hfire.2; simp [step, cbCount] at this; exact hfire.1 this
    | iterate k cs f => simp [Op.direct] at hd
    | cloneProbe b => simp [Op.direct] at hd

/-- the same from a structure whose abstraction satisfies the full invariant (every state reached
without a panic, `C07_history`) -/
theorem C16_ptr_abort {p : Params} {c : CacheB} {l : List Nat} (op : Op) (o : Oracle) (kind : CbKind) (n : Nat)
    (h : RefInv p c l) (hd : op.direct = true) :
    ∃ l', Rep (stepPB p c op o kind n) l' ∧ (stepPB p c op o kind n).ub = false ∧
      (stepPB p c op o kind n).abs = (stepP p c.abs op o kind n).cache :=
  C16_ptr_abortW op o kind n h.toW hd

/-! ## non-vacuity and the negative witness -/

private def q1 : Params := ⟨64, 16, 18446744073709551615⟩
/-- three entries in a table of capacity 3: the next insertion grows the table -/
private def b3 : CacheB :=
  runOpsB q1 (CacheB.new 1000 0) [(.insert ⟨1, 0, 1⟩ ⟨0, 2⟩, {}), (.insert ⟨2, 0, 3⟩ ⟨0, 4⟩, {}), (.insert ⟨3, 0, 5⟩ ⟨0, 6⟩, {})]

example : b3.shape.capacity = 3 ∧ b3.order.length = 3 ∧ b3.ub = false := by decide

/-- the fourth insert grows; its 3rd hash (the 2nd re-hash) panics: with the guard the structure is
the empty cache and a later `iter()` walk is clean -/
example : (stepPB q1 b3 (.insert ⟨4, 0, 7⟩ ⟨0, 8⟩) {} .hash 3).order = [] ∧
    (stepPB q1 b3 (.insert ⟨4, 0, 7⟩ ⟨0, 8⟩) {} .hash 3).ub = false ∧
    (((stepPB q1 b3 (.insert ⟨4, 0, 7⟩ ⟨0, 8⟩) {} .hash 3).iterScenario .iter [true, true, true] false).1).ub = false := by
  decide

/-- **Finding F2, as a theorem about the pre-fix code.** Without the guard the same abort leaves the
list running through the freed table: the walk of a plain `iter()` dereferences dead memory. -/
theorem C16_ptr_legacy_dangles :
    (((b3.reallocateAbortLegacy 7 1).iterScenario .iter [true, true, true] false).1).ub = true := by
  decide

end LruMem
