import LruMem.Props.C16c
import LruMem.Props.C07c
/-!
# C16 for whole histories with panics anywhere — "followed by arbitrary further use and drop"

`C16_abort_invW` (Level A) and `C16_ptr_abort` (Level B) speak about *one* panicking call made on a
cache that satisfied the full invariant. The property quantifies over what happens *afterwards* as
well: arbitrary further use — including further panics — and finally the drop. This file closes that
gap at both levels:

* `C16_abort_invW_weak` — Level A: the abort state of every operation at every callback point, started
  from a cache that only satisfies the weak invariant (e.g. one left behind by an earlier panic),
  satisfies the weak invariant again;
* `C16_ptr_stepW` — Level B: one step (with or without an injected panic) from a structure whose
  abstraction is weak: the structure stays `Rep`, `ub` stays `false`, the abstraction is the Level A
  result and is weak again;
* `C16_ptr_history` — by induction: after **any** history of operations executed on the cache itself,
  each of them either completing or unwinding from any callback, started from `with_capacity(max, n)`,
  the pointer structure is a closed mirrored cycle through exactly the live buckets of the current
  table, nothing was ever read from freed / vacated / moved-out memory, `current_size` is the sum of
  the recorded sizes, there is one entry per key, and the final drop touches each remaining entry once
  (`C16_ptr_history_drop`).

The side conditions `usableOn` are those of `C16_usable_step`: `try_insert` is not called while
`current_size > max_size` and `mutate` not on an entry whose recorded size is below its value's
estimate (both states can only arise from an earlier panic inside `mutate`; the real code's `usize`
subtraction would overflow there — recorded as a boundary in DESIGN.md §13.6).
-/
namespace LruMem

/-- the eviction-prefix state from a weak cache -/
theorem evictPrefix_invW_weak {c : Cache} (h : InvW c) (j t : Nat) (hj : j - 1 ≤ c.entries.length) :
    InvW { c with entries := (evictPrefix c.entries c.cur j).1, cur := (evictPrefix c.entries c.cur j).2.1,
                  shape := c.shape.remove (j - 1) t } := by
  have hsub : (c.entries.drop (j - 1)).Sublist c.entries := List.drop_sublist _ _
  refine ⟨(hsub.map _).nodup h.nodup, ?_, ?_, ?_⟩
  · simp only [evictPrefix]; exact subSizes_take _ _ _ h.cur
  · simp only [evictPrefix, Shape.remove_items, h.items, List.length_drop]
  · exact Shape.remove_room _ _ (by rw [h.items]; exact hj) h.room

theorem retainAbort_invW_weak {c : Cache} (h : InvW c) (o : Oracle) (kind : CbKind) (n : Nat)
    (pr : Nat → Key → Val → Bool) : InvW (retainAbort c pr o kind n).cache := by
  obtain ⟨a, b, d, _, _⟩ := retainAbortGo_spec pr kind n 0 c.entries
  have hcur := h.cur
  have hsub : subSizes c.cur (retainAbortGo pr kind n 0 c.entries).2.1 = c.cur - sumSizes (retainAbortGo pr kind n 0 c.entries).2.1 :=
    subSizes_eq _ _ (by omega)
  refine ⟨(a.map _).nodup h.nodup, ?_, ?_, ?_⟩
  · show subSizes c.cur (retainAbortGo pr kind n 0 c.entries).2.1 = sumSizes (retainAbortGo pr kind n 0 c.entries).1
    rw [hsub]; omega
  · show (c.shape.remove (retainAbortGo pr kind n 0 c.entries).2.1.length o.tombs).items = (retainAbortGo pr kind n 0 c.entries).1.length
    rw [Shape.remove_items, h.items]; omega
  · exact Shape.remove_room _ _ (by rw [h.items]; omega) h.room

/-- **Level A, from weak states**: for every cache satisfying the weak invariant, every operation,
callback kind and index, the cache left behind by the unwind satisfies the weak invariant. -/
theorem C16_abort_invW_weak {p : Params} {c : Cache} (hw : InvW c) (op : Op) (o : Oracle) (kind : CbKind) (n : Nat)
    (hu : usableOn p c op) : InvW (stepP p c op o kind n).cache := by
  by_cases hfire : n = 0 ∨ cbCount kind (step p c op o).evs < n
  · simp only [stepP, hfire, if_true]; exact (C16_usable_step op o hw hu).1
  · have hfire0 := hfire
    simp only [not_or, Nat.not_lt] at hfire
    have hstep := (C16_usable_step op o hw hu).1
    cases op with
    | insert k v =>
      simp only [stepP, if_neg hfire0]
      simp only [insertAbort]
      cases kind with
      | szK => exact hw
      | szV => exact hw
      | hash =>
        simp only
        split
        · exact hw
        · split
          · rename_i hj
            have hcur1 : c.cur - oldSize (lookup c.entries k.id) = sumSizes (removeId c.entries k.id) := by
              have := sumSizes_removeId c.entries k.id
              rw [hw.cur]; omega
            have hsub : (removeId c.entries k.id).Sublist c.entries := removeId_sublist _ _
            have hlen := length_removeId c.entries k.id
            have hel := eject_length (removeId c.entries k.id) (c.cur - oldSize (lookup c.entries k.id)) (c.max - entrySize p k v)
            have hsub2 : ((removeId c.entries k.id).drop ((n - 1) - 1)).Sublist c.entries := (List.drop_sublist _ _).trans hsub
            refine ⟨(hsub2.map _).nodup hw.nodup, ?_, ?_, ?_⟩
            · simp only [abortRes, evictPrefix]; exact subSizes_take _ _ _ hcur1
            · simp only [abortRes, evictPrefix, Shape.remove_items, hw.items, List.length_drop]; omega
            · exact Shape.remove_room _ _ (by rw [hw.items]; omega) hw.room
          · exact guardEmptied_invW _ _
      | _ => exact hw
    | tryInsert k v =>
      simp only [stepP, if_neg hfire0]
      simp only [tryInsertAbort]
      cases kind <;> first | exact hw | (simp only; split <;> first | exact hw | exact guardEmptied_invW _ _)
    | get id => simp only [stepP, if_neg hfire0]; exact hw
    | getEntry id => simp only [stepP, if_neg hfire0]; exact hw
    | touch id => simp only [stepP, if_neg hfire0]; exact hw
    | peek id => simp only [stepP, if_neg hfire0]; exact hw
    | peekEntry id => simp only [stepP, if_neg hfire0]; exact hw
    | contains id => simp only [stepP, if_neg hfire0]; exact hw
    | remove id => simp only [stepP, if_neg hfire0]; exact hw
    | removeEntry id => simp only [stepP, if_neg hfire0]; exact hw
    | removeLru => simp only [stepP, if_neg hfire0]; exact hw
    | removeMru => simp only [stepP, if_neg hfire0]; exact hw
    | setMaxSize m =>
      simp only [stepP, if_neg hfire0, setMaxAbort, abortRes]
      have hc : cbCount kind (step p c (.setMaxSize m) o).evs ≤ c.entries.length := by
        simp only [step, setMaxSize]
        have h1 := cbCount_evictAll_le kind (eject c.entries c.cur m).evicted
        have h2 := eject_length c.entries c.cur m
        omega
      exact evictPrefix_invW_weak hw n o.tombs (by omega)
    | reserve a => simp only [stepP, if_neg hfire0]; exact guardEmptied_invW _ _
    | tryReserve a => simp only [stepP, if_neg hfire0]; exact guardEmptied_invW _ _
    | shrinkTo m => simp only [stepP, if_neg hfire0]; exact guardEmptied_invW _ _
    | shrinkToFit => simp only [stepP, if_neg hfire0]; exact guardEmptied_invW _ _
    | retain pr => simp only [stepP, if_neg hfire0]; exact retainAbort_invW_weak hw o kind n pr
    | cloneProbe base => simp only [stepP, if_neg hfire0]; exact hw
    | getLru => simpa only [stepP, if_neg hfire0] using hstep
    | peekLru => simpa only [stepP, if_neg hfire0] using hstep
    | peekMru => simpa only [stepP, if_neg hfire0] using hstep
    | clear => simpa only [stepP, if_neg hfire0] using hstep
    | iterate k cs f => simpa only [stepP, if_neg hfire0] using hstep
    | debugFmt => simpa only [stepP, if_neg hfire0] using hstep
    | mutate id f =>
      simp only [stepP, if_neg hfire0]
      simp only [mutateAbort]
      cases hl : lookup c.entries id with
      | none => exact hw
      | some e =>
        simp only
        cases kind with
        | closure => exact hw
        | szV =>
          simp only
          split
          · exact hw
          · exact written_invW hw id _
        | hash =>
          simp only
          split
          · exact hw
          · rename_i hn1
            split
            · rename_i hgrow
              split
              · exact written_invW hw id _
              · rename_i hbig
                obtain ⟨hmem, hid⟩ := lookup_some_mem hl
                have hsum := sumSizes_removeId c.entries id
                have hlen := length_removeId c.entries id
                rw [hl] at hsum hlen
                simp only [oldSize, oldCount] at hsum hlen
                obtain ⟨e', he'⟩ : ∃ e' : Entry, e' = { e with val := (f e.val).1, size := e.size + (valMemSize p (f e.val).1 - valMemSize p e.val) } := ⟨_, rfl⟩
                have hid' : e'.key.id = id := by rw [he']; exact hid
                have hsz' : e'.size = e.size + (valMemSize p (f e.val).1 - valMemSize p e.val) := by rw [he']
                rw [← he']
                have hTl : (touchList c.entries e').length = c.entries.length := by
                  simp only [touchList, hid', List.length_append, List.length_singleton]; omega
                have hTs : c.cur + (valMemSize p (f e.val).1 - valMemSize p e.val) = sumSizes (touchList c.entries e') := by
                  have := hw.cur
                  simp only [touchList, hid', sumSizes_append, sumSizes_cons, sumSizes_nil]
                  omega
                have hTn : (ids (touchList c.entries e')).Nodup := by
                  simp only [touchList, ids_append, ids_cons, ids_nil, hid']
                  rw [List.nodup_append]
                  refine ⟨nodup_removeId hw.nodup _, by simp, ?_⟩
                  intro a ha b hb
                  simp at hb
                  rintro rfl
                  exact not_mem_ids_removeId hw.nodup id (hb ▸ ha)
                have hcount : n - 1 ≤ (touchList c.entries e').length := by
                  have hc := hfire.2
                  simp only [step, LruMem.mutate, hl, hgrow, if_true, hbig, if_false] at hc
                  rw [← he', cbCount_append] at hc
                  have h1 := cbCount_evictAll_le .hash (eject (touchList c.entries e') (c.cur + (valMemSize p (f e.val).1 - valMemSize p e.val)) c.max).evicted
                  have h2 := eject_length (touchList c.entries e') (c.cur + (valMemSize p (f e.val).1 - valMemSize p e.val)) c.max
                  have h3 : cbCount .hash ([Ev.hash id, .szV e.val.tok, .closure e.val.tok]
                      ++ (if (f e.val).1.tok = e.val.tok then [] else [Ev.dropV e.val.tok]) ++ [.szV (f e.val).1.tok]) = 1 := by
                    split <;> simp [cbCount, Ev.isCb, List.filter_cons]
                  omega
                have hsubT : ((touchList c.entries e').drop (n - 1 - 1)).Sublist (touchList c.entries e') := List.drop_sublist _ _
                have hitems := hw.items
                refine ⟨(hsubT.map _).nodup hTn, ?_, ?_, ?_⟩
                · simp only [abortRes, evictPrefix]; exact subSizes_take _ _ _ hTs
                · simp only [abortRes, evictPrefix, Shape.remove_items, List.length_drop]; omega
                · exact Shape.remove_room _ _ (by omega) hw.room
            · exact hw
        | _ => exact hw

/-- **Level B, one step from a weak state**, completing or unwinding. -/
theorem C16_ptr_stepW {p : Params} {c : CacheB} {l : List Nat} (op : Op) (o : Oracle) (kind : CbKind) (n : Nat)
    (h : RefW c l) (hd : op.direct = true) (hu : usableOn p c.abs op) :
    ∃ l', RefW (stepPB p c op o kind n) l' ∧ (stepPB p c op o kind n).abs = (stepP p c.abs op o kind n).cache := by
  obtain ⟨l', r, _, e⟩ := C16_ptr_abortW (p := p) op o kind n h hd
  exact ⟨l', ⟨r, by rw [e]; exact C16_abort_invW_weak h.inv op o kind n hu⟩, e⟩

/-- a history: operation, table oracle, and where (if anywhere: `n = 0` means nowhere) it panics -/
abbrev PStep := Op × Oracle × CbKind × Nat

def runP (p : Params) (c : Cache) : List PStep → Cache
  | [] => c
  | (op, o, kind, n) :: rest => runP p (stepP p c op o kind n).cache rest

def runPB (p : Params) (c : CacheB) : List PStep → CacheB
  | [] => c
  | (op, o, kind, n) :: rest => runPB p (stepPB p c op o kind n) rest

/-- Every history of direct operations with panics injected anywhere, from any weak structure. -/
theorem C16_ptr_run {p : Params} : ∀ (hist : List PStep) {c : CacheB} {l : List Nat}, RefW c l →
    (∀ x ∈ hist, x.1.direct = true) →
    (∀ (pre : List PStep) (x : PStep) (post : List PStep), hist = pre ++ x :: post → usableOn p (runP p c.abs pre) x.1) →
    ∃ l', RefW (runPB p c hist) l' ∧ (runPB p c hist).abs = runP p c.abs hist
  | [], c, l, h, _, _ => ⟨l, h, rfl⟩
  | (op, o, kind, n) :: rest, c, l, h, hd, hu => by
    obtain ⟨l1, h1, e1⟩ := C16_ptr_stepW op o kind n h (hd (op, o, kind, n) (by simp)) (hu [] (op, o, kind, n) rest rfl)
    obtain ⟨l2, h2, e2⟩ := C16_ptr_run rest h1 (fun x hx => hd x (by simp [hx])) (by
      intro pre y post he
      have := hu ((op, o, kind, n) :: pre) y post (by rw [he]; rfl)
      simpa [runP, e1] using this)
    exact ⟨l2, h2, by simp only [runPB, runP]; rw [e2, e1]⟩

/-- **C16 for whole histories.** From `with_capacity(max, n₀)`, any sequence of operations each of
which either completes or unwinds out of any of its callbacks: the pointer structure is well formed
(`Rep`: closed mirrored cycle through exactly the live buckets of the current table), no freed,
vacated or moved-out memory was ever touched (`ub = false`), and its abstraction — the Level A run —
satisfies the weak invariant (one entry per key, `current_size` = sum of the recorded sizes). -/
theorem C16_ptr_history (p : Params) (max n₀ : Nat) (hist : List PStep)
    (hd : ∀ x ∈ hist, x.1.direct = true)
    (hu : ∀ (pre : List PStep) (x : PStep) (post : List PStep), hist = pre ++ x :: post →
      usableOn p (runP p (Cache.withCapacity max n₀) pre) x.1) :
    ∃ l', Rep (runPB p (CacheB.new max n₀) hist) l' ∧ (runPB p (CacheB.new max n₀) hist).ub = false ∧
      (runPB p (CacheB.new max n₀) hist).abs = runP p (Cache.withCapacity max n₀) hist ∧
      InvW (runP p (Cache.withCapacity max n₀) hist) := by
  obtain ⟨l', h, e⟩ := C16_ptr_run hist (new_refinv p max n₀).toW hd (by rw [new_abs]; exact hu)
  rw [new_abs] at e
  exact ⟨l', h.rep, h.rep.noUb, e, by rw [← e]; exact h.inv⟩

/-- … and dropping the cache at the end reads every remaining entry from a bucket that still owns it
(no double drop, no use after free in `Drop for LruCache`). -/
theorem C16_ptr_history_drop (p : Params) (max n₀ : Nat) (hist : List PStep)
    (hd : ∀ x ∈ hist, x.1.direct = true)
    (hu : ∀ (pre : List PStep) (x : PStep) (post : List PStep), hist = pre ++ x :: post →
      usableOn p (runP p (Cache.withCapacity max n₀) pre) x.1) :
    ((runPB p (CacheB.new max n₀) hist).dropCache).ub = false := by
  obtain ⟨l', r, _, _, _⟩ := C16_ptr_history p max n₀ hist hd hu
  exact dropCache_noUb r

/-! non-vacuity: grow-with-panic (guard fires), reuse, a `retain` whose 2nd predicate call panics,
a second growth with a panicking re-hash, further inserts — all side conditions hold (`decide`). -/
private def q2 : Params := ⟨64, 16, 18446744073709551615⟩
private def hist2 : List PStep :=
  [(.insert ⟨1, 0, 1⟩ ⟨0, 2⟩, {}, .hash, 0), (.insert ⟨2, 0, 3⟩ ⟨0, 4⟩, {}, .hash, 0), (.insert ⟨3, 0, 5⟩ ⟨0, 6⟩, {}, .hash, 0),
   (.insert ⟨4, 0, 7⟩ ⟨0, 8⟩, {}, .hash, 3),           -- growth, 2nd re-hash panics: guard empties the cache
   (.insert ⟨5, 0, 9⟩ ⟨0, 10⟩, {}, .hash, 0), (.insert ⟨6, 0, 11⟩ ⟨0, 12⟩, {}, .hash, 0),
   (.retain (fun i _ _ => i != 0), {}, .pred, 2),         -- 2nd predicate call panics after one removal
   (.reserve 40, {}, .hash, 1),                           -- 1st re-hash of an explicit rebuild panics
   (.insert ⟨7, 0, 13⟩ ⟨0, 14⟩, {}, .hash, 0), (.get 7, {}, .hash, 1)]
example : (∀ x ∈ hist2, x.1.direct = true) := by decide
example : ids (runP q2 (Cache.withCapacity 1000 0) hist2).entries = [7] ∧
    (runPB q2 (CacheB.new 1000 0) hist2).ub = false ∧
    ((runPB q2 (CacheB.new 1000 0) hist2).order.map fun a => ((runPB q2 (CacheB.new 1000 0) hist2).ent a).key.id) = [7] := by
  decide

end LruMem
