import LruMem.Props.C16d
import LruMem.Props.C06b
/-!
# C16 — panics anywhere in programs over several caches

The pool language of `Props/C06b.lean` with a panic that may be injected into every request
(`n = 0`: nowhere): an operation on one cache unwinding out of any of its callbacks, a `clone` or a
`clone_from` unwinding out of a `Clone` / `Hash`. After any such program every cache of the pool
satisfies the weak invariant (one entry per key, `current_size` = Σ recorded sizes, consistent table
accounting) — so each remains usable (`C16_usable_step`) —, and a panic is local: an unwinding
operation touches no other cache, an unwinding `clone` / `clone_from` leaves the whole pool as it was.
-/
namespace LruMem

/-- `clone` of a cache that only satisfies the weak invariant (e.g. after an unwind): the clone
satisfies it, and the unchecked `unwrap` is still never hit. -/
theorem clone_invW {c : Cache} (base : Nat) (h : InvW c) :
    InvW (clone c base).1 ∧ (clone c base).2.2 = .ok := by
  have hcap : c.entries.length ≤ freshCap c.shape.capacity := by
    have := le_freshCap c.shape.capacity
    have := h.items
    have := h.room
    simp only [Shape.capacity] at *
    omega
  refine ⟨⟨?_, ?_, ?_, ?_⟩, ?_⟩
  · simp only [clone, ids_cloneEntries]; exact h.nodup
  · simp only [clone, sumSizes_cloneEntries]; exact h.cur
  · simp only [clone, length_cloneEntries]
  · show c.entries.length + (freshCap c.shape.capacity - c.entries.length) ≤ bucketsToCap (bucketsFor c.shape.capacity)
    have : freshCap c.shape.capacity = bucketsToCap (bucketsFor c.shape.capacity) := rfl
    omega
  · have hcap' : c.entries.length ≤ (Shape.fresh c.shape.capacity).growthLeft := hcap
    simp only [clone]
    rw [if_pos hcap']

inductive PPOp
  | new (max n : Nat)
  | op (i : Nat) (op : Op) (o : Oracle) (kind : CbKind) (n : Nat)
  | clone (i : Nat) (base : Nat) (kind : CbKind) (n : Nat)
  | cloneFrom (src dst : Nat) (base : Nat) (kind : CbKind) (n : Nat)
  | drop (i : Nat)

def poolStepP (p : Params) (P : List Cache) : PPOp → List Cache
  | .new max n => P ++ [Cache.withCapacity max n]
  | .op i op o kind n =>
    match P[i]? with
    | some c => P.set i (stepP p c op o kind n).cache
    | none => P
  | .clone i base kind n =>
    match P[i]? with
    | some c => if cloneFires c base kind n then P else P ++ [(clone c base).1]
    | none => P
  | .cloneFrom src dst base kind n =>
    match P[src]?, P[dst]? with
    | some c, some d => if src = dst then P else P.set dst (cloneFromP p d c base kind n).cache
    | _, _ => P
  | .drop i => P.eraseIdx i

/-- The two arithmetic side conditions of §13.6 (`usableOn`), asked of each operation at the moment
it is issued. -/
def UsableRun (p : Params) : List Cache → List PPOp → Prop
  | _, [] => True
  | P, x :: rest =>
    (match x with
     | .op i op _ _ _ => ∀ c, P[i]? = some c → usableOn p c op
     | _ => True) ∧ UsableRun p (poolStepP p P x) rest

def runPoolP (p : Params) : List Cache → List PPOp → List Cache
  | P, [] => P
  | P, x :: rest => runPoolP p (poolStepP p P x) rest

theorem cloneFromP_invW {p : Params} {d c : Cache} (base : Nat) (kind : CbKind) (n : Nat)
    (hd : InvW d) (hc : InvW c) : InvW (cloneFromP p d c base kind n).cache := by
  by_cases hf : cloneFires c base kind n = true
  · rw [(C16_clone_from_abort p d c base kind n hf).1]; exact hd
  · have hf' : cloneFires c base kind n = false := by simpa using hf
    rw [(C16_clone_from_completes p d c base kind n hf').1]
    exact (clone_invW base hc).1

theorem pool_stepP_invW {p : Params} {P : List Cache} (x : PPOp) (h : ∀ c ∈ P, InvW c)
    (hu : match x with | .op i op _ _ _ => ∀ c, P[i]? = some c → usableOn p c op | _ => True) :
    ∀ c ∈ poolStepP p P x, InvW c := by
  cases x with
  | new max n =>
    intro c hc
    simp only [poolStepP, List.mem_append, List.mem_singleton] at hc
    rcases hc with hc | rfl
    · exact h c hc
    · exact (new_inv ⟨0, 0, 0⟩ max n).weak
  | op i op o kind n =>
    simp only [poolStepP]
    split
    · rename_i c0 hc0
      intro c hc
      rcases mem_set_cases _ _ _ _ hc with rfl | hc
      · exact C16_abort_invW_weak (h c0 (List.mem_of_getElem? hc0)) op o kind n (hu c0 hc0)
      · exact h c hc
    · exact h
  | clone i base kind n =>
    simp only [poolStepP]
    split
    · rename_i c0 hc0
      split
      · exact h
      · intro c hc
        simp only [List.mem_append, List.mem_singleton] at hc
        rcases hc with hc | rfl
        · exact h c hc
        · exact (clone_invW base (h c0 (List.mem_of_getElem? hc0))).1
    · exact h
  | cloneFrom src dst base kind n =>
    simp only [poolStepP]
    split
    · rename_i c0 d0 hc0 hd0
      split
      · exact h
      · intro c hc
        rcases mem_set_cases _ _ _ _ hc with rfl | hc
        · exact cloneFromP_invW base kind n (h d0 (List.mem_of_getElem? hd0)) (h c0 (List.mem_of_getElem? hc0))
        · exact h c hc
    · exact h
  | drop i =>
    intro c hc
    exact h c (List.mem_of_mem_eraseIdx hc)

/-- **After any program over several caches, with a panic out of any callback of any request
(several panics included), every cache satisfies the weak invariant.** -/
theorem C16_pool_history {p : Params} (prog : List PPOp) :
    ∀ (P : List Cache), (∀ c ∈ P, InvW c) → UsableRun p P prog → ∀ c ∈ runPoolP p P prog, InvW c := by
  induction prog with
  | nil => intro P h _; exact h
  | cons x prog ih =>
    intro P h hu
    exact ih _ (pool_stepP_invW x h hu.1) hu.2

theorem set_self {α : Type} (l : List α) (i : Nat) (a : α) (h : l[i]? = some a) : l.set i a = l := by
  induction l generalizing i with
  | nil => rfl
  | cons x l ih =>
    cases i with
    | zero =>
      simp only [List.getElem?_cons_zero, Option.some.injEq] at h
      subst h; rfl
    | succ i =>
      simp only [List.getElem?_cons_succ] at h
      simp [ih i h]

/-- **A panic is local.** An operation that unwinds (or completes) touches no cache but its own. -/
theorem C16_pool_panic_local (p : Params) (P : List Cache) (i j : Nat) (op : Op) (o : Oracle)
    (kind : CbKind) (n : Nat) (hij : i ≠ j) : (poolStepP p P (.op i op o kind n))[j]? = P[j]? := by
  simp only [poolStepP]
  split
  · simp [List.getElem?_set_ne hij]
  · rfl

/-- A `clone` that unwinds leaves the whole pool as it was (the partial clone is gone). -/
theorem C16_pool_clone_abort (p : Params) (P : List Cache) (i : Nat) (c : Cache) (base : Nat) (kind : CbKind) (n : Nat)
    (hi : P[i]? = some c) (hf : cloneFires c base kind n = true) : poolStepP p P (.clone i base kind n) = P := by
  simp [poolStepP, hi, hf]

/-- A `clone_from` that unwinds leaves the whole pool as it was: the destination included. -/
theorem C16_pool_cloneFrom_abort (p : Params) (P : List Cache) (src dst : Nat) (c d : Cache) (base : Nat)
    (kind : CbKind) (n : Nat) (hs : P[src]? = some c) (hd : P[dst]? = some d)
    (hf : cloneFires c base kind n = true) : poolStepP p P (.cloneFrom src dst base kind n) = P := by
  simp only [poolStepP, hs, hd]
  split
  · rfl
  · rw [(C16_clone_from_abort p d c base kind n hf).1]
    exact set_self P dst d hd

/-! ### non-vacuity: a panic in the second hash of an evicting insert, a panicking clone, then use -/
private def p0 : Params := ⟨64, 16, 18446744073709551615⟩
private def prog : List PPOp :=
  [.new 200 0, .op 0 (.insert ⟨1, 0, 1⟩ ⟨1, 2⟩) {} .hash 0, .op 0 (.insert ⟨2, 0, 3⟩ ⟨2, 4⟩) {} .hash 0,
   .op 0 (.insert ⟨3, 0, 5⟩ ⟨100, 6⟩) {} .hash 2, .clone 0 100 .cloneV 1, .clone 0 100 .cloneV 0,
   .cloneFrom 0 1 200 .cloneK 1, .op 1 (.remove 2) {} .hash 0]
example : ((runPoolP p0 [] prog).map fun c => (ids c.entries, c.cur)) = [([1, 2], 131), ([1], 65)] := by decide

end LruMem
