import LruMem.Props.C12
/-!
# C17 — leaking an iterator can only leak, never double-drop

Level A, after the `fix:` commit that makes `Drain` detach the entries when it is created
(finding F1): for every iterator kind, every cache, every sequence of `next`/`next_back` calls after
which the iterator is passed to `mem::forget`:
* every object the cache owned is yielded, dropped or leaked — each exactly once (no double drop);
* a cache that was being drained is the emptied cache, which satisfies the invariant (so it is a
  valid, usable cache: every other theorem applies to it);
* borrowing iterators leave the cache untouched.
"Read after being moved out" is a pointer-level notion: Level B (`Ptr.lean`).
-/
namespace LruMem

/-- No object is dropped twice or both dropped and yielded: with pairwise distinct objects in the
cache, the dropped and yielded objects of a forgotten owning iterator are pairwise distinct and all
come from the cache; the rest is leaked. -/
theorem C17_forget_once (c : Cache) (kind : IterKind) (calls : List Bool) (hk : kind.borrowing = false)
    (hnd : (toks c.entries).Nodup) :
    (droppedToks (iterScenario c kind calls true).evs ++ (iterScenario c kind calls true).out.owned ++
      toks (iterCalls c.entries calls).2).Perm (toks c.entries) ∧
    (droppedToks (iterScenario c kind calls true).evs ++ (iterScenario c kind calls true).out.owned).Nodup := by
  have hc : ∀ t, List.count t (droppedToks (iterScenario c kind calls true).evs ++
      (iterScenario c kind calls true).out.owned ++ toks (iterCalls c.entries calls).2) = List.count t (toks c.entries) := by
    intro t
    have := (C06_owning_iter c kind calls true hk t).1
    simp only [List.count_append, if_true] at *
    omega
  have hperm := List.perm_iff_count.mpr hc
  refine ⟨hperm, ?_⟩
  have : (droppedToks (iterScenario c kind calls true).evs ++ (iterScenario c kind calls true).out.owned ++
      toks (iterCalls c.entries calls).2).Nodup := hperm.symm.nodup_iff.mp hnd
  exact (List.nodup_append.mp this).1

/-- A forgotten `Drain` leaves the emptied cache behind, whatever was consumed: a valid cache. -/
theorem C17_drain_valid {p : Params} {c : Cache} (calls : List Bool) (h : InvA p c) :
    ∃ c', (iterScenario c .drain calls true).cache = some c' ∧ c'.entries = [] ∧ c'.cur = 0 ∧ InvA p c' :=
  ⟨_, rfl, rfl, rfl, cleared_inv h⟩

/-- …and dropping that cache afterwards drops nothing: nothing that the drain may already have handed
out is touched again. -/
theorem C17_drain_then_drop (c : Cache) (calls : List Bool) :
    ((iterScenario c .drain calls true).cache.map fun c' => droppedToks (dropCache c')) = some [] := rfl

/-- A forgotten borrowing iterator is a no-op. -/
theorem C17_borrowing (c : Cache) (kind : IterKind) (calls : List Bool) (h : kind.borrowing = true) :
    (iterScenario c kind calls true).cache = some c ∧ (iterScenario c kind calls true).evs = [] :=
  C12_borrowing c kind calls true h

/-- A forgotten `into_iter`/`into_keys`/`into_values` owns the cache: nothing is left to be dropped
later (the cache is gone with it). -/
theorem C17_into_gone (c : Cache) (kind : IterKind) (calls : List Bool) (h : kind.borrowing = false) (hd : kind ≠ .drain) :
    (iterScenario c kind calls true).cache = none := by
  cases kind <;> simp_all [iterScenario, IterKind.borrowing]

/-! ### non-vacuity: the F1 scenario — drain, take one, forget, drop the cache -/
private def p0 : Params := ⟨64, 16, 18446744073709551615⟩
private def c17 : Cache :=
  runOps p0 (Cache.new 1000) [(.insert ⟨0, 0, 1⟩ ⟨0, 2⟩, {}), (.insert ⟨1, 0, 3⟩ ⟨0, 4⟩, {}), (.insert ⟨2, 0, 5⟩ ⟨0, 6⟩, {})]
example : (iterScenario c17 .drain [true] true).out.owned = [1, 2] ∧ (iterScenario c17 .drain [true] true).evs = [] ∧
    ((iterScenario c17 .drain [true] true).cache.map (·.shape.items)) = some 0 := by decide

end LruMem
