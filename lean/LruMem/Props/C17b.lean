import LruMem.Proofs.Cursor
import LruMem.Props.C17
/-!
# C17 at the pointer level: a leaked iterator

For every well-formed structure, every call sequence and every point at which the iterator is
leaked (`forget = true` after the calls):

* `C17_ptr_drain`: the cache behind a leaked `Drain` is the well-formed empty cache — its seal is
  closed on itself, its table is empty, `current_size = 0` — so every later operation runs on a
  structure satisfying `RefInv` and all of `C07_stepB` applies to it; the nodes that were not
  yielded still hold their entries (leaked) and are unreachable from the cache; the yielded ones
  have been moved out once, and nothing has been moved out twice (`ub = false` is part of `Rep`);
* `C17_ptr_into`: the owning iterators, leaked: exactly the yielded nodes are moved out, once.
-/
namespace LruMem

theorem C17_ptr_drain {p : Params} {c : CacheB} {l : List Nat} (h : RefInv p c l) (calls : List Bool) :
    RefInv p (c.iterScenario .drain calls true).1 [] ∧
    (c.iterScenario .drain calls true).1.abs = { c.abs with entries := [], cur := 0, shape := c.shape.cleared } ∧
    (∀ a ∈ l, (c.iterScenario .drain calls true).1.has a = !decide (some a ∈ (c.iterScenario .drain calls true).2)) := by
  obtain ⟨r, habs, _, hhas⟩ := iter_drain h calls true
  refine ⟨⟨r, ?_⟩, habs, fun a ha => by rw [hhas a ha]; simp⟩
  rw [habs]
  have hi := h.inv
  exact ⟨by simp [ids], by simp, by simp [sumSizes], by simp,
    by simp [Shape.cleared, CacheB.abs], by
      have := hi.room
      simp only [Shape.cleared, CacheB.abs] at this ⊢
      simp⟩

theorem C17_ptr_into {p : Params} {c : CacheB} {l : List Nat} (h : RefInv p c l) (kind : IterKind)
    (hk : kind.borrowing = false) (hd : kind ≠ .drain) (calls : List Bool) :
    (c.iterScenario kind calls true).1.ub = false ∧
    (∀ a, (c.iterScenario kind calls true).1.has a =
      if some a ∈ (c.iterScenario kind calls true).2 then false else c.has a) := by
  obtain ⟨hub, _, hf, _⟩ := iter_into h kind hk hd calls true
  exact ⟨hub, hf rfl⟩

end LruMem
