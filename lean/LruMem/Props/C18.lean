import LruMem.Generated.Decls
/-!
# C18 — thread-safety and borrowing contracts are enforced at compile time

The declaration table `LruMem.Generated.table` is regenerated from `/repo/src/*.rs` by the translator
`/verif/tools/decls.py` on every run, so these theorems are re-checked against what the source says
now. The quantifiers are finite (every combination of `Send`/`Sync` for `K`, `V`, `S`; every public
API in the table), and are enumerated completely by `decide` in the kernel.

Partial (DESIGN §6 C18): rustc's trait solver and borrow checker are the implementation here and are
trusted; the tie compiles ~45 probe programs against the freshly built crate (positive ones must
compile, negative ones must fail with the expected error code).
-/
namespace LruMem
open LruMem.Decls LruMem.Generated

/-- `LruCache<K, V, S>` is `Send` exactly when `K`, `V` and `S` are all `Send` — whenever all are, and
not if any one of them is not — for all 64 combinations of auto traits of the three parameters. -/
theorem C18_send_iff : ∀ ks ky vs vy ss sy : Bool,
    structAuto table .send lruCacheId (kvs ks ky vs vy ss sy) = (ks && vs && ss) := by decide

/-- …and `Sync` exactly when all three are `Sync`. -/
theorem C18_sync_iff : ∀ ks ky vs vy ss sy : Bool,
    structAuto table .sync lruCacheId (kvs ks ky vs vy ss sy) = (ky && vy && sy) := by decide

/-- Every public function that returns a reference or a borrowing iterator takes `&self` or
`&mut self`, and every lifetime in its return type is the receiver's (elided or named after it) —
never `'static`, never a free lifetime parameter. Hence the cache stays borrowed for as long as the
result lives, and no safe program can mutate or drop it meanwhile. -/
theorem C18_borrows : table.apis.all apiBorrowsReceiver = true := by decide

/-- The four borrowing iterator types (`Iter`, `Keys`, `Values`, `Drain`) have a lifetime parameter that
occurs in one of their fields (a `PhantomData<&'a ()>` marker, the `&'a mut LruCache`, or a nested
iterator instantiated with it): the borrow is part of the type. -/
theorem C18_iter_carries : borrowingIterIds.all (carriesLifetime table) = true := by decide

/-- The table is not vacuous: it lists the twelve reference-returning functions of the public API
(`hasher`, `iter`, `keys`, `values`, `drain`, `get_lru`, `peek_lru`, `peek_mru`, `get_entry`, `get`,
`peek_entry`, `peek`) — the names are compared by the check, the count here. -/
theorem C18_api_count : 12 ≤ table.apis.length := by decide

/-- The raw-pointer handle and the iterators built from it are *not* `Send`/`Sync` by themselves — the
cache is only through its two explicit impls, so their bounds are what decides. -/
theorem C18_only_explicit : ∀ ks ky vs vy ss sy : Bool,
    structAuto { table with impls := [] } .send lruCacheId (kvs ks ky vs vy ss sy) = false := by decide

/-! ### the iterator types are part of the thread-safety contract

A borrowing iterator hands out `&K`/`&V` of a cache that the creating thread can still read, so it may
cross a thread boundary (`Send`) or be shared (`Sync`) at most when `K` and `V` are `Sync` — exactly
like `&LruCache`. `Drain` holds `&mut LruCache` and the owning iterators hold the cache itself, so they
may be `Send`/`Sync` at most when the cache is. (On the current source all seven are neither, because
they hold raw-pointer cursors and have no explicit impl; the statement is the bound any such impl —
or an auto impl acquired through a field type — has to respect.) -/

/-- `Iter`, `Keys`, `Values`: `Send` or `Sync` only if `K: Sync` and `V: Sync`. -/
theorem C18_shared_iters_bounded : ∀ ks ky vs vy ss sy : Bool, sharedIterIds.all (fun n =>
    (!structAuto table .send n (kvs ks ky vs vy ss sy) || (ky && vy)) &&
    (!structAuto table .sync n (kvs ks ky vs vy ss sy) || (ky && vy))) = true := by decide

/-- `Drain`: `Send` only if `K`, `V`, `S` are all `Send`; `Sync` only if all are `Sync`. -/
theorem C18_drain_bounded : ∀ ks ky vs vy ss sy : Bool, exclIterIds.all (fun n =>
    (!structAuto table .send n (kvs ks ky vs vy ss sy) || (ks && vs && ss)) &&
    (!structAuto table .sync n (kvs ks ky vs vy ss sy) || (ky && vy && sy))) = true := by decide

/-- `IntoIter`, `IntoKeys`, `IntoValues`: as the cache they own. -/
theorem C18_owning_iters_bounded : ∀ ks ky vs vy ss sy : Bool, owningIterIds.all (fun n =>
    (!structAuto table .send n (kvs ks ky vs vy ss sy) || (ks && vs && ss)) &&
    (!structAuto table .sync n (kvs ks ky vs vy ss sy) || (ky && vy && sy))) = true := by decide

example : sharedIterIds.length = 3 ∧ exclIterIds.length = 1 ∧ owningIterIds.length = 3 ∧
    (sharedIterIds ++ exclIterIds ++ owningIterIds).all
      (fun n => (table.structs.find? (·.name == n)).isSome) = true := by decide

/-- The closures passed to `retain` and `mutate` are shown references into the cache that end with the call
of the closure: their reference parameters are higher-ranked (`FnMut(&K, &V)`, elided), never tied to a
lifetime of the function or of the receiver — so a predicate cannot keep a reference to an entry that
`retain` is about to remove and drop, and a `mutate` closure cannot smuggle `&mut V` out. -/
theorem C18_callbacks_higher_ranked :
    callbacks.all (fun c => c.2.all (fun l => l == .elided)) = true := by decide

example : 2 ≤ callbacks.length := by decide

/-! ### non-vacuity: the table has the cache, two explicit impls, and the translator's ids -/
example : (table.structs.find? (·.name == lruCacheId)).isSome = true := by decide

end LruMem
