import LruMem.Props.C12
/-!
# C19 — operations through a shared reference never write to the cache

Level A: every operation available through `&LruCache` returns the cache it was given, as a value —
contents, order, recorded sizes, totals and table shape. In a functional model this is close to
definitional *because the modelled code only reads*; the content of this property is in the tie: the
harness takes a structural fingerprint (node addresses, bucket indices, prev/next links, recorded
sizes, seal links, allocation pointer) through the `verif-hooks` walker before and after every `&self`
call on the real cache and requires equality (DESIGN §6 C19). Level B (`Ptr.lean`) restates it for
the pointer graph.
-/
namespace LruMem

/-- The shared-reference operations. -/
def Op.sharedRef : Op → Bool
  | .peek _ | .peekEntry _ | .peekLru | .peekMru | .contains _ | .debugFmt | .cloneProbe _ => true
  | .iterate k _ _ => k.borrowing
  | _ => false

/-- Every `&self` operation, for every key argument (present or absent), every call pattern of a
borrowing iterator in both directions, dropped or forgotten: the cache is unchanged. -/
theorem C19_readonly (p : Params) (c : Cache) (op : Op) (o : Oracle) (h : op.sharedRef = true) :
    (step p c op o).cache = c := by
  cases op with
  | iterate k calls forget =>
    simp only [Op.sharedRef] at h
    simp [step, iterScenario, h]
  | peek id => rfl
  | peekEntry id => rfl
  | peekLru => rfl
  | peekMru => rfl
  | contains id => rfl
  | debugFmt => rfl
  | cloneProbe base => rfl
  | _ => simp [Op.sharedRef] at h

/-- They drop nothing and hand out no owned object (a clone's copies belong to the clone). -/
theorem C19_no_effects (p : Params) (c : Cache) (op : Op) (o : Oracle) (h : op.sharedRef = true)
    (hc : ∀ b, op ≠ .cloneProbe b) : droppedToks (step p c op o).evs = [] ∧ (step p c op o).out.owned = [] := by
  cases op with
  | iterate k calls forget =>
    simp only [Op.sharedRef] at h
    cases k <;> simp [IterKind.borrowing] at h <;> simp [step, iterScenario, IterKind.borrowing, droppedToks, Out.owned]
  | peek id => exact ⟨rfl, by simp [step, peek, Out.owned]⟩
  | peekEntry id => exact ⟨rfl, by simp [step, peekEntry, Out.owned]⟩
  | peekLru => exact ⟨rfl, by simp [step, peekLru, Out.owned]⟩
  | peekMru => exact ⟨rfl, by simp [step, peekMru, Out.owned]⟩
  | contains id => exact ⟨rfl, rfl⟩
  | debugFmt => exact ⟨rfl, by simp [step, Out.owned]⟩
  | cloneProbe base => exact absurd rfl (hc base)
  | _ => simp [Op.sharedRef] at h

/-- Consequence for sharing `&LruCache` between threads: in any interleaving of shared-reference
operations each one sees the same cache and returns what it returns when run alone. -/
theorem C19_interleave (p : Params) (c : Cache) (ops : List (Op × Oracle)) (h : ∀ x ∈ ops, x.1.sharedRef = true) :
    runOps p c ops = c ∧ ∀ x ∈ ops, ∀ (pre : List (Op × Oracle)), (∀ y ∈ pre, y.1.sharedRef = true) →
      step p (runOps p c pre) x.1 x.2 = step p c x.1 x.2 := by
  have key : ∀ (l : List (Op × Oracle)), (∀ x ∈ l, x.1.sharedRef = true) → runOps p c l = c := by
    intro l
    induction l with
    | nil => intro _; rfl
    | cons a l ih =>
      intro hl
      obtain ⟨op, o⟩ := a
      simp only [runOps]
      rw [C19_readonly p c op o (hl (op, o) (by simp))]
      exact ih (fun x hx => hl x (by simp [hx]))
  exact ⟨key ops h, fun x _ pre hpre => by rw [key pre hpre]⟩

end LruMem
