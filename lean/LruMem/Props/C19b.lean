import LruMem.Props.C19
import LruMem.Props.C07c
/-!
# C19 at the pointer level

`C19_readonly` (Level A) says a `&self` operation returns the same *cache value*. Here the same is
proved of the pointer structure: after any shared-reference operation the Level B state is **equal** to
the one before — every `prev`/`next` link of every node and of the seal, every bucket state, every
recorded entry size, every stored key and value, the table listing, totals, shape, the allocation
counter, and the `ub` flag (so the operation also performed no invalid read). For the borrowing
iterators this is a theorem about the two-cursor walk (`iter_borrowing`), for `clone` about the copy
loop reading the source only (`C14_clone_closed`).
-/
namespace LruMem

theorem C19_ptr_readonly {p : Params} {c : CacheB} {l : List Nat} (h : RefInv p c l) (op : Op) (o : Oracle)
    (hs : op.sharedRef = true) : stepB p c op o = c := by
  cases op with
  | iterate k calls forget =>
    simp only [Op.sharedRef] at hs
    exact (iter_borrowing h k hs calls forget).1
  | peek id => rfl
  | peekEntry id => rfl
  | peekLru => rfl
  | peekMru => rfl
  | contains id => rfl
  | debugFmt => rfl
  | cloneProbe base =>
    obtain ⟨l', r, _, _, _⟩ := C14_clone_closed base h
    exact ub_eta c _ h.rep.noUb (dropCache_noUb r)
  | _ => simp [Op.sharedRef] at hs

/-- Any sequence (hence any interleaving issued by several readers) of shared-reference operations
leaves the pointer structure equal to the initial one. -/
theorem C19_ptr_interleave {p : Params} {c : CacheB} {l : List Nat} (h : RefInv p c l)
    (ops : List (Op × Oracle)) (hs : ∀ x ∈ ops, x.1.sharedRef = true) : runOpsB p c ops = c := by
  induction ops with
  | nil => rfl
  | cons a ops ih =>
    simp only [runOpsB]
    rw [C19_ptr_readonly h a.1 a.2 (hs a (by simp))]
    exact ih (fun x hx => hs x (by simp [hx]))

/-! non-vacuity: a three-entry structure, a mixed sequence of readers -/
private def p0 : Params := ⟨64, 16, 18446744073709551615⟩
private def cb : CacheB :=
  (((CacheB.new 1000 0).insert p0 ⟨1, 0, 1⟩ ⟨0, 2⟩ {}).insert p0 ⟨2, 0, 3⟩ ⟨0, 4⟩ {}).insert p0 ⟨3, 0, 5⟩ ⟨0, 6⟩ {}
example : ∀ x ∈ ([(.peek 2, {}), (.iterate .iter [true, false, true, true] false, {}), (.cloneProbe 100, {}),
    (.contains 9, {}), (.iterate .values [false] true, {})] : List (Op × Oracle)), x.1.sharedRef = true := by decide
example : cb.order.length = 3 ∧ cb.ub = false := by decide

end LruMem
