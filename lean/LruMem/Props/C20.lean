import LruMem.Proofs.Spec
/-!
# C20 — hashing work per operation is bounded independently of the cache size

`hashCount evs` = number of `Hash::hash` invocations on keys (probe or stored) during the step.
An entry *leaves* during a step when its key object is dropped by the cache or handed back to the
caller; `leaves` counts that from the step's own events and output.
-/
namespace LruMem

def dropKCount : List Ev → Nat
  | [] => 0
  | .dropK _ :: l => dropKCount l + 1
  | _ :: l => dropKCount l

/-- number of entries that leave the cache during a step -/
def leaves (r : Res) : Nat :=
  dropKCount r.evs + (match r.out with | .ownPair (some _) => 1 | .mutTooLarge .. => 1 | _ => 0)

def rebuiltN (r : Res) : Nat := match r.rebuilt with | some n => n | none => 0

@[simp] theorem hashCount_append (a b : List Ev) : hashCount (a ++ b) = hashCount a + hashCount b := by
  induction a with
  | nil => simp [hashCount]
  | cons e a ih => cases e <;> simp [hashCount, ih] <;> omega

@[simp] theorem dropKCount_append (a b : List Ev) : dropKCount (a ++ b) = dropKCount a + dropKCount b := by
  induction a with
  | nil => simp [dropKCount]
  | cons e a ih => cases e <;> simp [dropKCount, ih] <;> omega

@[simp] theorem hashCount_evict (l : List Entry) : hashCount (evictAllEvs l) = l.length := by
  induction l with
  | nil => rfl
  | cons e l ih =>
    simp only [evictAllEvs, List.flatMap_cons, evictEvs] at *
    simp [hashCount, ih]

@[simp] theorem dropKCount_evict (l : List Entry) : dropKCount (evictAllEvs l) = l.length := by
  induction l with
  | nil => rfl
  | cons e l ih =>
    simp only [evictAllEvs, List.flatMap_cons, evictEvs] at *
    simp [dropKCount, ih]

@[simp] theorem hashCount_rehash (l : List Entry) : hashCount (rehashEvs l) = l.length := by
  induction l with
  | nil => rfl
  | cons e l ih => simp [rehashEvs, hashCount] at *; exact ih

@[simp] theorem dropKCount_rehash (l : List Entry) : dropKCount (rehashEvs l) = 0 := by
  induction l with
  | nil => rfl
  | cons e l ih => simp [rehashEvs, dropKCount] at *; exact ih

theorem hashCount_dropAll (l : List Entry) : hashCount (dropAllEvs l) = 0 := by
  induction l with
  | nil => rfl
  | cons e l ih => simp [dropAllEvs, hashCount] at *; exact ih

/-- A table rebuild hashes each held entry exactly once. -/
theorem C20_realloc_once (c : Cache) (n : Nat) : hashCount (rebuild c n).2 = c.entries.length := by
  simp [rebuild]

/-- `insert_unchecked`: no hashing unless the table is rebuilt, and then once per held entry. -/
theorem insertUnchecked_hash (c : Cache) (e : Entry) (o : Oracle) :
    (hashCount (insertUnchecked c e o).evs = 0 ∧ (insertUnchecked c e o).rebuilt = none ∨
     hashCount (insertUnchecked c e o).evs = c.entries.length ∧ (insertUnchecked c e o).rebuilt = some c.entries.length) ∧
    dropKCount (insertUnchecked c e o).evs = 0 := by
  simp only [insertUnchecked]
  split
  · exact ⟨Or.inl ⟨rfl, rfl⟩, rfl⟩
  · split
    · exact ⟨Or.inr ⟨hashCount_rehash _, rfl⟩, dropKCount_rehash _⟩
    · exact ⟨Or.inr ⟨hashCount_rehash _, rfl⟩, dropKCount_rehash _⟩

theorem bound_of_le_two (r : Res) (h : hashCount r.evs ≤ 2) : hashCount r.evs ≤ 2 + leaves r + rebuiltN r := by
  omega

/-- Lookups, `touch`, removals by key: exactly one hash. -/
theorem C20_one (c : Cache) (id : Nat) (o : Oracle) :
    hashCount (get c id).evs = 1 ∧ hashCount (getEntry c id).evs = 1 ∧ hashCount (touch c id).evs = 1 ∧
    hashCount (peek c id).evs = 1 ∧ hashCount (peekEntry c id).evs = 1 ∧ hashCount (contains c id).evs = 1 ∧
    hashCount (remove c id o).evs = 1 ∧ hashCount (removeEntry c id o).evs = 1 := by
  refine ⟨?_, ?_, ?_, rfl, rfl, rfl, ?_, ?_⟩
  · simp only [get, getEntry]; split <;> rfl
  · simp only [getEntry]; split <;> rfl
  · simp only [touch, getEntry]; split <;> rfl
  · simp only [remove, removeEntry]; split <;> rfl
  · simp only [removeEntry]; split <;> rfl

/-- `remove_lru` / `remove_mru`: one hash (of the stored key) when there is an entry, none otherwise. -/
theorem C20_ends (c : Cache) (o : Oracle) :
    hashCount (removeLru c o).evs = (if c.entries = [] then 0 else 1) ∧
    hashCount (removeMru c o).evs = (if c.entries = [] then 0 else 1) := by
  constructor
  · cases hc : c.entries with
    | nil => simp [removeLru, lruOf, hc, hashCount]
    | cons a l => simp [removeLru, lruOf, hc, removeEntry, lookup_cons, hashCount]
  · cases hm : mruOf c.entries with
    | none =>
      have : c.entries = [] := by simpa [mruOf] using hm
      rw [if_pos this]
      simp only [removeMru, hm]
      rfl
    | some e =>
      have : c.entries ≠ [] := by intro hh; simp [mruOf, hh] at hm
      simp only [removeMru, hm, this, if_false, removeEntry]
      split <;> rfl

theorem hashCount_yield (kind : IterKind) (ys : List (Option Entry)) : hashCount (yieldEvs kind ys) = 0 := by
  cases kind <;> simp only [yieldEvs] <;> try rfl
  all_goals
    induction ys with
    | nil => rfl
    | cons y ys ih => cases y <;> simp [hashCount] at * <;> exact ih

/-- Traversals (all seven iterator kinds, any calls, dropped or leaked), `clear`, `Debug`, the
LRU/MRU peeks and `get_lru` hash nothing. -/
theorem C20_zero (p : Params) (c : Cache) (o : Oracle) (kind : IterKind) (calls : List Bool) (fg : Bool) :
    hashCount (getLru c).evs = 0 ∧ hashCount (peekLru c).evs = 0 ∧ hashCount (peekMru c).evs = 0 ∧
    hashCount (clear c).evs = 0 ∧ hashCount (step p c .debugFmt o).evs = 0 ∧
    hashCount (iterScenario c kind calls fg).evs = 0 ∧ hashCount (dropCache c) = 0 := by
  refine ⟨?_, rfl, rfl, hashCount_dropAll _, rfl, ?_, hashCount_dropAll _⟩
  · simp only [getLru]; split <;> rfl
  · simp only [iterScenario]
    split
    · rfl
    · cases kind <;> (simp only [hashCount_append, hashCount_yield, Nat.zero_add]; split <;> simp [hashCount, hashCount_dropAll])

/-- `insert`: one hash for the key, one per eviction, and one per held entry iff the table grows. -/
theorem C20_insert {p : Params} {c : Cache} (k : Key) (v : Val) (o : Oracle) (h : InvA p c) :
    hashCount (insert p c k v o).evs ≤ 2 + leaves (insert p c k v o) + rebuiltN (insert p c k v o) ∧
    (∀ n, (insert p c k v o).rebuilt = some n → n ≤ c.entries.length) := by
  simp only [insert]
  split
  · exact ⟨bound_of_le_two _ (by simp [hashCount]), by simp⟩
  · obtain ⟨_, hd, _, _⟩ := after_remove_eject h k.id (c.max - entrySize p k v) o.tombs (Nat.sub_le _ _)
    simp only [hd, Bool.false_eq_true, if_false]
    obtain ⟨a, b⟩ := insertUnchecked_hash
      { c with entries := (eject (removeId c.entries k.id) (c.cur - oldSize (lookup c.entries k.id)) (c.max - entrySize p k v)).rest,
               cur := (eject (removeId c.entries k.id) (c.cur - oldSize (lookup c.entries k.id)) (c.max - entrySize p k v)).cur,
               shape := c.shape.remove (oldCount (lookup c.entries k.id) +
                 (eject (removeId c.entries k.id) (c.cur - oldSize (lookup c.entries k.id)) (c.max - entrySize p k v)).evicted.length) o.tombs }
      ⟨k, v, entrySize p k v⟩ o
    have hlen := eject_length (removeId c.entries k.id) (c.cur - oldSize (lookup c.entries k.id)) (c.max - entrySize p k v)
    have hlen1 := length_removeId c.entries k.id
    constructor
    · simp only [leaves, rebuiltN, hashCount_append, dropKCount_append, hashCount_evict, dropKCount_evict, b]
      rcases a with ⟨a1, a2⟩ | ⟨a1, a2⟩
      · rw [a1, a2]; cases lookup c.entries k.id <;> simp [hashCount, dropKCount] <;> omega
      · rw [a1, a2]; cases lookup c.entries k.id <;> simp [hashCount, dropKCount] <;> omega
    · intro n hn
      rcases a with ⟨_, a2⟩ | ⟨_, a2⟩
      · rw [a2] at hn; cases hn
      · rw [a2] at hn; cases hn; simp only; omega

theorem C20_tryInsert {p : Params} {c : Cache} (k : Key) (v : Val) (o : Oracle) :
    hashCount (tryInsert p c k v o).evs ≤ 2 + leaves (tryInsert p c k v o) + rebuiltN (tryInsert p c k v o) ∧
    (∀ n, (tryInsert p c k v o).rebuilt = some n → n ≤ c.entries.length) := by
  simp only [tryInsert]
  split
  · exact ⟨bound_of_le_two _ (by simp [hashCount]), by simp⟩
  · split
    · exact ⟨bound_of_le_two _ (by simp [hashCount]), by simp⟩
    · split
      · exact ⟨bound_of_le_two _ (by simp [hashCount]), by simp⟩
      · obtain ⟨a, b⟩ := insertUnchecked_hash c ⟨k, v, entrySize p k v⟩ o
        constructor
        · simp only [leaves, rebuiltN, hashCount_append, dropKCount_append, b]
          rcases a with ⟨a1, a2⟩ | ⟨a1, a2⟩ <;> (rw [a1, a2]; simp [hashCount, dropKCount]; try omega)
        · intro n hn
          rcases a with ⟨_, a2⟩ | ⟨_, a2⟩
          · rw [a2] at hn; cases hn
          · rw [a2] at hn; cases hn; exact Nat.le_refl _

/-- `mutate`: 1 hash (absent, shrinking, same size), 1 + evictions (growing), 2 on overflow. -/
theorem C20_mutate {p : Params} {c : Cache} (id : Nat) (f : Val → Val × Nat) (o : Oracle) :
    hashCount (mutate p c id f o).evs ≤ 2 + leaves (mutate p c id f o) + rebuiltN (mutate p c id f o) ∧
    (mutate p c id f o).rebuilt = none := by
  simp only [mutate]
  split
  · exact ⟨bound_of_le_two _ (by simp [hashCount]), rfl⟩
  · split
    · split
      · refine ⟨?_, rfl⟩
        simp only [leaves, rebuiltN, hashCount_append, dropKCount_append]
        split <;> simp [hashCount, dropKCount]
      · refine ⟨?_, rfl⟩
        simp only [leaves, rebuiltN, hashCount_append, dropKCount_append, hashCount_evict, dropKCount_evict]
        split <;> simp [hashCount, dropKCount] <;> omega
    · refine ⟨?_, rfl⟩
      simp only [leaves, rebuiltN, hashCount_append, dropKCount_append]
      split <;> simp [hashCount, dropKCount]

theorem retain_hash {σ : Type} (pr : σ → Key → Val → Bool × σ) (st : σ) (l : List Entry) :
    hashCount (retainGo pr st l).evs = (retainGo pr st l).removed.length ∧
    dropKCount (retainGo pr st l).evs = (retainGo pr st l).removed.length := by
  induction l generalizing st with
  | nil => exact ⟨rfl, rfl⟩
  | cons e l ih =>
    obtain ⟨a, b⟩ := ih (pr st e.key e.val).2
    simp only [retainGo]
    split <;> simp [hashCount, dropKCount, a, b]

/-- `set_max_size` hashes once per eviction, `retain` once per rejected entry. -/
theorem C20_evictors {σ : Type} (c : Cache) (m : Nat) (o : Oracle) (pr : σ → Key → Val → Bool × σ) (st : σ) :
    hashCount (setMaxSize c m o).evs = (eject c.entries c.cur m).evicted.length ∧
    hashCount (setMaxSize c m o).evs = dropKCount (setMaxSize c m o).evs ∧
    hashCount (retain c pr st o).evs = (retainGo pr st c.entries).removed.length ∧
    hashCount (retain c pr st o).evs = dropKCount (retain c pr st o).evs := by
  obtain ⟨a, b⟩ := retain_hash pr st c.entries
  exact ⟨by simp [setMaxSize], by simp [setMaxSize], a, by simp only [retain]; rw [a, b]⟩

/-- Capacity operations hash each held entry once iff they rebuild the table, else nothing. -/
theorem C20_capacity (p : Params) (c : Cache) (a : Nat) (o : Oracle) :
    (hashCount (reserve p c a o).evs = rebuiltN (reserve p c a o) ∧ rebuiltN (reserve p c a o) ≤ c.entries.length) ∧
    (hashCount (tryReserve p c a o).evs = rebuiltN (tryReserve p c a o) ∧ rebuiltN (tryReserve p c a o) ≤ c.entries.length) ∧
    (hashCount (shrinkTo p c a o).evs = rebuiltN (shrinkTo p c a o) ∧ rebuiltN (shrinkTo p c a o) ≤ c.entries.length) ∧
    (hashCount (shrinkToFit p c o).evs = rebuiltN (shrinkToFit p c o) ∧ rebuiltN (shrinkToFit p c o) ≤ c.entries.length) := by
  refine ⟨?_, ?_, ?_, ?_⟩
  · simp only [reserve]; split <;> (try split) <;> (try split) <;> simp [rebuiltN, rebuild, hashCount]
  · simp only [tryReserve]; split <;> (try split) <;> (try split) <;> (try split) <;> simp [rebuiltN, rebuild, hashCount]
  · simp only [shrinkTo]; split <;> (try split) <;> (try split) <;> simp [rebuiltN, rebuild, hashCount]
  · simp only [shrinkToFit, shrinkTo]; split <;> (try split) <;> (try split) <;> simp [rebuiltN, rebuild, hashCount]

theorem hashCount_cloneEvs (l : List Entry) (b : Nat) : hashCount (cloneEvs l b) = l.length := by
  induction l generalizing b with
  | nil => rfl
  | cons e l ih => simp [cloneEvs, hashCount, ih]

/-- `clone` hashes each copied entry exactly once (it builds a table). -/
theorem C20_clone (c : Cache) (base : Nat) : hashCount (clone c base).2.1 = c.entries.length := by
  simp [clone, hashCount_cloneEvs]

/-- The general bound, for every operation in every state: at most two hashes, plus one per entry
that leaves the cache during the step, plus — only when the step rebuilds the table (`rebuilt =
some n`, `n` = entries held at the rebuild) — one per held entry. -/
theorem C20_bound {p : Params} {c : Cache} (op : Op) (o : Oracle) (h : InvA p c) :
    hashCount (step p c op o).evs ≤ 2 + leaves (step p c op o) + rebuiltN (step p c op o) := by
  have one := C20_one c
  cases op with
  | insert k v => exact (C20_insert k v o h).1
  | tryInsert k v => exact (C20_tryInsert k v o).1
  | mutate id f => exact (C20_mutate id f o).1
  | setMaxSize m =>
    have := (C20_evictors c m o (indexPred fun _ _ _ => true) 0).2.1
    show hashCount (setMaxSize c m o).evs ≤ 2 + leaves (setMaxSize c m o) + rebuiltN (setMaxSize c m o)
    simp only [leaves]; omega
  | retain pr =>
    have := (C20_evictors c 0 o (indexPred pr) 0).2.2.2
    show hashCount (retain c (indexPred pr) 0 o).evs ≤ 2 + leaves (retain c (indexPred pr) 0 o) + rebuiltN (retain c (indexPred pr) 0 o)
    simp only [leaves]; omega
  | reserve a => have := (C20_capacity p c a o).1.1; show hashCount (reserve p c a o).evs ≤ 2 + leaves (reserve p c a o) + rebuiltN (reserve p c a o); omega
  | tryReserve a => have := (C20_capacity p c a o).2.1.1; show hashCount (tryReserve p c a o).evs ≤ 2 + leaves (tryReserve p c a o) + rebuiltN (tryReserve p c a o); omega
  | shrinkTo a => have := (C20_capacity p c a o).2.2.1.1; show hashCount (shrinkTo p c a o).evs ≤ 2 + leaves (shrinkTo p c a o) + rebuiltN (shrinkTo p c a o); omega
  | shrinkToFit => have := (C20_capacity p c 0 o).2.2.2.1; show hashCount (shrinkToFit p c o).evs ≤ 2 + leaves (shrinkToFit p c o) + rebuiltN (shrinkToFit p c o); omega
  | cloneProbe base =>
    have h1 := C20_clone c base
    have h2 := (C20_zero p (clone c base).1 o .iter [] false).2.2.2.2.2.2
    have : hashCount (step p c (.cloneProbe base) o).evs = c.entries.length := by
      simp only [step, hashCount_append, h1, h2, Nat.add_zero]
    have hr : rebuiltN (step p c (.cloneProbe base) o) = c.entries.length := rfl
    omega
  | get id => exact bound_of_le_two _ (by show hashCount (get c id).evs ≤ 2; have := (one id o).1; omega)
  | getEntry id => exact bound_of_le_two _ (by show hashCount (getEntry c id).evs ≤ 2; have := (one id o).2.1; omega)
  | touch id => exact bound_of_le_two _ (by show hashCount (touch c id).evs ≤ 2; have := (one id o).2.2.1; omega)
  | peek id => exact bound_of_le_two _ (by show hashCount (peek c id).evs ≤ 2; have := (one id o).2.2.2.1; omega)
  | peekEntry id => exact bound_of_le_two _ (by show hashCount (peekEntry c id).evs ≤ 2; have := (one id o).2.2.2.2.1; omega)
  | contains id => exact bound_of_le_two _ (by show hashCount (contains c id).evs ≤ 2; have := (one id o).2.2.2.2.2.1; omega)
  | remove id => exact bound_of_le_two _ (by show hashCount (remove c id o).evs ≤ 2; have := (one id o).2.2.2.2.2.2.1; omega)
  | removeEntry id => exact bound_of_le_two _ (by show hashCount (removeEntry c id o).evs ≤ 2; have := (one id o).2.2.2.2.2.2.2; omega)
  | removeLru => exact bound_of_le_two _ (by show hashCount (removeLru c o).evs ≤ 2; have := (C20_ends c o).1; split at this <;> omega)
  | removeMru => exact bound_of_le_two _ (by show hashCount (removeMru c o).evs ≤ 2; have := (C20_ends c o).2; split at this <;> omega)
  | getLru => exact bound_of_le_two _ (by show hashCount (getLru c).evs ≤ 2; have := (C20_zero p c o .iter [] false).1; omega)
  | peekLru => exact bound_of_le_two _ (by show hashCount (peekLru c).evs ≤ 2; simp [peekLru, hashCount])
  | peekMru => exact bound_of_le_two _ (by show hashCount (peekMru c).evs ≤ 2; simp [peekMru, hashCount])
  | clear => exact bound_of_le_two _ (by show hashCount (clear c).evs ≤ 2; have := (C20_zero p c o .iter [] false).2.2.2.1; omega)
  | iterate kind calls forget =>
    exact bound_of_le_two _ (by
      show hashCount (iterScenario c kind calls forget).evs ≤ 2
      have := (C20_zero p c o kind calls forget).2.2.2.2.2.1; omega)
  | debugFmt => exact bound_of_le_two _ (by simp [step, hashCount])

/-- …and a rebuild only ever re-hashes entries that were held: `n ≤ len`. -/
theorem C20_rebuilt_le {p : Params} {c : Cache} (op : Op) (o : Oracle) (h : InvA p c) :
    rebuiltN (step p c op o) ≤ c.entries.length := by
  cases op with
  | insert k v =>
    have := (C20_insert k v o h).2
    simp only [step, rebuiltN]; split
    · exact this _ (by assumption)
    · omega
  | tryInsert k v =>
    have := (C20_tryInsert (p := p) (c := c) k v o).2
    simp only [step, rebuiltN]; split
    · exact this _ (by assumption)
    · omega
  | mutate id f => simp [step, rebuiltN, (C20_mutate (p := p) (c := c) id f o).2]
  | reserve a => exact (C20_capacity p c a o).1.2
  | tryReserve a => exact (C20_capacity p c a o).2.1.2
  | shrinkTo a => exact (C20_capacity p c a o).2.2.1.2
  | shrinkToFit => exact (C20_capacity p c 0 o).2.2.2.2
  | cloneProbe base => exact Nat.le_refl _
  | setMaxSize m => simp [step, setMaxSize, rebuiltN]
  | retain pr => simp [step, retain, rebuiltN]
  | get id => simp only [step, get, getEntry]; split <;> exact Nat.zero_le _
  | getEntry id => simp only [step, getEntry]; split <;> exact Nat.zero_le _
  | touch id => simp only [step, touch, getEntry]; split <;> exact Nat.zero_le _
  | peek id => simp [step, peek, rebuiltN]
  | peekEntry id => simp [step, peekEntry, rebuiltN]
  | contains id => simp [step, contains, rebuiltN]
  | remove id => simp only [step, remove, removeEntry]; split <;> (try split) <;> exact Nat.zero_le _
  | removeEntry id => simp only [step, removeEntry]; split <;> exact Nat.zero_le _
  | removeLru => simp only [step, removeLru, removeEntry]; split <;> (try split) <;> exact Nat.zero_le _
  | removeMru => simp only [step, removeMru, removeEntry]; split <;> (try split) <;> exact Nat.zero_le _
  | getLru => simp only [step, getLru]; split <;> exact Nat.zero_le _
  | peekLru => simp [step, peekLru, rebuiltN]
  | peekMru => simp [step, peekMru, rebuiltN]
  | clear => simp [step, clear, rebuiltN]
  | iterate kind calls forget => simp [step, rebuiltN]
  | debugFmt => simp [step, rebuiltN]

/-! ### non-vacuity: an insert into a full 3-slot table with two evictions; a growing insert -/
private def p0 : Params := ⟨64, 16, 18446744073709551615⟩
private def c20 : Cache :=
  runOps p0 (Cache.new 200) [(.insert ⟨1, 0, 1⟩ ⟨0, 2⟩, {}), (.insert ⟨2, 0, 3⟩ ⟨0, 4⟩, {}), (.insert ⟨3, 0, 5⟩ ⟨0, 6⟩, {})]
example : hashCount (step p0 c20 (.insert ⟨4, 0, 7⟩ ⟨72, 8⟩) {}).evs = 3 ∧ leaves (step p0 c20 (.insert ⟨4, 0, 7⟩ ⟨72, 8⟩) {}) = 2 := by decide
example : hashCount (step p0 { c20 with max := 1000 } (.insert ⟨4, 0, 7⟩ ⟨0, 8⟩) {}).evs = 4 ∧
    rebuiltN (step p0 { c20 with max := 1000 } (.insert ⟨4, 0, 7⟩ ⟨0, 8⟩) {}) = 3 := by decide

end LruMem
