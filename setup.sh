#!/bin/sh
# Builds the whole framework from files on disk (offline): the Lean development (models, proofs,
# property theorems, native driver) and the Rust harness against /repo's current tree.
set -e
cd "$(dirname "$0")"
export CARGO_NET_OFFLINE=true
mkdir -p work replays evidence
[ -f harness/Cargo.lock ] || cp /repo/Cargo.lock harness/Cargo.lock
(cd lean && lake build LruMem lrudriver)
(cd harness && (cargo build --release --offline || cargo build --release --offline --no-default-features) && (cargo build --offline || cargo build --offline --no-default-features))
# the builds that instantiate the cache with key / value types without drop glue (used by several checks)
(cd harness && for v in plain-v plain-k; do cargo build --release --offline --features $v --target-dir target-$v || true; done; cargo build --release --offline --features plain-v,plain-k --target-dir target-plain-kv || true)
