#!/bin/sh
# Builds the whole framework from files on disk (offline): the Lean development (models, proofs,
# property theorems, native driver) and the Rust harness against /repo's current tree.
set -e
cd "$(dirname "$0")"
export CARGO_NET_OFFLINE=true
mkdir -p work replays evidence
[ -f harness/Cargo.lock ] || cp /repo/Cargo.lock harness/Cargo.lock
# the declaration tables of C18 and C08/C09 are generated from /repo's source (never taken from a previous run)
python3 tools/decls.py /repo/src lean/LruMem/Generated/Decls.lean || echo "setup: decls.py could not translate /repo/src (the C18 check will report it)"
python3 tools/memdecls.py /repo/src lean/LruMem/Generated/MemDecls.lean || echo "setup: memdecls.py could not translate /repo/src/mem_size.rs (the C08/C09 checks will report it)"
# the driver must build; the theorems are (re)built and audited by each check — a theorem that no longer
# holds of a regenerated table is that check's finding, not a setup failure
(cd lean && lake build lrudriver && (lake build LruMem || echo "setup: some Lean modules did not build (reported by the checks concerned)"))
(cd harness && (cargo build --release --offline || cargo build --release --offline --no-default-features) && (cargo build --offline || cargo build --offline --no-default-features))
# the builds that instantiate the cache with key / value types without drop glue (used by every check)
(cd harness && for v in plain-v plain-k; do cargo build --release --offline --features $v --target-dir target-$v || true; done; cargo build --release --offline --features plain-v,plain-k --target-dir target-plain-kv || true)
