"""Machinery behind /verif/check (see its docstring and DESIGN.md §4–5)."""
import sys, os, re, json, time, subprocess, shutil, hashlib
import concurrent.futures as cf

NCPU = min(16, os.cpu_count() or 4)
TIMEOUT_RC = -999
# watchdog per harness shard: the real code must not hang (C01: every operation returns)
SHARD_TIMEOUT = {"quick": 40, "thorough": 600}
FORBIDDEN = re.compile(r"\bsorry\b|\badmit\b|^\s*axiom\s|native_decide|bv_decide|implemented_by|\bunsafe\s|maxHeartbeats\s+0")
ALLOWED_AXIOMS = {"propext", "Classical.choice", "Quot.sound"}

TRUSTED_BASE = [
    "Lean 4.33.0 kernel (lake build); axioms limited to propext, Classical.choice, Quot.sound (audited per theorem)",
    "hand-written Lean models LruMem/Model/* are tied to /repo only through the correspondence run of this check",
    "correspondence machinery: Rust harness (instrumented key/value/hasher types, canonicalisation), lrudriver, tools/checklib.py",
    "A-hashbrown: RawTable is an exact finite map; slot/tombstone choices are an oracle the theorems quantify over",
    "A-sizes: size estimates do not overflow usize when summed; key sizes constant, value sizes change only inside mutate",
]

# ----------------------------------------------------------------------------------------------
# field -> property map (DESIGN.md §4.4)

LOOKUPS = {"get", "gete", "peek", "peeke", "has", "rm", "rme", "touch"}
ENDS = {"rmlru", "rmmru", "getlru", "peeklru", "peekmru"}
CAPOPS = {"reserve", "tryreserve", "shrink", "shrinkfit"}
SHARED = {"peek", "peeke", "has", "peeklru", "peekmru", "dbg", "nop", "readers"}


def op_name(ops_line):
    t = ops_line.split(" | ")[0].split(" ")
    if len(t) < 2:
        return "?"
    if t[1] == "clonefrom":
        return "clone"
    if t[1] in ("new", "clone", "drop"):
        return t[1]
    return t[2] if len(t) > 2 else "?"


def line_props(ops_line, field):
    """Properties whose theorems speak about `field` of the observation of this operation."""
    name = op_name(ops_line)
    toks = ops_line.split(" | ")[0].split(" ")
    props = set()
    is_it = name == "it"
    it_kind = toks[3] if is_it and len(toks) > 3 else ""
    forget = is_it and toks[-1] == "f" or (is_it and len(toks) > 5 and toks[5] == "f")
    panic = any(t.startswith("!") for t in toks)
    shared = name in SHARED or (is_it and it_kind in ("iter", "keys", "values"))
    if field == "ret":
        if name in ("ins",):
            props |= {"C04", "C10"}
        elif name == "tins":
            props |= {"C10", "C04"}
        elif name in LOOKUPS:
            props |= {"C04"}
        elif name in ENDS:
            props |= {"C05", "C04"}
        elif name == "mut":
            props |= {"C11"}
        elif is_it:
            props |= {"C12"}
        elif name == "dbg":
            props |= {"C05"}
        elif name in CAPOPS:
            props |= {"C13"}
        elif name == "clone":
            props |= {"C14"}
    elif field == "len":
        props |= {"C02", "C07"}
    elif field == "cur":
        props |= {"C01", "C02"}
    elif field == "max":
        props |= {"C01"}
    elif field in ("cap", "bk"):
        props |= {"C13"}
        if name == "clone":
            props |= {"C14"}
    elif field == "ord":
        props |= {"C03", "C04", "C05", "C02"}
        if name == "mut":
            props |= {"C11"}
        if name == "retain":
            props |= {"C15"}
        if is_it:
            props |= {"C12"}
        if name == "clone":
            props |= {"C14"}
        if name in ("ins", "tins"):
            props |= {"C10"}
    elif field == "rs":
        props |= {"C02"}
        if name == "mut":
            props |= {"C11"}
        if name == "clone":
            props |= {"C14"}
    elif field == "rord":
        props |= {"C05", "C07"}
    elif field in ("lru", "mru"):
        props |= {"C05"}
    elif field in ("h", "hs"):
        props |= {"C20"}
    elif field == "ev":
        props |= {"C06"}
        if name == "retain":
            props |= {"C15"}
        if name == "mut":
            props |= {"C11"}
        if name in ("ins", "setmax", "mut"):
            props |= {"C03"}
        if name == "clone":
            props |= {"C14"}
        if is_it:
            props |= {"C12"}
        if name in ("ins", "tins"):
            props |= {"C10"}
    elif field == "st":
        props |= {"C13"} if name in CAPOPS else {"C07"}
    elif field == "WALKERR":
        props |= {"C07"}
    if shared and field not in ("ret", "h", "hs", "ev"):
        props |= {"C19"}
    if panic:
        props |= {"C16"}
    if forget:
        props |= {"C17"}
    if name == "clone" or name == "drop":
        props |= {"C14"} if field in ("ord", "cur", "max", "len") else set()
    return props


def _items(v):
    v = (v or "").strip()
    if not (v.startswith("[") and v.endswith("]")):
        return None
    v = v[1:-1]
    return [x for x in v.split(",") if x] if v else []


def relevant(prop, fields, a, b, opline=""):
    """Model and implementation differ in `fields` of one line (both started from the same state — the
    driver re-synchronises). Is the difference one that `prop`'s theorems speak about, or merely the echo
    of a difference that belongs to another property (other contents => other total, other order, fewer
    hashes)? Only the cases that can be decided from the two lines are filtered; everything else stays."""
    try:
        if prop == "C05":
            # order: the relative order of the entries both sides hold, and who is most-recently-used among them
            oa, ob = _items(a.get("ord")), _items(b.get("ord"))
            if oa is None or ob is None:
                return True
            ka = [":".join(x.split(":")[:5]) for x in oa]
            kb = [":".join(x.split(":")[:5]) for x in ob]
            common = set(ka) & set(kb)
            if [x for x in ka if x in common] != [x for x in kb if x in common]:
                return True
            ra, rb = _items(a.get("rord")), _items(b.get("rord"))
            if ra is not None and rb is not None and (ra != [x.split(":")[0] for x in reversed(oa)]) != (rb != [x.split(":")[0] for x in reversed(ob)]):
                return True
            return bool(set(fields) & {"ret"}) and a.get("ret", "").startswith(("p:", "v:", "I[")) and set(ka) == set(kb)
        if prop == "C20":
            # an upper bound on hashing: more hash calls than the model predicts
            if set(fields) & {"h", "hs"}:
                return int(a.get("h", "0")) > int(b.get("h", "0"))
            return True
        if prop == "C02":
            # exact accounting: the implementation's own total against its own recorded sizes and count
            ra, oa = _items(a.get("rs")), _items(a.get("ord"))
            if ra is None or oa is None:
                return True
            if int(a.get("cur", "0")) != sum(int(x) for x in ra) or int(a.get("len", "0")) != len(oa):
                return True
            def stale(o_, r_):
                return {(x.split(":")[0], x.split(":")[5], y) for x, y in zip(o_, r_) if x.split(":")[5] != y}
            ob0, rb0 = _items(b.get("ord")), _items(b.get("rs"))
            if stale(oa, ra) - (stale(ob0, rb0) if ob0 is not None and rb0 is not None and len(ob0) == len(rb0) else set()):
                # a recorded size that is not entry_size(key, value) — unless the model carries the very same stale
                # record (a value mutated by a closure whose size estimate then panicked: §13.6)
                return True
            # same contents but another total / other sizes
            ob = _items(b.get("ord"))
            return ob is not None and [x.split(":")[:5] for x in oa] == [x.split(":")[:5] for x in ob] and bool(set(fields) & {"cur", "rs", "ord"})
        if prop in ("C03", "C04", "C10") and "ret" not in fields and "st" not in fields:
            oa, ob = _items(a.get("ord")), _items(b.get("ord"))
            if oa is not None and ob is not None:
                ka = [":".join(x.split(":")[:5]) for x in oa]
                kb = [":".join(x.split(":")[:5]) for x in ob]
                drops = lambda line: [e for e in _evs(line.get("ev")) if e.startswith(("dK:", "dV:"))]
                left = lambda x, gone: ("dK:" + x.split(":")[2]) in gone or ("dV:" + x.split(":")[4]) in gone
                if prop == "C03" and sorted(ka) == sorted(kb) and drops(a) == drops(b):
                    # eviction: the same entries left, in the same order — another recency order of those that
                    # stayed is C05's (and the operation's own) matter
                    return False
                if prop == "C10" and a.get("ret", "")[:2] not in ("T.", "E.") and b.get("ret", "")[:2] not in ("T.", "E."):
                    # nothing was rejected on either side and both return the same: C10's remaining clause is
                    # "an entry that fits the free space is inserted without evicting anything"
                    return op_name(opline) in ("ins", "tins") and not drops(b) and bool(drops(a))
                if prop == "C04":
                    # a sequential map *given* the evictions that happened: same return value; every entry the
                    # implementation lacks left through a drop of this very call (evicted — C03's matter); every
                    # entry it has in excess is one the model evicted (not evicted here — C03 again)
                    if sorted(ka) == sorted(kb):
                        return False
                    if a.get("ret", "")[:2] in ("T.", "E."):
                        return True     # a rejected insertion evicts nothing
                    lack = [x for x in kb if x not in ka]
                    if lack != kb[:len(lack)]:
                        return True     # not a run of the least-recently-used entries
                    ga, gb = set(drops(a)), set(drops(b))
                    ha, hb = set(_items(a.get("hs")) or []), set(_items(b.get("hs")) or [])
                    return not (all(left(x, ga) or x.split(":")[0] in ha for x in kb if x not in ka)
                                and all(left(x, gb) or x.split(":")[0] in hb for x in ka if x not in kb))
        if prop == "C04" and op_name(opline) in ("ins", "tins") and set(fields) <= {"ret", "h", "hs", "ev"}:
            # the map is concerned when acceptance or the value handed back differs; *which* rejection an
            # insertion that both sides reject is classified as is C10's subject
            ra, rb = a.get("ret", ""), b.get("ret", "")
            if ra[:2] in ("T.", "E.") and rb[:2] in ("T.", "E."):
                return False
        if prop == "C06":
            # exactly-once: with the same contents afterwards, other drop events or another owned return value;
            # when the contents differ, *which* objects left is the business of C03/C04/C11/C15 and the token
            # table (the C06 monitor) speaks about the implementation directly
            oa, ob = _items(a.get("ord")), _items(b.get("ord"))
            if oa is None or ob is None:
                return True
            return sorted(":".join(x.split(":")[:5]) for x in oa) == sorted(":".join(x.split(":")[:5]) for x in ob)
        if prop in ("C07", "C16", "C17") and not (set(fields) & {"WALKERR", "st", "lb"}):
            # structure: the hook's verdict, the status, Level B — or the implementation's own traversals and len()
            # disagreeing with each other. Other contents in a coherent structure are not a structural matter.
            oa, ra = _items(a.get("ord")), _items(a.get("rord"))
            if oa is None or ra is None:
                return prop != "C07"
            incoherent = int(a.get("len", "0")) != len(oa) or ra != [x.split(":")[0] for x in reversed(oa)]
            if prop == "C07":
                return incoherent
            # C16 / C17 also own everything the scenario line itself (the panic / the forgotten iterator) shows
            if prop == "C17" and set(fields) <= {"ret", "h", "hs"}:
                return False    # *what* an iterator yields is C12's subject; C17 is about what is left behind
            if prop == "C16" and not incoherent and "!" in opline and "panic" in (a.get("st"), b.get("st")):
                # the line of the panic: C16 speaks about what is lost, dropped and accounted — not about the
                # relative order of what stays (C05 and the operation's own property)
                ob = _items(b.get("ord"))
                same = ob is not None and sorted(":".join(x.split(":")[:5]) for x in oa) == sorted(":".join(x.split(":")[:5]) for x in ob)
                return not (same and not (set(fields) - {"ord", "rord", "rs", "lru", "mru", "h", "hs"}))
            return incoherent or ("!" in opline and "panic" in (a.get("st"), b.get("st"))) or (" it " in opline and opline.split(" | ")[0].rstrip().endswith(" f"))
        if prop == "C13" and "len" in fields and op_name(opline) not in ("reserve", "tryreserve", "shrink", "shrinkfit", "new", "clone", "clonefrom"):
            # another number of entries after an insertion / removal: the capacity that follows from it is an echo;
            # the growth bound is checked on the implementation itself by the C13 monitor
            return bool(set(fields) - {"cap", "bk", "len", "cur", "ev", "h", "hs", "ord", "rord", "rs", "lru", "mru"})
        if prop == "C01":
            if "max" in fields:
                return True
            if "cur" in fields:
                return int(a.get("cur", "0")) > int(a.get("max", "0"))
            return True
    except (ValueError, IndexError):
        return True
    return True


def _evs(v):
    v = (v or "").strip()
    return v[1:-1].split() if v.startswith("[") and v.endswith("]") else []


# which events of a line's event list a property's statements are about: the ownership events (drops) for all of
# them; the closure / predicate / clone callbacks where the property counts or orders them. How often a *size
# estimate* is taken is nobody's promise (only that the accounting comes out right, which other fields show).
EV_KINDS = {"C06": ("dK", "dV"), "C10": ("dK", "dV"), "C03": ("dK", "dV"), "C12": ("dK", "dV"), "C04": ("dK", "dV"),
            "C11": ("dK", "dV", "cl"), "C15": ("dK", "dV", "pr"), "C14": ("dK", "dV", "cK", "cV")}


def only_callbacks(prop, fields, a, b):
    """The property is concerned on this line only through the event list / the hash count, and the part of
    them it speaks about agrees: an extra size estimate or a hash call within C20's bound (which the monitor
    checks on the implementation directly) is not a disagreement about this property."""
    if not fields:
        return False
    if fields <= {"h", "hs"}:
        # the hash count is C20's subject alone, and C20 is decided by its monitor
        return True
    if prop in ("C16", "C17", "C19", "C07") and fields <= {"ev", "h", "hs"}:
        keep = ("dK", "dV")
        return sorted(e for e in _evs(a.get("ev")) if e.split(":")[0] in keep) == sorted(e for e in _evs(b.get("ev")) if e.split(":")[0] in keep)
    if fields <= {"ev"} and prop in EV_KINDS:
        keep = EV_KINDS[prop]
        pa = [e for e in _evs(a.get("ev")) if e.split(":")[0] in keep]
        pb = [e for e in _evs(b.get("ev")) if e.split(":")[0] in keep]
        if prop in ("C06", "C10", "C04", "C12", "C14"):
            pa, pb = sorted(pa), sorted(pb)
        return pa == pb
    return False


def line_is_shared(ops_line):
    name = op_name(ops_line)
    toks = ops_line.split(" | ")[0].split(" ")
    return name in SHARED or (name == "it" and len(toks) > 3 and toks[3] in ("iter", "keys", "values"))


FIELD_RE = re.compile(r"(\w+)=(\[[^\]]*\]|\S+)")


def parse_fields(line):
    d = {k: v for k, v in FIELD_RE.findall(line)}
    if " WALKERR" in line:
        d["WALKERR"] = "1"
    return d


# ----------------------------------------------------------------------------------------------
# families per property: (family, seqs, extra args); thorough scales them

BASE = [("rand", 600, []), ("tiny", 600, []), ("wide", 40, []), ("mutate", 200, []), ("insert", 200, []),
        ("order", 100, []), ("retain", 100, []), ("iter", 150, []), ("clone", 100, []), ("capacity", 40, []),
        ("churn", 3, []), ("huge", 1, []), ("extreme", 120, []), ("panicx", 0, ["--rounds", "2"]), ("deepreplace", 0, []), ("bigevict", 0, []), ("tomb", 0, []), ("cluster", 0, []), ("panic", 60, []), ("exh", 0, ["--depth", "2"])]


def fam(name, seqs, *extra):
    return (name, seqs, list(extra))


# Builds of the harness that instantiate the cache with a value (key) type *without drop glue*
# (`mem::needs_drop::<V>() == false`): code that specialises on the type parameters is only reached
# this way. The model's prediction is projected: drop events of the plain side do not exist.
VARIANTS = {"plain-v": re.compile(r"dV:\d+ ?"), "plain-k": re.compile(r"dK:\d+ ?"), "plain-kv": re.compile(r"d[KV]:\d+ ?")}
VARIANT_FEATURES = {"plain-v": "plain-v", "plain-k": "plain-k", "plain-kv": "plain-v,plain-k"}

# every property runs a small general plan on the three drop-glue-free instantiations; the ones below add their own
VARIANT_DEFAULT = [("rand", 120, []), ("tiny", 120, []), ("clone", 40, [])]
VARIANT_PLAN = {
    "C06": [fam("iterx", 0, "--entries", "3", "--calls", "4"), fam("iter", 150), fam("retain", 100), fam("insert", 150)],
    "C12": [fam("iterx", 0, "--entries", "3", "--calls", "5"), fam("iter", 200)],
    "C15": [fam("retainx", 0, "--entries", "5"), fam("retain", 200)],
    "C17": [fam("forgetx", 0, "--entries", "3", "--calls", "5"), fam("forget", 200)],
    "C03": [fam("insert", 200)],
    "C11": [fam("mutate", 200)],
    "C16": [fam("panicx", 0, "--rounds", "2"), fam("panic", 150)],
    "C07": [fam("capacity", 60), fam("rand", 150)],
    "C19": [fam("order", 100), fam("iter", 100)],
}


def project_pred(path, variant):
    rx = VARIANTS[variant]
    out = []
    for l in open(path):
        m = re.search(r"ev=\[([^\]]*)\]", l)
        if m:
            ev = rx.sub("", m.group(1)).strip()
            l = l[:m.start(1)] + ev + l[m.end(1):]
        out.append(l)
    with open(path, "w") as f:
        f.writelines(out)


def variant_of(lines):
    for l in lines[:3]:
        m = re.search(r"types=(\S+)", l)
        if l.startswith("# seq") and m:
            return m.group(1)
    return None


EMPHASIS = {
    "C01": [fam("insert", 800), fam("mutate", 800), fam("extreme", 300)],
    "C02": [fam("mutate", 1000), fam("insert", 400)],
    "C03": [fam("insert", 800), fam("mutate", 600)],
    "C04": [fam("wide", 120), fam("churn", 6)],
    "C05": [fam("order", 600)],
    "C06": [fam("iter", 600), fam("clone", 300), fam("iterx", 0, "--entries", "3", "--calls", "5")],
    "C07": [fam("churn", 10), fam("capacity", 150), fam("wide", 100), fam("tomb", 0)],
    "C10": [fam("insert", 1500), fam("extreme", 600)],
    "C11": [fam("mutate", 1500), fam("extreme", 300)],
    "C12": [fam("iterx", 0, "--entries", "4", "--calls", "6"), fam("iter", 600)],
    "C13": [fam("capacity", 300), fam("churn", 10), fam("capx", 0), fam("slide", 0), fam("tomb", 0)],
    "C14": [fam("clone", 1000)],
    "C15": [fam("retainx", 0, "--entries", "6"), fam("retain", 600)],
    "C16": [fam("panic", 300)],
    "C17": [fam("forgetx", 0, "--entries", "4", "--calls", "6"), fam("forget", 600)],
    "C19": [fam("order", 400), fam("iter", 300), fam("clone", 200), fam("panic", 100), fam("readers", 300)],
    "C20": [fam("churn", 8), fam("wide", 100), fam("capacity", 100), fam("tomb", 0), fam("slide", 0)],
}

THOROUGH_EXTRA = {
    "C12": [fam("iterx", 0, "--entries", "7", "--calls", "9")],
    "C17": [fam("forgetx", 0, "--entries", "7", "--calls", "9")],
    "C15": [fam("retainx", 0, "--entries", "10")],
    "C16": [fam("panicx", 0, "--rounds", "6")],
}
# Search aid of the thorough tier (never evidence of absence): the same harness families interpreted by
# Miri, which reports undefined behaviour the observable state may hide (reads of freed or moved-out
# memory that happen to find the old bytes, aliasing violations, data races between `&self` readers).
MIRI_PLAN = {
    "C06": [fam("iter", 8), fam("forget", 6), fam("clone", 5), fam("tiny", 10), fam("retain", 5)],
    "C07": [fam("tiny", 12), fam("rand", 5), fam("clone", 4), fam("iter", 5), fam("mutate", 5)],
    "C12": [fam("iter", 16), fam("iterx", 0, "--entries", "2", "--calls", "3")],
    "C14": [fam("clone", 14)],
    "C16": [fam("panic", 24)],
    "C17": [fam("forget", 16), fam("forgetx", 0, "--entries", "2", "--calls", "3")],
    "C19": [fam("readers", 14), fam("order", 6)],
}
MIRI_FLAGS = "-Zmiri-disable-isolation -Zmiri-permissive-provenance -Zmiri-ignore-leaks"

QUICK_MULT = 3
EXHAUSTIVE_FAMILIES = {"iterx", "forgetx", "retainx", "capx", "panicx", "exh", "slide", "tomb", "cluster", "deepreplace", "bigevict"}
SHARDED = {"iterx", "forgetx", "retainx", "panicx", "exh", "slide", "tomb", "cluster", "deepreplace", "bigevict"}


def plan(prop, tier):
    fams = list(BASE) + EMPHASIS.get(prop, [])
    if tier == "thorough":
        out = []
        for (n, s, e) in fams:
            if n == "exh":
                out.append((n, s, ["--depth", "3"]))
            else:
                out.append((n, s * 24, e))
        out += THOROUGH_EXTRA.get(prop, [])
        return out
    # quick tier: three times the listed sequence counts (a whole quick check stays well under a minute)
    return [(n, s * QUICK_MULT, e) for (n, s, e) in fams]


# ----------------------------------------------------------------------------------------------

def run(cmd, cwd=None, timeout=None, env=None):
    e = dict(os.environ)
    e["CARGO_NET_OFFLINE"] = "true"
    if env:
        e.update(env)
    try:
        p = subprocess.run(cmd, cwd=cwd, stdout=subprocess.PIPE, stderr=subprocess.STDOUT, text=True, timeout=timeout, env=e)
    except subprocess.TimeoutExpired as ex:
        out = ex.stdout.decode() if isinstance(ex.stdout, bytes) else (ex.stdout or "")
        return TIMEOUT_RC, out + f"\n[timeout after {timeout}s]"
    return p.returncode, p.stdout


class Ctx:
    def __init__(self, root, prop, tier, seed):
        self.root = root
        self.prop = prop
        self.tier = tier
        self.seed = seed
        self.work = os.path.join(root, "work", f"{prop}-{tier}")
        shutil.rmtree(self.work, ignore_errors=True)
        os.makedirs(self.work, exist_ok=True)
        os.makedirs(os.path.join(root, "replays"), exist_ok=True)
        os.makedirs(os.path.join(root, "evidence"), exist_ok=True)
        # VERIF_HARNESS_BIN: a coverage-instrumented build of the same harness (tools/coverage.py), never set by a registered command
        self.harness = os.environ.get("VERIF_HARNESS_BIN") or os.path.join(root, "harness", "target", "release", "lru-verif-harness")
        self.driver = os.path.join(root, "lean", ".lake", "build", "bin", "lrudriver")
        self.hooks = True
        self.t0 = time.time()
        self.notes = []


# ---------------------------------------------------------------------------- Lean side

def strip_comments(text):
    text = re.sub(r"/-.*?-/", "", text, flags=re.S)
    return re.sub(r"--.*", "", text)


def lean_build_and_audit(ctx):
    """Returns (obligations, discharged, theorem->axioms, problems)."""
    lean = os.path.join(ctx.root, "lean")
    problems = []
    if ctx.prop == "C18":
        rc, out = run([sys.executable, os.path.join(ctx.root, "tools", "decls.py"), "/repo/src",
                       os.path.join(lean, "LruMem", "Generated", "Decls.lean")])
        if rc != 0:
            problems.append("translator decls.py failed:\n" + out)
            return 0, 0, {}, problems
    if ctx.prop in ("C08", "C09"):
        # the size-estimation impls as the source has them now (tools/memdecls.py -> Generated/MemDecls.lean)
        rc, out = run([sys.executable, os.path.join(ctx.root, "tools", "memdecls.py"), "/repo/src",
                       os.path.join(lean, "LruMem", "Generated", "MemDecls.lean")])
        if rc != 0:
            problems.append("translator memdecls.py failed:\n" + out)
            return 0, 0, {}, problems
    target = f"LruMem.Props.{ctx.prop}"
    # a property's theorems may continue in Props/<id>b.lean, Props/<id>c.lean, …
    extra = sorted(f[:-5] for f in os.listdir(os.path.join(lean, "LruMem", "Props"))
                   if re.fullmatch(ctx.prop + r"[a-z]\.lean", f))
    targets = [target] + [f"LruMem.Props.{e}" for e in extra]
    rc, out = run(["lake", "build"] + targets + ["lrudriver"], cwd=lean, timeout=3000)
    if rc != 0:
        problems.append("lake build failed:\n" + out[-6000:])
        return 0, 0, {}, problems
    # forbidden constructs anywhere in the development
    for dirpath, _, files in os.walk(os.path.join(lean, "LruMem")):
        for f in files:
            if f.endswith(".lean"):
                txt = strip_comments(open(os.path.join(dirpath, f)).read())
                for i, l in enumerate(txt.splitlines()):
                    if FORBIDDEN.search(l):
                        problems.append(f"forbidden construct in {f}:{i+1}: {l.strip()}")
    thms = []
    for t in targets:
        props_file = os.path.join(lean, "LruMem", "Props", t.split(".")[-1] + ".lean")
        src = strip_comments(open(props_file).read())
        thms += re.findall(r"^theorem\s+([A-Za-z0-9_.']+)", src, flags=re.M)
    audit = os.path.join(ctx.work, "Audit.lean")
    with open(audit, "w") as f:
        f.write("".join(f"import {t}\n" for t in targets) + "open LruMem\n")
        for t in thms:
            f.write(f"#print axioms {t}\n")
    rc, out = run(["lake", "env", "lean", audit], cwd=lean, timeout=600)
    axioms = {}
    if rc != 0:
        problems.append("axiom audit failed:\n" + out[-3000:])
    cur = None
    for m in re.finditer(r"'([^']+)' (depends on axioms: \[([^\]]*)\]|does not depend on any axioms)", out.replace("\n", " ")):
        name = m.group(1)
        axs = [a.strip() for a in (m.group(3) or "").split(",") if a.strip()]
        axioms[name.split(".")[-1]] = axs
    discharged = 0
    for t in thms:
        key = t.split(".")[-1]
        if key not in axioms:
            problems.append(f"theorem {t}: no axiom report")
            continue
        bad = [a for a in axioms[key] if a not in ALLOWED_AXIOMS]
        if bad:
            problems.append(f"theorem {t} depends on non-standard axioms {bad}")
        else:
            discharged += 1
    if ctx.tier == "thorough":
        for t in targets:
            rc, out = run(["lake", "env", "leanchecker", t], cwd=lean, timeout=3000)
            if rc != 0:
                problems.append("leanchecker rejected " + t + ":\n" + out[-3000:])
            else:
                ctx.notes.append("leanchecker re-checked " + t)
    return len(thms), discharged, axioms, problems


# ---------------------------------------------------------------------------- Rust side

def build_harness(ctx):
    h = os.path.join(ctx.root, "harness")
    lock = os.path.join(h, "Cargo.lock")
    if not os.path.exists(lock):
        shutil.copy("/repo/Cargo.lock", lock)
    rc, out = run(["cargo", "build", "--release", "--offline"], cwd=h, timeout=1800)
    if rc == 0:
        ctx.harness_variant = {}
        if ctx.prop not in ("C08", "C09", "C18"):
            for v in VARIANTS:
                rcv, outv = run(["cargo", "build", "--release", "--offline", "--features", VARIANT_FEATURES[v], "--target-dir", f"target-{v}"], cwd=h, timeout=1800)
                if rcv != 0:
                    return False, out + f"\n---- variant {v} ----\n" + outv
                ctx.harness_variant[v] = os.path.join(h, f"target-{v}", "release", "lru-verif-harness")
        return True, out
    rc2, out2 = run(["cargo", "build", "--release", "--offline", "--no-default-features"], cwd=h, timeout=1800)
    if rc2 == 0:
        ctx.hooks = False
        ctx.notes.append("harness built WITHOUT verif-hooks (the hook no longer compiles against /repo); public observations only")
        return True, out
    return False, out + "\n---- without hooks ----\n" + out2


def run_shard(ctx, idx, family, seqs, extra, shard, nshards, careful=False, tag="", variant=None):
    prefix = os.path.join(ctx.work, f"{family}{tag}{('-' + variant) if variant else ''}_{idx}")
    if getattr(ctx, "abort", False):
        return {"prefix": prefix, "family": family, "rc": 0, "skipped": True, "same": True, "out": "", "cmd": ""}
    binary = ctx.harness_variant[variant] if variant else ctx.harness
    cmd = [binary, "--family", family, "--seed", str(ctx.seed * 7919 + idx), "--seqs", str(seqs), "--out", prefix] + extra
    if family in SHARDED:
        cmd += ["--shard", f"{shard}/{nshards}"]
    if careful:
        cmd += ["--careful"]
    rc, out = run(cmd, timeout=30 if careful else SHARD_TIMEOUT.get(ctx.tier, 90))
    res = {"prefix": prefix, "family": family, "rc": rc, "out": out[-2000:], "cmd": " ".join(cmd), "variant": variant}
    if rc != 0:
        # a hang of the real code: every further shard that runs into it costs the watchdog time again
        if rc == TIMEOUT_RC:
            ctx.abort = True
        return res
    # the driver also reads the observations: after a line on which model and implementation differ
    # (reported for that line) it continues from the implementation's observed state, so that every
    # line is checked as one transition from the state the real code was actually in
    with open(prefix + ".ops") as fi, open(prefix + ".pred", "w") as fo:
        p = subprocess.run([ctx.driver, prefix + ".obs"], stdin=fi, stdout=fo, stderr=subprocess.PIPE, text=True)
    res["driver_rc"] = p.returncode
    res["driver_err"] = p.stderr[-1000:]
    if variant:
        project_pred(prefix + ".pred", variant)
    same = subprocess.run(["cmp", "-s", prefix + ".obs", prefix + ".pred"]).returncode == 0
    res["same"] = same
    return res


def seq_of(ops_lines, line_no):
    """Lines of the sequence containing `line_no`, from its `# seq` header up to line_no."""
    start = line_no
    while start > 0 and not ops_lines[start].startswith("# seq"):
        start -= 1
    return start


def compare(ctx, res):
    """Returns list of disagreements: dict(line, fields, props, ops, obs, pred)."""
    out = []
    ops = open(res["prefix"] + ".ops").read().splitlines()
    obs = open(res["prefix"] + ".obs").read().splitlines()
    pred = open(res["prefix"] + ".pred").read().splitlines()
    n = min(len(obs), len(pred), len(ops))
    if len(obs) != len(pred):
        out.append({"line": n - 1, "fields": ["<length>"], "props": {"*"}, "ops": "", "obs": f"{len(obs)} lines", "pred": f"{len(pred)} lines", "start": 0})
    forget_seq = False
    panic_seq = False
    seen_seq = set()
    # lines since the last full observation of the sequence. The driver continues from the
    # implementation's observed state after every *full* line (so a full line that follows a full line
    # is one transition from a known common state), but light lines (`L`, long sequences) show only
    # len/cur/max/cap: contents and order can drift unseen until the next full line.
    span = []
    lost_light = False
    for i in range(n):
        if ops[i].startswith("# seq"):
            forget_seq = False
            panic_seq = False
            span = []
            lost_light = False
        is_full = ops[i].startswith("F ")
        was_lost = lost_light
        if is_full:
            lost_light = False
        prior = list(span)
        span = [] if is_full else (span + [i] if ops[i].startswith("L ") else span)
        if obs[i] == pred[i]:
            if ops[i].endswith(" f") or " f |" in ops[i]:
                forget_seq = forget_seq or (" it " in ops[i])
            if "!" in ops[i] and " st=panic " in obs[i]:
                panic_seq = True
            continue
        if is_full and was_lost:
            # the first full line after light lines of which one already diverged (and was reported there):
            # the driver re-synchronises here; what this line shows is the echo of that divergence
            continue
        a, b = parse_fields(obs[i]), parse_fields(pred[i])
        fields = [k for k in set(a) | set(b) if a.get(k) != b.get(k)]
        if not ctx.hooks:
            # without hooks buckets are not observable
            fields = [f for f in fields if f != "bk"]
            if not fields:
                continue
        if "!" in ops[i].split(" | ")[0] and a.get("st") != b.get("st") and "ar" not in a and "ar" not in b:
            # an injected panic (`!kind:n` = panic in the n-th callback of that kind) that one side reached and the
            # other did not: how many callbacks of a kind an operation makes is an implementation detail (an extra
            # `Eq` or size estimate), so the two runs are not comparable on this line. The state the real code was
            # left in is judged by the monitors (and the driver continues from it).
            continue
        if b.get("ar") == "ovf" and a.get("ar") != "ovf":
            # the model says an arithmetic step leaves usize — the operation is outside assumption A-sizes (sizes
            # whose sum passes usize::MAX) — and the implementation did not panic: it is more tolerant than it
            # has to be there, which no property forbids
            continue
        if a.get("ar") != b.get("ar"):
            # one side says an arithmetic step of the operation left usize (the real code panicked inside the
            # crate / the model's arithOf has a failing step), the other does not: the accounting arithmetic
            # (C01/C02) and the operation's own contract
            own = {"ins": "C10", "tins": "C10", "mut": "C11"}.get(op_name(ops[i]))
            if op_name(ops[i]) in ("ins", "tins", "mut", "rm", "rme", "rmlru", "rmmru", "setmax", "retain"):
                props = {"C01"} | ({own} if own else set())
            else:
                # an operation that does no arithmetic on sizes panicked inside the crate: its own contract
                props = set(line_props(ops[i], "ret")) or {"C07"}
            start = seq_of(ops, i)
            newp = {q for q in props if (start, q) not in seen_seq}
            for q in newp:
                seen_seq.add((start, q))
            if newp:
                out.append({"line": i, "fields": ["ar"], "props": newp, "ops": ops[i], "obs": obs[i], "pred": pred[i], "start": start})
            continue
        props = set()
        via = {}   # property -> the differing fields that speak about it on this line
        drifted = bool(prior) and bool({"ord", "rord", "rs", "lru", "mru"} & set(fields))
        for f in fields:
            for q in line_props(ops[i], f):
                via.setdefault(q, set()).add(f)
            if drifted and f in ("ord", "rord", "rs", "lru", "mru", "ret", "ev", "h", "hs", "lb"):
                # contents/order differ at the first full line after light lines: the divergence belongs to
                # one of the operations since the last full observation — to the mutating ones, unless all
                # of them only observe
                cand = [j for j in prior + [i] if not line_is_shared(ops[j])] or (prior + [i])
                for j in cand:
                    props |= line_props(ops[j], f if f in ("ord", "rord", "rs", "lru", "mru") else "ord")
            else:
                props |= line_props(ops[i], f)
        # after a forgotten iterator / an injected panic only structural fields speak about C17 / C16
        # (what later operations return is the business of their own properties); the scenario
        # line itself is tagged by line_props
        if "!" in ops[i].split(" | ")[0]:
            if a.get("st") == "panic" or b.get("st") == "panic":
                panic_seq = True
            else:
                # a panic directive that never fired (the operation makes fewer callbacks of that kind): an ordinary
                # line — C16 is concerned only through the structural rule below, if a panic fired earlier
                props.discard("C16")
        structural = {"WALKERR", "st", "lb", "len"}
        if forget_seq and structural & set(fields):
            props.add("C17")
        if panic_seq and structural & set(fields):
            props.add("C16")
        props = {q for q in props if q == "*" or (relevant(q, fields, a, b, ops[i]) and not only_callbacks(q, via.get(q), a, b))}
        # light lines cannot be re-synchronised (they show no contents): after one of them diverged, the
        # totals of the following light lines only repeat that divergence
        if not is_full:
            if lost_light:
                continue
            lost_light = True
        start = seq_of(ops, i)
        # per sequence, the first disagreement that concerns each property (later lines of the same
        # sequence may merely follow from an earlier divergence, but the driver re-synchronises the
        # table shape from the hints, so a property can also be hit first by a later line)
        newp = {q for q in props if (start, q) not in seen_seq}
        if not newp:
            continue
        for q in newp:
            seen_seq.add((start, q))
        out.append({"line": i, "fields": sorted(fields), "props": newp, "ops": ops[i], "obs": obs[i], "pred": pred[i], "start": start})
    return out


MON_RE = re.compile(r"FAIL (\S+) line=(\d+) seq=(\d+) start=(\d+) :: (.*)")


def monitor_failures(res):
    out = []
    try:
        for l in open(res["prefix"] + ".mon"):
            m = MON_RE.match(l)
            if m:
                out.append({"prop": m.group(1), "line": int(m.group(2)), "start": int(m.group(4)), "msg": m.group(5)})
    except FileNotFoundError:
        pass
    return out


def miri_aid(ctx):
    """Runs this property's small families under Miri. Returns (violation or None, notes)."""
    h = os.path.join(ctx.root, "harness")
    env = {"MIRIFLAGS": MIRI_FLAGS}
    base = ["cargo", "+nightly", "miri", "run", "--offline", "--target-dir", "target-miri"] + ([] if ctx.hooks else ["--no-default-features"]) + ["--"]
    p0 = os.path.join(ctx.work, "miri_build")
    rc, out = run(base + ["--family", "tiny", "--seqs", "1", "--seed", "1", "--out", p0], cwd=h, timeout=1500, env=env)
    if rc != 0 and "Undefined Behavior" not in out:
        return None, ["Miri aid skipped: the harness does not build/run under `cargo +nightly miri` here:\n" + out[-600:]]
    jobs = []
    for (family, seqs, extra) in MIRI_PLAN.get(ctx.prop, []):
        if family in SHARDED:
            for sh in range(4):
                jobs.append((family, 0, extra + ["--shard", f"{sh}/4"]))
        else:
            per = max(1, seqs // 4)
            for sh in range(min(4, seqs)):
                jobs.append((family, per, extra))
    def one(a):
        i, (family, seqs, extra) = a
        prefix = os.path.join(ctx.work, f"miri_{family}_{i}")
        cmd = base + ["--family", family, "--seqs", str(seqs), "--seed", str(ctx.seed * 131 + i), "--out", prefix, "--careful"] + extra
        rc, out = run(cmd, cwd=h, timeout=1200, env=env)
        return {"prefix": prefix, "rc": rc, "out": out, "family": family, "cmd": " ".join(cmd)}
    with cf.ThreadPoolExecutor(max_workers=NCPU) as ex:
        results = list(ex.map(one, enumerate(jobs)))
    lines = 0
    for r in results:
        try:
            lines += sum(1 for _ in open(r["prefix"] + ".ops"))
        except FileNotFoundError:
            pass
    notes = [f"Miri aid: {len(jobs)} runs, {lines} operation lines interpreted ({MIRI_FLAGS})"]
    for r in results:
        ub = "Undefined Behavior" in r["out"] or "Data race detected" in r["out"]
        if not ub:
            if r["rc"] == TIMEOUT_RC:
                notes.append(f"Miri run of family {r['family']} stopped after its time budget (not an alarm)")
            elif r["rc"] != 0:
                notes.append(f"Miri run of family {r['family']} ended with status {r['rc']} without an undefined-behaviour report (not an alarm): " + r["out"][-300:])
            continue
        # the sequence that was running: the RUN lines since the last constructor of cache 0
        try:
            mon = [l.split(" ", 2)[2].rstrip("\n") for l in open(r["prefix"] + ".mon") if l.startswith("RUN ")]
        except FileNotFoundError:
            mon = []
        start = max([i for i, l in enumerate(mon) if l.split(" ")[1:2] == ["new"] and l.split(" ")[2:3] == ["0"]] or [0])
        header = "# seq 1 hasher=mix"
        try:
            hs = [l.rstrip("\n") for l in open(r["prefix"] + ".ops") if l.startswith("# seq")]
            if hs:
                header = hs[-1]
        except FileNotFoundError:
            pass
        m = re.search(r"error: (Undefined Behavior|Data race)[^\n]*(\n[^\n]*){0,12}", r["out"])
        path = write_replay(ctx, "miri", header, mon[start:],
                            "Miri reports undefined behaviour while the real code runs this sequence (the last line is the call in progress):\n"
                            + (m.group(0) if m else r["out"][-1500:]),
                            {"how_to_reproduce": "cd /verif/harness && MIRIFLAGS='" + MIRI_FLAGS + "' " + r["cmd"]})
        return (path, notes), notes
    return None, notes


# ---------------------------------------------------------------------------- replay / shrink

def replay_lines(ctx, lines, tag):
    """Runs implementation and model on the given op lines. Returns (crashed, monitor fails, disagreements)."""
    path = os.path.join(ctx.work, f"replay_{tag}.in")
    with open(path, "w") as f:
        f.write("\n".join(lines) + "\n")
    prefix = os.path.join(ctx.work, f"replay_{tag}")
    variant = variant_of(lines)
    binary = getattr(ctx, "harness_variant", {}).get(variant, ctx.harness) if variant else ctx.harness
    rc, out = run([binary, "--family", "replay", "--ops", path, "--out", prefix, "--careful"], timeout=20)
    res = {"prefix": prefix, "rc": rc}
    if rc != 0:
        return True, [], [], out
    with open(prefix + ".ops") as fi, open(prefix + ".pred", "w") as fo:
        subprocess.run([ctx.driver, prefix + ".obs"], stdin=fi, stdout=fo, stderr=subprocess.PIPE)
    if variant in VARIANTS:
        project_pred(prefix + ".pred", variant)
    return False, monitor_failures(res), compare(ctx, res), out


def fails_for(ctx, lines, prop, mode, tag):
    crashed, mons, dis, _ = replay_lines(ctx, lines, tag)
    if mode == "crash":
        return crashed
    if crashed:
        return False
    if mode == "monitor":
        return any(m["prop"] == prop for m in mons)
    return any(prop in d["props"] or "*" in d["props"] for d in dis)


def shrink(ctx, header, lines, prop, mode):
    """ddmin over the operation lines (header line with the hasher is kept)."""
    n = 2
    cur = list(lines)
    budget = 400
    k = 0
    while len(cur) >= 2 and budget > 0:
        chunk = max(1, len(cur) // n)
        removed = False
        i = 0
        while i < len(cur) and budget > 0:
            cand = cur[:i] + cur[i + chunk:]
            budget -= 1
            k += 1
            if cand and fails_for(ctx, [header] + cand, prop, mode, f"s{k % 8}"):
                cur = cand
                removed = True
            else:
                i += chunk
        if not removed:
            if chunk == 1:
                break
            n = min(len(cur), n * 2)
    return cur


def strip_hints(l):
    return l.split(" | ")[0]


def write_replay(ctx, kind, header, lines, detail, extra=None):
    body = {"property": ctx.prop, "kind": kind, "header": header, "ops": lines, "detail": detail,
            "how_to_replay": f"./check {ctx.prop} --replay <this file>"}
    if extra:
        body.update(extra)
    h = hashlib.sha1(json.dumps(body, sort_keys=True).encode()).hexdigest()[:10]
    path = os.path.join(ctx.root, "replays", f"{ctx.prop}-{kind}-{h}.json")
    with open(path, "w") as f:
        json.dump(body, f, indent=1)
    return path


def known_findings(ctx):
    try:
        return json.load(open(os.path.join(ctx.root, "known_findings.json"))).get("findings", [])
    except FileNotFoundError:
        return []


def matches_known(ctx, msg, lines):
    for k in known_findings(ctx):
        if k.get("status") != "open" or k.get("property") != ctx.prop:
            continue
        sig = k.get("signature", {})
        if "message_regex" in sig and not re.search(sig["message_regex"], msg):
            continue
        if "op_regex" in sig and not any(re.search(sig["op_regex"], l) for l in lines):
            continue
        return k
    return None


# ---------------------------------------------------------------------------- main flow

def write_evidence(ctx, cov, violations, assumptions=None):
    ev = {
        "property_id": ctx.prop,
        "tier": ctx.tier,
        "seed": ctx.seed,
        "level": "proof",
        "coverage": cov,
        "assumptions": assumptions or TRUSTED_BASE,
        "wall_s": round(time.time() - ctx.t0, 2),
        "violations": violations,
    }
    with open(os.path.join(ctx.root, "evidence", f"{ctx.prop}.json"), "w") as f:
        json.dump(ev, f, indent=1)


def merge_stats(results):
    tot = {"steps": 0, "seqs": 0, "reallocs": 0, "tombstone_states": 0, "max_len": 0, "panics_fired": 0,
           "ops": {}, "rets": {}, "hashers": {}, "evictions_per_op": {}}
    nontrivial = {}
    samples = {}
    for r in results:
        try:
            s = json.load(open(r["prefix"] + ".stats"))
        except Exception:
            continue
        for k in ("steps", "seqs", "reallocs", "tombstone_states", "panics_fired"):
            tot[k] += s.get(k, 0)
        tot["max_len"] = max(tot["max_len"], s.get("max_len", 0))
        for k in ("ops", "rets", "hashers", "evictions_per_op"):
            for a, b in s.get(k, {}).items():
                tot[k][a] = tot[k].get(a, 0) + b
        for p, hs in s.get("nontrivial", {}).items():
            nontrivial.setdefault(p, set()).update(hs)
        for p, ss in s.get("samples", {}).items():
            samples.setdefault(p, [])
            if len(samples[p]) < 3:
                samples[p] += ss[:1]
    return tot, nontrivial, samples


NONTRIVIAL_RULE = {
    "C01": "sequence contains an insert/mutate/set_max_size that evicted at least one entry or an insertion rejected for size",
    "C02": "sequence contains a step that changed current_size",
    "C03": "sequence contains an eviction or a replacing insert",
    "C04": "sequence contains a lookup hit or a replacing insert",
    "C05": "sequence contains a step after which a different entry is most-recently-used with the same length",
    "C06": "sequence contains a drop by the cache or an owned value handed back",
    "C07": "sequence contains a table rebuild or a removal",
    "C10": "sequence contains a rejected insert/try_insert",
    "C11": "sequence contains a mutate on a present key",
    "C12": "sequence contains an iterator scenario with at least one call",
    "C13": "sequence contains a capacity operation or an automatic growth",
    "C14": "sequence contains a clone",
    "C15": "sequence contains a retain on a non-empty cache",
    "C16": "sequence contains an injected panic that fired",
    "C17": "sequence contains an iterator that was forgotten",
    "C19": "sequence contains an operation through &LruCache",
    "C20": "sequence contains a step that hashed at least one key",
}


def replay_mode(ctx, path):
    body = json.load(open(path))
    lines = [body["header"]] + body["ops"] if body.get("header") else body["ops"]
    crashed, mons, dis, out = replay_lines(ctx, lines, "user")
    bad = crashed or any(m["prop"] == ctx.prop for m in mons) or any(ctx.prop in d["props"] or "*" in d["props"] for d in dis)
    if crashed:
        print("replay: the harness crashed:\n" + out[-1500:])
    for m in mons:
        if m["prop"] == ctx.prop:
            print(f"replay: monitor {m['prop']} at line {m['line']}: {m['msg']}")
    for d in dis:
        if ctx.prop in d["props"] or "*" in d["props"]:
            print(f"replay: model/implementation disagree at line {d['line']} in {d['fields']}\n  op   {d['ops']}\n  impl {d['obs']}\n  model {d['pred']}")
    if bad:
        print(f"VIOLATION property={ctx.prop} replay={path}")
        return 1
    print("replay: property holds on this input")
    return 0


def main(root, argv):
    if not argv:
        print(__doc__)
        return 2
    prop = argv[0]
    tier = os.environ.get("VERIF_TIER", "quick")
    replay = None
    i = 1
    while i < len(argv):
        if argv[i] == "--tier":
            tier = argv[i + 1]
            i += 2
        elif argv[i] == "--replay":
            replay = argv[i + 1]
            i += 2
        else:
            i += 1
    if os.environ.get("VERIF_TIER"):
        tier = os.environ["VERIF_TIER"]
    seed = int(os.environ.get("VERIF_SEED", "1"))
    ctx = Ctx(root, prop, tier, seed)
    special = {"C08": "memsize", "C09": "memsize", "C18": "decls"}
    if prop in special:
        import special_checks
        return special_checks.run(ctx, replay)

    # 1. Lean
    obligations, discharged, axioms, problems = lean_build_and_audit(ctx)
    # 2. harness
    ok, out = build_harness(ctx)
    if not ok:
        path = write_replay(ctx, "build", "", [], "the correspondence harness no longer builds against /repo:\n" + out[-4000:])
        write_evidence(ctx, {"obligations": max(obligations, 1), "discharged": discharged, "checker_cmd": "lake build", "trusted_base": TRUSTED_BASE,
                             "explanation": "harness build failed"}, 1)
        print(f"VIOLATION property={prop} replay={path} no-failing-input-found")
        return 1
    if replay:
        return replay_mode(ctx, replay)

    # 3. run
    jobs = []
    idx = 0
    corpus_dir = os.path.join(root, "corpus")
    corpus = sorted(f for f in os.listdir(corpus_dir) if f.endswith(".ops")) if os.path.isdir(corpus_dir) else []
    for (family, seqs, extra) in plan(prop, tier):
        if family in SHARDED:
            nsh = NCPU
            for s in range(nsh):
                jobs.append((idx, family, seqs, extra, s, nsh))
                idx += 1
        elif family in EXHAUSTIVE_FAMILIES:
            jobs.append((idx, family, seqs, extra, 0, 1))
            idx += 1
        else:
            nsh = min(NCPU, max(1, seqs // 20))
            per = max(1, seqs // nsh)
            for s in range(nsh):
                jobs.append((idx, family, per, extra, s, nsh))
                idx += 1
    results = []
    with cf.ThreadPoolExecutor(max_workers=NCPU) as ex:
        futs = [ex.submit(run_shard, ctx, *j) for j in jobs]
        for c in corpus:
            futs.append(ex.submit(run_shard, ctx, 9000 + len(futs), "replay", 0, ["--ops", os.path.join(corpus_dir, c)], 0, 1))
        vidx = 7000
        mult = 12 if tier == "thorough" else 1
        for v in sorted(getattr(ctx, "harness_variant", {})):
            for (family, seqs, extra) in VARIANT_DEFAULT + VARIANT_PLAN.get(prop, []):
                nsh = 4 if family in SHARDED else (1 if family in EXHAUSTIVE_FAMILIES else min(4, max(1, seqs // 20)))
                per = max(1, seqs * mult // nsh) if seqs else 0
                for sh in range(nsh):
                    futs.append(ex.submit(run_shard, ctx, vidx, family, per, extra, sh, nsh, False, "", v))
                    vidx += 1
        for f in futs:
            results.append(f.result())

    violations = []   # (kind, replay path, suffix)
    known = []
    # crashes / hangs
    crash_mon = []
    hang_violation = None
    cut_short = 0
    for r in results:
        if r["rc"] != 0:
            # re-run carefully (every line flushed before it is executed) to find the line
            ctx.abort = False
            cmd = r["cmd"].split(" ") + ["--careful"]
            run(cmd, timeout=30)
            hang = r["rc"] == TIMEOUT_RC
            # did a monitor of this property already fail before the crash? then that is the better replay
            for m in monitor_failures(r):
                if m["prop"] == prop:
                    crash_mon.append((r, m))
            if crash_mon:
                break
            try:
                ops = open(r["prefix"] + ".ops").read().splitlines()
                mon = open(r["prefix"] + ".mon").read().splitlines()
            except FileNotFoundError:
                ops, mon = [], []
            last = [l for l in mon if l.startswith("RUN ")]
            start = seq_of(ops, len(ops) - 1) if ops else 0
            lines = [strip_hints(l) for l in ops[start:]]
            if last and (not lines or lines[-1] != last[-1].split(" ", 2)[2]):
                lines.append(last[-1].split(" ", 2)[2])
            header = lines[0] if lines and lines[0].startswith("# seq") else "# seq 1 hasher=mix"
            body = [l for l in lines if not l.startswith("#")]
            # whose business is it? An operation that does not return is C01's (every operation returns; the
            # eviction loop terminates), a process that dies is a memory-safety matter (C07, C06) — and in
            # both cases the contract of the operation that was running. For every other property the shard
            # is cut short (noted in the evidence), which is not a violation of *that* property.
            running = body[-1] if body else ""
            owners = ({"C01"} if hang else {"C07", "C06"}) | line_props(running, "ret") | line_props(running, "st")
            what = ("an operation of the real code did not return within the watchdog time (the last line of the sequence is the call that hangs)"
                    if hang else "the harness process died (signal/abort) while running this sequence against the real code")
            if prop in owners:
                hang_violation = ("hang" if hang else "crash", header, body, what + ":\n" + r["out"][-1500:])
                break
            ctx.notes.append(f"shard {r['cmd'].split('--family ')[1].split(' ')[0]} was cut short: {what.split(' (')[0]} in `{running}` "
                             f"(rc {r['rc']}); that is reported by the checks of {sorted(owners)}, not by this one")
            cut_short += 1
    good = [r for r in results if r["rc"] == 0]
    # monitors
    good = [r for r in good if not r.get("skipped")]
    mon_hits = list(crash_mon)
    for r in good:
        for m in monitor_failures(r):
            if m["prop"] == prop:
                mon_hits.append((r, m))
    dis_hits = []
    for r in good:
        if not r.get("same", True):
            for d in compare(ctx, r):
                if prop in d["props"] or "*" in d["props"]:
                    dis_hits.append((r, d))
    disagreements_checked = sum(1 for r in good if not r.get("same", True))
    # a hang / crash of the real code is the replay only when no monitor of this property has a failing
    # input from the shards that did finish (a monitor failure says *what* is violated)
    if hang_violation and not mon_hits:
        kind, header, body, what = hang_violation
        violations.append((kind, write_replay(ctx, kind, header, body, what), ""))
    elif hang_violation:
        ctx.notes.append(f"a shard also ended in a {hang_violation[0]} of the real code; the monitor failure is reported instead")

    def seq_lines(r, start, line):
        ops = open(r["prefix"] + ".ops").read().splitlines()
        header = ops[start] if ops[start].startswith("# seq") else "# seq 1 hasher=mix"
        body = [strip_hints(l) for l in ops[start + 1: line + 1] if not l.startswith("#")]
        return header, body

    # A disagreement on a *light* line (only len / current_size / the return value are observed, the driver
    # cannot re-synchronise) may be the late echo of a divergence that no light field showed: the sequence is run
    # again with every line fully observed, and the disagreement stands for this property only if the full run —
    # where every line is judged from the implementation's own previous state — still has one that concerns it.
    refined = []
    budget = 40
    dropped_light = 0
    for (r, d) in dis_hits:
        if not d["ops"].startswith("L ") or budget <= 0 or "*" in d["props"]:
            refined.append((r, d))
            continue
        budget -= 1
        header, body = seq_lines(r, d["start"], d["line"])
        full = [("F" + l[1:]) if l.startswith("L ") else l for l in body]
        tag = f"lf{40 - budget}"
        crashed, _, dis2, _ = replay_lines(ctx, [header] + full, tag)
        if crashed:
            refined.append((r, d))
            continue
        hit2 = [x for x in dis2 if prop in x["props"] or "*" in x["props"]]
        if hit2:
            refined.append(({"prefix": os.path.join(ctx.work, f"replay_{tag}")}, hit2[0]))
        else:
            dropped_light += 1
    if dropped_light:
        ctx.notes.append(f"{dropped_light} disagreement(s) on lightly observed lines did not concern {prop} when the sequence was re-run fully observed")
    dis_hits = refined

    if mon_hits and not violations:
        r, m = mon_hits[0]
        header, body = seq_lines(r, m["start"], m["line"])
        small = shrink(ctx, header, body, prop, "monitor") if fails_for(ctx, [header] + body, prop, "monitor", "m0") else body
        _, mons, _, _ = replay_lines(ctx, [header] + small, "final")
        msg = next((x["msg"] for x in mons if x["prop"] == prop), m["msg"])
        k = matches_known(ctx, msg, small)
        if k:
            known.append(f"KNOWN-FINDING: property={prop} {k.get('id','')} {k.get('what','')}")
        else:
            path = write_replay(ctx, "monitor", header, small, msg,
                                {"note": "implementation-side monitor: the real code violates the property on this input"})
            violations.append(("monitor", path, ""))
    if dis_hits and not violations:
        r, d = dis_hits[0]
        header, body = seq_lines(r, d["start"], d["line"])
        # enlarged search around the diverging sequence: all its prefixes are replayed with monitors on,
        # then the thorough families of this property
        found = None
        crashed, mons, _, _ = replay_lines(ctx, [header] + body, "d0")
        hit = [x for x in mons if x["prop"] == prop]
        if hit:
            found = (header, body, hit[0]["msg"])
        if not found and tier == "quick":
            extra_jobs = []
            j = 0
            for (family, seqs, extra) in plan(prop, "thorough"):
                if family in EXHAUSTIVE_FAMILIES:
                    continue
                for s in range(4):
                    extra_jobs.append((5000 + j, family, max(1, seqs // 4), extra, s, 4))
                    j += 1
            with cf.ThreadPoolExecutor(max_workers=NCPU) as ex:
                for rr in ex.map(lambda a: run_shard(ctx, *a, tag="x"), extra_jobs):
                    if rr["rc"] == 0:
                        for m in monitor_failures(rr):
                            if m["prop"] == prop and not found:
                                h2, b2 = seq_lines(rr, m["start"], m["line"])
                                found = (h2, b2, m["msg"])
        if found:
            header2, body2, msg = found
            small = shrink(ctx, header2, body2, prop, "monitor")
            path = write_replay(ctx, "monitor", header2, small, msg,
                                {"note": "found by the search started after the model/implementation correspondence broke"})
            violations.append(("monitor", path, ""))
        else:
            small = shrink(ctx, header, body, prop, "disagree")
            _, _, dis2, _ = replay_lines(ctx, [header] + small, "final")
            dd = next((x for x in dis2 if prop in x["props"] or "*" in x["props"]), d)
            path = write_replay(ctx, "correspondence", header, small,
                                f"the Lean model and the implementation disagree in field(s) {dd['fields']} of `{dd['ops']}`; "
                                f"the theorems of LruMem/Props/{prop}.lean are about the model and no longer about this code. "
                                "No input on which the implementation itself violates the property was found by the monitors.",
                                {"broken": f"correspondence fields {dd['fields']} (theorems LruMem.Props.{prop})",
                                 "implementation": dd["obs"], "model": dd["pred"]})
            violations.append(("correspondence", path, " no-failing-input-found"))
    if problems and not violations:
        path = write_replay(ctx, "proof", "", [], "proof obligations no longer check:\n" + "\n".join(problems))
        violations.append(("proof", path, " no-failing-input-found"))
    if tier == "thorough" and prop in MIRI_PLAN and not violations and os.environ.get("VERIF_NO_MIRI") != "1":
        hit, mnotes = miri_aid(ctx)
        ctx.notes += mnotes
        if hit:
            violations.append(("miri", hit[0], ""))

    tot, nontrivial, samples = merge_stats(good)
    thm_samples = [f"{t}: axioms {a if a else '[]'}" for t, a in list(axioms.items())[:40]]
    cov = {
        "obligations": max(obligations, 1),
        "discharged": discharged,
        "checker_cmd": f"cd /verif/lean && lake build LruMem.Props.{prop} && lake env lean <audit file with #print axioms>" + (" && lake env leanchecker LruMem.Props." + prop if tier == "thorough" else ""),
        "trusted_base": TRUSTED_BASE,
        "evaluations": tot["seqs"],
        "distinct_nontrivial": len(nontrivial.get(prop, set())),
        "rule": "operation sequences from the generators of DESIGN.md §4.3 (random boundary-directed, exhaustive small scope, churn, corpus); distinct = by hash of the operation text; non-trivial for this property = " + NONTRIVIAL_RULE.get(prop, "n/a"),
        "samples": (samples.get(prop, [])[:3] or ["(none)"]) + thm_samples[:6],
        "traces_validated_against_impl": tot["seqs"],
        "steps_compared": tot["steps"],
        "disagreements_checked": disagreements_checked,
        "theorems": thm_samples,
        "input_distribution": {k: tot[k] for k in ("ops", "rets", "hashers", "evictions_per_op", "reallocs", "tombstone_states", "max_len", "panics_fired")},
        "hooks": ctx.hooks,
        "shards_cut_short_by_hang_or_crash": cut_short,
        "notes": ctx.notes,
        "exhaustive": False,
    }
    write_evidence(ctx, cov, len(violations))
    for k in known:
        print(k)
    print(f"[{prop}] {tier}: {obligations} theorems ({discharged} audited), {tot['seqs']} sequences / {tot['steps']} steps compared, "
          f"{len(nontrivial.get(prop, set()))} distinct non-trivial, {time.time()-ctx.t0:.1f}s")
    for kind, path, suffix in violations:
        print(f"VIOLATION property={prop} replay={path}{suffix}")
    return 1 if violations else 0
