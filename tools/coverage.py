#!/usr/bin/env python3
"""Which source regions of /repo/src do the correspondence runs of the quick tier execute?

A diagnostic, not a check: builds the harness with `-C instrument-coverage` (nightly, whose llvm-tools are
installed) into a scratch target directory outside /verif, runs every quick check with that binary
(VERIF_HARNESS_BIN), merges the profiles and prints per-file line coverage of /repo/src plus every
non-test, non-comment line that no run reached. A change on an unreached line can only be detected by the
source translators or the proofs, never by the differential runs — so each such line is either excused in
DESIGN.md or a reason to extend the generators.

usage: tools/coverage.py [--keep]      (scratch: /tmp/verif-cov, removed at the end unless --keep)
"""
import os, sys, subprocess, json, glob, shutil

ROOT = "/verif"
SCR = "/tmp/verif-cov"
TOOLS = os.path.expanduser("~/.rustup/toolchains/nightly-x86_64-unknown-linux-gnu/lib/rustlib/x86_64-unknown-linux-gnu/bin")


def sh(cmd, cwd=None, env=None, timeout=7200):
    e = dict(os.environ, CARGO_NET_OFFLINE="true")
    e.update(env or {})
    p = subprocess.run(cmd, cwd=cwd, shell=True, stdout=subprocess.PIPE, stderr=subprocess.STDOUT, text=True, timeout=timeout, env=e)
    return p.returncode, p.stdout


def main():
    shutil.rmtree(SCR, ignore_errors=True)
    os.makedirs(SCR + "/prof")
    rc, o = sh(f"cargo +nightly build --release --offline --target-dir {SCR}/target", cwd=ROOT + "/harness", env={"RUSTFLAGS": "-C instrument-coverage"})
    if rc != 0:
        print(o[-3000:])
        return 2
    binary = f"{SCR}/target/release/lru-verif-harness"
    claimed = sorted(json.load(open(ROOT + "/tools/claimed.json")).keys())
    for c in claimed:
        rc, o = sh(f"./check {c} --tier quick", cwd=ROOT, env={"VERIF_HARNESS_BIN": binary, "LLVM_PROFILE_FILE": f"{SCR}/prof/{c}-%p-%8m.profraw"})
        print(c, "rc", rc, o.strip().splitlines()[-1][:160] if o.strip() else "", flush=True)
    rc, o = sh(f"{TOOLS}/llvm-profdata merge -sparse {SCR}/prof/*.profraw -o {SCR}/all.profdata")
    if rc != 0:
        print(o[-2000:])
        return 2
    rc, o = sh(f"{TOOLS}/llvm-cov report {binary} -instr-profile={SCR}/all.profdata --sources /repo/src 2>&1 | cut -c1-200")
    print(o)
    rc, o = sh(f"{TOOLS}/llvm-cov export {binary} -instr-profile={SCR}/all.profdata --sources /repo/src -format=lcov")
    unreached = {}
    cur = None
    for l in o.splitlines():
        if l.startswith("SF:"):
            cur = l[3:]
        elif l.startswith("DA:") and cur:
            n, cnt = l[3:].split(",")[:2]
            if int(cnt) == 0:
                unreached.setdefault(cur, []).append(int(n))
    out = []
    for f, lines in sorted(unreached.items()):
        src = open(f).read().splitlines()
        test_from = next((i + 1 for i, s in enumerate(src) if s.strip().startswith("#[cfg(test)]")), len(src) + 1)
        for n in lines:
            if n >= test_from or f.endswith("verif_hooks.rs"):
                continue
            t = src[n - 1].strip()
            if not t or t.startswith("//") or t in ("}", "{", "else {", "}," , "};"):
                continue
            out.append(f"{os.path.relpath(f, '/repo')}:{n}: {t}")
    print(f"unreached non-test lines: {len(out)}")
    print("\n".join(out))
    open(ROOT + "/work/coverage_unreached.txt", "w").write("\n".join(out) + "\n")
    if "--keep" not in sys.argv:
        shutil.rmtree(SCR, ignore_errors=True)
    return 0


if __name__ == "__main__":
    sys.exit(main())
